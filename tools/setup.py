#!/usr/bin/env python3
"""MANIFEST.setup_cmd: offline build of every harness driver (warms the Go build cache) + a TLC smoke test."""
import os, shutil, sys
sys.path.insert(0, os.path.dirname(os.path.abspath(__file__)))
import vlib


REQUIRED = {"lease", "core", "v3restore", "bigdb", "restoreplan", "tsrestore", "walreader", "restorefault", "scen", "killsup", "vfsdrv", "followdrv", "envtrace"}     # drivers of registered checks; others are work in progress and only warned about


def main():
    cmds = sorted(d for d in os.listdir(os.path.join(vlib.HARNESS, "cmd")) if os.path.isdir(os.path.join(vlib.HARNESS, "cmd", d)))
    for c in cmds:
        tags = "verif"
        tf = os.path.join(vlib.HARNESS, "cmd", c, "TAGS")
        if os.path.exists(tf):
            tags = open(tf).read().strip()
        try:
            _, dt = vlib.go_build("./cmd/" + c, c, tags=tags)
            print("built %s (%s) in %.1fs" % (c, tags, dt))
        except vlib.MachineryError as e:
            if c in REQUIRED:
                raise
            print("WARNING: %s does not build (not used by a registered check): %s" % (c, str(e)[:300]))
    wd = vlib.scratch("setup-")
    try:
        r = vlib.run_tlc("Lease", "Dump_Lease2.cfg", wd, workers=2)
        vlib.tlc_expect_ok(r, "tlc smoke")
        print("tlc ok: %d distinct states" % r.distinct)
    finally:
        shutil.rmtree(wd, ignore_errors=True)
    return 0


if __name__ == "__main__":
    vlib.main_wrapper(main)

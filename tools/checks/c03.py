#!/usr/bin/env python3
"""C03 - killing litestream at any instant loses nothing acknowledged and needs no repair; no half-written file is
ever visible under a final name.

R1  TLC exhaustive: FsProtocol.tla with Kill/Restart enabled between any two system calls of the publish protocols
    (MC_FsProtocol_kill*.cfg): NoPartialFinalName, AckedRestorable.
R2  kill points = every file-system-mutating system call of the real process in the scenarios of the catalogue
    (S1 S3 S4 S5 S6 S7 S9; quick: S1 S3 S5 S7 S9, every 7th call + all within +-3 of a rename/unlink or of a call that creates/writes a file directly under a final name): a reference run
    under the ptrace supervisor (harness/cmd/killsup) counts them; for each i the child (harness/cmd/scen) is run
    again and the whole process tree is killed immediately BEFORE call i.
R3  a fresh process inspects the directories (every final-named *.ltx decodes, restore output / sidecar complete,
    Restore(latest) against the ledger), then litestream is started again as a new process (write, SyncAndWait,
    restore). KillObs.tla judges the recorded values. Binding: the kill run's system-call prefix is compared with
    the reference sequence (a mismatch is a divergence, reported, not a verdict).
"""
import json, os, shutil, subprocess, sys
from concurrent.futures import ThreadPoolExecutor
sys.path.insert(0, os.path.dirname(os.path.dirname(os.path.abspath(__file__))))
import vlib

PROP = "C03"
QUICK = ["S1", "S3", "S5", "S7", "S9"]
ALL = ["S1", "S3", "S4", "S5", "S6", "S7", "S9"]


def parse_seq(path):
    """killsup log -> (calls, marks): calls = [{idx,name,paths,failed,op}], op = innermost open MARK label."""
    calls, op, setup_done = [], "setup", False
    for line in open(path):
        line = line.rstrip("\n")
        if line.startswith("# "):
            w = line[2:].split()
            if len(w) >= 4 and w[0] == "MARK":
                if w[2] == "setup" and w[3] == "ok":
                    setup_done = True
                    op = "app"
                elif w[3] == "begin":
                    op = w[2]
                else:
                    op = "app"
            continue
        w = line.split()
        failed = w[-1].startswith("!")
        if failed:
            w = w[:-1]
        calls.append({"idx": int(w[0]), "name": w[1], "paths": w[2:], "failed": failed, "op": op if setup_done else "setup"})
    return calls


def parse_marks(path):
    ledger, ack = [], 0
    if os.path.exists(path):
        for line in open(path, errors="replace"):
            w = line.split()
            if len(w) >= 3 and w[0] == "FP" and w[1].isdigit():
                k = int(w[1])
                if k == len(ledger) + 1:
                    ledger.append(w[2])
            elif len(w) >= 4 and w[0] == "ACK" and w[1].isdigit():
                ack = int(w[1])
    return ledger, min(ack, len(ledger))


def run_json(cmd, timeout):
    p = subprocess.run(cmd, stdout=subprocess.PIPE, stderr=subprocess.PIPE, text=True, timeout=timeout)
    outs = []
    for line in p.stdout.splitlines():
        line = line.strip()
        if line.startswith("{"):
            try:
                outs.append(json.loads(line))
            except ValueError:
                pass
    return p, outs


def reference(bins, wd, scen, seed):
    d = os.path.join(wd, "ref-%s" % scen)
    os.makedirs(d)
    log = os.path.join(d, "seq.log")
    p, outs = run_json([bins["killsup"], "-n", "0", "-root", os.path.join(d, "fs"), "-marks", os.path.join(d, "marks"),
                        "-log", log, "--", bins["scen"], "-scenario", scen, "-work", d, "-seed", str(seed)], 120)
    if not outs or outs[-1].get("exit") != 0:
        raise vlib.MachineryError("reference run of %s failed: %s %s" % (scen, p.stdout[-500:], p.stderr[-1500:]))
    calls = parse_seq(log)
    marks = open(os.path.join(d, "marks")).read()
    if "MARK 0 end ok" not in marks:
        raise vlib.MachineryError("reference run of %s did not finish:\n%s" % (scen, marks[-800:]))
    bad_ops = [l for l in marks.splitlines() if l.startswith("MARK") and l.endswith(" err")]
    ref_lines = [l for l in open(log) if not l.startswith("#")]
    shutil.rmtree(d, ignore_errors=True)
    return calls, ref_lines, bad_ops


def strip_fail(l):
    w = l.split()
    if w and w[-1].startswith("!"):
        w = w[:-1]
    return " ".join(w)


def kill_point(bins, wd, t, scen, seed, i, ref_lines, keep=False):
    d = os.path.join(wd, "k-%s-%d" % (scen, i))
    os.makedirs(d)
    try:
        log = os.path.join(d, "seq.log")
        p, outs = run_json([bins["killsup"], "-n", str(i), "-root", os.path.join(d, "fs"), "-marks", os.path.join(d, "marks"),
                            "-log", log, "--", bins["scen"], "-scenario", scen, "-work", d, "-seed", str(seed)], 120)
        if not outs:
            raise vlib.MachineryError("killsup died (%s #%d): %s" % (scen, i, p.stderr[-1500:]))
        info = {"killed": bool(outs[-1].get("killed")), "mismatch": False, "sys": ""}
        got = [l for l in open(log) if not l.startswith("#")] if os.path.exists(log) else []
        for a, b in zip(got, ref_lines):
            if strip_fail(a) != strip_fail(b):
                info["mismatch"] = "%s #%d: got '%s' where the reference has '%s'" % (scen, i, strip_fail(a)[:120], strip_fail(b)[:120])
                break
        for l in open(log):
            if l.startswith("# KILLED before"):
                info["sys"] = " ".join(l.split()[3:6])[:160]
        if not info["killed"]:
            return None, info
        cmd = [bins["scen"], "-inspect", "-resume", "-work", d, "-seed", str(seed)]
        if scen == "S7":
            cmd.insert(2, "-redo-restore")
        ledger, ack = parse_marks(os.path.join(d, "marks"))
        p2, outs2 = run_json(cmd, 120)
        ins = next((o for o in outs2 if o.get("mode") == "inspect"), None)
        res = next((o for o in outs2 if o.get("mode") == "resume"), None)
        if ins is None:
            raise vlib.MachineryError("inspect died (%s #%d): %s" % (scen, i, p2.stderr[-1500:]))
        crashed = res is None     # the restarted litestream process died (panic): that is an observation, not machinery
        if crashed:
            res = {"open": "crash:" + p2.stderr[-300:].replace("\n", " "), "write": "none", "sync": "none", "ack": False,
                   "restOK": False, "restErr": "none", "restFp": "", "restInteg": "none", "srcFp": "", "close": "none"}
        rec = {"t": t, "i": i, "scen": scen, "seed": seed, "sys": info["sys"], "ledger": ledger, "ack": ack,
               "nFinal": ins["nFinal"], "nTmp": ins["nTmp"], "nBad": len(ins["bad"]), "bad": json.dumps(ins["bad"])[:600],
               "outExists": ins["outExists"], "outInteg": ins["outInteg"], "outFp": ins["outFp"],
               "sideExists": ins["sideExists"], "sideOK": ins["sideOK"],
               "restOK": ins["restOK"], "restErr": ins["restErr"], "restInteg": ins["restInteg"], "restFp": ins["restFp"],
               "srcFp": ins["srcFp"], "srcInteg": ins["srcInteg"], "reRestore": ins["reRestore"],
               "resOpen": res["open"], "resWrite": res["write"], "resSync": res["sync"], "resAck": res["ack"],
               "resRestOK": res["restOK"], "resRestErr": res["restErr"], "resRestInteg": res["restInteg"],
               "resRestFp": res["restFp"], "resSrcFp": res["srcFp"]}
        return rec, info
    finally:
        if not keep:
            shutil.rmtree(d, ignore_errors=True)


def choose(calls, tier, seed):
    cand = [c for c in calls if c["op"] != "setup" and not c["failed"]]
    if tier == "thorough":
        return [c["idx"] for c in cand]
    def final_name(path):   # a file under a name that readers trust: *.ltx, *-txid, the restore output - not *.tmp
        b = os.path.basename(path)
        return (b.endswith(".ltx") or b.endswith("-txid") or b.endswith("restored.db") or b.endswith("out.db")) and not b.endswith(".tmp")
    # kills around every rename/unlink, and around every call that creates or writes a file directly under a final name
    hot = [c["idx"] for c in cand if c["name"].startswith("rename") or c["name"].startswith("unlink")
           or (c["name"] not in ("fsync", "fdatasync", "utimensat") and any(final_name(x) for x in c["paths"]))]
    sel = set()
    for k, c in enumerate(cand):
        if (k + seed) % 7 == 0 or any(abs(c["idx"] - h) <= 3 for h in hot):
            sel.add(c["idx"])
    return sorted(sel)


def main():
    tier = "quick"
    args = sys.argv[1:]
    replay_path = None
    while args:
        a = args.pop(0)
        if a == "--tier":
            tier = args.pop(0)
        elif a == "--replay":
            replay_path = args.pop(0)
    tier = os.environ.get("VERIF_TIER", tier)
    seed = vlib.seed()
    rep = vlib.Report(PROP, tier)
    rep.assumptions = [
        "a kill is SIGKILL of the whole process (SQLite application + litestream in one process) at a system-call boundary; "
        "the file system keeps everything written so far (no power failure: that is C11)",
        "kill points are the file-system-mutating calls on paths below the scenario directory, counted globally over all threads "
        "by a ptrace supervisor; calls that fail in the reference run (e.g. unlink of an already renamed .tmp) change nothing and are skipped",
        "restores are compared through a fingerprint of everything the application can read (schema + rows, litestream's own tables excluded) "
        "with the ledger the child wrote at every commit/acknowledgement, never with the live source alone",
        "synchronous driver (no monitors): the system-call sequence is deterministic; kill runs whose prefix differs from the reference are counted as divergences",
        "FsProtocol.tla: exhaustive for the stated constants only (MaxTx, Size, MaxCrash)",
    ]
    wd = vlib.scratch("c03-")
    try:
        bins = {"scen": vlib.go_build("./cmd/scen", "scen")[0], "killsup": vlib.go_build("./cmd/killsup", "killsup")[0]}
        # ---- R1 design level
        cfgs = ["MC_FsProtocol_kill.cfg"] + (["MC_FsProtocol_kill2.cfg", "MC_FsProtocol_kill3.cfg"] if tier == "thorough" else [])
        for cfg in ([] if replay_path else cfgs):
            r = vlib.run_tlc("FsProtocol", cfg, wd, workers=vlib.NCPU, timeout=1500)
            vlib.tlc_expect_ok(r, cfg)
            rep.add_tlc(cfg, r, "Kill + Restart anywhere, no power failure")
            if r.violated:
                rep.notes.append("design-level counterexample in FsProtocol.tla (%s): %s (a verdict only if reproduced on the real code)" % (cfg, r.violated))
        rep.cov["exhaustive"] = not replay_path
        # ---- R2 kill points
        jobs, refs = [], {}
        if replay_path:
            case = json.load(open(replay_path))["case"]
            scens = [case["scen"]]
            seed = case["seed"]
        else:
            scens = QUICK if tier == "quick" else ALL
        for t, scen in enumerate(scens):
            calls, ref_lines, bad_ops = reference(bins, wd, scen, seed)
            if bad_ops:
                rep.notes.append("%s: operations that returned an error in the reference run: %s" % (scen, bad_ops[:4]))
            refs[scen] = (calls, ref_lines)
            pts = [case["i"]] if replay_path else choose(calls, tier, seed)
            rep.cov.setdefault("scenarios", {})[scen] = {"fs_mutating_calls": len(calls),
                                                         "after_setup_successful": len([c for c in calls if c["op"] != "setup" and not c["failed"]]),
                                                         "kill_points": len(pts)}
            jobs += [(t, scen, i) for i in pts]
        recs, infos = [], []
        with ThreadPoolExecutor(max_workers=min(16, vlib.NCPU)) as ex:
            futs = [ex.submit(kill_point, bins, wd, t, scen, seed, i, refs[scen][1]) for (t, scen, i) in jobs]
            for (t, scen, i), f in zip(jobs, futs):
                rec, info = f.result()
                infos.append(info)
                if rec is None:
                    rep.notes.append("DIVERGENCE %s #%d: the run ended before call %d (desync)" % (scen, i, i))
                else:
                    recs.append(rec)
        mism = sum(1 for x in infos if x["mismatch"])
        rep.cov["divergences"] = mism + sum(1 for x in infos if not x["killed"])
        if mism:
            rep.notes.append("DIVERGENCE: %d kill runs had a system-call prefix different from the reference sequence, e.g. %s" % (
                mism, next(x["mismatch"] for x in infos if x["mismatch"])))
        if not recs:
            raise vlib.MachineryError("no kill point was executed")
        # ---- R3 judge
        path = os.path.join(wd, "kill_trace.ndjson")
        with open(path, "w") as fh:
            for r_ in recs:
                fh.write(json.dumps(r_) + "\n")
        r = vlib.run_tlc("KillObs", "KillObs.cfg", wd, workers=1, timeout=1200)
        vlib.tlc_expect_ok(r, "KillObs")
        if not r.ok:
            raise vlib.MachineryError("KillObs did not complete:\n%s" % r.out[-2000:])
        if r.distinct != len(recs):
            raise vlib.MachineryError("KillObs consumed %d of %d records" % (r.distinct, len(recs)))
        rep.add_tlc("KillObs", r, "judge over %d kill points" % len(recs))
        bad = {}
        for name, l, t, i in vlib.verdicts(r.out):
            bad.setdefault(l, []).append(name)
        for l, names in sorted(bad.items()):
            rec = recs[l - 1]
            rep.violation("%s violated: %s seed %d, litestream killed before its call #%d (%s): %s" % (
                sorted(names), rec["scen"], rec["seed"], rec["i"], rec["sys"],
                rec["bad"] if rec["nBad"] else {k: rec[k] for k in ("restOK", "restErr", "outExists", "outInteg", "resOpen", "resSync", "resRestErr", "reRestore")}),
                {"scen": rec["scen"], "seed": rec["seed"], "i": rec["i"], "violated": sorted(names), "observed": rec})
        rep.cov["traces_validated_against_impl"] = len(recs)
        rep.cov["evaluations"] = len(recs)
        # non-trivial: the kill interrupted a publish (a .tmp was left behind) or hit a rename/unlink/fsync boundary
        nt = set()
        for rec in recs:
            w = rec["sys"].split()
            if rec["nTmp"] > 0 or (len(w) > 1 and (w[1].startswith("rename") or w[1].startswith("unlink") or w[1] in ("fsync", "utimensat"))):
                nt.add((rec["scen"], rec["i"]))
        rep.cov["distinct_nontrivial"] = len(nt)
        rep.cov["rule"] = ("kill points = file-system-mutating system calls of the real process (after setup, successful in the reference run); "
                           "quick: every 7th + all within +-3 of a rename/unlink, thorough: every one; non-trivial = the kill left a *.tmp behind "
                           "or fell immediately before a rename / unlink / fsync / utimensat")
        rep.cov["acked_before_kill"] = sum(1 for x in recs if x["ack"] > 0)
        for rec in recs[:: max(1, len(recs) // 5)]:
            rep.sample({k: rec[k] for k in ("scen", "i", "sys", "ack", "nFinal", "nTmp", "nBad", "restOK", "resSync", "resRestOK")})
        return rep.finish()
    finally:
        shutil.rmtree(wd, ignore_errors=True)


if __name__ == "__main__":
    vlib.main_wrapper(main)

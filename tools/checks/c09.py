#!/usr/bin/env python3
"""C09 - only frames SQLite itself treats as committed are ever replicated.

R1  TLC exhaustive: WalReader.tla enumerates every abstract WAL (header class x frames [pg, commit, saltOK, chainOK]) up to
    a bound as initial states, sharded over parallel TLC processes (Part), and checks the transcription of wal_reader.go
    (PageMapT, resumed readers, Sync loop with a limit) against the declarative Recovered(w) = what SQLite recovers.
R2  inputs for the real code: a pool of REAL SQLite WAL files (several page sizes, stale previous-generation tail, growth,
    shrinking, spilled uncommitted tail) and seeded byte-level mutants of them (harness/cmd/walreader).
R3  per byte string three independent results go to the judge WalReaderObs.tla: litestream.WALReader, real SQLite
    recovery (open + wal_checkpoint(TRUNCATE) without -shm), and the descriptor of an independent decoder.
    VERDICT: litestream = SQLite, nothing from a frame failing the salt/chain test or following one, no page above the
    committed size, resumed readers compose.  DIVERGENCE (reported only): real output # transcription, SQLite #
    Recovered(descriptor).

Known findings are matched by hazard signature: a verdict named K_<Signature>_<Invariant> is a KNOWN-FINDING iff
known_findings.json lists a finding for C09 with that signature and invariant (C09_KNOWN_EXTRA=<file> adds entries from
another file: test aid only).
"""
import json, os, re, shutil, subprocess, sys, time
from concurrent.futures import ThreadPoolExecutor
sys.path.insert(0, os.path.dirname(os.path.dirname(os.path.abspath(__file__))))
import vlib

PROP = "C09"
os.environ.setdefault("JAVA_TOOL_OPTIONS", "-XX:ParallelGCThreads=1")   # many single-threaded TLC processes side by side

# (config, MaxFrames, NPages, PgMin, BothBad, MaxBad, NParts)
MC = {
    "quick":    [("MC_WalReader4.cfg", 4, 3, 1, False, 2, 16)],
    "thorough": [("MC_WalReader4b.cfg", 4, 3, 1, True, 4, 48),
                 ("MC_WalReader5.cfg", 5, 3, 1, True, 1, 48),
                 ("MC_WalReader6.cfg", 6, 2, 1, False, 2, 48)],
}
NCASES = {"quick": 20000, "thorough": 100000}
_DIV = re.compile(r'<<"DIVERGENCE", "(\w+)", (-?\d+), (-?\d+), (-?\d+)>>')


def comb(n, k):
    r = 1
    for i in range(k):
        r = r * (n - i) // (i + 1)
    return r


def expected_states(maxf, npages, pgmin, bothbad, maxbad):
    """number of abstract WALs Init of WalReader.tla enumerates (cross-check of the sharding)"""
    per = (npages - pgmin + 1) * (npages + 1)
    good, bad = per, per * (3 if bothbad else 2)
    f = good + bad
    total = 4 * (1 + f + f * f) + 1 + f
    for n in range(2, maxf + 1):
        total += sum(comb(n, k) * bad ** k * good ** (n - k) for k in range(0, min(n, maxbad) + 1))
    return total


def tlc_shard(cfgname, part, nparts, wd):
    d = os.path.join(wd, "mc-%s-%d" % (cfgname, part))
    os.makedirs(d, exist_ok=True)
    cfg = open(os.path.join(vlib.SPEC, cfgname)).read().replace("Part = 0", "Part = %d" % part)
    r = vlib.run_tlc("WalReader", "run.cfg", d, workers=1, timeout=3000, heap="2g", files={"run.cfg": cfg})
    shutil.rmtree(d, ignore_errors=True)
    return r


def exhaustive(rep, tier, wd, pool):
    model_violations = []
    # the hazard signatures of the known findings: guarded invariants hold with page number 0 in the alphabet, the
    # unguarded statement fails (witness printed by TLC) - model level only, reported as a note
    def side(cfg):
        d = os.path.join(wd, "mc-" + cfg)
        os.makedirs(d, exist_ok=True)
        r = vlib.run_tlc("WalReader", cfg, d, workers=1, timeout=1200, heap="2g")
        shutil.rmtree(d, ignore_errors=True)
        return r
    f0, f1 = pool.submit(side, "MC_WalReader_pg0.cfg"), pool.submit(side, "MC_WalReader_strict.cfg")
    for cfgname, maxf, npages, pgmin, bothbad, maxbad, nparts in MC[tier]:
        t0 = time.time()
        rs = list(pool.map(lambda p: tlc_shard(cfgname, p, nparts, wd), range(nparts)))
        agg = vlib.TlcResult()
        agg.ok = True
        for r in rs:
            vlib.tlc_expect_ok(r, cfgname)
            agg.generated += r.generated
            agg.distinct += r.distinct
            agg.depth = max(agg.depth, r.depth)
            agg.violated += r.violated
            agg.ok = agg.ok and r.ok
        agg.wall = time.time() - t0
        want = expected_states(maxf, npages, pgmin, bothbad, maxbad)
        rep.add_tlc(cfgname, agg, "MaxFrames=%d NPages=%d PgMin=%d BothBad=%s MaxBad=%d, %d shards; %d abstract WALs expected" % (
            maxf, npages, pgmin, bothbad, maxbad, nparts, want))
        if not agg.violated and agg.distinct != want:
            raise vlib.MachineryError("%s: TLC enumerated %d WALs, expected %d (sharding broken?)" % (cfgname, agg.distinct, want))
        model_violations += ["%s:%s" % (cfgname, v) for v in agg.violated]
    r0, r1 = f0.result(), f1.result()
    vlib.tlc_expect_ok(r0, "MC_WalReader_pg0")
    rep.add_tlc("MC_WalReader_pg0.cfg", r0, "MaxFrames=3 NPages=2 PgMin=0: invariants guarded by ~Hazard")
    model_violations += ["MC_WalReader_pg0.cfg:%s" % v for v in r0.violated]
    vlib.tlc_expect_ok(r1, "MC_WalReader_strict")
    if r1.violated:
        m = re.search(r"violated by the initial state:\n((?:.*\n){1,3})", r1.out)
        rep.notes.append("model level: without the hazard guards (PgnoZero, CommitWithoutPages) the transcription differs from "
                         "Recovered, e.g. %s" % (" ".join(m.group(1).split()) if m else "?"))
    rep.cov["exhaustive"] = True
    if model_violations:
        rep.notes.append("design-level counterexample in WalReader.tla: %s (exit 1 only if reproduced on the real code)" % model_violations)


def judge_shard(path, wd, k):
    d = os.path.join(wd, "judge-%d" % k)
    os.makedirs(d, exist_ok=True)
    shutil.copyfile(path, os.path.join(d, "walreader.ndjson"))
    r = vlib.run_tlc("WalReaderObs", "WalReaderObs.cfg", d, workers=1, timeout=3000, heap="3g")
    shutil.rmtree(d, ignore_errors=True)
    return r


def known_index():
    kf = list(vlib.known_findings(PROP))
    extra = os.environ.get("C09_KNOWN_EXTRA")
    if extra:
        for f in json.load(open(extra)).get("findings", []):
            props = f["property"] if isinstance(f["property"], list) else [f["property"]]
            if PROP in props:
                kf.append(f)
    idx = {}
    for f in kf:
        for inv in f.get("invariants", []):
            idx[(f.get("signature"), inv)] = f
    return idx


def main():
    tier = "quick"
    args = sys.argv[1:]
    replay_path = None
    while args:
        a = args.pop(0)
        if a == "--tier":
            tier = args.pop(0)
        elif a == "--replay":
            replay_path = args.pop(0)
    tier = os.environ.get("VERIF_TIER", tier)
    seed = vlib.seed()
    rep = vlib.Report(PROP, tier)
    rep.assumptions = [
        "oracle = SQLite (modernc.org/sqlite, C API) recovering the byte string as <db>-wal next to the pool's db file without -shm: "
        "sqlite3_open_v2, one SELECT to make the pager open the WAL, sqlite3_wal_checkpoint_v2(TRUNCATE), db file read back",
        "a page that is in neither the shipped page map nor the db file reads as zeros (content id 0), as it does for SQLite",
        "chunk / growth composition is required on SQLite-shaped WALs only (WellFormed: a commit frame is a page of the database "
        "it commits; a database never grows over a page without writing it) - an earlier chunk legitimately drops pages above its own commit size",
        "resumed readers are handed the salts of the WAL header (db.go takes them from the previous LTX file of the same generation); "
        "a WAL rewritten between two syncs is C04, not C09",
        "exhaustive result holds for the stated bounds only; checksum arithmetic is not modelled (chainOK is a bit whose byte meaning "
        "is fixed by the harness decoder and checked against SQLite: ModelMatchesSqlite)",
        "32-bit fields >= 2^30 are projected to 2^30 for TLC",
    ]
    wd = vlib.scratch("c09-")
    pool = ThreadPoolExecutor(max_workers=vlib.NCPU)
    try:
        export = any("VerifPageMap" in open(os.path.join(vlib.REPO, f), errors="replace").read()
                     for f in os.listdir(vlib.REPO) if f.endswith(".go") and not f.endswith("_test.go"))
        fb = pool.submit(vlib.go_build, "./cmd/walreader", "walreader", "verif,verif_walchunk" if export else "verif")
        if not replay_path and not os.environ.get("C09_SKIP_R1"):      # C09_SKIP_R1: test aid (seeded mutants of /repo do not touch R1)
            exhaustive(rep, tier, wd, pool)
        binary, _ = fb.result()
        env = dict(os.environ, GOMAXPROCS="2")

        # R2/R3: real byte strings through litestream, SQLite and the decoder
        outs = []
        if replay_path:
            out = os.path.join(wd, "replay.ndjson")
            vlib.run([binary, "-replay", replay_path, "-out", out, "-work", wd, "-seed", str(seed)], timeout=600, env=env)
            outs.append(out)
            info = [{"cases": 1, "kinds": {"replay": 1}}]
        else:
            pdir = os.path.join(wd, "pool")
            os.makedirs(pdir)
            p = vlib.run([binary, "-mkpool", pdir, "-tier", tier], timeout=600, env=env)
            rep.cov["pool"] = json.loads(p.stdout.strip().splitlines()[-1])
            nsh = vlib.NCPU

            def drive(k):
                w = os.path.join(wd, "w%d" % k)
                os.makedirs(w, exist_ok=True)
                out = os.path.join(wd, "cases%d.ndjson" % k)
                q = vlib.run([binary, "-pool", pdir, "-n", str(NCASES[tier]), "-seed", str(seed), "-shard", str(k),
                              "-nshards", str(nsh), "-work", w, "-out", out], timeout=3000, env=env)
                shutil.rmtree(w, ignore_errors=True)
                return out, json.loads(q.stdout.strip().splitlines()[-1])
            t0 = time.time()
            res = list(pool.map(drive, range(nsh)))
            outs = [r[0] for r in res]
            info = [r[1] for r in res]
            rep.cov["driver_wall_s"] = round(time.time() - t0, 1)
        kinds = {}
        for i in info:
            for k, v in i["kinds"].items():
                kinds[k] = kinds.get(k, 0) + v
        ncases = sum(i["cases"] for i in info)
        rep.cov["kinds"] = kinds
        rep.cov["chunk_export"] = bool(export)
        if not export:
            rep.notes.append("WALReader.pageMap(ctx, maxBytes) is unexported: the Sync loop with a byte limit is checked in the model "
                             "only; resumed readers (NewWALReaderWithOffset) are checked on the real code via the growth scenario")

        t0 = time.time()
        jres = list(pool.map(lambda ko: judge_shard(ko[1], wd, ko[0]), enumerate(outs)))
        rep.cov["judge_wall_s"] = round(time.time() - t0, 1)
        known = known_index()
        bad, div = [], {}
        stats = {"sqlite_undecided": 0, "ls_nothing": 0, "descriptors": set(), "nontrivial": set(), "grow": 0, "chunks": 0}
        for k, (path, r) in enumerate(zip(outs, jres)):
            vlib.tlc_expect_ok(r, "WalReaderObs")
            if not r.ok:
                raise vlib.MachineryError("WalReaderObs did not complete:\n%s" % r.out[-2000:])
            rep.add_tlc("WalReaderObs[%d]" % k, r, "judge")
            lines = open(path).read().splitlines()
            if r.distinct != len(lines):
                raise vlib.MachineryError("judge %d looked at %d of %d cases" % (k, r.distinct, len(lines)))
            for ln in lines:
                c = json.loads(ln)
                if c["sq"]["res"] != "ok":
                    stats["sqlite_undecided"] += 1
                if not c["ls"]["pages"]:
                    stats["ls_nothing"] += 1
                d = (c["hdr"], tuple(tuple(f[:4]) for f in c["frames"]))
                stats["descriptors"].add(d)
                if c["hdr"] != "ok" or any(f[2] == 0 or f[3] == 0 for f in c["frames"]) or (c["frames"] and c["frames"][-1][1] == 0):
                    stats["nontrivial"].add(d)
                stats["grow"] += len(c["grow"])
                stats["chunks"] += len(c["chunks"])
            per = {}
            for name, l, t, i in vlib.verdicts(r.out):
                per.setdefault((l, t), []).append(name)
            for (l, t), names in per.items():
                bad.append((json.loads(lines[l - 1]), names))
            for m in _DIV.finditer(r.out):
                div.setdefault(m.group(1), []).append(json.loads(lines[int(m.group(2)) - 1]))
            if len(rep.cov["samples"]) < 3 and lines:
                c = json.loads(lines[len(lines) // 2])
                rep.sample({"case": c["t"], "pool": c["pool"], "kind": c["kind"], "desc": c["desc"], "hdr": c["hdr"],
                            "frames": [f[:4] for f in c["frames"]], "ls": c["ls"], "sqlite_db": c["sq"]["db"]})
        # verdicts: smallest page size first (replay files carry the bytes)
        bad.sort(key=lambda b: (b[0]["ps"], b[0]["t"]))
        seen = {}                       # one witness per distinct set of violated invariants first
        ranked = []
        for b in bad:
            k = tuple(sorted(b[1]))
            ranked.append((seen.get(k, 0), b))
            seen[k] = seen.get(k, 0) + 1
        bad = [b for _, b in sorted(ranked, key=lambda x: (x[0], x[1][0]["ps"], x[1][0]["t"]))]
        nknown = {}
        for c, names in bad:
            unknown = []
            for n in names:
                m = re.match(r"K_([A-Za-z0-9]+)_(\w+)$", n)
                f = known.get((m.group(1), m.group(2))) if m else None
                if f:
                    nknown[f["id"]] = nknown.get(f["id"], 0) + 1
                    rep.known_finding(f["id"], f.get("what", "")[:200])
                else:
                    unknown.append(n)
            if not unknown:
                continue
            payload = {"violated": unknown, "pool": c["pool"], "kind": c["kind"], "desc": c["desc"], "ps": c["ps"],
                       "hdr": c["hdr"], "frames": c["frames"], "base": c["base"], "ls": c["ls"], "sq": c["sq"], "grow": c["grow"]}
            if replay_path:
                payload.update({k: v for k, v in json.load(open(replay_path))["case"].items() if k.endswith("_b64")})
            elif len(rep.violations) < 5:
                dump = os.path.join(wd, "dump.json")
                vlib.run([binary, "-pool", pdir, "-n", str(NCASES[tier]), "-seed", str(seed), "-dump", str(c["t"]), "-dumpto", dump],
                         timeout=300, env=env)
                payload.update({k: v for k, v in json.load(open(dump)).items() if k.endswith("_b64")})
            rep.violation("%s violated by the real litestream.WALReader on %s [%s %s]: litestream ships pages %s commit %d, SQLite recovers %s" % (
                unknown, c["pool"], c["kind"], c["desc"], [p[:2] for p in c["ls"]["pages"]], c["ls"]["commit"],
                c["sq"]["db"] if c["sq"]["res"] == "ok" else c["sq"]["res"]), payload)
        if nknown:
            rep.cov["known_finding_cases"] = nknown
        for name, cs in div.items():
            rep.notes.append("DIVERGENCE module=WalReader %s: %d cases, e.g. %s" % (name, len(cs), json.dumps(
                {"pool": cs[0]["pool"], "kind": cs[0]["kind"], "desc": cs[0]["desc"], "frames": [f[:4] for f in cs[0]["frames"]],
                 "ls": cs[0]["ls"], "sq": cs[0]["sq"]})[:700]))
        rep.cov["divergences"] = sum(len(v) for v in div.values())
        rep.cov["traces_validated_against_impl"] = ncases
        rep.cov["evaluations"] = ncases
        rep.cov["sqlite_oracle_undecided"] = stats["sqlite_undecided"]
        rep.cov["litestream_nothing_replicated"] = stats["ls_nothing"]
        rep.cov["growth_scenarios"] = stats["grow"]
        rep.cov["limit_chains"] = stats["chunks"]
        rep.cov["distinct_descriptors"] = len(stats["descriptors"])
        rep.cov["distinct_nontrivial"] = len(stats["nontrivial"])
        rep.cov["rule"] = ("cases = seeded byte-level mutants of real SQLite WALs (families in cov.kinds); non-trivial = distinct abstract "
                           "descriptor (header class, [pg, commit, saltOK, chainOK] per frame) with a failing header, a frame failing the "
                           "salt or chain test, or a tail without commit marker")
        return rep.finish()
    finally:
        pool.shutdown(wait=False, cancel_futures=True)
        shutil.rmtree(wd, ignore_errors=True)


if __name__ == "__main__":
    vlib.main_wrapper(main)

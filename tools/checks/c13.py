#!/usr/bin/env python3
"""C13 - checkpoint policy keeps the WAL bounded and an idle database silent.

R1  Policy.tla: every (MinCheckpointPageN, TruncatePageN, interval) in a small domain, all write/sync histories followed by
    idle syncs: AfterSyncBound, IdleSilence (modulo the configuration shapes of the known findings Y1, Y2).
R2  behaviours of Policy.tla (simulate) paired with every configuration of the domain, + MaxSyncWALBytes variants.
R3  the real litestream with those thresholds; CoreObs.tla judges C13_WalBoundedAfterSync / C13_IdleSilence on the
    observed WAL and level-0 files.
"""
import json, os, random, shutil, sys
sys.path.insert(0, os.path.dirname(os.path.abspath(__file__)))
sys.path.insert(0, os.path.dirname(os.path.dirname(os.path.abspath(__file__))))
import vlib, corelib

PROP = "C13"
INV = ["C13_WalBoundedAfterSync", "C13_IdleSilence"]


def to_driver(sched, rnd, rows, idle_syncs):
    out = [["LsOpen", "new"]]
    for st in sched:
        if st[0] == "AppWrite":
            for _ in range(st[1]):
                out.append(["AppWrite", rnd.randint(1, rows)])
        elif st[0] == "Sync":
            out.append(["LsSync"])
    out += [["LsSync"]] * idle_syncs
    return out


def main():
    tier, replay_path = "quick", None
    args = sys.argv[1:]
    while args:
        a = args.pop(0)
        if a == "--tier":
            tier = args.pop(0)
        elif a == "--replay":
            replay_path = args.pop(0)
    tier = os.environ.get("VERIF_TIER", tier)
    seed = vlib.seed()
    rnd = random.Random(seed)
    rep = vlib.Report(PROP, tier)
    rep.assumptions = ["no application transaction or reader pinned at the judged syncs; synchronous litestream; thresholds 1..9 pages so every policy branch fires within a dozen writes",
                       "interval 'elapsed' is realised with CheckpointInterval = 1 ms, 'notyet' with 1 h"]
    wd = vlib.scratch("c13-")
    try:
        binary, _ = vlib.go_build("./cmd/core", "core")
        cases = []
        if replay_path:
            case = json.load(open(replay_path))["case"]
            cases = [{"id": 0, "cfg": case["cfg"], "sched": case["sched"], "label": "replay"}]
        else:
            r = vlib.run_tlc("Policy", "MC_Policy.cfg", wd, workers=8, timeout=900)
            vlib.tlc_expect_ok(r, "MC_Policy")
            rep.add_tlc("MC_Policy", r, "MinPg 1..5 x TruncPg {1..7,9} x interval {off,elapsed,notyet}, WAL<=10 frames, 6 idle syncs")
            if r.violated:
                rep.notes.append("design-level counterexample in Policy.tla: %s" % r.violated)
            rep.cov["exhaustive"] = True
            nb = 40 if tier == "quick" else 300
            rs, scheds = vlib.tlc_simulate("Policy", "Sim_Policy.cfg", wd, nb, 16, seed)
            rep.cov["transitions"] += rs.generated
            scheds = [s for s in scheds if any(st[0] == "AppWrite" for st in s)]
            cfgs = [(mp, tp, iv) for mp in (1, 2, 3, 4, 5) for tp in (0, 1, 2, 3, 4, 5, 6, 7, 9) for iv in (0, 1, 3600000)]
            k = 0
            per_cfg = 1 if tier == "quick" else 6
            for (mp, tp, iv) in cfgs:
                for j in range(per_cfg):
                    s = scheds[(k * 7 + j) % len(scheds)]
                    ps = [4096, 512, 1024, 8192][k % 4] if tier == "thorough" else [4096, 512][k % 2]
                    cfg = corelib.mk_cfg(seed * 7919 + k, page_size=ps, rows=6, min_pg=mp, trunc_pg=tp, interval_ms=iv,
                                         init_ckpt=True, max_bytes=((ps + 24) * 2 if k % 5 == 0 else 0))
                    cfg["full"] = True      # pre-state before every litestream call: binding of Policy.tla (Trace_Policy.tla)
                    cases.append({"id": k, "cfg": cfg, "sched": to_driver(s, rnd, 6, rnd.randint(4, 8)), "label": "sim"})
                    k += 1
        by_id = {c["id"]: c for c in cases}
        out, info = corelib.run_cases(binary, wd, "cases", [{k: c[k] for k in ("id", "cfg", "sched")} for c in cases])
        # configuration shapes of the known findings are the signatures
        events, verdicts, hazards = corelib.judge(rep, wd, out, INV, PROP)
        for t, c in by_id.items():
            mp, tp = c["cfg"]["minPg"], c["cfg"]["truncPg"]
            hz = hazards.setdefault(t, set())
            if mp == 1 or tp == 1:
                hz.add("Y1")
            if tp != 0 and tp < mp:
                hz.add("Y2")
        rep.cov["traces_validated_against_impl"] = len(events)
        rep.cov["evaluations"] = len(events)
        rep.cov["distinct_nontrivial"] = sum(1 for t, evs in events.items()
                                             if sum(1 for e in evs if e["op"] == "LsSync" and e["res"] == "ok") >= 4
                                             and any(len(e["newl0"]) > 1 for e in evs))
        rep.cov["rule"] = ("every configuration of the domain paired with behaviours of Policy.tla (writes, syncs, then 4-8 idle syncs); "
                           "non-trivial = at least 4 successful syncs and at least one sync in which a checkpoint produced an extra level-0 file")
        for c in cases[:3]:
            evs = events.get(c["id"], [])
            rep.sample({"cfg": c["cfg"], "schedule": c["sched"][:30],
                        "observed": [[e["op"], e["res"], e["wal"]["valid"], len(e["newl0"])] for e in evs[:30]]})
        corelib.policy_conformance(rep, wd, out, PROP)
        corelib.classify(rep, PROP, by_id, events, verdicts, hazards, set(INV), PROP)
        return rep.finish()
    finally:
        shutil.rmtree(wd, ignore_errors=True)


if __name__ == "__main__":
    vlib.main_wrapper(main)

#!/usr/bin/env python3
"""C16 - follow-mode restore converges and resumes correctly after being killed.

R1  TLC exhaustive: Follow.tla = Replica.tla's file sets (sync / compaction / snapshot / retention) + the follower as the
    code is (FollowAlg.tla: applyNewLTXFiles / fillFollowGap / resume validation over TXID ranges), apply and sidecar
    publish step by step with Kill in between: NeverAhead, NoSkip, SidecarAfterApply, SidecarMonotone, Converges,
    NoStall, ResumeAccepted (the last three waived exactly where the hazard predicates of W1-W3 hold); witness
    configurations without the waiver produce the counterexamples of W1 (quick) and W2 (thorough). A finding of W1-W3
    that is no longer listed as known in known_findings.json is modelled as repaired (constant Fixes) and its invariant
    is checked without waiver: nothing needs editing when a fix lands.
R2  schedules: the witnesses (TLC counterexamples + the catalogue of DESIGN section 8), TLC behaviours of Follow.tla
    (simulate, seeded) translated to primary operations / published views / follower sessions, seeded random histories
    and poll timings (views switched between and in the middle of polls); kill points = every file-system-mutating
    system call of the follower process (quick: every 5th + everything around a rename).
R3  harness/cmd/followdrv: primary = real SQLite + real litestream, follower = the real Replica.Restore(Follow) as a
    child process (killed by harness/cmd/killsup, restarted, driven to quiescence). FollowObs.tla judges the recorded
    values (verdict); Trace_Follow.tla binds every observed poll / resume decision to the transcription (divergence).
"""
import json, os, random, re, shutil, sys, threading, time
sys.path.insert(0, os.path.dirname(os.path.dirname(os.path.abspath(__file__))))
import vlib

PROP = "C16"
ROWS = 6
SIG = {"ResumeAccepted_W1": "W1", "NoStall_W2": "W2", "ResumeAfterKill_W3": "W3"}


def mk_cfg(seed, page_size=4096, levels=2):
    return {"pageSize": page_size, "autoVacuum": "none", "rows": ROWS, "minPg": 1000, "truncPg": 0, "intervalMs": 0,
            "maxBytes": 0, "seed": seed, "control": False, "audit": False, "initCkpt": True, "levels": levels}


# ---------------------------------------------------------------------------------------------------------------
# Replica.tla's file sets in Python (only to translate the model's retention thresholds into driver arguments and to
# compare the published views with the model's `remote`: a mismatch is reported as a divergence)

class Mirror:
    def __init__(self):
        self.remote, self.pos, self.cache, self.clock = set(), 0, {}, 1

    def seq(self, l, files=None):
        return sorted([f for f in (self.remote if files is None else files) if f[0] == l], key=lambda f: (f[1], f[2]))

    def prevmax(self, l):
        p = self.cache.get(l)
        if p is None:
            fs = [f for f in self.remote if f[0] == l]
            p = max(fs, key=lambda f: f[2]) if fs else None
        return p[2] if p else 0

    def sync(self):
        f = (0, self.pos + 1, self.pos + 1, self.clock)
        self.remote.add(f); self.cache[0] = f; self.pos += 1

    def compact(self, d):
        src = [f for f in self.seq(d - 1) if f[1] >= self.prevmax(d) + 1]
        if not src:
            return False
        nf = (d, src[0][1], src[-1][2], src[-1][3])
        self.remote.add(nf); self.cache[d] = nf
        return True

    def snapshot(self):
        if self.pos == 0 or self.prevmax(9) >= self.pos:
            return False
        nf = (9, 1, self.pos, self.clock)
        self.remote.add(nf); self.cache[9] = nf
        return True

    def _keep_last(self, s, del0):
        if del0 and (len(s) - 1) in del0:
            del0 = del0 - {len(s) - 1}
        return del0

    def snapret(self, cut):
        """returns the driver argument k (= snapshots older than the cut-off)"""
        s = self.seq(9)
        k = len([f for f in s if f[3] < cut])
        dl = self._keep_last(s, {i for i, f in enumerate(s) if f[3] < cut})
        kept = [i for i in range(len(s)) if i not in dl]
        first = min(kept) if kept else -1
        floor = s[first - 1][2] if first > 0 else 0
        r = self.remote - {s[i] for i in dl}
        for l in (1, 2):
            sl = self.seq(l, r)
            d = self._keep_last(sl, {i for i, f in enumerate(sl) if f[2] < floor})
            r = r - {sl[i] for i in d}
        self.remote = r
        return k

    def l0ret(self, thr):
        l1 = [f for f in self.remote if f[0] == 1]
        max_l1 = max(f[2] for f in l1) if l1 else 0
        s = self.seq(0)
        late = [i for i, f in enumerate(s) if f[3] > thr]
        stop = min(late) if late else len(s)
        d0 = {i for i in range(stop) if s[i][2] <= max_l1}
        if stop == len(s):
            d0 = self._keep_last(s, d0)
        if max_l1:
            self.remote = self.remote - {s[i] for i in d0}
        return stop

    def listing(self):
        return sorted([list(f[:3]) for f in self.remote])


def model_to_case(steps, rnd, label):
    """A behaviour of Follow.tla (coarse follower) -> driver case. A view is published before every follower action
    that reads the replica after it changed; the case ends with the replica at rest and the follower (continued or
    restarted) polled to quiescence."""
    m = Mirror()
    sched = [["LsOpen", "new"]]
    views, dirty, sessions, cur = [], True, [], None

    def view():
        nonlocal dirty
        if dirty or not views:
            sched.append(["View"])
            views.append(m.listing())
            dirty = False
        return len(views) - 1

    for st in steps:
        a = st[0]
        if a == "PTick":
            m.clock += 1
        elif a == "PSync":
            sched.append(["AppWrite", rnd.randint(1, ROWS)] if rnd.random() < 0.8 else ["AppGrow", rnd.randint(1, 2)])
            sched.append(["LsSyncAndWait"])
            m.sync(); dirty = True
        elif a == "PSnapshot":
            if m.snapshot():
                sched.append(["Snapshot"]); dirty = True
        elif a == "PCompact":
            if m.compact(st[1]):
                sched.append(["Compact", st[1]]); dirty = True
        elif a == "PSnapRet":
            sched.append(["SnapRetention", m.snapret(st[1])]); dirty = True
        elif a == "PL0Ret":
            sched.append(["L0Retention", m.l0ret(st[1])]); dirty = True
        elif a in ("FStart", "FResume"):
            if m.pos == 0:
                continue
            cur = {"plan": [[view(), 1, 0]], "end": "stop", "fresh": a == "FStart"}
            cur["first"] = True
        elif a == "FPoll" and cur is not None:
            v = view()
            if cur["plan"][-1][0] == v:
                if cur.pop("first", False):
                    pass                                # the session's first poll is the one already planned
                else:
                    cur["plan"][-1][1] += 1
            else:
                cur.pop("first", None)
                cur["plan"].append([v, 1, 0])
        elif a == "FKill" and cur is not None:
            cur["end"] = "kill"
            sessions.append(cur); cur = None
    if m.pos == 0:
        return None
    v = view()
    if cur is not None:
        cur["plan"].append([v, 0, 0])
        sessions.append(cur)
    else:
        sessions.append({"plan": [[v, 0, 0]], "end": "stop"})
    follow = [{"plan": s["plan"], "end": s["end"]} for s in sessions]
    return {"label": label, "sched": sched, "follow": follow, "kill": None, "expect": views}


_STATE = re.compile(r"^State \d+: <(\w+)(?:\((.*?)\))? line ", re.M)


def error_trace_steps(out):
    steps = []
    for mm in _STATE.finditer(out):
        args = [int(x) if re.fullmatch(r"-?\d+", x.strip()) else x.strip() for x in mm.group(2).split(",")] if mm.group(2) else []
        steps.append([mm.group(1)] + args)
    return steps


def W(k):
    return ["AppWrite", 1 + (k - 1) % ROWS]


S, V = ["LsSyncAndWait"], ["View"]


def catalogue():
    o = ["LsOpen", "new"]
    cs = []
    # W1 (DESIGN 8): 3 syncs; Snapshot; 2 syncs; follow; stop; follow again
    cs.append({"label": "catalogue:W1", "sched": [o, W(1), S, W(2), S, W(3), S, ["Snapshot"], W(4), S, W(5), S, V, W(6), S, V],
               "follow": [{"plan": [[0, 2, 0]], "end": "stop"}, {"plan": [[1, 0, 0]], "end": "stop"}]})
    # W2 (DESIGN 8, the 14-step sequence of legitimate operations)
    cs.append({"label": "catalogue:W2-design", "sched": [o, W(1), S, ["Snapshot"], V, W(2), S, ["Compact", 1], W(3), S, ["Snapshot"], W(4), S,
                                                         ["Snapshot"], ["Compact", 1], ["SnapRetention", 2], ["L0Retention", 9], V],
               "follow": [{"plan": [[0, 1, 0]], "end": "stop"}, {"plan": [[1, 0, 0]], "end": "stop"}]})
    # W2 without a restart (TLC counterexample of MC_Follow_w2.cfg, 11 steps): the running follower stalls
    cs.append({"label": "catalogue:W2-tlc", "sched": [o, W(1), S, V, W(2), S, ["Compact", 1], W(3), S, ["Snapshot"], W(4), S, ["Snapshot"],
                                                      ["Compact", 1], ["SnapRetention", 1], ["L0Retention", 9], V],
               "follow": [{"plan": [[0, 1, 0], [1, 0, 0]], "end": "stop"}]})
    # bridging from level 1 / level 2 after level-0 retention, resume accepted (snapshot covers the sidecar)
    cs.append({"label": "catalogue:bridge", "sched": [o, W(1), S, V, W(2), S, W(3), S, ["Compact", 1], ["AppGrow", 2], S, ["Compact", 1], ["Compact", 2],
                                                      ["L0Retention", 9], W(5), S, V, W(6), S, ["AppShrink", 1], S, ["Snapshot"], V],
               "follow": [{"plan": [[0, 1, 0], [1, 2, 0]], "end": "kill"}, {"plan": [[2, 0, 0]], "end": "stop"}]})
    # the replica changes in the middle of a poll: level-0 files listed, then compacted away and pruned
    cs.append({"label": "catalogue:midpoll", "sched": [o, W(1), S, V, W(2), S, W(3), S, W(4), S, V, ["Compact", 1], ["L0Retention", 9], W(5), S, ["Snapshot"], V],
               "follow": [{"plan": [[0, 1, 0], [1, 1, 2], [2, 0, 0]], "end": "stop"}]})
    # partial bridge: a stopped follower whose position is only reachable through the newest snapshot, which ends BEFORE the first
    # surviving level-0 file; the rest of the gap is in a level-1 file straddling that snapshot.  fillFollowGap returns after one
    # level made progress, so the poll must re-check contiguity before applying the level-0 file (seeded change C16b).
    for a, b in ((2, 2), (1, 3), (3, 1)):
        pre = [o, W(1), S, W(2), S, ["Snapshot"], ["Compact", 1], V]
        mid = [W(3), S, W(4), S, ["Compact", 1], W(5), S, ["Snapshot"], W(6), S, ["Compact", 1], W(1), S, ["Snapshot"]]
        gap = sum([[W(2 + k), S] for k in range(a)], []) + [["Compact", 1]]
        tail = sum([[W(4 + k), S] for k in range(b)], [])
        cs.append({"label": "catalogue:partial-bridge", "sched": pre + mid + gap + tail + [["SnapRetention", 2], ["L0Retention", 9], V],
                   "follow": [{"plan": [[0, 1, 0]], "end": "stop"}, {"plan": [[1, 0, 0]], "end": "stop"}]})
    for c in cs:
        c["kill"] = None
    return cs


def random_case(rnd, label):
    levels = 3 if rnd.random() < 0.2 else 2
    sched = [["LsOpen", "new"], ["AppWrite", rnd.randint(1, ROWS)], ["LsSyncAndWait"]]
    nviews = 0
    n = rnd.randint(8, 22)
    marks = sorted(rnd.sample(range(n), min(n, rnd.randint(1, 4))))
    for k in range(n):
        if k in marks:
            if rnd.random() < 0.45:
                sched.append(["Snapshot"])
            sched.append(["View"]); nviews += 1
        x = rnd.random()
        if x < 0.45:
            sched += [[rnd.choice(["AppWrite", "AppWrite", "AppWrite", "AppGrow", "AppShrink"]), rnd.randint(1, ROWS if x < 0.3 else 2)], ["LsSyncAndWait"]]
        elif x < 0.65:
            sched.append(["Compact", rnd.randint(1, levels)])
        elif x < 0.73:
            sched.append(["Snapshot"])
        elif x < 0.81:
            sched.append(["SnapRetention", rnd.randint(0, 3)])
        elif x < 0.91:
            sched.append(["L0Retention", rnd.randint(0, 9)])
        elif x < 0.95:
            sched.append(["RetByTXID", rnd.randint(1, levels), rnd.randint(1, 4)])
        else:
            sched.append(["LsCheckpoint", rnd.choice(["PASSIVE", "TRUNCATE"])])
    if rnd.random() < 0.5:
        sched.append(["Snapshot"])
    sched.append(["View"]); nviews += 1
    # follower: consecutive views split into sessions
    follow, v = [], 0
    while True:
        plan = []
        span = rnd.randint(1, 3)
        while span > 0 and v < nviews - 1:
            plan.append([v, rnd.randint(1, 2), rnd.randint(1, 4) if rnd.random() < 0.25 else 0])
            v += 1; span -= 1
        if v >= nviews - 1:
            plan.append([nviews - 1, 0, 0])
            follow.append({"plan": plan, "end": "stop"})
            break
        follow.append({"plan": plan, "end": rnd.choice(["stop", "kill"])})
    return {"label": label, "sched": sched, "follow": follow, "kill": None, "levels": levels}


def laggard_case(rnd, label):
    """A follower that restores early, is stopped, and resumes after the primary has compacted, snapshotted and pruned behind it:
    the gap must be bridged from higher levels, possibly in more than one step (a snapshot that ends before the first surviving
    level-0 file + a level-1/2 file straddling it)."""
    levels = 3 if rnd.random() < 0.2 else 2
    o = ["LsOpen", "new"]
    k = [0]

    def w():
        k[0] += 1
        return [W(k[0]), S]
    sched = [o] + sum([w() for _ in range(rnd.randint(1, 3))], [])
    if rnd.random() < 0.8:
        sched.append(["Snapshot"])
    if rnd.random() < 0.6:
        sched.append(["Compact", 1])
    sched.append(V)
    nsnap = 1
    for _ in range(rnd.randint(3, 7)):          # the primary moves on
        sched += sum([w() for _ in range(rnd.randint(1, 3))], [])
        x = rnd.random()
        if x < 0.45:
            sched.append(["Compact", 1])
            if levels == 3 or rnd.random() < 0.3:
                sched.append(["Compact", 2])
        elif x < 0.8:
            sched.append(["Snapshot"]); nsnap += 1
    sched.append(["Snapshot"]); nsnap += 1          # the newest snapshot ...
    sched += sum([w() for _ in range(rnd.randint(1, 3))], []) + [["Compact", 1]]       # ... straddled by a level-1 file ...
    sched += sum([w() for _ in range(rnd.randint(0, 3))], [])                          # ... followed by level-0 files
    sched += [["SnapRetention", rnd.randint(max(0, nsnap - 2), nsnap - 1)], ["L0Retention", 9], V]
    first = {"plan": [[0, rnd.randint(1, 2), 0]], "end": rnd.choice(["stop", "stop", "kill"])}
    return {"label": label, "sched": sched, "follow": [first, {"plan": [[1, 0, 0]], "end": "stop"}], "kill": None, "levels": levels}


def kill_case(rnd, label, friendly, resumed, every, off):
    o = ["LsOpen", "new"]
    k = [0]

    def wr():
        k[0] += 1
        return [rnd.choice([["AppWrite", 1 + k[0] % ROWS], ["AppWrite", rnd.randint(1, ROWS)], ["AppGrow", rnd.randint(1, 2)]]), S]

    sched = [o]
    for _ in range(rnd.randint(1, 2)):
        sched += wr()
    if resumed or rnd.random() < 0.5:
        sched.append(["Snapshot"])
    sched.append(V)
    for _ in range(rnd.randint(2, 4)):
        sched += wr()
        if rnd.random() < 0.5:
            sched.append(["Compact", 1])
    sched += [["Compact", 1]] + ([["Compact", 2]] if rnd.random() < 0.5 else [])
    if rnd.random() < 0.6:
        sched.append(["L0Retention", 9])
    sched += wr()
    sched.append(V)
    for _ in range(rnd.randint(1, 2)):
        sched += wr()
    if rnd.random() < 0.5:
        sched += [["Compact", 1], ["L0Retention", 9]] + wr()
    if friendly:
        sched.append(["Snapshot"])
    sched.append(V)
    if resumed:
        follow = [{"plan": [[0, 1, 0]], "end": "stop"}, {"plan": [[1, 2, 0]], "end": "stop"}, {"plan": [[2, 0, 0]], "end": "stop"}]
        ks = 1
    else:
        follow = [{"plan": [[0, 1, 0], [1, 2, 0]], "end": "stop"}, {"plan": [[2, 0, 0]], "end": "stop"}]
        ks = 0
    return {"label": label, "sched": sched, "follow": follow, "kill": {"sess": ks, "every": every, "off": off, "points": []}}


# ---------------------------------------------------------------------------------------------------------------

def tla_set(xs):
    return "{" + ", ".join('"%s"' % x for x in xs) + "}"


def mc_cfg(nsync, clock, fine, fixes, invs=None, variant="asis"):
    """Configuration of Follow.tla for the tree under test: a finding that is no longer listed as known is modelled as
    repaired (Fixes) and its invariant is checked WITHOUT the hazard waiver; the spec/MC_Follow_*.cfg files on disk are
    the pinned (nothing repaired) versions of the same configurations."""
    if invs is None:
        invs = ["NeverAhead", "NoSkip", "SidecarAfterApply", "Converges",
                "NoStall" if "W2" in fixes else "NoStallH",
                "ResumeAccepted" if "W1" in fixes else "ResumeAcceptedH",
                "ResumeAfterKill" if "W3" in fixes else "ResumeAfterKillH"]
        prop = "PROPERTY SidecarMonotone\n"
    else:
        prop = ""
    return ("SPECIFICATION SpecF\nCONSTANTS NSync=%d MaxClock=%d RetentionEnabled=TRUE Fine=%s Variant=\"%s\" Fixes=%s\n"
            "INVARIANTS %s\n%sCHECK_DEADLOCK FALSE\n" % (nsync, clock, "TRUE" if fine else "FALSE", variant, tla_set(fixes), " ".join(invs), prop))


def run_driver(bins, wd, cases, timeout):
    inp, out, work = os.path.join(wd, "cases.json"), os.path.join(wd, "follow_trace.ndjson"), os.path.join(wd, "work")
    os.makedirs(work, exist_ok=True)
    with open(inp, "w") as fh:
        json.dump([dict({k: c[k] for k in ("id", "label", "cfg", "sched", "follow", "kill")}, resetL0=bool(c.get("expect"))) for c in cases], fh)
    p = vlib.run([bins["followdrv"], "-in", inp, "-out", out, "-work", work, "-killsup", bins["killsup"], "-j", str(vlib.NCPU)],
                 timeout=timeout)
    shutil.rmtree(work, ignore_errors=True)
    info = json.loads(p.stdout.strip().splitlines()[-1])
    recs = [json.loads(x) for x in open(out)]
    return out, recs, info


_DIVERGE = re.compile(r'<<"DIVERGE", "(\w+)", (-?\d+), (-?\d+), (-?\d+)>>')


def judge(rep, wd, nrecs, fixes):
    r = vlib.run_tlc("FollowObs", "FollowObs.cfg", wd, workers=1, timeout=1500)
    vlib.tlc_expect_ok(r, "FollowObs")
    if not r.ok:
        raise vlib.MachineryError("FollowObs did not complete:\n%s" % r.out[-2000:])
    if r.distinct != nrecs:
        raise vlib.MachineryError("FollowObs consumed %d of %d records" % (r.distinct, nrecs))
    rep.add_tlc("FollowObs", r, "judge over %d observed follower sessions / kill points / system-call sequences" % nrecs)
    bad = {}
    for name, l, t, i in vlib.verdicts(r.out):
        bad.setdefault(l, []).append(name)
    r2 = vlib.run_tlc("Trace_Follow", "Trace_Follow_run.cfg", wd, workers=1, timeout=1500, files={
        "Trace_Follow_run.cfg": "SPECIFICATION Spec\nCONSTANTS Variant=\"asis\" Fixes=%s\nINVARIANTS Polls Resume\nCHECK_DEADLOCK FALSE\n" % tla_set(fixes)})
    rep.add_tlc("Trace_Follow", r2, "binding: observed polls / resume decisions = FollowAlg.tla")
    div = {}
    if r2.error and not r2.ok:
        rep.notes.append("Trace_Follow did not complete: %s" % str(r2.error)[:300])
    for mm in _DIVERGE.finditer(r2.out):
        div.setdefault(int(mm.group(2)), set()).add(mm.group(1))
    return bad, div


def main():
    tier = "quick"
    args = sys.argv[1:]
    replay_path = None
    while args:
        a = args.pop(0)
        if a == "--tier":
            tier = args.pop(0)
        elif a == "--replay":
            replay_path = args.pop(0)
    tier = os.environ.get("VERIF_TIER", tier)
    thorough = tier == "thorough"
    seed = vlib.seed()
    rnd = random.Random(seed)
    rep = vlib.Report(PROP, tier)
    rep.assumptions = [
        "file replica; the follower reads published copies (views) of the replica directory: a poll sees the replica as it was at a "
        "schedule point, or two consecutive versions of it when the view is switched in the middle of the poll",
        "a kill is SIGKILL of the follower process at a system-call boundary, the file system keeps everything written (no power failure); "
        "kill points = file-system-mutating calls below the follower's output directory, counted over all threads by the ptrace supervisor",
        "quiescent = two polls in a row opened no file while the served view no longer changes; FollowInterval 10 ms",
        "content is compared page by page with an ordinary Replica.Restore of the same view, bytes 18-19 and 24-27 of page 1 zeroed on both sides "
        "(replica.go:984-987 rewrites exactly these)",
        "Follow.tla: TXID ranges only (page content abstracted to the interval of states the pages come from); a poll lists the replica once "
        "(the code lists level 0 first and higher levels when it meets a gap: covered on the real code by mid-poll view switches); "
        "exhaustive for the stated constants only",
    ]
    wd = vlib.scratch("c16-")
    try:
        bins = {"followdrv": vlib.go_build("./cmd/followdrv", "followdrv")[0], "killsup": vlib.go_build("./cmd/killsup", "killsup")[0]}
        cases = []
        known = {f["id"]: f for f in vlib.known_findings(PROP) if f.get("status") == "known"}
        fixes = sorted({"W1", "W2", "W3"} - set(known))     # no longer listed as known = repaired in the tree under test
        rep.cov["modelled_as_repaired"] = fixes

        def add(c, kind):
            c["id"] = len(cases)
            c["cfg"] = mk_cfg(seed * 100003 + c["id"], page_size=[4096, 1024, 512][c["id"] % 3] if thorough else [4096, 1024][c["id"] % 2],
                              levels=c.pop("levels", 2))
            c["kind"] = kind
            c.setdefault("expect", None)
            cases.append(c)

        mc_results, mc_err = [], []
        if replay_path:
            case = json.load(open(replay_path))["case"]
            case.pop("id", None)
            cfg = case.pop("cfg")
            add(case, "replay")
            cases[0]["cfg"] = cfg
        else:
            # ---- R1 in the background (its own scratch directory), R2/R3 meanwhile
            mcs = [("MC_Follow_q", mc_cfg(3, 1, True, fixes), "NSync=3 MaxClock=1, apply / publish step by step with Kill in between; Fixes=%s, waivers for the rest of W1-W3" % fixes)]
            if thorough:
                mcs += [("MC_Follow_t", mc_cfg(3, 2, True, fixes), "NSync=3 MaxClock=2, step by step; Fixes=%s" % fixes),
                        ("MC_Follow_c4", mc_cfg(4, 2, False, fixes), "NSync=4 MaxClock=2, polls atomic (range level); Fixes=%s" % fixes),
                        ("MC_Follow_fixed", mc_cfg(3, 1, True, ["W1", "W2", "W3"]), "all candidate repairs: every invariant without waiver")]

            def background():
                try:
                    mwd = os.path.join(wd, "mc")
                    os.makedirs(mwd, exist_ok=True)
                    for name, text, what in mcs:
                        r = vlib.run_tlc("Follow", name + "_run.cfg", mwd, workers=max(4, vlib.NCPU // 2), timeout=3000,
                                         files={name + "_run.cfg": text})
                        mc_results.append((name, what, r))
                except Exception as e:          # reported by the main thread
                    mc_err.append(e)
            th = threading.Thread(target=background)
            th.start()
            # ---- witnesses: counterexamples of the un-waived invariants, replayed on the real code
            wit = [("MC_Follow_w1", mc_cfg(3, 1, False, fixes, ["ResumeAccepted"]), "ResumeAccepted", "W1")]
            if thorough:
                wit.append(("MC_Follow_w2", mc_cfg(4, 2, False, fixes, ["NoStall"]), "NoStall", "W2"))
            for name, text, inv, sig in wit:
                if sig in fixes:
                    continue                    # repaired: the un-waived invariant is part of the exhaustive configurations
                r = vlib.run_tlc("Follow", name + "_run.cfg", wd, workers=max(4, vlib.NCPU // 2), timeout=1500, files={name + "_run.cfg": text})
                vlib.tlc_expect_ok(r, name)
                rep.add_tlc(name, r, "witness search: %s without the waiver for %s" % (inv, sig))
                if inv in r.violated:
                    c = model_to_case(error_trace_steps(r.out), rnd, "witness:%s" % sig)
                    if c:
                        add(c, "witness")
                        rep.notes.append("Follow.tla: %s is violated (hazard %s) after %d steps; the counterexample is replayed on the real code" % (
                            inv, sig, len(error_trace_steps(r.out)) - 1))
                else:
                    rep.notes.append("Follow.tla: no counterexample of %s in %s" % (inv, name))
            for c in catalogue():
                add(c, "catalogue")
            nsim, nrand, nkill, every = (50, 50, 6, 5) if not thorough else (1200, 1500, 36, 1)
            rs, ss = vlib.tlc_simulate("Follow", "Sim_Follow_run.cfg", wd, nsim, 45, seed, files={
                "Sim_Follow_run.cfg": "SPECIFICATION SpecF\nCONSTANTS NSync=6 MaxClock=4 RetentionEnabled=TRUE Fine=FALSE Variant=\"asis\" Fixes=%s\nCHECK_DEADLOCK FALSE\n" % tla_set(fixes)})
            rep.cov["transitions"] += rs.generated
            seen = set()
            for s in ss:
                if not any(st[0] in ("FStart",) for st in s):
                    continue
                c = model_to_case(s, rnd, "sim")
                if c is None:
                    continue
                key = json.dumps([c["sched"], c["follow"]])
                if key not in seen:
                    seen.add(key)
                    add(c, "sim")
            for k in range(nrand):
                add(random_case(rnd, "random"), "random")
            for k in range(max(6, nrand // 3)):
                add(laggard_case(rnd, "laggard"), "random")
            for k in range(nkill):
                add(kill_case(rnd, "kill", friendly=(k % 3 != 2), resumed=(k % 2 == 1), every=every, off=seed + k), "kill")
        # ---- R3
        t0 = time.time()
        out, recs, info = run_driver(bins, wd, cases, timeout=3000 if thorough else 900)
        t1 = time.time()
        if info.get("failed"):
            raise vlib.MachineryError("followdrv: %s" % info["failed"])
        dead = [r for r in recs if r["kind"] in ("sess", "kill") and r["err"] in ("died", "timeout")]
        if dead:
            raise vlib.MachineryError("follower child died / timed out in %d sessions, e.g. case %d (%s) session %d: %s" % (
                len(dead), dead[0]["t"], dead[0]["label"], dead[0]["i"], dead[0]["errMsg"][:200]))
        bad, div = judge(rep, wd, len(recs), fixes)
        rep.cov["phase_s"] = {"replay_on_real_code": round(t1 - t0, 1), "judge": round(time.time() - t1, 1)}
        by_id = {c["id"]: c for c in cases}
        # ---- verdicts
        nk = {}
        for l, names in sorted(bad.items()):
            rec = recs[l - 1]
            c = by_id[rec["t"]]
            sigs = sorted({SIG[n] for n in names if n in SIG})
            plain = sorted(n for n in names if n not in SIG)
            where = "case %d (%s) %s %d" % (rec["t"], rec["label"], "kill before call" if rec["kind"] == "kill" else "session", rec["i"])
            obs = {k: rec[k] for k in ("kind", "start", "sidePre0", "sidePre", "sideKill", "sideAfter", "err", "errMsg", "exit", "quiescent",
                                       "ordOK", "ordTx", "endFiles", "startFiles", "killAt", "killSys", "dbKill")}
            obs["polls"] = [[p["view"], p["side"], p["files"]] for p in rec["polls"]]
            obs["pagesEqual"] = rec["fPg"] == rec["ordPg"]
            payload = {k: c[k] for k in ("label", "cfg", "sched", "follow", "kill")}
            if rec["kind"] == "kill" and c["kill"]:
                payload["kill"] = dict(c["kill"], points=[rec["i"]])
            for sg in sigs:
                what = {"W1": "resume refused: saved TXID %d is ahead of the newest snapshot although it is on the replica's chain" % rec["sidePre"],
                        "W2": "follower stalls silently at TXID %d: an ordinary restore reaches %d, the gap is bridgeable only from a snapshot" % (rec["sideAfter"], rec["ordTx"]),
                        "W3": "killed between the rename of the restored database and the first sidecar: restart refused (no -txid file)"}[sg]
                if sg in known and not plain:
                    nk[sg] = nk.get(sg, 0) + 1
                    if nk[sg] == 1:
                        rep.known_finding(sg, "%s [first: %s]" % (known[sg].get("what", what)[:160], where))
                        rep.sample({"finding": sg, "where": where, "schedule": c["sched"], "follow": c["follow"], "observed": obs})
                else:
                    rep.violation("%s: %s - %s" % (sg, what, where), dict(payload, violated=names, signature=sg, observed=obs))
            if plain and rec["kind"] == "sys":
                ren = [k for k, x in enumerate(rec["sys"]) if x[1] == "side.tmp>side"]
                k0 = ren[0] if ren else len(rec["sys"])
                rep.violation("%s violated by the system calls of the real follower - case %d (%s) session %d: ... %s" % (
                    plain, rec["t"], rec["label"], rec["i"], " ; ".join("%s %s" % tuple(x) for x in rec["sys"][max(0, k0 - 6):k0 + 2])),
                    dict(payload, violated=names, observed={"sys": rec["sys"]}))
            elif plain:
                rep.violation("%s violated by the real follower - %s: %s" % (plain, where, json.dumps(
                    {k: obs[k] for k in ("start", "sidePre", "sideKill", "sideAfter", "err", "errMsg", "quiescent", "ordTx", "pagesEqual", "killSys")})[:500]),
                    dict(payload, violated=names, observed=obs))
        rep.cov["known_finding_cases"] = nk
        # ---- binding
        ndiv = 0
        for l, names in sorted(div.items()):
            ndiv += 1
            rec = recs[l - 1]
            if ndiv <= 4:
                rep.notes.append("DIVERGENCE module=FollowAlg %s: case %d (%s) session %d side=%s polls=%s" % (
                    sorted(names), rec["t"], rec["label"], rec["i"], rec["sidePre"],
                    json.dumps([[p["side"], p["files"], p["viewFiles"]] for p in rec["polls"]])[:400]))
        nview = 0
        for rec in recs:
            c = by_id[rec["t"]]
            if rec["kind"] != "sess" or not c.get("expect"):
                continue
            for v, files in ((rec["startView"], rec["startFiles"]), (rec["endView"], rec["endFiles"])):
                if v < len(c["expect"]) and c["expect"][v] != files:
                    nview += 1
                    if nview <= 3:
                        rep.notes.append("DIVERGENCE module=Replica case %d (%s) view %d: model %s, replica %s" % (
                            rec["t"], rec["label"], v, json.dumps(c["expect"][v]), json.dumps(files)))
        desync = [r for r in recs if r["kind"] == "desync"]
        rep.cov["divergences"] = ndiv + nview + len(desync)
        if desync:
            rep.notes.append("DIVERGENCE: %d kill runs ended before the chosen call (%s)" % (len(desync), desync[0]["errMsg"]))
        # ---- R1 results
        if not replay_path:
            th.join()
            if mc_err:
                raise mc_err[0]
            for cfg, what, r in mc_results:
                vlib.tlc_expect_ok(r, cfg)
                rep.add_tlc(cfg, r, what)
                if r.violated:
                    rep.notes.append("design-level counterexample in Follow.tla (%s): %s (a verdict only if reproduced on the real code)" % (cfg, r.violated))
            rep.cov["exhaustive"] = True
        # ---- coverage
        sess = [r for r in recs if r["kind"] == "sess"]
        kills = [r for r in recs if r["kind"] == "kill"]
        rep.cov["traces_validated_against_impl"] = len(sess) + len(kills)
        rep.cov["evaluations"] = len(recs)
        rep.cov["cases"] = {k: len([c for c in cases if c["kind"] == k]) for k in sorted({c["kind"] for c in cases})}
        rep.cov["sessions"] = len(sess)
        rep.cov["kill_points"] = len(kills)
        rep.cov["fs_mutating_calls"] = {str(r["t"]): r["nCalls"] for r in recs if r["kind"] == "sys"}
        rep.cov["resumes"] = len([r for r in sess + kills if r["start"] == "resume"])
        rep.cov["resumes_accepted"] = len([r for r in sess + kills if r["start"] == "resume" and r["err"] == "none"])
        rep.cov["quiescent_equal_to_restore"] = len([r for r in sess + kills if r["quiescent"] and r["ordOK"] and r["sideAfter"] == r["ordTx"] and r["fPg"] == r["ordPg"]])
        nt = set()
        for r in sess:
            bridged = any(f[0] >= 1 and f[3] == 1 for p in r["polls"] for f in p["files"])
            if bridged or (r["start"] == "resume" and r["err"] == "none" and any(p["files"] for p in r["polls"])):
                nt.add((r["t"], r["i"]))
        for r in kills:
            w = r["killSys"].split()
            if len(w) > 2 and w[2] in ("db", "db-txid", "db-txid.tmp", "."):
                nt.add((r["t"], "k", r["i"]))
        rep.cov["distinct_nontrivial"] = len(nt)
        rep.cov["rule"] = ("cases = TLC counterexamples + catalogue + TLC behaviours of Follow.tla (simulate, seeded, de-duplicated) + seeded random "
                           "histories / poll timings + kill templates; kill points = file-system-mutating calls of the follower (quick: every 5th + "
                           "all within 2 of a rename; thorough: every one); non-trivial = a session in which a poll bridged a gap from level >= 1 or "
                           "a resumed follower applied files, or a kill immediately before a call on the output database / the sidecar")
        for r in (sess[:1] + [x for x in sess if x["label"] == "random"][:1] + kills[len(kills) // 2:len(kills) // 2 + 1]):
            rep.sample({"case": r["t"], "label": r["label"], "kind": r["kind"], "i": r["i"], "start": r["start"], "sidePre": r["sidePre"],
                        "sideAfter": r["sideAfter"], "err": r["err"], "quiescent": r["quiescent"], "ordTx": r["ordTx"],
                        "pagesEqual": r["fPg"] == r["ordPg"], "killSys": r["killSys"],
                        "polls": [[p["view"], p["side"], p["files"]] for p in r["polls"]][:6]})
        return rep.finish()
    finally:
        shutil.rmtree(wd, ignore_errors=True)


if __name__ == "__main__":
    vlib.main_wrapper(main)

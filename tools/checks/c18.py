#!/usr/bin/env python3
"""C18 - a VFS read replica serves the same pages as a full restore.

R1  TLC exhaustive: Vfs.tla = page index / pending index / commit of vfs.go AS IT IS (Open from the restore plan,
    pollReplicaClient = level 0 and level 1 in one round with replace-on-shrink, readers under the shared lock, time
    travel) over primary histories with growth, partial shrink, VACUUM, level-1 compaction, snapshots and level-0
    retention.  The as-is model is checked against the GUARDED property (every violation of a kind has the history
    shape of a finding that explains that kind: V1 V2 V3 V4), the model with the candidate repairs against the plain
    property, and one configuration per finding (only that repair off) must yield the known counterexample.
R2  schedules = TLC behaviours of Vfs.tla (-simulate, seeded) + edges of the dumped state graph of a small
    configuration + the model's own counterexamples + the recorded witnesses, mapped to real operations.
R3  harness/cmd/vfsdrv runs them on the REAL VFSFile next to a real primary (SQLite + litestream + file replica) and
    records what the VFS serves and the real Replica.Restore at the reported TXID / timestamp; VfsObs.tla judges the
    observed values (verdict) and tags each verdict with the shapes its observed history matches.
"""
import json, os, random, re, shutil, sys, time
from concurrent.futures import ThreadPoolExecutor
sys.path.insert(0, os.path.dirname(os.path.dirname(os.path.abspath(__file__))))
import vlib

PROP = "C18"
G = 3            # rows (= pages) of the real database per model page

# which finding shapes may explain which kind of violation (validated by the as-is model: invariants G* of Vfs.tla)
# (ServedStale / V1: with the page cache at its default size the entries the replaced index lost are served from whatever the cache
#  still holds - an older version when the page changed in between; checked with the candidate repair of V1: the case passes)
ALLOWED = {"ServedMissing": {"V1", "V3"}, "ServedStale": {"V3", "V1"}, "SizeBig": {"V2", "V3"}, "SizeSmall": {"V1", "V3"},
           "Available": {"V4"}}
WHAT = {
    "V1": "poll replaces the whole page index when a polled file shrinks the database (vfs.go:2664): pages the shrinking "
          "transaction did not rewrite are 'page not found' / file size too small - or, with the page cache enabled, served in whatever "
          "older version the cache still holds",
    "V2": "buildIndexMap keeps page entries above the final commit (vfs.go:1251): a VFS opened (or time-travelled) over a "
          "shrink reports a larger file size than the restore",
    "V3": "one poll that consumes a level-1 file and a newer level-0 file lays the older level-1 entries over the "
          "level-0 entries (vfs.go:2545-2550): stale page at the reported TXID (or a spurious replace)",
    "V4": "a VFS opened on a plan without a level-1 file seeds its level-1 cursor from its position (vfs.go:1211): the "
          "level-1 file covering its level-0 files is skipped, entries keep pointing at level-0 files that retention "
          "deletes (pages unreadable after a successful poll), and the next level-1 file stalls polling (non-contiguous)",
}
WITNESS = {   # recorded witnesses (DESIGN.md section 8), as model-level schedules
    "V1": [["Grow", 3], ["Open"], ["Shrink", 2, "{}"], ["Poll"]],
    "V2": [["Grow", 3], ["Shrink", 2, "{}"], ["Open"]],
    "V3": [["Write", 1], ["Compact1"], ["Open"], ["Write", 2], ["Write", 1], ["Compact1"], ["Write", 2], ["Poll"]],
    "V4": [["Open"], ["Write", 2], ["Write", 1], ["Compact1"], ["Poll"], ["Ret0"], ["Poll"], ["Write", 2], ["Compact1"], ["Poll"]],
}
DIRECTED = [   # level-0 gap after retention: the poll must defer to level 1 (vfs.go:2648), with and without a level-1 file in the plan
    [["Snapshot"], ["Open"], ["Write", 2], ["Write", 1], ["Compact1"], ["Ret0"], ["Poll"], ["Write", 2], ["Poll"]],
    [["Write", 1], ["Snapshot"], ["Open"], ["Write", 2], ["Grow", 3], ["Compact1"], ["Write", 3], ["Ret0"], ["Poll"], ["Poll"]],
    [["Open"], ["Write", 2], ["Write", 1], ["Compact1"], ["Ret0"], ["Poll"], ["Write", 2], ["Poll"]],
    [["Compact1"], ["Open"], ["Write", 2], ["Write", 1], ["Compact1"], ["Ret0"], ["Poll"], ["Write", 2], ["Poll"]],
    [["Compact1"], ["Open"], ["Write", 2], ["Grow", 3], ["Write", 3], ["Compact1"], ["Write", 1], ["Ret0"], ["Poll"], ["Poll"]],
]


def known_ids():
    path = os.environ.get("VERIF_KNOWN_FINDINGS")          # testing aid only: alternative known_findings.json
    if path:
        kf = [f for f in json.load(open(path)).get("findings", [])
              if PROP in (f["property"] if isinstance(f["property"], list) else [f["property"]])]
    else:
        kf = vlib.known_findings(PROP)
    return {(f.get("signature") or f.get("id")) for f in kf if f.get("status") == "known"}


def code_cfg(name, known):
    """cfg of a configuration that models THE CODE: a finding that is not listed as known is taken as repaired in the
    tree under test, so its repair is switched on in the model too (FixVk = TRUE iff Vk is not a known finding)."""
    text = open(os.path.join(vlib.SPEC, name + ".cfg")).read()
    for k in "1234":
        if "V" + k not in known:
            text = text.replace("FixV%s = FALSE" % k, "FixV%s = TRUE" % k)
    return {name + ".cfg": text}


def realize(model_sched):
    """model actions -> operations of the real driver (every transaction is followed by a sync = one level-0 file)"""
    out, commit, rows = [["Sync"]], 2, 2 * G
    for st in model_sched:
        a = st[0]
        if a == "Write":
            p = int(st[1])
            out += [["Write", 1 + ((p - 1) * G) % max(rows, 1)], ["Sync"]]
        elif a == "Grow":
            c = int(st[1])
            out += [["Grow", (c - commit) * G], ["Sync"]]
            rows += (c - commit) * G
            commit = c
        elif a in ("Shrink", "Vacuum"):
            c = int(st[1])
            k = min((commit - c) * G, rows - 1)
            out += [[a, k], ["Sync"]]
            rows -= k
            commit = c
        elif a == "Compact1":
            out.append(["Compact"])
        elif a in ("Open", "Reopen"):
            out.append(["Open"])
        elif a == "TT":
            out.append(["TT", int(st[1])])
        elif a in ("Snapshot", "Ret0", "Poll", "Lock", "Unlock", "TTReset"):
            out.append([a])
    return out


def mk_case(i, model_sched, rnd, label, av=None, ps=None):
    cfg = {"pageSize": ps or rnd.choice([4096, 4096, 1024]), "autoVacuum": av or rnd.choice(["incremental", "incremental", "none"]),
           "rows": 2 * G, "seed": rnd.randrange(1, 1 << 20),
           # every third case keeps the VFS page cache at its default size (the others shrink it to one entry so that it cannot
           # mask the index): cache invalidation on poll / unlock is part of what is served
           "bigCache": i % 3 == 1 or label == "lockpoll"}
    return {"id": i, "cfg": cfg, "sched": realize(model_sched), "label": label, "model": model_sched}


def run_driver(binary, wd, name, cases, timeout):
    inp, out = os.path.join(wd, name + ".in.json"), os.path.join(wd, name + ".ndjson")
    with open(inp, "w") as fh:
        json.dump({"cases": [{"id": c["id"], "cfg": c["cfg"], "sched": c["sched"]} for c in cases]}, fh)
    p = vlib.run([binary, "-in", inp, "-out", out, "-par", str(max(4, vlib.NCPU))], timeout=timeout)
    info = json.loads(p.stdout.strip().splitlines()[-1])
    if info.get("timeouts"):
        raise vlib.MachineryError("vfsdrv: %d polls did not complete" % info["timeouts"])
    return out


def judge(rep, wd, trace_path, label, known, chunk=400):
    """VfsObs (verdicts) and Trace_Vfs (binding) over the recorded traces, in chunks of `chunk` traces, in parallel."""
    chunks, cur, seen = [], [], set()
    for line in open(trace_path):
        t = json.loads(line)["t"]
        if t not in seen and len(seen) % chunk == 0 and cur:
            chunks.append(cur)
            cur = []
        seen.add(t)
        cur.append(line)
    if cur:
        chunks.append(cur)

    def one(job):
        k, mod = job
        d = os.path.join(wd, "judge-%s-%d" % (mod, k))
        os.makedirs(d, exist_ok=True)
        with open(os.path.join(d, "vfs_trace.ndjson"), "w") as fh:
            fh.writelines(chunks[k])
        return k, mod, vlib.run_tlc(mod, mod + ".cfg", d, workers=1, timeout=2400,
                                    files=code_cfg("Trace_Vfs", known) if mod == "Trace_Vfs" else None)
    bad, div = {}, []
    with ThreadPoolExecutor(max(2, vlib.NCPU // 2)) as ex2:
        for k, mod, r in ex2.map(one, [(k, m) for k in range(len(chunks)) for m in ("VfsObs", "Trace_Vfs")]):
            if mod == "VfsObs":
                vlib.tlc_expect_ok(r, "VfsObs")
                if not r.ok:
                    raise vlib.MachineryError("VfsObs did not complete:\n%s" % r.out[-2000:])
                rep.add_tlc("VfsObs(%s/%d)" % (label, k), r, "judge")
                for name, l, t, i in vlib.verdicts(r.out):
                    parts = name.split("_")
                    bad.setdefault(t, []).append({"kind": parts[0], "shapes": sorted(parts[1:]), "step": i})
            else:
                # binding: the observed trace replayed through Vfs.tla as it is (pos, maxTXID1, file size, page versions)
                rep.add_tlc("Trace_Vfs(%s/%d)" % (label, k), r, "conformance of the recorded traces with the as-is model")
                div += [{"line": int(a), "trace": int(b), "step": int(c), "op": d}
                        for a, b, c, d in re.findall(r'<<"DIVERGENCE", (\d+), (\d+), (\d+), "(\w+)">>', r.out)]
                if not r.ok:
                    errs = vlib.parse_tlc_errors(r.out)
                    if not errs:
                        raise vlib.MachineryError("Trace_Vfs: %s\n%s" % (r.error, r.out[-2000:]))
                    for kind, name, last in errs:
                        div.append({"line": vlib.state_int(last, "l"), "chunk": k, "kind": kind, "name": name, "stopped": True})
    return bad, div


def classify(items, known):
    """-> (findings reproduced, unexplained verdicts)"""
    found, unexplained = set(), []
    for v in items:
        if v["kind"] == "TimeTravelView":       # composite: judged through the kind-specific verdicts of the same step
            if any(w["step"] == v["step"] and w["kind"] != "TimeTravelView" for w in items):
                continue
            unexplained.append(v)
            continue
        ok = ALLOWED.get(v["kind"], set()) & set(v["shapes"]) & known
        if ok:
            found |= ok
        else:
            unexplained.append(v)
    return found, unexplained


def short_trace(evs):
    out = []
    for e in evs:
        o = {k: e[k] for k in ("i", "op", "arg", "res", "pos", "max1")}
        if e["obs"]:
            o.update({k: e[k] for k in ("view", "tt", "locked", "size", "refN", "pg", "ref", "plan", "commits")})
            o["remote"] = e["remote"]
        out.append(o)
    return out


def main():
    tier, replay_path = "quick", None
    args = sys.argv[1:]
    while args:
        a = args.pop(0)
        if a == "--tier":
            tier = args.pop(0)
        elif a == "--replay":
            replay_path = args.pop(0)
    tier = os.environ.get("VERIF_TIER", tier)
    seed = vlib.seed()
    rnd = random.Random(seed)
    known = known_ids()
    rep = vlib.Report(PROP, tier)
    rep.cov["model_of_the_code"] = {"V%s" % k: ("as-is" if "V%s" % k in known else "repaired (FixV%s=TRUE): not listed as known" % k) for k in "1234"}
    rep.assumptions = [
        "the VFSFile is driven directly (Open, ReadAt of every page through a one-page cache, FileSize, Pos, Lock/Unlock, "
        "SetTargetTime/ResetTime); one poll = one round of its own monitor goroutine, let through by a gating replica client",
        "page 1 is compared with bytes 18-19 and 24-27 masked on both sides (the VFS rewrites them, vfs.go:1466/1535)",
        "a reader under the shared lock is judged against the TXID it locked at; file size is not judged while locked",
        "level-0 retention = EnforceL0RetentionByTime with an expired retention period; page availability is judged only "
        "right after a successful open/poll; levels above 1 and snapshot retention are not exercised",
        "model: at most MaxTx transactions over MaxPg pages; transactions are Write(one page) / Grow / Shrink(header + at "
        "most one moved page) / Vacuum(all pages); the real page sets differ (b-tree pages), the judge uses observed values only",
        "a stalled poll (error) is reported in notes, not as a violation: the VFS then keeps serving its old TXID",
    ]
    wd = vlib.scratch("c18-")
    phase, t_last = {}, [time.time()]

    def mark(name):
        phase[name] = round(time.time() - t_last[0], 1)
        t_last[0] = time.time()
    rep.cov["phase_wall_s"] = phase
    try:
        binary, _ = vlib.go_build("./cmd/vfsdrv", "vfsdrv", tags="vfs verif")

        mark("build")
        # ---------------------------------------------------------------- R1 exhaustive
        if tier == "quick":
            guarded = [("MC_Vfs_asis_q", "as-is, MaxPg=3 MaxTx=3 MaxL1=2 lock+retention")]
            plain = [("MC_Vfs_fixed_q", "repairs, MaxPg=3 MaxTx=3 MaxL1=2 lock+retention")]
        else:
            guarded = [("MC_Vfs_asis", "as-is, MaxTx=4 retention"), ("MC_Vfs_asis_lock", "as-is, MaxTx=4 lock"),
                       ("MC_Vfs_asis_tt", "as-is, MaxTx=4 retention+snapshots+time travel"),
                       ("MC_Vfs_asis_all3", "as-is, MaxTx=3 all features")]
            plain = [("MC_Vfs_fixed", "repairs, MaxTx=4 retention"), ("MC_Vfs_fixed_lock", "repairs, MaxTx=4 lock"),
                     ("MC_Vfs_fixed_tt", "repairs, MaxTx=4 retention+snapshots+time travel"),
                     ("MC_Vfs_fixed_all3", "repairs, MaxTx=3 all features")]
        single = [("MC_Vfs_v1", "V1"), ("MC_Vfs_v2", "V2"), ("MC_Vfs_v3", "V3"), ("MC_Vfs_v4", "V4")]
        if replay_path:                 # a replay only re-runs the stored case on the real code and judges it
            guarded, plain, single = [], [], []

        def tlc(name):
            d = os.path.join(wd, "mc-" + name)
            os.makedirs(d)
            return name, vlib.run_tlc("Vfs", name + ".cfg", d, workers=max(2, vlib.NCPU // 4), timeout=2400 if tier != "quick" else 600,
                                      files=code_cfg(name, known) if name in [g for g, _ in guarded] else None)

        ex = ThreadPoolExecutor(6)
        nsim, depth, ngraph = (100, 30, 150) if tier == "quick" else (1000, 40, 2000)

        def sim():
            d = os.path.join(wd, "sim")
            os.makedirs(d)
            return vlib.tlc_simulate("Vfs", "Sim_Vfs.cfg", d, nsim, depth, seed, files=code_cfg("Sim_Vfs", known))

        def dump():
            d = os.path.join(wd, "dump")
            os.makedirs(d)
            dot = os.path.join(d, "g.dot")
            dname = "Dump_Vfs" if tier == "quick" else "Dump_Vfs_t"
            rd = vlib.run_tlc("Vfs", dname + ".cfg", d, workers=4, files=code_cfg(dname, known),
                              extra=["-dump", "dot,actionlabels", dot], timeout=1500)
            vlib.tlc_expect_ok(rd, "dump")
            sg, ginfo = vlib.dot_schedules(dot, cover="edges", max_schedules=None)
            os.unlink(dot)
            return sg, ginfo
        fsim, fdump = (ex.submit(sim), ex.submit(dump)) if not replay_path else (None, None)
        futs = {n: ex.submit(tlc, n) for n, _ in single + guarded + plain}     # the exhaustive runs overlap with R2 / R3
        results = {n: futs[n].result()[1] for n, _ in single}
        model_cex = {}
        for n, fid in single:
            r = results[n]
            vlib.tlc_expect_ok(r, n)
            rep.add_tlc(n, r, "only the repair of %s switched off: the known counterexample is expected" % fid)
            if not r.violated:
                rep.notes.append("model %s: the counterexample of %s was NOT found (model no longer reproduces it)" % (n, fid))
                continue
            text = r.out[r.out.index("Error: Invariant"):] if "Error: Invariant" in r.out else r.out
            sched = vlib.parse_behaviour(re.sub(r"State (\d+): <", r"\\* <", text), skip=("Initial",))
            model_cex[fid] = [s for s in sched if s and s[0] != "Initial"]
        rep.cov["model_counterexamples"] = {k: v for k, v in model_cex.items()}

        mark("tlc_counterexamples")
        # ---------------------------------------------------------------- R2 schedules
        cases = []
        if replay_path:
            c = json.load(open(replay_path))["case"]
            cases.append({"id": 0, "cfg": c["cfg"], "sched": c["schedule"], "label": "replay", "model": c.get("model", [])})
        else:
            for fid, ms in sorted(model_cex.items()):
                for av in ("incremental", "none"):
                    cases.append(mk_case(len(cases), ms, rnd, "model-cex-" + fid, av=av, ps=4096))
            for fid, ms in sorted(WITNESS.items()):
                cases.append(mk_case(len(cases), ms, rnd, "witness-" + fid, av="incremental", ps=4096))
            for ms in DIRECTED:
                cases.append(mk_case(len(cases), ms, rnd, "directed"))
            # a poll lands while a reader holds the shared lock (updates parked in the pending index), the reader re-reads before
            # it unlocks (its view must not move), after the unlock the new version must be served - with the page cache enabled
            for w in ([["Write", 1]], [["Write", 2], ["Write", 1]], [["Grow", 3], ["Write", 2]], [["Write", 1], ["Compact1"], ["Write", 3]]):
                for pre in ([], [["Write", 2], ["Poll"]]):
                    ms = [["Write", 1], ["Write", 2], ["Open"]] + pre + [["Lock"]] + w + [["Poll"], ["Poll"], ["Unlock"], ["Poll"], ["Lock"]] + w + [["Poll"], ["Unlock"]]
                    cases.append(mk_case(len(cases), ms, rnd, "lockpoll"))
            rs, sims = fsim.result()
            rep.add_tlc("Sim_Vfs", rs, "MaxPg=4 MaxTx=8 MaxL1=3 all features, %d behaviours of depth %d" % (nsim, depth))
            for ms in sims:
                if any(s[0] in ("Open", "Reopen") for s in ms):
                    cases.append(mk_case(len(cases), ms, rnd, "sim"))
            sg, ginfo = fdump.result()
            sg = [s for s in sg if any(x[0] == "Poll" for x in s)]
            rep.cov["graph"] = dict(ginfo, schedules_with_poll=len(sg), replayed=min(len(sg), ngraph))
            # half of the budget goes to paths in which a poll follows level-0 retention (files being read disappear)
            def ret_then_poll(ms):
                ops = [x[0] for x in ms]
                return "Ret0" in ops and "Poll" in ops[ops.index("Ret0"):]
            hot = [ms for ms in sg if ret_then_poll(ms)]
            cold = [ms for ms in sg if not ret_then_poll(ms)]
            pick = rnd.sample(hot, min(len(hot), ngraph // 2))
            pick += rnd.sample(cold, min(len(cold), ngraph - len(pick)))
            rep.cov["graph"]["retention_then_poll"] = len(hot)
            for ms in pick:
                cases.append(mk_case(len(cases), ms, rnd, "graph"))

            # a ReadAt with no lock held (SQLite reads the header page like that when it opens the file) overlapping a poll: the read
            # looks its element up, the poll moves the index on and invalidates, the read then caches what it fetched
            # (VfsCache.tla, UnlockedReads = TRUE)
            for k in (1, 2):
                d = [["Sync"], ["Grow", 2], ["Sync"], ["Open"], ["Grow", k], ["Sync"], ["PollQuiet"], ["Grow", 1], ["Sync"], ["ReadBegin", 1],
                     ["PollQuiet"], ["ReadEnd"], ["Poll"]]
                c = mk_case(len(cases), [], rnd, "readrace", av="none", ps=4096)
                c["sched"], c["cfg"]["bigCache"] = d, True
                cases.append(c)

        mark("schedules")
        # ---------------------------------------------------------------- R3 real code + judge
        out = run_driver(binary, wd, "cases", cases, timeout=3000)
        mark("driver")
        per = {}
        for line in open(out):
            e = json.loads(line)
            per.setdefault(e["t"], []).append(e)
        bad, div = judge(rep, wd, out, "all", known, chunk=100 if tier == "quick" else 300)
        rep.cov["divergences"] = len(div)
        for d in div[:5]:
            c = ([x for x in cases if x["id"] == d.get("trace")] or [None])[0]
            rep.notes.append("DIVERGENCE module=Vfs %s schedule=%s" % (json.dumps(d), json.dumps(c["sched"])[:400] if c else "?"))
        mark("judge")
        for n, const in guarded + plain:
            r = futs[n].result()[1]
            vlib.tlc_expect_ok(r, n)
            rep.add_tlc(n, r, const)
            if r.violated:
                acts = re.findall(r"State \d+: <(\w+(?:\([^)]*\))?) line", r.out)
                rep.notes.append("model %s: %s violated by %s (design-level; reported only if reproduced on the real code)" % (n, r.violated, acts))
        ex.shutdown()
        rep.cov["exhaustive"] = True
        mark("tlc_exhaustive_wait")
        if not replay_path:
            # the page cache in front of the index (VfsCache.tla): the code as it is, and two negative controls
            for name, what, must_fail in [("MC_VfsCache", "cache protocol as it is, reads with and without the shared lock: CacheCoherent, ReaderViewStable", False),
                                          ("MC_VfsCache_locked", "the same, pages read under the shared lock only", False),
                                          ("MC_VfsCache_c18b", "NEGATIVE CONTROL: invalidate when an update is polled (also when only parked), not at unlock", True),
                                          ("MC_VfsCache_v5", "NEGATIVE CONTROL: ReadAt caches what it fetched without re-checking the index (before the repair of V5)", True)]:
                d = os.path.join(wd, "mc-" + name)
                os.makedirs(d)
                r = vlib.run_tlc("VfsCache", name + ".cfg", d, workers=4, timeout=900)
                vlib.tlc_expect_ok(r, name)
                rep.add_tlc(name, r, what)
                if must_fail and not r.violated:
                    raise vlib.MachineryError("negative control %s found no counterexample" % name)
                if not must_fail and r.violated:
                    rep.notes.append("model %s: %s violated (design-level; reported only if reproduced on the real code)" % (name, r.violated))
        rep.cov["traces_validated_against_impl"] = len(cases)
        rep.cov["evaluations"] = sum(1 for evs in per.values() for e in evs if e["obs"] and e["refOK"])
        noref = sum(1 for evs in per.values() for e in evs if e["obs"] and not e["refOK"])
        if noref:
            rep.notes.append("%d observations could not be judged: the reference restore failed" % noref)
        setup_fail = [evs[0]["res"] for evs in per.values() if evs[0]["res"] != "ok"]
        if setup_fail:
            raise vlib.MachineryError("vfsdrv setup failed: %s" % setup_fail[:2])
        distinct, tt_obs, locked_obs, stalls = set(), 0, 0, 0
        for c in cases:
            evs = per.get(c["id"], [])
            polled = any(e["op"] == "Poll" and e["res"] == "ok" and e["pos"] > e["prevPos"] for e in evs)
            multi = any(e["op"] == "Open" and e["res"] == "ok" and len(e["plan"]) >= 2 for e in evs)
            if polled or multi:
                distinct.add(json.dumps(c["sched"]) + json.dumps(c["cfg"]["autoVacuum"]))
            tt_obs += sum(1 for e in evs if e["obs"] and e["tt"])
            locked_obs += sum(1 for e in evs if e["obs"] and e["locked"])
            stalls += sum(1 for e in evs if e["res"].startswith("pollerr"))
        rep.cov["distinct_nontrivial"] = len(distinct)
        rep.cov["time_travel_observations"] = tt_obs
        rep.cov["locked_observations"] = locked_obs
        rep.cov["rule"] = ("schedules = TLC behaviours of Vfs.tla (simulate) + paths covering edges of a dumped state graph + model "
                           "counterexamples + recorded witnesses; non-trivial = distinct (schedule, auto_vacuum) in which a poll advanced "
                           "the VFS position or the VFS was opened on a plan of at least two files")
        if stalls:
            rep.notes.append("%d polls returned an error (stalled VFS, e.g. 'non-contiguous ltx file: level=1' = shape of V4); not a verdict" % stalls)
        reproduced = {}
        for c in cases:
            items = bad.get(c["id"])
            evs = per.get(c["id"], [])
            if c["label"].startswith(("model-cex-", "witness-")):
                fid = c["label"].split("-")[-1]
                hit = items and any(fid in v["shapes"] and fid in ALLOWED.get(v["kind"], ()) for v in items)
                reproduced.setdefault(fid, []).append(bool(hit))
                if hit and fid not in rep.cov.get("witnesses", {}):
                    v = [w for w in items if fid in w["shapes"] and fid in ALLOWED.get(w["kind"], ())][0]
                    e = [x for x in evs if x["i"] == v["step"]][0]
                    rep.cov.setdefault("witnesses", {})[fid] = {
                        "schedule": c["sched"], "autoVacuum": c["cfg"]["autoVacuum"], "kind": v["kind"], "step": v["step"],
                        "pos": e["pos"], "size": e["size"], "refN": e["refN"], "served": e["pg"], "restore": e["ref"]}
            if not items:
                continue
            found, unexplained = classify(items, known)
            for fid in sorted(found):
                rep.known_finding(fid, WHAT[fid])
            if unexplained:
                kinds = sorted({"%s[%s]" % (v["kind"], ",".join(v["shapes"])) for v in unexplained})
                rep.violation("the real VFSFile does not serve the restore of its reported TXID: %s (%s #%d); shapes in brackets are the "
                              "known-finding shapes the observed history matches, none of them listed as known for that kind" % (
                                  kinds, c["label"], c["id"]),
                              {"cfg": c["cfg"], "schedule": c["sched"], "model": c["model"], "violated": unexplained,
                               "trace": short_trace(evs)})
        for fid, hits in sorted(reproduced.items()):
            if fid not in known:
                if any(hits):
                    rep.notes.append("the shape of %s still violates the property although it is not listed as known (reported as VIOLATION)" % fid)
            elif not any(hits):
                rep.notes.append("MODEL-MISMATCH: the counterexample / witness of %s did not reproduce on the real code (%d cases)" % (fid, len(hits)))
        rep.cov["known_shapes_reproduced_on_real_code"] = {k: sum(v) for k, v in reproduced.items()}
        for c in cases[:400]:
            if c["label"] in ("sim", "graph") and per.get(c["id"]):
                last = [e for e in per[c["id"]] if e["obs"]]
                rep.sample({"label": c["label"], "schedule": c["sched"][:24],
                            "last_observed": {k: last[-1][k] for k in ("pos", "size", "refN", "pg", "ref")} if last else None}, limit=4)
        return rep.finish()
    finally:
        shutil.rmtree(wd, ignore_errors=True)


if __name__ == "__main__":
    vlib.main_wrapper(main)

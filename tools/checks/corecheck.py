#!/usr/bin/env python3
"""Runner shared by C01, C02, C04, C13, C14 (see tools/corelib.py for the pipeline).

Per property a PLAN says: which exhaustive TLC configurations to run (R1), where schedules come from (R2: TLC
simulate/dump of Core.tla + seeded random schedules for operations outside the model's vocabulary + the witness
histories of the known findings), how the real runs are configured, and which invariants of CoreObs.tla give the
verdict (R3).
"""
import json, os, random, shutil, sys
sys.path.insert(0, os.path.dirname(os.path.dirname(os.path.abspath(__file__))))
import vlib, corelib

WITNESS = {
    "F1": [["LsOpen", "new"], ["AppWrite", 2], ["LsSyncAndWait"], ["LsClose"], ["AppWrite", 3], ["AppCheckpoint", "TRUNCATE"],
           ["AppWrite", 5], ["LsOpen", "same"], ["LsSyncAndWait"]],
    "F2": [["LsOpen", "new"], ["AppWrite", 2], ["AppWrite", 5], ["LsSyncAndWait"], ["LsClose"], ["AppWrite", 3],
           ["AppCheckpoint", "RESTART"], ["AppWrite", 6], ["LsOpen", "new"], ["LsSyncAndWait"]],
    "G1": [["LsOpen", "new"], ["AppWrite", 2], ["LsSyncAndWait"], ["CkStart", "TRUNCATE"], ["AppWrite", 3], ["CkStep"], ["CkStep"],
           ["CkStep"], ["CkStep"], ["AppBegin"], ["AppSpill", 1, 1], ["CkStep"], ["AppCommit"], ["AppWrite", 5], ["LsSyncAndWait"]],
    "S1": [["LsOpen", "new"], ["AppWrite", 1], ["LsSyncAndWait"], ["LsClose"], ["SaveAll"], ["LsOpen", "new"], ["AppWrite", 1],
           ["LsSyncAndWait"], ["LsClose"], ["RestoreAll"], ["LsOpen", "new"], ["AppWrite", 2], ["LsSyncAndWait"], ["AppWrite", 3],
           ["LsSyncAndWait"], ["LsClose"]],
    # Q1: every litestream call under a request-scoped context (cfg reqCtx): the read transaction began by the first sync dies
    # with that context, the application's TRUNCATE checkpoint is no longer blocked, the uncopied frame is gone
    "Q1": [["LsOpen", "new"], ["AppGrowWrite"], ["LsSync"], ["AppWrite", 2], ["AppCheckpoint", "TRUNCATE"], ["AppWrite", 3], ["LsSyncAndWait"],
           ["AppWrite", 4], ["AppCheckpoint", "RESTART"], ["AppWrite", 5], ["LsSyncAndWait"], ["LsClose"]],
    # Q2: the context of a checkpoint is cancelled after it released the read transaction (parked at chk.read-released): the PRAGMA
    # fails and the deferred re-acquisition must still succeed, or the application's TRUNCATE checkpoint destroys uncopied frames
    "Q2": [["LsOpen", "new"], ["AppWrite", 1], ["LsSyncAndWait"], ["CkStart", "PASSIVE"], ["CkStep"], ["CkStep"], ["CkCancel"], ["CkStep"],
           ["LsSyncAndWait"], ["AppWrite", 2], ["AppCheckpoint", "TRUNCATE"], ["AppWrite", 3], ["LsSyncAndWait"], ["LsClose"]],
    # S2: the newest local level-0 files vanish while litestream runs, level-0 retention invalidates the cached position
    "S2": [["LsOpen", "new"], ["AppWrite", 1], ["LsSyncAndWait"], ["AppWrite", 2], ["LsSyncAndWait"], ["AppWrite", 3], ["LsSyncAndWait"], ["Compact", 1],
           ["AppWrite", 4], ["LsSyncAndWait"], ["AppWrite", 5], ["LsSyncAndWait"], ["AppWrite", 6], ["LsSync"], ["LocalLoss", "newest"], ["LocalLoss", "newest"],
           ["L0Retention", 9], ["AppWrite", 1], ["LsSyncAndWait"], ["AppWrite", 2], ["LsSyncAndWait"], ["LsClose"]],
    # S3: a snapshot written ahead of the level-0 uploads, then the local state is reset while running (what auto-recover does)
    "S3": [["LsOpen", "new"], ["AppWrite", 1], ["LsSyncAndWait"], ["AppWrite", 2], ["LsSync"], ["Snapshot"], ["LsReset"], ["AppWrite", 3], ["LsSyncAndWait"],
           ["AppWrite", 4], ["LsSyncAndWait"], ["LsClose"]],
    # M1: litestream re-opened right after the application's full checkpoint (read transaction at read mark 0), a sync parked between
    # building its page map and reading the page data (hook sync.pagemap), the application's write restarts the WAL meanwhile
    "M1": [["LsOpen", "new"], ["AppWrite", 1], ["LsSyncAndWait"], ["LsClose"], ["AppCheckpoint", "TRUNCATE"], ["AppWrite", 2], ["AppCheckpoint", "FULL"],
           ["LsOpen", "same"], ["CkStart", "SYNC"], ["AppWrite", 3], ["CkStep"], ["LsSyncAndWait"], ["AppWrite", 4], ["LsSyncAndWait"], ["LsClose"]],
    # M2: the same set-up, the sync parked right after verify() (hook sync.verified); the new generation grows past the old cursor, so the
    # reader's previous-frame check fails and sync() falls back to reading from the header
    "M2": [["LsOpen", "new"], ["AppWrite", 1], ["LsSyncAndWait"], ["AppWrite", 2], ["AppWrite", 3], ["LsSyncAndWait"], ["LsClose"], ["AppWrite", 4],
           ["AppCheckpoint", "FULL"], ["LsOpen", "same"], ["CkStart", "SYNC0"]] + [["AppWrite", 5 + k % 2] for k in range(9)] +
          [["CkStep"], ["LsSyncAndWait"], ["AppWrite", 6], ["LsSyncAndWait"], ["LsClose"]],
    "F3": [["LsOpen", "new"]] + [["AppGrow", 1], ["LsSyncAndWait"]] * 5 + [["LsReset"], ["AppWrite", 3], ["LsSyncAndWait"]],
}

PLANS = {
    "C01": dict(
        mc=[("MC_Core_q.cfg", "code as it is: pages 3, versions 2, WAL 4, TXIDs 5, gens 4, 1 down, all checkpoint modes, checkpoint sub-steps interleaved with the application")],
        mc_thorough=[("MC_Core_asis.cfg", "same with versions 3"), ("MC_Core_asis4.cfg", "same with versions 4, request contexts off (3.1e7 distinct states measured; with them on the run does not fit the tier)"), ("MC_Core_pinned.cfg", "NEGATIVE CONTROL: the pinned transitions (before the fix: commits) - TLC must find the F1/F2/G1 data-loss histories"),
                     ("MC_Core_q1.cfg", "NEGATIVE CONTROL: read transaction bound to a request context (Q1, before its fix) - TLC must find the data-loss history"),
                     ("MC_Core_q2.cfg", "NEGATIVE CONTROL: read transaction not re-acquired after a checkpoint whose context was cancelled (Q2, before its fix)")],
        sim=[("Sim_Core_run.cfg", 80, 600, 40), ("Sim_Core_gated.cfg", 100, 900, 45)],
        dump=("Dump_Core.cfg", 250, 2500),
        random=dict(n=80, n_thorough=800, length=28, with_down=False, with_state_loss=False),
        invariants=["C01_RestoreEqualsSource", "C01_RestoreIntegrity", "N_ReadLockWhileOpen"],
        witnesses=["F1", "F2", "F3", "G1", "S1", "Q1", "Q2", "S3", "M1", "M2"],
        nontrivial="distinct schedule with at least one acknowledgement after application writes (restore compared with the source)",
    ),
    "C04": dict(
        mc=[("MC_Core_q.cfg", "code as it is (stop/start of the same object, new process, crash, app activity incl. all checkpoint modes while down); versions 2"),
            ("LocalChain", "MC_LocalChain_asis.cfg", "reconciliation of the local chain with the replica's (start, stop, sync, upload, snapshot, loss of local files while running or down, reset, cache invalidation): OneChain, AckMeansStored, AckMeansRestorable, SnapshotOnChain"),
            ("LocalChain", "MC_LocalChain_zeroOnly.cfg", "NEGATIVE CONTROL: replica re-check only at position zero (S2, before its fix)"),
            ("LocalChain", "MC_LocalChain_initOnly.cfg", "NEGATIVE CONTROL: replica re-check only in init (F3, before its fix)"),
            ("LocalChain", "MC_LocalChain_snapAhead.cfg", "NEGATIVE CONTROL: snapshot written ahead of the level-0 uploads (S3, before its fix)")],
        mc_thorough=[("MC_Core_asis.cfg", "versions 3"), ("MC_Core_down2.cfg", "2 downs")],     # (versions 4: in C01's thorough tier)
        sim=[("Sim_Core_down.cfg", 250, 1200, 45)],
        dump=None,
        random=dict(n=200, n_thorough=1200, length=34, with_down=True, with_state_loss=True),
        directed=True,
        invariants=["C04_AckMeansReplicaAtLocalPos", "C04_ResnapshotAfterLoss", "C01_RestoreEqualsSource", "N_ReadLockWhileOpen"],
        witnesses=["F1", "F2", "F3", "S1", "Q1", "Q2", "S2", "S3"],
        nontrivial="distinct schedule in which litestream was stopped/reset/lost state and application activity happened before the next acknowledgement",
    ),
    "C02": dict(
        mc=[("MC_Core_q.cfg", "NoUncommitted: no page version of an open or rolled-back transaction in any level-0 file; versions 2")],
        mc_thorough=[("MC_Core_asis.cfg", "versions 3")],     # (versions 4: in C01's thorough tier)
        sim=[("Sim_Core_run.cfg", 100, 600, 40), ("Sim_Core_gated.cfg", 80, 600, 45)],
        dump=None,
        random=dict(n=120, n_thorough=800, length=30, with_down=False, with_state_loss=False, tx_heavy=True),
        invariants=["C02_EveryTxidIsACommittedState", "C02_Level0Gapless"],
        witnesses=["M1", "M2", "S3"],
        audit=True, chunked=True,
        nontrivial="distinct schedule whose replica lists at least 3 TXIDs, each restored and compared with the ledger of committed states",
    ),
    "C14": dict(
        mc=[("MC_Core_q.cfg", "litestream steps write only its own bookkeeping page (SeqPg) - structural in Core.tla")],
        mc_thorough=[],
        sim=[("Sim_Core_run.cfg", 100, 600, 40)],
        dump=None,
        random=dict(n=100, n_thorough=700, length=30, with_down=True, with_state_loss=False),
        invariants=["C14_LitestreamStepKeepsAppData", "C14_SameAsControlRun", "C14_BookkeepingOnly"],
        witnesses=[],
        control=True, contention=True,
        nontrivial="distinct schedule with litestream steps interleaved with application writes, replayed twice (with/without litestream)",
    ),
}


def directed_c04():
    """Disturbance shapes x relative lengths (DESIGN 7/C04): what happens while litestream is down, enumerated."""
    out = []
    W = lambda k: [["AppWrite", 1 + (j % 5)] for j in range(k)]
    SY = lambda k: sum([[["AppWrite", 1 + (j % 5)], ["LsSyncAndWait"]] for j in range(k)], [])
    tail = [["AppWrite", 2], ["LsSyncAndWait"], ["AppWrite", 3], ["LsSyncAndWait"], ["LsClose"]]
    for a in (1, 2, 3):
        for b in (1, 2, 4):
            for reopen in ("new", "same"):
                # the whole directory (db + WAL + state dir) rolled back to an older copy while the replica moved on
                out.append([["LsOpen", "new"]] + SY(a) + [["LsClose"], ["SaveAll"], ["LsOpen", reopen]] + SY(b) +
                           [["LsClose"], ["RestoreAll"], ["LsOpen", reopen]] + tail)
                # only the database file replaced by an older version
                out.append([["LsOpen", "new"]] + SY(a) + [["LsClose"], ["SaveCopy"], ["LsOpen", reopen]] + SY(b) +
                           [["LsClose"], ["ReplaceDb"], ["LsOpen", reopen]] + tail)
                # application activity while down: writes, then a checkpoint of each mode, then c more writes
                for mode in ("PASSIVE", "FULL", "RESTART", "TRUNCATE"):
                    for c in (0, 1, a + b + 2):
                        out.append([["LsOpen", "new"]] + SY(a) + [["LsClose"]] + W(b) + [["AppCheckpoint", mode]] + W(c) +
                                   [["LsOpen", reopen]] + tail)
                # last application connection closed while down (WAL removed), state directory lost, both
                out.append([["LsOpen", "new"]] + SY(a) + [["LsClose"]] + W(b) + [["AppClose"], ["AppOpen"]] + W(1) + [["LsOpen", reopen]] + tail)
                out.append([["LsOpen", "new"]] + SY(a) + [["LsClose"]] + W(b) + [["MetaLost"], ["LsOpen", "new"]] + tail)
                out.append([["LsOpen", "new"]] + SY(a) + [["LsSync"], ["LsReset"]] + W(b) + [["LsSyncAndWait"]] + tail)
    return out


def build_cases(plan, tier, seed, wd, rep):
    rnd = random.Random(seed)
    thorough = tier == "thorough"
    scheds = []   # (label, driver schedule)
    for cfgname, nq, nt, depth in plan.get("sim", []):
        r, ss = vlib.tlc_simulate("Core", cfgname, wd, nt if thorough else nq, depth, seed)
        rep.cov["transitions"] += r.generated
        rep.cov.setdefault("sim_runs", []).append({"cfg": cfgname, "behaviours": len(ss), "states_generated": r.generated})
        for s in ss:
            d = corelib.model_to_driver(s, gated="gated" in cfgname)
            if d:
                scheds.append(("sim:" + cfgname, d, s))
    if plan.get("dump"):
        cfgname, nq, nt = plan["dump"]
        dot = os.path.join(wd, "g.dot")
        rd = vlib.run_tlc("Core", cfgname, wd, workers=8, extra=["-dump", "dot,actionlabels", dot], timeout=1500)
        vlib.tlc_expect_ok(rd, "dump")
        rep.add_tlc(cfgname, rd, "state graph dumped for schedule generation")
        ss, ginfo = vlib.dot_schedules(dot, cover="edges", max_schedules=nt if thorough else nq)
        os.unlink(dot)
        rep.cov["graph"] = ginfo
        for s in ss:
            d = corelib.model_to_driver(s)
            if d:
                scheds.append(("graph:" + cfgname, d, s))
    rp = plan["random"]
    for k in range(rp["n_thorough"] if thorough else rp["n"]):
        s = corelib.random_schedule(rnd, rp["length"], 6, with_down=rp["with_down"], with_state_loss=rp["with_state_loss"],
                                    with_tx=True)
        scheds.append(("random", s, None))
    for w in plan.get("witnesses", []):
        scheds.append(("witness:" + w, WITNESS[w], None))
    if plan.get("contention"):
        # a second application connection holds the write lock for 0.5x / 1.5x / 2.5x litestream's busy timeout (50 ms in
        # the driver) while litestream takes its barrier, bumps its counter or snapshots
        for ms in (25, 75, 125):
            for lsop in (["LsCheckpoint", "PASSIVE"], ["LsCheckpoint", "TRUNCATE"], ["LsSyncAndWait"], ["LsSync"]):
                for pre in (0, 2):
                    d = [["LsOpen", "new"], ["AppWrite", 1], ["LsSyncAndWait"]] + [["AppWrite", 2 + j] for j in range(pre)] + \
                        [["AppHoldWrite", ms], lsop, ["AppJoin"], ["AppWrite", 3], ["LsSyncAndWait"], ["LsClose"]]
                    scheds.append(("contention", d, None))
    if plan.get("directed"):
        ds = directed_c04()
        if not thorough:
            rnd.shuffle(ds)
            ds = ds[:150]
        for d in ds:
            scheds.append(("directed", d, None))
    # de-duplicate driver schedules
    seen, cases = set(), []
    sizes = corelib.PAGE_SIZES_ALL if thorough else corelib.PAGE_SIZES_QUICK
    for label, d, model in scheds:
        key = json.dumps(d)
        if key in seen:
            continue
        seen.add(key)
        i = len(cases)
        ps = sizes[i % len(sizes)] if not label.startswith("witness") else 4096
        av = ["none", "incremental", "full"][(i // len(sizes)) % 3] if label == "random" else "none"
        cfg = corelib.mk_cfg(seed * 100003 + i, page_size=ps, auto_vacuum=av, rows=6,
                             control=bool(plan.get("control")), audit=bool(plan.get("audit")),
                             init_ckpt=(i % 2 == 0) and label != "witness:S1",
                             # MaxSyncWALBytes: unlimited / one frame / three frames (chunked syncs, bounded shutdown sync)
                             max_bytes=[0, ps + 24, 3 * (ps + 24)][i % 3] if not label.startswith("witness") else 0)
        # the model's Close/ack needs an initialised DB: make sure a schedule starts litestream
        if not any(st[0] == "LsOpen" for st in d[:1]):
            d = [["LsOpen", "new"]] + d
        cfg["full"] = (i % 4 == 1)      # these traces also carry the pre-state for the Core.tla binding
        # every litestream call under its own context, cancelled when the call returns (what request handlers do; Core.tla: ReqCtx)
        cfg["reqCtx"] = (i % 3 == 2) or label == "witness:Q1"
        cases.append({"id": i, "cfg": cfg, "sched": d, "label": label})
    return cases


def run(prop, argv):
    tier, replay_path = "quick", None
    args = list(argv)
    while args:
        a = args.pop(0)
        if a == "--tier":
            tier = args.pop(0)
        elif a == "--replay":
            replay_path = args.pop(0)
    tier = os.environ.get("VERIF_TIER", tier)
    seed = vlib.seed()
    plan = PLANS[prop]
    rep = vlib.Report(prop, tier)
    rep.assumptions = [
        "litestream runs in synchronous mode (no monitor goroutines); every operation of the quantifier is an explicit call",
        "source state = page images of a copy of (db, -wal) opened and checkpointed by SQLite itself; restore = the real Replica.Restore with a fresh client on the file replica",
        "exhaustive TLC result holds for the stated constants; replays hold for the schedules run",
    ]
    wd = vlib.scratch(prop.lower() + "-")
    try:
        binary, _ = vlib.go_build("./cmd/core", "core")
        if replay_path:
            case = json.load(open(replay_path))["case"]
            cases = [{"id": 0, "cfg": case["cfg"], "sched": case["sched"], "label": "replay"}]
            if case["cfg"].get("daemon", {}).get("monMs", 0) > 0:     # a daemon-mode replay is judged by DaemonObs only
                corelib.daemon_run(rep, binary, wd, cases, prop)
                return rep.finish()
        else:
            for ent in plan["mc"] + (plan.get("mc_thorough", []) if tier == "thorough" else []):
                module, cfgname, what = ent if len(ent) == 3 else ("Core", ent[0], ent[1])
                r = vlib.run_tlc(module, cfgname, wd, workers=vlib.NCPU, timeout=7000)
                vlib.tlc_expect_ok(r, cfgname)
                rep.add_tlc(cfgname, r, what)
                if r.violated:
                    rep.notes.append("design-level counterexample in %s.tla (%s): %s - reported only if reproduced on the real code" % (module, cfgname, r.violated))
                elif what.startswith("NEGATIVE CONTROL"):
                    raise vlib.MachineryError("negative control %s found no counterexample: the model no longer reaches the defect it was written down for" % cfgname)
                for f in os.listdir(wd):
                    if "_TTrace_" in f:
                        os.unlink(os.path.join(wd, f))
            rep.cov["exhaustive"] = True
            cases = build_cases(plan, tier, seed, wd, rep)
        by_id = {c["id"]: c for c in cases}
        import time as _t
        _t0 = _t.time()
        rep.cov["phase_s"] = {"mc_and_schedules": round(_t0 - rep.t0, 1)}
        out, info = corelib.run_cases(binary, wd, "cases", [{k: c[k] for k in ("id", "cfg", "sched")} for c in cases])
        rep.cov["phase_s"]["replay_on_real_code"] = round(_t.time() - _t0, 1)
        _t1 = _t.time()
        events, verdicts, hazards = corelib.judge(rep, wd, out, plan["invariants"], prop)
        rep.cov["phase_s"]["judge"] = round(_t.time() - _t1, 1)
        if prop == "C01" and not replay_path:
            corelib.environment_conformance(rep, wd, seed, files=3 if tier == "quick" else 12)
        if prop in ("C01", "C04") and not replay_path:
            _t2 = _t.time()
            corelib.conformance(rep, wd, out, prop)
            rep.cov["phase_s"]["conformance"] = round(_t.time() - _t2, 1)
        rep.cov["traces_validated_against_impl"] = len(events)
        rep.cov["evaluations"] = len(events)
        if prop in ("C01", "C02", "C04", "C14") and not replay_path:
            # daemon mode: the same clauses with the Store's own monitors running (nothing gated), judged by DaemonObs.tla
            _t3 = _t.time()
            # (run-time loss of local level-0 files - corelib.daemon_cases(loss=True) - is NOT part of any registered check: see DESIGN.md section 0)
            dcases = corelib.daemon_cases(seed + {"C01": 1, "C02": 2, "C04": 4, "C14": 14}[prop], 10 if tier == "quick" else 120, first_id=len(cases),
                                          faults="none", loss=False, store_ops=(tier == "thorough"))
            corelib.daemon_run(rep, binary, wd, dcases, prop)
            rep.cov["traces_validated_against_impl"] += len(dcases)
            rep.cov["phase_s"]["daemon_mode"] = round(_t.time() - _t3, 1)
        nontriv = 0
        for t, evs in events.items():
            acks = sum(1 for e in evs if e["ack"])
            app = sum(1 for e in evs if e["op"].startswith("App") and e["res"] == "ok")
            if prop == "C04":
                ok = any(e["op"] in ("LsClose", "LsReset", "MetaLost", "ReplaceDb") for e in evs) and acks > 0
            elif prop == "C02":
                ok = any(len(e["audit"]) >= 3 for e in evs)
            else:
                ok = acks > 0 and app > 0
            nontriv += 1 if ok else 0
            panics = [e for e in evs if e["op"] == "Panic"]
            if panics:
                rep.notes.append("driver panic in trace %d: %s" % (t, panics[0]["res"][:200]))
        rep.cov["distinct_nontrivial"] = nontriv
        rep.cov["rule"] = ("schedules = TLC behaviours of Core.tla (simulate, seeded%s) + seeded random schedules over the full "
                           "operation vocabulary + witness histories of known findings, de-duplicated; non-trivial = %s"
                           % (", + edges of a dumped state graph" if plan.get("dump") else "", plan["nontrivial"]))
        labels = {}
        for c in cases:
            labels[c["label"].split(":")[0]] = labels.get(c["label"].split(":")[0], 0) + 1
        rep.cov["schedule_sources"] = labels
        for c in cases[:2] + [c for c in cases if c["label"] == "random"][:1]:
            evs = events.get(c["id"], [])
            rep.sample({"source": c["label"], "cfg": c["cfg"], "schedule": c["sched"][:25],
                        "observed": [[e["op"], e["res"], e["ack"], e["lpos"], e["rpos"]] for e in evs[:25]]})
        corelib.classify(rep, prop, by_id, events, verdicts, hazards, set(plan["invariants"]), prop)
        return rep.finish()
    finally:
        shutil.rmtree(wd, ignore_errors=True)

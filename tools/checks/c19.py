#!/usr/bin/env python3
"""C19 - legacy 0.3.x backups restore to the right state or fail.

R1  TLC exhaustive: RestoreV3.tla = every small layout (generations x snapshots x WAL indices x segment tilings,
    at most one segment removed, every T, optionally every small current-format replica) as an initial state;
    the transcription of findBestSnapshotV3 / filterWALSegmentsV3 / applyWALSegmentsV3 / shouldUseV3Restore
    (RestoreV3Plan.tla) is checked against the declarative statement.  The number of initial states is
    cross-checked with this runner's own enumeration of the same space.
R2  the same enumerated inputs (quick: seeded samples of the 1-generation, 2-generation and format-arbitration
    spaces + the smallest U1 layout; thorough: those spaces completely or in large samples) + seeded random
    histories with arbitrary (also non frame aligned) split offsets are materialised PHYSICALLY by
    harness/cmd/v3restore on real SQLite histories and restored with the real Replica.Restore / RestoreV3.
R3  RestoreV3Obs.tla judges each real outcome against the declarative statement (verdict) and against the
    transcription (binding, reported as DIVERGENCE).
Finding U1 (input family IsU1 in RestoreV3Plan.tla) is a KNOWN-FINDING only if known_findings.json lists it.
"""
import itertools, json, os, random, shutil, sys, time
from concurrent.futures import ThreadPoolExecutor
sys.path.insert(0, os.path.dirname(os.path.dirname(os.path.abspath(__file__))))
import vlib

PROP = "C19"
VERDICT_NAMES = ("NoSnapshotIsError", "GapIsError", "GapIsError_U1", "RightState", "ArbitrationClear")
U1_WHAT = ("missing first segment of a WAL index unreported when the next segment's offset equals the previous "
           "index's size: restore succeeds with the state at the end of the previous index (replica.go:1293)")


# ---------------------------------------------------------------------------------------------------------
# the input space of RestoreV3.tla, enumerated here (count cross-checked with TLC's initial states)

def gen_shapes(max_idx, max_seg, max_snap, sizes):
    segseqs = [c for n in range(1, max_seg + 1) for c in itertools.product(sizes, repeat=n)]
    out = []
    for n in range(1, max_idx + 1):
        for w in itertools.product(segseqs, repeat=n):
            for k in range(1, max_snap + 1):
                for sn in itertools.combinations(range(n), k):
                    out.append((w, sn))
    return out


def nfiles(g):
    return sum(len(x) for x in g[0]) + len(g[1])


def layouts_of(cfg):
    shapes = gen_shapes(cfg["MaxIdx"], cfg["MaxSeg"], cfg["MaxSnap"], cfg["Sizes"])
    for g in shapes:
        yield ([g], [0])
    if cfg["MaxGen"] >= 2:
        for g1 in shapes:
            for g2 in shapes:
                yield ([g1, g2], [0, 1])
                yield ([g1, g2], [1, 0])


def times_of(n, ltxmode):
    return list(range(0, 2 * n + 3)) if ltxmode else [0, 1] + [2 * k for k in range(1, n + 1)]


def ltx_choices(n, ltxmode):
    if not ltxmode:
        return [None]
    odd = list(range(1, 2 * n + 2, 2))
    out = [((), ())]
    for a in odd:
        out += [((a,), ()), ((a,), (a,))]
    for a, b in itertools.combinations(odd, 2):
        out += [((a, b), ()), ((a, b), (a,)), ((a, b), (b,))]
    return out


def segments_of(gens):
    return [(gi + 1, idx, k) for gi, g in enumerate(gens) for idx, w in enumerate(g[0]) for k in range(len(w))]


def space_size(cfg):
    tot = 0
    for gens, order in layouts_of(cfg):
        n = sum(nfiles(g) for g in gens)
        tot += (len(segments_of(gens)) + 1) * len(times_of(n, cfg["LtxMode"])) * len(ltx_choices(n, cfg["LtxMode"]))
    return tot


def ltx_phys(choice):
    """abstract current-format replica (file ticks, snapshot ticks) -> ticks of the driver's steps l0, snap, l0"""
    if choice is None:
        return None
    files, snaps = choice
    if not files:
        return [0, 0, 0]
    if not snaps:
        return [files[0], 0, files[1] if len(files) > 1 else 0]
    s = snaps[0]
    rest = [f for f in files if f != s]
    if not rest:
        return [0, s, 0]
    return [rest[0], s, 0] if rest[0] < s else [0, s, rest[0]]


def phys_layout(lid, gens, order, ltx=False):
    pg = []
    for w, sn in gens:
        wal = []
        for sizes in w:
            cum, cuts = 0, []
            for z in sizes[:-1]:
                cum += z
                cuts.append("t%d" % cum)
            wal.append({"tx": [1] * sum(sizes), "cuts": cuts})
        pg.append({"wal": wal, "snaps": list(sn)})
    return {"id": lid, "gens": pg, "order": list(order), "ltx": ["l0", "snap", "l0"] if ltx else [], "cases": []}


def model_cases(cfg, rnd, sample=None, direct_p=0.2):
    """driver layouts for (a sample of) the input space of one model configuration"""
    allc = []
    lays = list(layouts_of(cfg))
    for li, (gens, order) in enumerate(lays):
        n = sum(nfiles(g) for g in gens)
        for rm in [None] + segments_of(gens):
            for t in times_of(n, cfg["LtxMode"]):
                for lc in ltx_choices(n, cfg["LtxMode"]):
                    allc.append((li, rm, t, lc))
    total = len(allc)
    if sample is not None and sample < total:
        allc = rnd.sample(allc, sample)
    by = {}
    for li, rm, t, lc in allc:
        by.setdefault(li, []).append((rm, t, lc))
    out = []
    for li in sorted(by):
        gens, order = lays[li]
        lay = phys_layout(0, gens, order, ltx=bool(cfg["LtxMode"]))
        for rm, t, lc in by[li]:
            c = {"rm": list(rm) if rm else [], "T": t, "direct": (not cfg["LtxMode"]) and rnd.random() < direct_p}
            if lc is not None:
                c["ltxts"] = ltx_phys(lc)
            lay["cases"].append(c)
        out.append(lay)
    return out, total


def random_layouts(rnd, count, with_ltx_p=0.25):
    """seeded random histories: transactions of different sizes, cuts at transaction / frame / arbitrary byte
    offsets and (adversarially) at the byte length of the previous index"""
    out = []
    for _ in range(count):
        ng = rnd.choice([1, 1, 2])
        gens = []
        for _g in range(ng):
            ni = rnd.randint(1, 3)
            wal = []
            for _i in range(ni):
                ntx = rnd.randint(1, 4)
                tx = [rnd.choice([1, 1, 1, 2, 3, 6]) for _ in range(ntx)]
                cuts = []
                for _c in range(rnd.randint(0, 2)):
                    kind = rnd.choice("ttffbp")
                    if kind == "t":
                        cuts.append("t%d" % rnd.randint(1, ntx))
                    elif kind == "f":
                        cuts.append("f%d" % rnd.randint(1, 8))
                    elif kind == "b":
                        cuts.append("b%d" % rnd.randint(1, 30000))
                    else:
                        cuts.append("p")
                wal.append({"tx": tx, "cuts": cuts})
            sn = sorted(rnd.sample(range(ni), rnd.randint(1, min(2, ni))))
            gens.append({"wal": wal, "snaps": sn})
        order = list(range(ng))
        rnd.shuffle(order)
        ltx = rnd.random() < with_ltx_p
        lay = {"id": 0, "gens": gens, "order": order, "ltx": ["l0", "l0", "snap", "l0"] if ltx else [], "cases": []}
        # upper bound of the number of files (segments <= cuts + 1)
        nf = sum(len(g["snaps"]) + sum(len(w["cuts"]) + 1 for w in g["wal"]) for g in gens)
        rms = [None] + [(gi + 1, idx, k) for gi, g in enumerate(gens) for idx, w in enumerate(g["wal"])
                        for k in range(len(set(w["cuts"])) + 1)]
        for rm in rms:
            ts = [0] + rnd.sample(range(1, 2 * nf + 2), min(3, 2 * nf))
            for t in ts:
                c = {"rm": list(rm) if rm else [], "T": t, "direct": (not ltx) and rnd.random() < 0.2}
                if ltx:
                    mode = rnd.choice(["after", "after", "inter", "before", "nosnap"])
                    if mode in ("after", "nosnap"):      # the realistic upgrade: every current-format file is newer
                        b = 2 * nf + 1
                        c["ltxts"] = [b, b + 2, b + 4, b + 6]
                        if mode == "nosnap":
                            c["ltxts"][2] = 0
                        c["T"] = rnd.choice([0, t, b + 1, b + 3, b + 5, b + 7])
                    elif mode == "before":
                        c["ltxts"] = [1, 1, 1, 1]
                    else:
                        c["ltxts"] = sorted(rnd.sample(range(1, 2 * nf + 8, 2), 4))
                lay["cases"].append(c)
        out.append(lay)
    return out


# ---------------------------------------------------------------------------------------------------------

def known_u1():
    path = os.environ.get("VERIF_KNOWN_FINDINGS")          # testing aid only: alternative known_findings.json
    if path:
        kf = [f for f in json.load(open(path)).get("findings", [])
              if PROP in (f["property"] if isinstance(f["property"], list) else [f["property"]])]
    else:
        kf = vlib.known_findings(PROP)
    return any(f.get("id") == "U1" and f.get("status") == "known" for f in kf)


def run_model(rep, wd, name, cfgfile, consts, parts=1, timeout=2400):
    """run one MC configuration (sharded by T when parts > 1); returns (initial states, violated invariants)"""
    text = open(os.path.join(vlib.SPEC, cfgfile)).read()

    def one(part):
        sub = os.path.join(wd, "mc-%s-%d" % (name, part))
        os.makedirs(sub, exist_ok=True)
        cfg = text.replace("Parts = 1", "Parts = %d" % parts).replace("Part = 0", "Part = %d" % part)
        r = vlib.run_tlc("RestoreV3", "run.cfg", sub, workers=1 if parts > 1 else 4, timeout=timeout,
                         files={"run.cfg": cfg}, heap="2g")
        shutil.rmtree(sub, ignore_errors=True)
        return r
    with ThreadPoolExecutor(max_workers=min(parts, vlib.NCPU)) as ex:
        rs = list(ex.map(one, range(parts)))
    init, violated = 0, []
    for r in rs:
        vlib.tlc_expect_ok(r, name)
        init += r.distinct
        violated += r.violated
    agg = rs[0]
    agg.distinct, agg.generated = init, sum(r.generated for r in rs)
    agg.wall = max(r.wall for r in rs)
    agg.violated = violated
    agg.ok = all(r.ok for r in rs)
    rep.add_tlc(name, agg, consts + (" (%d shards)" % parts if parts > 1 else ""))
    return init, violated


def judge(rep, wd, records, label):
    """RestoreV3Obs over the records, in parallel chunks; returns {(t, i): [names]}"""
    nchunk = max(1, min(vlib.NCPU, len(records) // 700 + 1))
    chunks = [records[k::nchunk] for k in range(nchunk)]

    def one(k):
        sub = os.path.join(wd, "judge-%s-%d" % (label, k))
        os.makedirs(sub, exist_ok=True)
        with open(os.path.join(sub, "v3restore.ndjson"), "w") as fh:
            for r in chunks[k]:
                fh.write(json.dumps(r) + "\n")
        r = vlib.run_tlc("RestoreV3Obs", "RestoreV3Obs.cfg", sub, workers=1, timeout=1800, heap="2g")
        shutil.rmtree(sub, ignore_errors=True)
        return r
    with ThreadPoolExecutor(max_workers=nchunk) as ex:
        rs = list(ex.map(one, range(nchunk)))
    bad = {}
    for k, r in enumerate(rs):
        vlib.tlc_expect_ok(r, "RestoreV3Obs")
        if not r.ok or r.distinct != len(chunks[k]):
            raise vlib.MachineryError("RestoreV3Obs did not judge every record (%d of %d):\n%s" % (
                r.distinct, len(chunks[k]), r.out[-2000:]))
        for name, l, t, i in vlib.verdicts(r.out):
            bad.setdefault((t, i), []).append(name)
    agg = rs[0]
    agg.distinct, agg.generated = sum(r.distinct for r in rs), sum(r.generated for r in rs)
    agg.wall = max(r.wall for r in rs)
    rep.add_tlc("RestoreV3Obs(%s)" % label, agg, "judge over %d real restores, %d chunks" % (len(records), nchunk))
    return bad


def short(rec):
    return {"snaps": [(s["gen"], s["idx"], s["ts"], s["st"]) for s in rec["snaps"]],
            "segs": [(s["gen"], s["idx"], s["off"], s["size"], s["ts"], s["st"]) for s in rec["segs"]],
            "rm": (rec["rm"]["gen"], rec["rm"]["idx"], rec["rm"]["off"], rec["rm"]["size"]) if rec["rm"]["gen"] else None,
            "T": rec["T"], "ltx": rec["ltx"], "direct": rec["direct"], "res": rec["res"]}


def main():
    tier = "quick"
    args = sys.argv[1:]
    replay_path = None
    while args:
        a = args.pop(0)
        if a == "--tier":
            tier = args.pop(0)
        elif a == "--replay":
            replay_path = args.pop(0)
    tier = os.environ.get("VERIF_TIER", tier)
    seed = vlib.seed()
    rnd = random.Random(seed * 7919 + 19)
    rep = vlib.Report(PROP, tier)
    rep.assumptions = [
        "timestamps follow creation order (snapshot i before the segments of index i, generations do not overlap in time, either "
        "name order); snapshot timestamps pairwise distinct",
        "a removal that no listing can reveal (last segment of an index that is followed by later indices) is outside the claim: "
        "no implementation can report it; such cases are executed and counted (note), the state is not judged",
        "format arbitration is judged only where 'more recent eligible backup' is unambiguous (newest eligible snapshot AND newest "
        "eligible file of the same format are the more recent ones); the strict newest-file reading is evaluated and reported as a note",
        "the current-format restore's own correctness is not judged here (only which format was used)",
        "exhaustive result holds for the stated bounds only",
    ]
    u1_known = known_u1()
    wd = vlib.scratch("c19-")
    try:
        binary, _ = vlib.go_build("./cmd/v3restore", "v3restore")
        cfgs = {
            "g1":  dict(MaxGen=1, MaxIdx=3, MaxSeg=3, MaxSnap=2, Sizes=(1,), LtxMode=0),
            "g1s": dict(MaxGen=1, MaxIdx=2, MaxSeg=3, MaxSnap=2, Sizes=(1, 2), LtxMode=0),
            "g2q": dict(MaxGen=2, MaxIdx=2, MaxSeg=2, MaxSnap=2, Sizes=(1,), LtxMode=0),
            "g2":  dict(MaxGen=2, MaxIdx=3, MaxSeg=3, MaxSnap=2, Sizes=(1,), LtxMode=0),
            "ltx": dict(MaxGen=1, MaxIdx=2, MaxSeg=2, MaxSnap=2, Sizes=(1,), LtxMode=1),
        }
        # ---- R1 exhaustive
        if not replay_path:
            todo = [("g1", 1), ("g2q", 1), ("ltx", 1)] if tier == "quick" else [("g1", 1), ("g1s", 1), ("g2q", 1), ("ltx", 1), ("g2", vlib.NCPU)]
            with ThreadPoolExecutor(max_workers=4) as ex:
                futs = {n: ex.submit(run_model, rep, wd, n, "MC_RestoreV3_%s.cfg" % n, json.dumps(cfgs[n]), p) for n, p in todo}
                fu1 = ex.submit(run_model, rep, wd, "U1", "MC_RestoreV3_U1.cfg", "code as it is, invariant GapIsError without the U1 exemption")
                ffix = ex.submit(run_model, rep, wd, "fix", "MC_RestoreV3_fix.cfg", "FixU1=TRUE (candidate repair), strict invariants")
                for n, p in todo:
                    init, violated = futs[n].result()
                    mine = space_size(cfgs[n])
                    if mine != init:
                        raise vlib.MachineryError("input-space cross-check failed for %s: TLC %d initial states, runner %d" % (n, init, mine))
                    if violated:
                        rep.notes.append("design-level counterexample in RestoreV3.tla (%s): %s - reported only if reproduced on the real code" % (n, violated))
                _, v = fu1.result()
                rep.notes.append("model: transcription of the code as it is %s GapIsError (finding U1 at design level); every other "
                                 "layout of the bounds satisfies it (InvGapIsErrorModU1)" % ("VIOLATES" if "InvGapIsError" in v else "satisfies"))
                _, v = ffix.result()
                rep.notes.append("model: with the candidate repair (segment must belong to the index being assembled) all invariants %s" % (
                    "hold" if not v else "FAIL: %s" % v))
            rep.cov["exhaustive"] = True

        phase = {"model_s": round(time.time() - rep.t0, 1)}
        # ---- R2 inputs
        layouts = []
        spaces = {}
        if replay_path:
            layouts = [json.load(open(replay_path))["case"]["layout"]]
        else:
            if tier == "quick":
                plan = [("g1", 3000), ("g2q", 1000), ("ltx", 800)]
                nrand = 40
            else:
                plan = [("g1", None), ("g1s", 10000), ("g2q", None), ("ltx", 15000), ("g2", 30000)]
                nrand = 1000
            for n, sample in plan:
                if n == "g2":      # too large to list: sample layouts, then all removals x a sample of T
                    shapes = gen_shapes(3, 3, 2, (1,))
                    cnt = 0
                    while cnt < sample:
                        gens = [rnd.choice(shapes), rnd.choice(shapes)]
                        order = rnd.choice([[0, 1], [1, 0]])
                        lay = phys_layout(0, gens, order)
                        nf = sum(nfiles(g) for g in gens)
                        for rm in [None] + segments_of(gens):
                            for t in rnd.sample(times_of(nf, 0), 4):
                                lay["cases"].append({"rm": list(rm) if rm else [], "T": t, "direct": rnd.random() < 0.2})
                        cnt += len(lay["cases"])
                        layouts.append(lay)
                    spaces[n] = {"run": cnt}
                    continue
                ls, total = model_cases(cfgs[n], rnd, sample)
                layouts += ls
                spaces[n] = {"space": total, "run": sum(len(x["cases"]) for x in ls)}
            # anchor: the smallest layout of the U1 input family, every removal x every T
            anchor = phys_layout(0, [(((1,), (1, 1)), (0,))], [0])
            anchor["cases"] = [{"rm": list(rm) if rm else [], "T": t, "direct": False}
                               for rm in [None] + segments_of([(((1,), (1, 1)), (0,))]) for t in times_of(4, 0)]
            layouts.append(anchor)
            rl = random_layouts(rnd, nrand)
            layouts += rl
            spaces["random"] = {"layouts": len(rl), "run": sum(len(x["cases"]) for x in rl)}
        for k, lay in enumerate(layouts):
            lay["id"] = k
        rep.cov["input_spaces"] = spaces
        inp, outp = os.path.join(wd, "in.json"), os.path.join(wd, "out.ndjson")
        with open(inp, "w") as fh:
            json.dump({"seed": seed, "layouts": layouts}, fh)
        work = os.path.join(wd, "work")
        os.makedirs(work)
        p = vlib.run([binary, "-in", inp, "-out", outp, "-work", work, "-par", str(vlib.NCPU)], timeout=3000)
        info = json.loads(p.stdout.strip().splitlines()[-1])
        records = [json.loads(x) for x in open(outp)]
        phase["driver_s"] = round(time.time() - rep.t0 - phase["model_s"], 1)
        ncases = sum(len(x["cases"]) for x in layouts)
        if info["cases"] != ncases or len(records) != ncases:
            raise vlib.MachineryError("driver ran %d of %d cases" % (len(records), ncases))
        byid = {(r["t"], r["i"]): r for r in records}

        # ---- R3 judge
        bad = judge(rep, wd, records, "all")
        phase["judge_s"] = round(time.time() - rep.t0 - phase["model_s"] - phase["driver_s"], 1)
        rep.cov["phase_wall_s"] = phase
        rep.cov["traces_validated_against_impl"] = len(records)
        rep.cov["evaluations"] = len(records)
        counts, examples = {}, {}
        for key, names in sorted(bad.items()):
            rec = byid[key]
            lay = dict(layouts[key[0]])
            lay["cases"] = [layouts[key[0]]["cases"][key[1]]]
            for n in names:
                counts[n] = counts.get(n, 0) + 1
                examples.setdefault(n, short(rec))
            vs = [n for n in names if n in VERDICT_NAMES]
            if not vs:
                continue
            payload = {"layout": lay, "record": rec, "violated": vs}
            if vs == ["GapIsError_U1"] and u1_known:
                rep.known_finding("U1", U1_WHAT)
                continue
            rep.violation("C19 %s violated by the real restore: listing %s, removed %s, T=%s -> %s" % (
                vs, short(rec)["segs"], short(rec)["rm"], rec["T"], rec["res"]), payload)
        rep.cov["verdict_counts"] = counts
        if counts.get("GapIsError_U1"):
            rep.notes.append("U1 on the real code: %d cases; e.g. %s" % (counts["GapIsError_U1"], json.dumps(examples["GapIsError_U1"])[:700]))
        ndiv = sum(v for k, v in counts.items() if k.startswith("Bind_"))
        rep.cov["divergences"] = ndiv
        for k in ("Bind_Plan", "Bind_Format"):
            if counts.get(k):
                rep.notes.append("DIVERGENCE module=RestoreV3Plan %s x%d e.g. %s" % (k, counts[k], json.dumps(examples[k])[:700]))
        if counts.get("Note_HiddenMidLoss"):
            cls = {}
            for key, names in bad.items():
                if "Note_HiddenMidLoss" in names:
                    c = byid[key]["res"]["cls"]
                    cls[c] = cls.get(c, 0) + 1
            rep.notes.append("undetectable removals (last segment of an index followed by later indices), state not judged: %d cases, "
                             "real outcomes %s" % (counts["Note_HiddenMidLoss"], cls))
        if counts.get("Note_ArbitrationNewestFile"):
            rep.notes.append("format arbitration, strict newest-file reading (NOT a verdict): %d cases where the format holding the newest "
                             "eligible file was not used (with a timestamp the code compares snapshots only, replica.go:1437), e.g. %s" % (
                                 counts["Note_ArbitrationNewestFile"], json.dumps(examples["Note_ArbitrationNewestFile"])[:600]))
        # measured coverage
        nontrivial = set()
        outcomes = {}
        for r in records:
            outcomes[r["res"]["cls"]] = outcomes.get(r["res"]["cls"], 0) + 1
            if r["rm"]["gen"] or r["ltx"]["files"] or (r["T"] and any(s["ts"] > r["T"] for s in r["segs"] + r["snaps"])):
                nontrivial.add(json.dumps(short(r), sort_keys=True))
        rep.cov["outcomes"] = outcomes
        rep.cov["distinct_nontrivial"] = len(nontrivial)
        rep.cov["rule"] = ("inputs = initial states of RestoreV3.tla (count cross-checked) materialised on real SQLite histories + seeded "
                           "random splits; non-trivial = distinct real listing x T in which a segment was removed, or T cuts inside the "
                           "history, or a current-format replica coexists")
        for r in records[:3]:
            rep.sample(short(r))
        return rep.finish()
    finally:
        shutil.rmtree(wd, ignore_errors=True)


if __name__ == "__main__":
    vlib.main_wrapper(main)

#!/usr/bin/env python3
"""C10 - Restore fails loudly rather than produce a wrong or partial database.

R1  TLC exhaustive on Restore.tla: (a) the resumable reader (internal/resumable_reader.go) as a state machine against
    a fault environment (error / premature EOF / failing re-open, up to and beyond the retry budget): delivered is
    always a prefix of the file, every re-open asks for the first undelivered byte, outcome = error or whole file;
    (b) the restore output protocol (exists-check, .tmp, fsync, rename, fsync dir, integrity check -> remove) for every
    single-corruption class of a plan file.  The as-is model carries finding X1 (P_NoPanic is violated in the model);
    thorough also runs the negative controls (model-level mutants must violate an invariant).
R2  inputs from the model: read-fault schedules = every edge of the dumped state graph of the reader machine, mapped
    to byte offsets of real plan files; corruption classes = the model's initial states (count cross-checked with TLC),
    refined to byte offsets (quick: every 64th offset + all structural boundaries, thorough: every offset).
R3  harness/cmd/restorefault runs the REAL Replica.Restore on real replicas (SQLite + litestream.NewDB + file client;
    syncs, Snapshot, Compact) with one corruption / one fault schedule per case, in child processes (a panic in
    litestream's goroutine is recorded as outcome "panic"); RestoreObs.tla judges every observed line.
"""
import json, os, random, re, shutil, sys
from concurrent.futures import ThreadPoolExecutor
sys.path.insert(0, os.path.dirname(os.path.dirname(os.path.abspath(__file__))))
import vlib

PROP = "C10"
BUDGET = 3                     # resumableReaderMaxRetries (internal/resumable_reader.go:67), cross-checked below
H3 = ["w", "w", "snap", "w", "w", "c1", "w"]                  # plan: level 9 + level 1 + level 0
HSNAP = ["w", "w", "w", "snap"]                               # plan: one snapshot
HL0 = ["w", "w", "w"]                                         # plan: level-0 files only
HDEEP = ["w", "w", "c1", "w", "w", "c1", "c2", "w", "snap", "w", "c1", "w"]
INVS = ["NoPanic", "NoSilentWrong", "MustFail", "NoFileAfterError", "PreexistingUntouched", "NoOutputBeforeComplete",
        "ResumeExact"]


def replica_specs(tier, seed):
    s = seed * 1000
    specs = [
        {"id": 0, "ps": 512, "seed": s + 11, "steps": H3},
        {"id": 1, "ps": 4096, "seed": s + 12, "steps": H3},
        {"id": 2, "ps": 512, "seed": s + 13, "steps": HSNAP},
        {"id": 3, "ps": 512, "seed": s + 14, "steps": HL0},
    ]
    if tier == "thorough":
        specs.append({"id": 4, "ps": 4096, "seed": s + 15, "steps": HDEEP})
        specs.append({"id": 5, "ps": 1024, "seed": s + 16, "steps": H3})
    return specs


# ----------------------------------------------------------------------------------------------------------------
# offsets

def block_class(pf, off):
    """Model block (Restore.tla Blocks) of a byte offset of a plan file."""
    if off < 100:
        return "hdr"
    if off < pf["pbEnd"]:
        return "page"
    if off < pf["pbEnd"] + 8:
        return "tail8"
    return "tail"


def structural(pf):
    """offset -> name, all structural boundaries of an LTX file (and their neighbours)."""
    size, pb, tr = pf["size"], pf["pbEnd"], pf["trailer"]
    s = {}
    for o, n in ((0, "start"), (1, "hdr"), (4, "hdr-flags"), (99, "hdr-last"), (100, "hdr-end"), (101, "frame0+1")):
        s[o] = n
    ends = pf["frames"][1:] + [pb - 6]
    for f, e in zip(pf["frames"], ends):
        for d, n in ((0, "frame"), (1, "frame+1"), (4, "frame-flags"), (6, "frame-size"), (10, "frame-data")):
            s.setdefault(f + d, n)
        s.setdefault(e - 1, "frame-last")
    s[pb - 6] = "zero-hdr"
    s[pb - 1] = "zero-hdr-last"
    for d in range(0, 9):
        s[pb + d] = "index+%d" % d
    s[tr - 8] = "index-size"
    s[tr - 1] = "index-last"
    s[tr] = "trailer"
    s[tr + 8] = "file-checksum"
    s[size - 1] = "last"
    return {o: n for o, n in s.items() if 0 <= o < size}


def x1_window(pf, off):
    """Finding X1: a truncation that leaves 0..7 bytes after the page block."""
    return pf["pbEnd"] <= off <= pf["pbEnd"] + 7


# ----------------------------------------------------------------------------------------------------------------
# cases

def schedule_to_faults(sched, bnd, rnd):
    """A behaviour of the reader machine (Restore.tla) -> the fault list for the wrapping client.
    bnd[q] = byte offset standing for block position q (bnd[0] = 0, bnd[B] = size)."""
    B = len(bnd) - 1
    delivered, pos, faults, ended = 0, 0, [], False
    for st in sched:
        a = st[0]
        if a == "OpenOK":
            pos = delivered
        elif a == "OpenFail":
            faults.append({"at": 0, "kind": "open", "with": False})
        elif a == "OpenNotExist":
            faults.append({"at": 0, "kind": "gone", "with": False})
            ended = True
        elif a == "ReadData":
            pos += 1
            delivered += 1
        elif a in ("ReadErr", "ReadEOF"):
            n = st[1]
            if a == "ReadEOF" and pos + n == B:
                delivered += n
                ended = True
                continue
            faults.append({"at": bnd[pos + n], "kind": "err" if a == "ReadErr" else "eof", "with": n == 1})
            delivered += n
    return faults


def expected_for_faults(faults):
    if any(f["kind"] == "gone" for f in faults):
        return "error"
    return "ok" if len(faults) <= BUDGET else "error"


def enumerate_cases(meta, tier, seed, scheds):
    rnd = random.Random(seed)
    cases = []

    def add(rep, kind, file=-1, off=0, mask=0, integ=0, pre=False, faults=None, exp="any", cls="", solo=False, var=0):
        cases.append({"id": len(cases), "rep": rep, "kind": kind, "var": var, "file": file, "off": off, "mask": mask,
                      "integ": integ, "pre": pre, "faults": faults or [], "exp": exp, "cls": cls, "solo": solo})

    masks = [0xFF, 0x01, 0x80, 0x10]
    mask = masks[seed % 4]
    for r in meta["replicas"]:
        rid, plan = r["id"], r["plan"]
        # --- no corruption, integrity modes, pre-existing output
        for integ in (0, 1, 2):
            add(rid, "intact", integ=integ, exp="ok", cls="intact")
            add(rid, "intact", integ=integ, pre=True, exp="error", cls="exists")
            add(rid, "intact", integ=integ, pre=True, exp="error", cls="exists", var=1)   # the existing output is a zero-length file
        # corrupted-but-decodable family (every LTX integrity tag valid): damaged page in {page 1 = schema root: the
        # PRAGMA itself fails, root of t, a leaf of t, last page, two pages of the snapshot file} x damage style
        # {garbage, zero, wrong cell pointers, 0xFF b-tree header} x IntegrityCheck {None, Quick, Full}
        for k, ri in enumerate(r["reencs"]):
            if not ri["ok"]:
                continue
            for integ in (0, 1, 2):
                bad = (integ == 1 and ri["badQuick"]) or (integ == 2 and ri["badFull"])
                add(rid, "reenc", var=k, file=ri["file"], integ=integ, exp="error" if bad else "ok",
                    cls="tagok:%s:%s%s" % (ri["label"], ri["style"], ":pragmafails" if ri["pragmaFails"] else ""))
        for fi, pf in enumerate(plan):
            size = pf["size"]
            st = structural(pf)
            add(rid, "delete", file=fi, exp="ok" if r["del"][fi]["planOK"] else "error", cls="delete")
            add(rid, "missing", file=fi, exp="error", cls="missing")
            add(rid, "missing", file=fi, integ=1, exp="error", cls="missing")
            # --- truncation / flip offsets
            every = tier == "thorough" and (size <= 6000)
            if every:
                offs = set(range(size))
            else:
                step = 64 if tier == "quick" else 8
                offs = set(range(seed % step, size, step)) | set(st)
            # The top byte of a page's size prefix (frame + 6): a flip there makes ltx allocate up to 4 GiB.  Masks >= 0x04
            # run in a child process of their own (tcase.Solo in the driver); quick tier does that for three frames per
            # file and flips the third size byte of the others.
            top = set(f + 6 for f in pf["frames"])
            fr = pf["frames"]
            solo_ok = top if tier == "thorough" else set(f + 6 for f in (fr[0], fr[len(fr) // 2], fr[-1]))

            def flip(o, mk, cls):
                if o in top and o not in solo_ok:
                    o += 2                  # quick tier: third byte of the size prefix instead (a few KiB, not MiB..GiB)
                add(rid, "flip", file=fi, off=o, mask=mk, exp="any", cls=cls, solo=(o in top and mk >= 4))

            for o in sorted(offs):
                cls = block_class(pf, o)
                add(rid, "trunc", file=fi, off=o, exp="error", cls=cls + ":" + st.get(o, "x"))
                flip(o, mask, cls + ":" + st.get(o, "x"))
                if o in st:
                    flip(o, masks[(seed + 1) % 4], cls + ":" + st[o])
            # corruption + existing output / + integrity check: the error paths must not disturb either
            for o in (50, 100, pf["frames"][0] + 10, pf["pbEnd"] + 8, size - 1):
                if o < size:
                    add(rid, "trunc", file=fi, off=o, pre=True, exp="error", cls="exists")
                    add(rid, "flip", file=fi, off=o, mask=0xFF, integ=1, exp="any", cls=block_class(pf, o) + ":integ")
        # --- read faults
        if rid > 1 and tier == "quick":
            continue
        for fi, pf in enumerate(plan):
            size, fr = pf["size"], pf["frames"]
            mid = fr[len(fr) // 2]
            classes = [("start", 0), ("hdr", 37), ("hdr-end", 100), ("frame", mid), ("frame-size", mid + 6),
                       ("frame-data", mid + 40), ("zero-hdr", pf["pbEnd"] - 6), ("index", pf["pbEnd"]),
                       ("index+3", pf["pbEnd"] + 3), ("trailer", pf["trailer"]), ("last", size - 1)]
            for name, o in classes:
                for kind in ("err", "eof"):
                    for k in (1, 2, BUDGET, BUDGET + 2):
                        w = rnd.random() < 0.5 and o > 0
                        fl = [{"at": o, "kind": kind, "with": w}] + [{"at": o, "kind": kind, "with": False}] * (k - 1)
                        add(rid, "readfault", file=fi, off=o, faults=fl, exp=expected_for_faults(fl), cls="rf:" + name)
            # k faults at increasing offsets, all with data
            incr = [100, mid, mid + 40, pf["pbEnd"], size - 1]
            for k in (2, BUDGET, BUDGET + 1):
                fl = [{"at": o, "kind": "err" if i % 2 == 0 else "eof", "with": True} for i, o in enumerate(incr[:k])]
                add(rid, "readfault", file=fi, off=incr[0], faults=fl, exp=expected_for_faults(fl), cls="rf:incr")
            # the file disappears between two attempts (os.ErrNotExist on the re-open: no retry, resumable_reader.go:85)
            for first in ({"at": mid, "kind": "err", "with": True}, {"at": 100, "kind": "eof", "with": False}):
                fl = [first, {"at": 0, "kind": "gone", "with": False}]
                add(rid, "readfault", file=fi, off=first["at"], faults=fl, exp="error", cls="rf:gone")
            # behaviours of the reader machine (every edge of its state graph)
            for sc in scheds:
                b1 = rnd.choice([37, 100, fr[0] + 3, mid, mid + 6, mid + 40])
                b2 = rnd.choice([pf["pbEnd"] - 6, pf["pbEnd"], pf["pbEnd"] + 3, pf["trailer"], size - 8, size - 1])
                fl = schedule_to_faults(sc, [0, b1, b2, size], rnd)
                if fl:
                    add(rid, "readfault", file=fi, off=fl[0]["at"], faults=fl, exp=expected_for_faults(fl), cls="rf:model")
            if tier == "thorough" and size <= 2600:
                for o in range(0, size):
                    for kind in ("err", "eof"):
                        fl = [{"at": o, "kind": kind, "with": o % 2 == 1}]
                        add(rid, "readfault", file=fi, off=o, faults=fl, exp="ok", cls="rf:every")
                    if o % 16 == seed % 16:
                        fl = [{"at": o, "kind": "err", "with": False}] * (BUDGET + 1)
                        add(rid, "readfault", file=fi, off=o, faults=fl, exp="error", cls="rf:every")
    # identical read-fault cases (the model schedules repeat fault lists) are run once
    seen, out = set(), []
    for c in cases:
        k = json.dumps([c[x] for x in ("rep", "kind", "var", "file", "off", "mask", "integ", "pre", "faults")])
        if k in seen:
            continue
        seen.add(k)
        c["id"] = len(out)
        out.append(c)
    return out


def model_class_count(F, PB, collisions=True):
    blocks = PB + 3
    return (1 + F + F * blocks + F * blocks * (2 if collisions else 1)) * 12      # x pre x integ x sqliteSees


# ----------------------------------------------------------------------------------------------------------------

def load_known():
    path = os.environ.get("VERIF_KNOWN_FINDINGS")
    if path:
        with open(path) as fh:
            kf = json.load(fh)
        res = []
        for f in kf.get("findings", []):
            props = f["property"] if isinstance(f["property"], list) else [f["property"]]
            if PROP in props:
                res.append(f)
        return res
    return vlib.known_findings(PROP)


def is_x1(o, meta_by_id):
    """Predicate X1: the plan file is truncated so that 0..7 bytes remain after its page block and the process dies
    with `slice bounds out of range` in ltx.(*Decoder).Close (decoder.go:90: remainingBytes[:len-8])."""
    if o["res"] != "panic" or o["kind"] != "trunc":
        return False
    pf = meta_by_id[o["rep"]]["plan"][o["file"]]
    return x1_window(pf, o["off"]) and "slice bounds out of range" in o["msg"]


def judge_chunk(args):
    wd, k, lines = args
    sub = os.path.join(wd, "judge%d" % k)
    os.makedirs(sub, exist_ok=True)
    with open(os.path.join(sub, "restore_obs.ndjson"), "w") as fh:
        fh.write("".join(lines))
    r = vlib.run_tlc("RestoreObs", "RestoreObs.cfg", sub, workers=1, timeout=1500, heap="2g")
    shutil.rmtree(sub, ignore_errors=True)
    return k, r


def tlc_in(wd, name, module, cfg, **kw):
    sub = os.path.join(wd, "tlc-" + name)
    os.makedirs(sub, exist_ok=True)
    r = vlib.run_tlc(module, cfg, sub, **kw)
    return name, r, sub


def main():
    tier = "quick"
    args = sys.argv[1:]
    replay_path = None
    while args:
        a = args.pop(0)
        if a == "--tier":
            tier = args.pop(0)
        elif a == "--replay":
            replay_path = args.pop(0)
    tier = os.environ.get("VERIF_TIER", tier)
    seed = vlib.seed()
    rep = vlib.Report(PROP, tier)
    rep.assumptions = [
        "reference = what the REAL Replica.Restore produces from the intact replica (anchored: it equals the source database page by page, checked at build time)",
        "file replica client; read faults are injected by a wrapping litestream.ReplicaClient (error / premature EOF at a byte offset, with or without the last chunk of data; failing re-open)",
        "single corruption per case; CRC-64 collisions are not searched for (Restore.tla: Collisions only through a re-encoded, fully valid input)",
        "deleting a plan file from the directory may leave another valid plan: then the output must equal the intact replica's restore at the TXID that plan ends at",
        "exhaustive model results hold for the stated constants only",
    ]
    wd = vlib.scratch("c10-")
    try:
        binary, _ = vlib.go_build("./cmd/restorefault", "restorefault")
        src = open(os.path.join(vlib.REPO, "internal", "resumable_reader.go")).read()
        m = re.search(r"resumableReaderMaxRetries\s*=\s*(\d+)", src)
        if m and int(m.group(1)) != BUDGET:
            rep.notes.append("resumableReaderMaxRetries = %s in the tree, the model uses %d" % (m.group(1), BUDGET))

        # ---- R1 (runs concurrently with the replica build)
        pool = ThreadPoolExecutor(max_workers=6)
        jobs = [("MC_Restore_reader", "B=3 MaxRetries=3 MaxFaults=5"),
                ("MC_Restore_proto", "F=3 PB=2 Collisions X1Fixed")]
        if tier == "thorough":
            jobs += [("MC_Restore_reader5", "B=5 MaxFaults=6"), ("MC_Restore_proto5", "F=5 PB=4"),
                     ("MC_Restore_reader_noadvance", "negative control"), ("MC_Restore_reader_resume0", "negative control"),
                     ("MC_Restore_proto_nocheck", "negative control"), ("MC_Restore_proto_keepbad", "negative control"),
                     ("MC_Restore_proto_direct", "negative control"), ("MC_Restore_proto_sentinel", "negative control"),
                     ("MC_Restore_proto_asis", "negative control: the code before the X1 fix (7443bc1)")]
        futs = [pool.submit(tlc_in, wd, n, "Restore", n + ".cfg", workers=2, timeout=900) for n, _ in jobs]
        dot = os.path.join(wd, "g.dot")
        fdump = pool.submit(tlc_in, wd, "dump", "Restore", "Dump_Restore_reader.cfg", workers=1, timeout=900,
                            extra=["-dump", "dot,actionlabels", dot])

        # ---- replicas
        if replay_path:
            payload = json.load(open(replay_path))["case"]
            specs = payload["replicas"]
        else:
            specs = replica_specs(tier, seed)
        work = os.path.join(wd, "work")
        os.makedirs(work)
        with open(os.path.join(wd, "spec.json"), "w") as fh:
            json.dump({"replicas": specs}, fh)
        vlib.run([binary, "-mode", "build", "-spec", os.path.join(wd, "spec.json"), "-work", work], timeout=600)
        meta = json.load(open(os.path.join(work, "meta.json")))
        by_id = {r["id"]: r for r in meta["replicas"]}
        for r in meta["replicas"]:
            if not r["anchored"]:
                rep.notes.append("replica %d: intact restore differs from the source database (C01's business, reference kept)" % r["id"])
            for ri in r["reencs"]:
                if not ri["ok"]:
                    rep.notes.append("replica %d: corrupted-but-decodable input %s/%s not usable (%s)" % (r["id"], ri["label"], ri["style"], ri["note"]))
            if not any(ri["ok"] and ri["pragmaFails"] for ri in r["reencs"]) or not any(ri["ok"] and ri["badQuick"] and not ri["pragmaFails"] for ri in r["reencs"]):
                rep.notes.append("replica %d: the corrupted-but-decodable family lacks a 'PRAGMA fails' or a 'PRAGMA answers rows' member" % r["id"])
        rep.cov["replicas"] = [{"id": r["id"], "ps": r["ps"], "steps": "".join(s[0] if s == "w" else "[" + s + "]" for s in r["steps"]),
                                "plan": [[p["level"], p["min"], p["max"], p["size"]] for p in r["plan"]]} for r in meta["replicas"]]

        # ---- R2
        _, rd, _ = fdump.result()
        vlib.tlc_expect_ok(rd, "Dump_Restore_reader")
        scheds, ginfo = vlib.dot_schedules(dot, cover="edges")
        os.unlink(dot)
        rep.cov["graph"] = ginfo
        if replay_path:
            cases = [dict(payload["descriptor"], id=0)]
        else:
            cases = enumerate_cases(meta, tier, seed, scheds)
        with open(os.path.join(wd, "cases.json"), "w") as fh:
            json.dump(cases, fh)

        # ---- R3 driver
        obs_path = os.path.join(wd, "obs.ndjson")
        p = vlib.run([binary, "-mode", "run", "-meta", os.path.join(work, "meta.json"), "-in", os.path.join(wd, "cases.json"),
                      "-out", obs_path, "-p", str(max(4, vlib.NCPU)), "-batch", "120"], timeout=2400)
        info = json.loads(p.stdout.strip().splitlines()[-1])
        lines = open(obs_path).readlines()
        obs = [json.loads(x) for x in lines]
        if len(obs) != len(cases):
            raise vlib.MachineryError("driver returned %d observations for %d cases" % (len(obs), len(cases)))
        mach = [o for o in obs if o["res"] not in ("ok", "error", "panic")]
        if mach:
            raise vlib.MachineryError("driver could not prepare %d cases: %s" % (len(mach), mach[0]["msg"]))

        # ---- R1 results
        model_violations = []
        for (n, consts), f in zip(jobs, futs):
            _, r, _ = f.result()
            vlib.tlc_expect_ok(r, n)
            rep.add_tlc(n, r, consts)
            if any(x in n for x in ("noadvance", "resume0", "nocheck", "keepbad", "direct", "sentinel", "proto_asis")):
                rep.cov.setdefault("negative_controls", {})[n] = r.violated
                if not r.violated:
                    rep.notes.append("negative control %s violated nothing: the model invariants are too weak" % n)
            elif r.violated:
                model_violations += [(n, v) for v in r.violated]
            if n == "MC_Restore_proto":
                mi = re.search(r"Finished computing initial states: (\d+) distinct", r.out)
                want = model_class_count(3, 2)
                rep.cov["model_initial_states"] = {"tlc": int(mi.group(1)) if mi else None, "enumerated": want}
                if not mi or int(mi.group(1)) != want:
                    rep.notes.append("corruption-class count differs: TLC %s vs runner %d" % (mi.group(1) if mi else "?", want))
        pool.shutdown()
        rep.cov["exhaustive"] = True
        if model_violations:
            rep.notes.append("design-level counterexample in Restore.tla: %s (reported only if reproduced on the real code)" % model_violations)

        # ---- judge
        CH = 3000
        chunks = [(wd, k, lines[i:i + CH]) for k, i in enumerate(range(0, len(lines), CH))]
        bad = {}
        with ThreadPoolExecutor(max_workers=min(8, max(1, vlib.NCPU // 2))) as jp:
            for k, r in jp.map(judge_chunk, chunks):
                vlib.tlc_expect_ok(r, "RestoreObs")
                if not r.ok:
                    raise vlib.MachineryError("RestoreObs did not complete:\n%s" % r.out[-2000:])
                if r.distinct != len(chunks[k][2]):
                    raise vlib.MachineryError("RestoreObs judged %d of %d lines" % (r.distinct, len(chunks[k][2])))
                rep.add_tlc("RestoreObs#%d" % k, r, "judge over %d observed restores" % len(chunks[k][2]))
                for name, l, t, i in vlib.verdicts(r.out):
                    bad.setdefault(t, []).append(name)
        rep.cov["tlc_runs"] = rep.cov["tlc_runs"][:14]
        rep.cov["traces_validated_against_impl"] = len(obs)
        rep.cov["evaluations"] = len(obs) * len(INVS)

        # ---- verdicts
        known = [f for f in load_known() if f.get("status") == "known" and f.get("signature") == "X1"]
        spec_by_id = {s["id"]: s for s in specs}
        n_x1, n_viol = 0, 0
        x1_example = None
        for t in sorted(bad):
            o, c = obs[t], cases[t]
            names = sorted(set(bad[t]))
            if names == ["NoPanic"] and is_x1(o, by_id):
                n_x1 += 1
                if x1_example is None:
                    pf = by_id[o["rep"]]["plan"][o["file"]]
                    x1_example = "replica ps=%d steps=%s: file L%d %d-%d (%d bytes, page block ends at %d) truncated to %d bytes -> %s" % (
                        by_id[o["rep"]]["ps"], "".join(by_id[o["rep"]]["steps"]), pf["level"], pf["min"], pf["max"], pf["size"],
                        pf["pbEnd"], o["off"], o["msg"])
                if known:
                    rep.known_finding(known[0]["id"], known[0].get("what", "X1"))
                    continue
            n_viol += 1
            rep.violation("restore invariant(s) %s violated by the real Replica.Restore: %s file=%d off=%d mask=%d integ=%d pre=%s faults=%s -> res=%s (%s) outExists=%s sideLeft=%s [%s]" % (
                names, o["kind"], o["file"], o["off"], o["mask"], o["integ"], o["pre"], json.dumps(c["faults"])[:200],
                o["res"], o["msg"][:120], o["outExists"], o["sideLeft"], c["cls"]),
                {"replicas": [spec_by_id[o["rep"]]], "descriptor": c, "violated": names, "observed": o})
        rep.cov["x1_cases"] = n_x1
        if x1_example:
            rep.notes.append("X1 reproduced in %d cases, e.g. %s" % (n_x1, x1_example))

        # ---- binding (model prediction vs real outcome), coverage
        div, harmless, tmp_left, short_sleep, nontrivial = [], 0, 0, 0, set()
        by_kind, err_classes, classes_hit, reenc_stats = {}, {}, set(), {}
        for o, c in zip(obs, cases):
            by_kind[o["kind"]] = by_kind.get(o["kind"], 0) + 1
            if o["res"] == "error":
                err_classes[o["errc"]] = err_classes.get(o["errc"], 0) + 1
            if o["kind"] in ("trunc", "flip"):
                classes_hit.add((o["kind"], c["cls"].split(":")[0]))
            else:
                classes_hit.add((o["kind"], ""))
            if o["res"] == "panic" and is_x1(o, by_id):
                continue
            if o["exp"] != "any" and o["res"] != o["exp"]:
                div.append(o)
            if o["kind"] == "flip" and o["res"] == "ok":
                harmless += 1
            if o["kind"] == "reenc":
                ri = by_id[o["rep"]]["reencs"][o["var"]]
                key = "%s/%s integ=%d -> %s%s" % (ri["label"], "pragma-fails" if ri["pragmaFails"] else ("rows" if ri["badQuick"] else "clean"),
                                                  o["integ"], o["res"], "" if o["detectable"] else " (not detectable)")
                reenc_stats[key] = reenc_stats.get(key, 0) + 1
            # R_BackoffLaw: k retries sleep 250 ms * (2^min(k, budget) - 1) in total (resumable_reader.go:177)
            if o["kind"] == "readfault" and not any(f["kind"] == "gone" for f in c["faults"]):
                if o["ms"] < 250 * (2 ** min(o["nf"], BUDGET) - 1) - 5:
                    short_sleep += 1
            if o["res"] in ("ok", "error") and o["tmpExists"]:
                tmp_left += 1
            reopened = len(o["opens"]) > len(set(x[0] for x in o["opens"]))
            if (o["res"] == "error" and o["kind"] != "intact") or (o["res"] == "ok" and reopened) or o["res"] == "panic":
                nontrivial.add((o["rep"], o["kind"], o["var"], o["file"], o["off"], o["mask"], o["integ"], o["pre"], json.dumps(c["faults"])))
        for o in div[:5]:
            rep.notes.append("DIVERGENCE module=Restore case=%s" % json.dumps({k: o[k] for k in ("rep", "kind", "file", "off", "mask", "integ", "pre", "nf", "exp", "res", "errc", "msg")})[:500])
        if tmp_left:
            rep.notes.append("DIVERGENCE module=Restore: %d restores returned with <output>.tmp still present" % tmp_left)
        if short_sleep:
            rep.notes.append("DIVERGENCE module=Restore: %d read-fault restores returned sooner than the model's back-off law allows" % short_sleep)
        want_classes = {("intact", ""), ("missing", ""), ("delete", ""), ("readfault", "")} | \
                       {(k, b) for k in ("trunc", "flip") for b in ("hdr", "page", "tail8", "tail")}
        if not replay_path and not want_classes <= classes_hit:
            rep.notes.append("model corruption classes without a real case: %s" % sorted(want_classes - classes_hit))
        rep.cov["divergences"] = len(div) + (1 if tmp_left else 0) + (1 if short_sleep else 0)
        rep.cov["cases_by_kind"] = by_kind
        rep.cov["error_classes"] = err_classes
        rep.cov["panics"] = info.get("crashes", 0)
        rep.cov["flips_without_effect_on_output"] = harmless
        rep.cov["valid_ltx_damaged_database"] = reenc_stats
        rep.cov["distinct_nontrivial"] = len(nontrivial)
        rep.cov["rule"] = ("one case = one real Replica.Restore of a real replica with one corruption (delete / missing at open / "
                           "truncate at o / flip byte o / a valid LTX re-encoding with damaged database page(s), 5 page choices x 4 styles x 3 integrity modes) or one read-fault schedule (reader-model "
                           "behaviours + per offset class k in {1,2,budget,budget+2}); non-trivial = the restore had to detect the "
                           "corruption (error outcome), resumed a stream at least once and still succeeded, or crashed")
        for o in obs:
            if o["kind"] == "readfault" and o["res"] == "ok" and len(o["opens"]) > 3:
                rep.sample({k: o[k] for k in ("rep", "kind", "file", "off", "nf", "res", "opens", "ms")})
                break
        for kind in ("trunc", "flip", "reenc"):
            for o in obs:
                if o["kind"] == kind and o["res"] == "error":
                    rep.sample({k: o[k] for k in ("rep", "kind", "file", "off", "mask", "integ", "res", "errc", "outExists", "tmpExists")})
                    break
        return rep.finish()
    finally:
        shutil.rmtree(wd, ignore_errors=True)


if __name__ == "__main__":
    vlib.main_wrapper(main)

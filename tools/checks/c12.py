#!/usr/bin/env python3
"""C12 - concurrent daemon operations are race-free, deadlock-free and keep C01/C02.

R1  Concurrency.tla: all interleavings of {SyncDB, SyncDB(wait), DisableDB, EnableDB, Snapshot} at hook granularity:
    LocksFree, NoDeadlock, NoLeakAfterClose (modulo the shape of known finding Z1).
R2  interleavings = TLC behaviours projected onto process names (simulate, seeded) + seeded random orders over the
    full operation set (sync, upload, checkpoint, snapshot, compaction, retention, status, register/unregister,
    enable/disable, close, application writes/checkpoints).
R3  each interleaving is executed by REAL goroutines against one Store, every goroutine parked at every verif hook and
    advanced exactly as the schedule says (harness/core/par.go); a watchdog turns a call that never returns into a
    verdict; afterwards the C01/C02/C06 oracles run.  CoreObs.tla judges C12_* (+ C01, C02, snapshot = position).
    The data-race clause is decided by the Go race detector on the same replays and on free-running stress (not by
    TLA+; see DESIGN.md section 10).
R3' daemon mode: the real Store with ALL its monitors running on short intervals (DB.monitor, Replica.monitor, compaction
    monitors, snapshot monitor + retention cascade, level-0 retention, validation) next to a live application writer and
    acknowledged Store.SyncDB(wait) requests; nothing is gated.  DaemonObs.tla judges what is sound to observe next to
    running monitors: acknowledged => restore equals source, Close returns and leaks nothing, and - after Close - every
    TXID left on the replica restores to a committed state in order, levels contiguous, a snapshot kept.
"""
import json, os, random, re, shutil, subprocess, sys, time
sys.path.insert(0, os.path.dirname(os.path.abspath(__file__)))
sys.path.insert(0, os.path.dirname(os.path.dirname(os.path.abspath(__file__))))
import vlib, corelib

PROP = "C12"
INV = ["C12_AllCallsReturn", "C12_NoLeakAfterClose", "C12_SingleInstance", "C12_SourceNotPinned", "C12_NoLeakedLock",
       "C01_RestoreEqualsSource", "C02_EveryTxidIsACommittedState", "C06_CompactedEqualsInputs", "C04_AckMeansReplicaAtLocalPos",
       "N_ReadLockWhileOpen"]
MODEL_OPS = {"syncdb": ["syncdb"], "syncdb2": ["syncwait"], "disable": ["disable"], "enable": ["enable"], "snap": ["snapshot"],
             "compact": ["compact", 1]}
ALL_OPS = [["syncdb"], ["syncwait"], ["disable"], ["enable"], ["snapshot"], ["checkpoint", "PASSIVE"], ["checkpoint", "TRUNCATE"],
           ["compact", 1], ["replicasync"], ["status"], ["l0retention"], ["register"], ["unregister"], ["dbsync"], ["dbclose"],
           ["appwrite", 1], ["appwrite", 2], ["appgrow"], ["appcheckpoint", "PASSIVE"]]

PREFIX = [["LsOpen", "new"], ["AppWrite", 2], ["LsSyncAndWait"], ["AppWrite", 3]]
SUFFIX = [["LsOpen", "same"], ["AppWrite", 4], ["LsSyncAndWait"], ["AuditNow"], ["LsClose"],
          ["AppCheckpoint", "TRUNCATE"]]


def concurrency_conformance(rep, wd, cases, events):
    """Trace validation (Trace_Concurrency.tla): the hook events recorded from the real goroutines of the blocks whose processes are
    the model's must be a behaviour of Concurrency.tla. A rejected trace is a DIVERGENCE note; it is dropped and the rest is re-run."""
    model_ops = {k: v for k, v in MODEL_OPS.items()}
    traces = {}
    for c in cases:
        if c["label"] != "sim":
            continue
        blk = [st for st in c["sched"] if st[0] == "Par"][0][1]
        if any(model_ops.get(p) != op for p, op in blk["procs"].items()):
            continue
        lines = [{"t": c["id"], "p": "", "kind": "reset", "hook": "", "open": True, "bind": False}]
        for e in events.get(c["id"], []):
            if e["op"] == "ParEnd":
                break
            if e["op"] != "ParStep":
                continue
            proc, what = e["arg"].split(":", 1)
            if what == "free":
                break           # from here on the goroutines ran freely: the order of the lines is not the order of the events
            kind = what if what in ("at", "done") else "other"
            lines.append({"t": c["id"], "p": proc, "kind": kind, "hook": e["res"] if kind == "at" else "", "open": bool(e["open"]),
                          "bind": not e.get("flagsStale", False)})
        if len(lines) > 2:
            traces[c["id"]] = lines
    accepted, rejected, nlines = 0, [], 0
    todo = dict(traces)
    for _ in range(6):
        if not todo:
            break
        order = sorted(todo)
        flat = [x for t in order for x in todo[t]]
        with open(os.path.join(wd, "conc_trace.ndjson"), "w") as fh:
            for x in flat:
                fh.write(json.dumps(x) + "\n")
        r = vlib.run_tlc("Trace_Concurrency", "Trace_Concurrency.cfg", wd, workers=1, timeout=1200)
        vlib.tlc_expect_ok(r, "Trace_Concurrency")
        rep.add_tlc("Trace_Concurrency", r, "%d hook lines of %d real traces" % (len(flat), len(order)))
        m = re.search(r'<<"HWM", (\d+), (\d+)>>', r.out)
        if not m:
            raise vlib.MachineryError("Trace_Concurrency printed no high-water mark:\n%s" % r.out[-1500:])
        hwm = int(m.group(1))
        if hwm > len(flat):
            accepted += len(order)
            nlines += len(flat)
            break
        bad = flat[hwm - 1]
        k = order.index(bad["t"])
        accepted += k
        nlines += sum(len(todo[t]) for t in order[:k])
        pos = hwm - sum(len(todo[t]) for t in order[:k])
        rejected.append({"trace": bad["t"], "line": pos, "event": bad, "before": todo[bad["t"]][max(0, pos - 4):pos - 1]})
        for t in order[:k + 1]:
            del todo[t]
    # the binding must be able to say no: one accepted trace with a second, impossible acquisition of the executor semaphore inserted
    # right after a real one (and one with the observed IsOpen() flag flipped) must be rejected
    selftest = {}
    bad_ids = {rj["trace"] for rj in rejected}
    for t, lines in sorted(traces.items()):
        if t in bad_ids or selftest:
            continue
        for k, x in enumerate(lines):
            if x["kind"] == "at" and x["hook"] == "exec.acquired" and x["p"] in ("syncdb", "syncdb2"):
                later = [y for y in lines[k + 1:] if y["kind"] == "at" and y["hook"] in ("exec.acquired", "close.locked") and y["p"] != x["p"]]
                if not later:
                    continue
                y = dict(later[0])
                mut1 = lines[:k + 1] + [y] + lines[k + 1:]
                mut2 = [dict(z) for z in lines]
                mut2[k]["open"], mut2[k]["bind"] = not mut2[k]["open"], True
                for name, mut in (("double_acquire", mut1), ("flipped_open_flag", mut2)):
                    with open(os.path.join(wd, "conc_trace.ndjson"), "w") as fh:
                        for z in mut:
                            fh.write(json.dumps(z) + "\n")
                    r = vlib.run_tlc("Trace_Concurrency", "Trace_Concurrency.cfg", wd, workers=1, timeout=600)
                    m = re.search(r'<<"HWM", (\d+), (\d+)>>', r.out)
                    selftest[name] = "rejected at line %s of %d" % (m.group(1), len(mut)) if m and int(m.group(1)) <= len(mut) else "ACCEPTED"
                break
    if any(v == "ACCEPTED" for v in selftest.values()):
        raise vlib.MachineryError("Trace_Concurrency accepted a corrupted trace: %s" % selftest)
    rep.cov["concurrency_trace_validation"] = {"traces": len(traces), "accepted": accepted, "lines": nlines, "rejected": rejected[:3],
                                               "corrupted_traces": selftest}
    for rj in rejected[:3]:
        rep.notes.append("DIVERGENCE module=Concurrency (trace validation) trace=%d line=%d event=%s" % (rj["trace"], rj["line"], json.dumps(rj["event"])))


def main():
    tier, replay_path = "quick", None
    args = sys.argv[1:]
    while args:
        a = args.pop(0)
        if a == "--tier":
            tier = args.pop(0)
        elif a == "--replay":
            replay_path = args.pop(0)
    tier = os.environ.get("VERIF_TIER", tier)
    seed = vlib.seed()
    rnd = random.Random(seed)
    thorough = tier == "thorough"
    rep = vlib.Report(PROP, tier)
    rep.assumptions = ["one Store, one database path, file replica, monitors off: every operation of the quantifier is a goroutine started by the schedule",
                       "interleaving granularity = the verif hooks; a goroutine blocked on a real lock is left blocked (150 ms wait) - nothing is simulated",
                       "the data-race clause is decided by the Go race detector (-race build of the same driver), not by TLA+"]
    wd = vlib.scratch("c12-")
    try:
        binary, _ = vlib.go_build("./cmd/core", "core")
        cases = []
        if replay_path:
            case = json.load(open(replay_path))["case"]
            cases = [{"id": 0, "cfg": case["cfg"], "sched": case["sched"], "label": "replay"}]
        else:
            for cfgname, what in [("MC_Concurrency.cfg", "code as it is (a sync refuses to initialise a DB that is not open), processes {syncdb, syncdb2, disable, snap, enable, compact}: LocksFree, NoDeadlock, NoLeakAfterClose, ReadLockWhileOpen, NoDataRace"),
                                  ("MC_Concurrency_pinned.cfg", "negative control: the pinned code (re-initialises a closed DB): NoLeakAfterClose holds only modulo the Z1 shape"),
                                  ("MC_Concurrency_q1.cfg", "NEGATIVE CONTROL: read transaction bound to the context of the request that began it (Q1): ReadLockWhileOpen must fail"),
                                  ("MC_Concurrency_r.cfg", "NEGATIVE CONTROL: Open / init rewrite shared fields unconditionally (R2, R3): NoDataRace must fail")]:
                r = vlib.run_tlc("Concurrency", cfgname, wd, workers=4, timeout=900)
                vlib.tlc_expect_ok(r, cfgname)
                rep.add_tlc(cfgname, r, what)
                if r.violated and not what.startswith("NEGATIVE CONTROL"):
                    rep.notes.append("design-level counterexample in Concurrency.tla (%s): %s" % (cfgname, r.violated))
                if what.startswith("NEGATIVE CONTROL") and not r.violated:
                    raise vlib.MachineryError("negative control %s found no counterexample" % cfgname)
            rep.cov["exhaustive"] = True
            rs, ss = vlib.tlc_simulate("Concurrency", "MC_Concurrency.cfg", wd, 60 if not thorough else 600, 40, seed)
            rep.cov["transitions"] += rs.generated
            blocks = []
            for s in ss:
                order = [st[1] for st in s if len(st) > 1]
                procs = {p: MODEL_OPS[p] for p in set(order)}
                if len(procs) >= 2:
                    blocks.append(("sim", {"procs": procs, "order": order}))
            for k in range(60 if not thorough else 900):
                n = rnd.randint(2, 4)
                ops = rnd.sample(ALL_OPS, n)
                procs = {"p%d" % i: ops[i] for i in range(n)}
                order = [rnd.choice(list(procs)) for _ in range(rnd.randint(6, 22))]
                blocks.append(("random", {"procs": procs, "order": order}))
            # registering the same path concurrently, and free-running blocks (order = []: true concurrency)
            for k in range(6 if not thorough else 40):
                blocks.append(("register", {"procs": {"r1": ["register"], "r2": ["register"], "u": ["unregister"] if k % 2 else ["syncdb"]},
                                            "order": [rnd.choice(["r1", "r2", "u"]) for _ in range(rnd.randint(3, 10))]}))
                ops = rnd.sample(ALL_OPS, 4)
                blocks.append(("free", {"procs": {"p%d" % i: ops[i] for i in range(4)}, "order": []}))
            # position cache invalidated (level-0 retention) right before the block: a status query recomputes the position
            # from disk while syncs run
            for sop in (["syncdb"], ["dbsync"], ["syncwait"]):
                for k in ((7, 10) if not thorough else (5, 6, 7, 8, 9, 10, 12)):
                    # the status query reaches its recomputation first, the sync then runs to completion, the query returns
                    blocks.append(("poscache", {"procs": {"q": ["status"], "s": sop}, "order": ["q"] + ["s"] * k + ["q"] * 3}))
                    blocks.append(("poscache", {"procs": {"q": ["status"], "s": sop, "w": ["appwrite", 2]},
                                                "order": ["q", "s", "s", "w"] + [rnd.choice(["s", "s", "q"]) for _ in range(k)] + ["q", "q"]}))
            blocks.append(("witness:Z1", {"procs": {"a": ["syncdb"], "b": ["disable"]}, "order": ["a"] + ["b"] * 7 + ["a"] * 6}))
            seen = set()
            for label, b in blocks:
                key = json.dumps(b, sort_keys=True)
                if key in seen:
                    continue
                seen.add(key)
                i = len(cases)
                cfg = corelib.mk_cfg(seed * 100003 + i, page_size=[4096, 512][i % 2], rows=6, init_ckpt=True, audit=True,
                                     min_pg=[1000, 3][i % 2 if label == "random" else 0])
                pre = PREFIX
                if label == "poscache":
                    pre = PREFIX + [["LsSyncAndWait"], ["Compact", 1], ["AppWrite", 1], ["LsSyncAndWait"], ["L0Retention", 9], ["AppWrite", 3]]
                cases.append({"id": i, "cfg": cfg, "sched": pre + [["Par", b]] + SUFFIX, "label": label})
        daemon_replay = []
        if replay_path and cases[0]["cfg"].get("daemon", {}).get("monMs", 0) > 0:
            daemon_replay, cases = cases, []     # a daemon-mode replay is judged by DaemonObs only
        by_id = {c["id"]: c for c in cases}
        t0 = time.time()
        out, info = corelib.run_cases(binary, wd, "cases", [{k: c[k] for k in ("id", "cfg", "sched")} for c in cases], j=8)
        t1 = time.time()
        events, verdicts, hazards = corelib.judge(rep, wd, out, INV, PROP, chunk=3000)
        rep.cov["phase_s"] = {"replay_on_real_code": round(t1 - t0, 1), "judge": round(time.time() - t1, 1)}
        rep.cov["traces_validated_against_impl"] = len(events)
        rep.cov["evaluations"] = len(events)
        gates = set()
        nontriv = 0
        for t, evs in events.items():
            seq = [(e["arg"], e["res"]) for e in evs if e["op"] == "ParStep" and e["arg"].endswith(":at")]
            gates.update(r for _, r in seq)
            procs = set(a.split(":")[0] for a, _ in seq)
            # non-trivial: at least two processes were parked at hooks in alternation
            alt = sum(1 for k in range(1, len(seq)) if seq[k][0] != seq[k - 1][0])
            nontriv += 1 if len(procs) >= 2 and alt >= 2 else 0
        rep.cov["distinct_nontrivial"] = nontriv
        rep.cov["hooks_reached"] = sorted(gates)
        rep.cov["rule"] = ("interleavings = TLC behaviours of Concurrency.tla projected onto processes + seeded random orders over the full "
                           "operation set + register/unregister races + free-running blocks; non-trivial = at least two goroutines "
                           "parked at hooks in alternation (>= 2 switches)")
        for c in cases[:2] + [c for c in cases if c["label"] == "random"][:1]:
            evs = events.get(c["id"], [])
            rep.sample({"source": c["label"], "block": c["sched"][[k for k, st in enumerate(c["sched"]) if st[0] == "Par"][0]][1],
                        "observed": [[e["op"], e["arg"], e["res"][:40], e["open"], e["hasRead"]] for e in evs if e["op"].startswith("Par")][:30]})
        corelib.classify(rep, PROP, by_id, events, verdicts, hazards, set(INV), PROP)
        if not replay_path:
            concurrency_conformance(rep, wd, cases, events)

        # ---- daemon mode: the Store's own goroutines, free-running
        dcases = []
        if daemon_replay:
            dcases = daemon_replay
        elif not replay_path:
            dcases = corelib.daemon_cases(seed, 24 if not thorough else 240, first_id=len(cases), store_ops=thorough)
        if dcases:
            _t2 = time.time()
            corelib.daemon_run(rep, binary, wd, dcases, PROP)
            rep.cov["phase_s"]["daemon_mode"] = round(time.time() - _t2, 1)
            rep.cov["traces_validated_against_impl"] += len(dcases)
            for c in dcases:
                c["label"] = "daemon"
            cases = cases + [c for c in dcases if c not in cases]

        # ---- data-race clause: the race detector on a subset of the same replays + free-running blocks.
        # Each case runs in its own process so that a report is attributed to its schedule; a race is identified by the
        # pair of litestream functions on top of the two conflicting stacks (that pair is the known-finding signature).
        if not replay_path or os.environ.get("VERIF_RACE_REPLAY"):
            rbin, _ = vlib.go_build("./cmd/core", "core-race", race=True, timeout=2400)
            sub = [c for c in cases if c["label"] in ("free", "register", "witness:Z1", "replay")] + \
                  [c for c in cases if c["label"] == "daemon"][: (6 if not thorough else 40)] + \
                  [c for c in cases if c["label"] in ("sim", "random")][: (24 if not thorough else 300)]
            env = dict(os.environ, GORACE="halt_on_error=0 exitcode=0")
            from concurrent.futures import ThreadPoolExecutor

            def one(c):
                inp = os.path.join(wd, "race-%d.in.json" % c["id"])
                json.dump({"cases": [{k: c[k] for k in ("id", "cfg", "sched")}]}, open(inp, "w"))
                p = subprocess.run([rbin, "-in", inp, "-out", os.path.join(wd, "race-%d.ndjson" % c["id"]),
                                    "-work", os.path.join(wd, "race-%d.work" % c["id"]), "-j", "1"],
                                   env=env, stdout=subprocess.PIPE, stderr=subprocess.PIPE, text=True, timeout=600)
                return c, p.returncode, p.stderr
            known = {f["signature"]: f for f in vlib.known_findings(PROP) if f.get("status") == "known" and f["signature"].startswith("race:")}
            sigs = {}
            with ThreadPoolExecutor(max_workers=8) as ex:
                for c, rc, err in ex.map(one, sub):
                    if rc != 0 and "DATA RACE" not in err:
                        raise vlib.MachineryError("race build of the driver failed: %s" % err[-1500:])
                    for blk in err.split("WARNING: DATA RACE")[1:]:
                        blk = blk.split("==================")[0]
                        parts = re.split(r"\n(?=Previous (?:read|write) at)", blk)
                        tops = []
                        for part in parts[:2]:
                            m = re.search(r"github\.com/benbjohnson/litestream\.(\S+?)\(\)", part.split("Goroutine")[0])
                            tops.append(m.group(1) if m else None)
                        if None in tops or len(tops) < 2:
                            continue    # a race inside the harness or the runtime, not in litestream
                        # one side is the recorder sampling litestream's state (unsynchronised accessors the daemon never calls
                        # concurrently with itself): a race of the harness, not of a daemon operation
                        if any(t in ("(*DB).SQLDB", "(*DB).VerifHasReadLock", "(*DB).VerifSyncState", "(*DB).VerifLocksFree") for t in tops) or \
                           any(re.search(r"verifharness/core\.\(\*Runner\)\.(lifecycleFlags|daemonObserve|observe)", part.split("Goroutine")[0]) for part in parts[:2]):
                            rep.cov.setdefault("harness_races_ignored", 0)
                            rep.cov["harness_races_ignored"] += 1
                            continue
                        sig = "race:" + "|".join(sorted(tops))
                        sigs.setdefault(sig, (c, blk))
            rep.cov["race_detector"] = {"replays": len(sub), "distinct_races_in_litestream": sorted(sigs)}
            for sig, (c, blk) in sigs.items():
                if sig in known:
                    rep.known_finding(known[sig]["id"], known[sig]["what"])
                else:
                    rep.violation("Go race detector: data race in litestream code (%s) during concurrent daemon operations" % sig,
                                  {"cfg": c["cfg"], "sched": c["sched"], "signature": sig, "report": blk[:3000]})
        return rep.finish()
    finally:
        shutil.rmtree(wd, ignore_errors=True)


if __name__ == "__main__":
    vlib.main_wrapper(main)

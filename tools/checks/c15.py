#!/usr/bin/env python3
"""C15 - timestamp restore never returns data from after the requested time.

R1  TLC exhaustive: MC_RestorePlan.tla with the timestamp clauses (TsExcluded: no file with createdAt >= T in a plan;
    TsFurthest: the plan reaches the newest TXID reachable over files created before T; TsMonotone: later T never an
    earlier end / an error) over every file set of the bound and every T.
R2  (a) function level: the TLC-enumerated file sets x every timestamp request + seeded replica-shaped larger sets;
    (b) real histories (seeded): SQLite writes + db.Sync/Replica.Sync >= 3 ms apart, snapshots, L1/L2 compactions,
        level-0 and snapshot retention; T = every recorded replication time, +-1 ms, midpoints, file times, before the
        first, after the last.
R3  (a) harness/cmd/restoreplan (real CalcRestorePlan) judged by RestorePlanObs.tla (TsExcluded, TsMonotone, TsPrecise);
    (b) harness/cmd/tsrestore (real Replica.Restore on real file replicas) judged by TsRestoreObs.tla.
"""
import json, os, random, shutil, sys
sys.path.insert(0, os.path.dirname(os.path.dirname(os.path.abspath(__file__))))
sys.path.insert(0, os.path.dirname(os.path.abspath(__file__)))
import vlib
import c08

PROP = "C15"
MC_INVS_C15 = "TsExcluded TsFurthest TsMonotone"
BOUNDS = {      # timestamp requests only (TsOnly)
    "quick": dict(N=3, Levels=[0, 1, 9], MaxFiles=3, MaxTs=3, Parts=1, Fanout=True, TsOnly=True, cfg="MC_RestorePlan_quick_ts3.cfg"),
    "thorough": dict(N=4, Levels=c08.LV, MaxFiles=3, MaxTs=3, Parts=1, Fanout=True, TsOnly=True, cfg="MC_RestorePlan_ts3.cfg"),
}


def gen_history(rnd, hid, kind, nsync):
    steps = [["sync"]]
    compacted1 = False
    for _ in range(nsync - 1):
        if kind != "plain":
            r = rnd.random()
            if r < 0.22:
                steps.append(["snapshot"])
                if kind == "retention" and rnd.random() < 0.4:
                    steps.append(["snapretention"])
            elif r < 0.50:
                steps.append(["compact", 1])
                compacted1 = True
                if kind == "retention" and rnd.random() < 0.6:
                    steps.append(["l0retention"])
            elif r < 0.62 and compacted1:
                steps.append(["compact", 2])
        steps.append(["sync"])
    if kind != "plain" and rnd.random() < 0.5:
        steps.append(["compact", 1])
        if kind == "retention":
            steps.append(["l0retention"])
    return {"id": hid, "seed": rnd.randrange(1 << 30), "kind": kind, "steps": steps}


def histories(seed, tier):
    rnd = random.Random(seed * 104729 + 7)
    n, lo, hi = (30, 4, 9) if tier == "quick" else (480, 4, 18)
    out = []
    for i in range(n):
        kind = ("plain", "compact", "retention", "compact", "retention")[i % 5]
        out.append(gen_history(rnd, i, kind, rnd.randint(lo, hi)))
    return out


def nontrivial_restores(line):
    """restores whose T is a recorded replication time (boundary) or falls inside the span of a compacted file /
    snapshot: the file contains transactions replicated before T but carries a time >= T"""
    times = line["times"]
    n = 0
    for T, _ in line["q"]:
        if T in times:
            n += 1
            continue
        for lvl, a, b, ts in line["files"]:
            if lvl >= 1 and a <= len(times) and times[a - 1] < T <= ts:
                n += 1
                break
    return n


def real_histories(rep, wd, binary, hs, label):
    nproc = min(8, max(1, len(hs)))

    def one(k):
        part = hs[k::nproc]
        inp = os.path.join(wd, "ts%d.in.json" % k)
        out = os.path.join(wd, "ts%d.out.ndjson" % k)
        work = c08.subdir(wd, "tswork%d" % k)
        with open(inp, "w") as fh:
            json.dump({"gap_ms": 3, "histories": part}, fh)
        p = vlib.run([binary, "-in", inp, "-out", out, "-work", work], timeout=2400)
        shutil.rmtree(work, ignore_errors=True)
        return out, json.loads(p.stdout.strip().splitlines()[-1])
    res = c08.par(one, range(nproc), workers=nproc)
    d = c08.subdir(wd, "j-ts-" + label)
    lines = []
    with open(os.path.join(d, "tsrestore_obs.ndjson"), "w") as fh:
        for out, info in res:
            for ln in open(out):
                lines.append(json.loads(ln))
                fh.write(ln)
    r = vlib.run_tlc("TsRestoreObs", "TsRestoreObs.cfg", d, workers=1, timeout=1800, heap="3g")
    vlib.tlc_expect_ok(r, "TsRestoreObs")
    if not r.ok:
        raise vlib.MachineryError("TsRestoreObs did not complete:\n%s" % r.out[-2000:])
    rep.add_tlc("TsRestoreObs(%s)" % label, r, "judge over %d real histories / %d real Replica.Restore(Timestamp) calls" % (
        len(lines), sum(len(x["q"]) for x in lines)))
    by_h = {h["id"]: h for h in hs}
    bad = {}
    for clause, l, hid, i in vlib.verdicts(r.out):
        bad.setdefault(l, []).append((clause, i))
    for l, items in sorted(bad.items()):
        line = lines[l - 1]
        qs = sorted(set(i for _, i in items))
        payload = {"history": by_h[line["h"]], "times": line["times"], "files": line["files"], "l0all": line["l0all"],
                   "violated": sorted(set(c for c, _ in items)), "restores": [line["q"][i - 1] for i in qs][:12], "q": line["q"]}
        what = "real Replica.Restore(Timestamp) violates %s: history %d (%s), times(ms)=%s, offending [T,result] %s" % (
            payload["violated"], line["h"], line["kind"], line["times"], payload["restores"][:6])
        c08.classify(rep, PROP, payload, what)
    desync = [x for x in lines if x["note"]]
    for x in desync[:3]:
        rep.notes.append("driver desync, history %d not judged: %s" % (x["h"], x["note"]))
    judged = [x for x in lines if not x["note"]]
    st = {"histories": len(judged), "restores": sum(len(x["q"]) for x in judged), "desync": len(desync),
          "nontrivial": sum(nontrivial_restores(x) for x in judged),
          "kinds": {k: sum(1 for x in judged if x["kind"] == k) for k in ("plain", "compact", "retention")},
          "l0all": sum(1 for x in judged if x["l0all"]),
          "restore_errors": sum(1 for x in judged for q in x["q"] if q[1] == 0),
          "violating_histories": len(bad)}
    for x in judged[:2]:
        rep.sample({"history": by_h[x["h"]]["steps"], "times": x["times"], "files": x["files"], "q": x["q"][:14]}, limit=3)
    shutil.rmtree(d, ignore_errors=True)
    return st


def main():
    tier, replay_path = c08.parse_args()
    seed = vlib.seed()
    rep = vlib.Report(PROP, tier)
    rep.assumptions = [
        "replication time of TXID n = CreatedAt of its level-0 file as listed by the file replica client right after the sync (LTX header time, ms)",
        "syncs are spaced >= 3 ms so that replication times are distinct; one db.Sync produces exactly one TXID (checked; otherwise the history is reported as desync)",
        "reference state of TXID n = rows of the source database right after the sync that produced n (no writes in between)",
        "function level: file listings as in C08; TsPrecise only on replica-shaped file sets (every level-0 file present, times non-decreasing, files carry at least the time of their newest transaction)",
        "exhaustive for the stated model bound only; real histories are sampled (seeded)",
    ]
    b = BOUNDS[tier]
    wd = vlib.scratch("c15-")
    try:
        ts_bin, _ = vlib.go_build("./cmd/tsrestore", "tsrestore")
        rp_bin, _ = vlib.go_build("./cmd/restoreplan", "restoreplan")
        if replay_path:
            case = json.load(open(replay_path))["case"]
            if "history" in case:
                st = real_histories(rep, wd, ts_bin, [case["history"]], "replay")
                rep.cov["evaluations"] = st["restores"]
            else:
                inp = os.path.join(wd, "replay.in.ndjson")
                c08.write_cases(inp, [{"id": 0, "files": case["files"], "reqs": case["reqs"]}])
                st = c08.run_batches(rep, wd, rp_bin, [("replay", inp)], c08.C15_CLAUSES, PROP, "replay")
                rep.cov["evaluations"] = st["evals"]
            return rep.finish()

        # R1: the timestamp clauses on the transcription, exhaustively
        inits = c08.model_check(rep, wd, b, MC_INVS_C15, b["cfg"][:-4] + "(ts clauses)")
        rep.cov["exhaustive"] = True

        # R3 (b) real replicas, real Restore
        st_real = real_histories(rep, wd, ts_bin, histories(seed, tier), "histories")

        # R3 (a) function level on the real CalcRestorePlan: timestamp requests only
        cw = c08.CaseWriter(wd, "ex", c08.CHUNK[tier])
        counts = c08.write_exhaustive(b, cw)
        if counts != inits:
            raise vlib.MachineryError("input space mismatch: python %d file sets, TLC %d" % (sum(counts), sum(inits)))
        nrand = 2000 if tier == "quick" else 60000
        rnd = random.Random(seed * 31337 + 5)
        for i in range(nrand):
            n, maxts = rnd.randint(3, 8), rnd.randint(2, 9)
            files = c08.realistic_set(rnd, n, maxts)
            cw.add(json.dumps({"id": 10 ** 7 + i, "files": files, "reqs": [[0, t] for t in range(1, maxts + 2)]}, separators=(",", ":")))
        cw.close()
        st_fn = c08.run_batches(rep, wd, rp_bin, cw.inputs, c08.C15_CLAUSES, PROP,
                                "exhaustive + replica-shaped random, timestamp requests", keep_samples=False)
        st_fn["exhaustive_file_sets"], st_fn["replica_shaped_random_file_sets"] = sum(counts), nrand

        rep.cov["traces_validated_against_impl"] = st_real["histories"]
        rep.cov["evaluations"] = st_real["restores"] + st_fn["evals"]
        rep.cov["distinct_nontrivial"] = st_real["nontrivial"]
        rep.cov["divergences"] = st_fn["divergences"]
        rep.cov["real_histories"] = st_real
        rep.cov["function_level"] = dict(st_fn, input_space={"cfg": b["cfg"], "file_sets": sum(counts), "tlc_file_set_states": sum(inits)})
        rep.cov["rule"] = ("traces = real histories replayed on a real file replica; evaluations = real Replica.Restore(Timestamp) calls + real "
                           "CalcRestorePlan(timestamp) calls, all judged by TLC; non-trivial = distinct real restores (history, T) with T equal to a "
                           "recorded replication time or inside the span of a compacted file / snapshot (it holds transactions replicated before T but "
                           "carries a time >= T)")
        if st_real["desync"]:
            rep.notes.append("%d histories could not be followed by the driver (desync): not judged" % st_real["desync"])
        return rep.finish()
    finally:
        shutil.rmtree(wd, ignore_errors=True)


if __name__ == "__main__":
    vlib.main_wrapper(main)

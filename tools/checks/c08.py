#!/usr/bin/env python3
"""C08 - restore plans are valid chains and are found whenever one exists.

R1  TLC exhaustive: MC_RestorePlan.tla (EXTENDS RestorePlan.tla).  Planner = transcription of CalcRestorePlan (+ refresh /
    restoreCandidateBetter); every file set up to the bound is a state (sharded by Part/Parts over TLC processes, fanned
    out over the workers of a process), every request (each target TXID, latest, each timestamp) is checked:
    transcription |= declarative spec.
R2  the same finite input space enumerated here (count cross-checked per shard against TLC's number of initial
    states) + seeded random larger file sets (up to 8 TXIDs, levels 0..9, more files, more timestamps).
R3  harness/cmd/restoreplan runs the REAL litestream.CalcRestorePlan on every case; RestorePlanObs.tla judges the
    recorded outputs: real output |= declarative spec (verdict), real output = Planner output (binding -> divergence).
"""
import itertools, json, os, random, re, shutil, sys
from concurrent.futures import ThreadPoolExecutor
sys.path.insert(0, os.path.dirname(os.path.dirname(os.path.abspath(__file__))))
import vlib

PROP = "C08"
# many single-worker JVMs run side by side: keep their helper threads down
os.environ.setdefault("JAVA_TOOL_OPTIONS", "-XX:ParallelGCThreads=2 -XX:CICompilerCount=2")
SNAP = 9
# clause of RestorePlanObs.tla -> property it belongs to
C08_CLAUSES = {"Sound", "CompleteTx", "CompleteLatest", "GapReported", "FurthestLatest", "TsExcluded"}
C15_CLAUSES = {"TsExcluded", "TsMonotone", "TsPrecise"}
MC_INVS_C08 = "Sound CompleteTx CompleteLatest GapReported FurthestLatest TsExcluded TsFurthest TsMonotone ErrKinds"

LV = [0, 1, 2, 9]
# tier -> the exhaustive spaces.  Target-TXID / latest requests do not depend on file timestamps, so they are enumerated
# with one file timestamp (all requests); the timestamp requests with two file timestamps (TsOnly).
BOUNDS = {
    "quick": [
        dict(N=4, Levels=LV, MaxFiles=3, MaxTs=1, Parts=1, Fanout=True, TsOnly=False, cfg="MC_RestorePlan_quick_tx.cfg"),
        dict(N=3, Levels=LV, MaxFiles=3, MaxTs=2, Parts=1, Fanout=True, TsOnly=True, cfg="MC_RestorePlan_quick_ts.cfg"),
    ],
    "thorough": [
        dict(N=5, Levels=LV, MaxFiles=4, MaxTs=1, Parts=2, Fanout=True, TsOnly=False, cfg="MC_RestorePlan_thorough_tx.cfg"),
        dict(N=4, Levels=LV, MaxFiles=4, MaxTs=2, Parts=2, Fanout=True, TsOnly=True, cfg="MC_RestorePlan_thorough_ts.cfg"),
        # the literal "every file set is an initial state, 16 single-worker processes" form, small bound
        dict(N=3, Levels=LV, MaxFiles=3, MaxTs=2, Parts=16, Fanout=False, TsOnly=False, cfg="MC_RestorePlan_init.cfg"),
    ],
}
CHUNK = {"quick": 30000, "thorough": 100000}      # log lines per judge process

_DIV = re.compile(r'<<"DIVERGENCE", (-?\d+), (-?\d+), (-?\d+)>>')
_NOTE = re.compile(r'<<"NOTE", "(\w+)", (-?\d+), (-?\d+), (-?\d+)>>')


# ------------------------------------------------------------------------------------------------
# the finite input space (must be the one RestorePlan.tla!Init enumerates)

def keys_of(b):
    n = b["N"]
    return [(l, a, c) for l in b["Levels"] for a in range(1, n + 1) for c in range(a, n + 1) if l != SNAP or a == 1]


def enum_sets(b):
    """yields (shard, files) for every file set of the bound; files = [[lvl,min,max,ts],...]"""
    n, parts = b["N"], b["Parts"]
    ks = keys_of(b)
    w = {k: k[0] * n * n + (k[1] - 1) * n + (k[2] - 1) for k in ks}
    tss = range(1, b["MaxTs"] + 1)
    for m in range(0, b["MaxFiles"] + 1):
        for comb in itertools.combinations(ks, m):
            sh = sum(w[k] for k in comb) % parts
            for tf in itertools.product(tss, repeat=m):
                yield sh, [[k[0], k[1], k[2], t] for k, t in zip(comb, tf)]


def reqs_of(b):
    r = [] if b["TsOnly"] else [[tx, 0] for tx in range(0, b["N"] + 1)]
    return r + [[0, t] for t in range(1, b["MaxTs"] + 2)]


class CaseWriter:
    """input files of <= chunk cases each"""

    def __init__(self, wd, prefix, chunk):
        self.wd, self.prefix, self.chunk = wd, prefix, chunk
        self.inputs, self.fh, self.n = [], None, 0

    def add(self, line):
        if self.n % self.chunk == 0:
            self.close()
            name = "%s%d" % (self.prefix, self.n // self.chunk)
            self.inputs.append((name, os.path.join(self.wd, name + ".in.ndjson")))
            self.fh = open(self.inputs[-1][1], "w", buffering=1 << 20)
        self.fh.write(line)
        self.fh.write("\n")
        self.n += 1

    def close(self):
        if self.fh:
            self.fh.close()
            self.fh = None


def write_exhaustive(b, cw, id0=0):
    """every file set of bound b with b's requests -> cw; returns the number of file sets per Part"""
    counts = [0] * b["Parts"]
    rq = json.dumps(reqs_of(b), separators=(",", ":"))
    i = id0
    for sh, files in enum_sets(b):
        counts[sh] += 1
        cw.add('{"id":%d,"files":%s,"reqs":%s}' % (i, json.dumps(files, separators=(",", ":")), rq))
        i += 1
    return counts


# ------------------------------------------------------------------------------------------------
# seeded random larger cases

def random_set(rnd, n, maxts, levels, nfiles):
    files, seen = [], set()
    for _ in range(nfiles):
        l = rnd.choice(levels)
        if rnd.random() < 0.35:
            l = 0
        a = 1 if l == SNAP else rnd.randint(1, n)
        if l == 0 and rnd.random() < 0.7:
            c = a
        else:
            c = rnd.randint(a, min(n, a + rnd.choice([0, 1, 1, 2, 3, 7])))
        if (l, a, c) in seen:
            continue
        seen.add((l, a, c))
        files.append([l, a, c, rnd.randint(1, maxts)])
    return files


def realistic_set(rnd, n, maxts):
    """shaped like a replica: level-0 file per TXID with non-decreasing times, compactions carrying the time of
    their newest input, snapshots taken at/after the position they advertise; optionally retention removes files."""
    times = sorted(rnd.randint(1, maxts) for _ in range(n))
    if rnd.random() < 0.5:      # strictly increasing where possible
        times = sorted(set(times))
        n = len(times)
    files = [[0, m, m, times[m - 1]] for m in range(1, n + 1)]
    for lvl in (1, 2, rnd.choice([3, 5, 8])):
        if rnd.random() < 0.7:
            m = 1 if rnd.random() < 0.7 else rnd.randint(1, n)
            while m <= n:
                e = min(n, m + rnd.randint(0, 3))
                if rnd.random() < 0.8:
                    files.append([lvl, m, e, times[e - 1]])
                m = e + 1
                if rnd.random() < 0.15:
                    break
    for _ in range(rnd.choice([0, 1, 1, 2])):
        m = rnd.randint(1, n)
        files.append([SNAP, 1, m, min(maxts, times[m - 1] + rnd.choice([0, 0, 1]))])
    uniq = {}
    for f in files:
        uniq.setdefault((f[0], f[1], f[2]), f)
    files = list(uniq.values())
    r = rnd.random()
    if r < 0.25:                # level-0 retention: drop a prefix of level 0
        k = rnd.randint(1, n)
        files = [f for f in files if not (f[0] == 0 and f[2] <= k)]
    elif r < 0.35:              # lose an arbitrary file
        files.pop(rnd.randrange(len(files)))
    rnd.shuffle(files)
    return files


def random_cases(seed, count, id0, only_ts=False):
    rnd = random.Random(seed * 7919 + 13)
    out = []
    for i in range(count):
        n = rnd.randint(3, 8)
        maxts = rnd.randint(2, 6)
        if i % 3 == 2:
            files = realistic_set(rnd, n, maxts)
        else:
            levels = list(range(0, 10)) if rnd.random() < 0.5 else [0, 1, 2, SNAP]
            files = random_set(rnd, n, maxts, levels, rnd.randint(1, 14))
        reqs = [] if only_ts else [[tx, 0] for tx in range(0, n + 1)]
        reqs += [[0, t] for t in range(1, maxts + 2)]
        if not only_ts and rnd.random() < 0.1:
            reqs.append([rnd.randint(1, n), rnd.randint(1, maxts)])
        out.append({"id": id0 + i, "files": files, "reqs": reqs})
    return out


# ------------------------------------------------------------------------------------------------
# machinery

def par(fn, items, workers=None):
    with ThreadPoolExecutor(max_workers=workers or vlib.NCPU) as ex:
        return list(ex.map(fn, items))


def subdir(wd, name):
    d = os.path.join(wd, name)
    os.makedirs(d, exist_ok=True)
    return d


def model_check(rep, wd, b, invariants, label):
    """R1: all shards of the exhaustive space in parallel. Returns per-shard numbers of initial states."""
    cfg = open(os.path.join(vlib.SPEC, b["cfg"])).read()
    cfg = re.sub(r"INVARIANTS .*", "INVARIANTS " + invariants, cfg)

    for k in ("N", "Levels", "MaxFiles", "MaxTs", "Parts", "Fanout", "TsOnly"):
        want = "%s = %s" % (k, str(b[k]).upper() if isinstance(b[k], bool) else
                            "{%s}" % ", ".join(map(str, b[k])) if isinstance(b[k], list) else b[k])
        if not re.search(r"^\s*%s\s*$" % re.escape(want), cfg, re.M):
            raise vlib.MachineryError("%s does not declare %s (runner's table)" % (b["cfg"], want))
    nproc = min(b["Parts"], vlib.NCPU)
    workers = max(1, vlib.NCPU // nproc) if b["Fanout"] else 1

    def one(p):
        d = subdir(wd, "mc%d" % p)
        r = vlib.run_tlc("MC_RestorePlan", "run.cfg", d, workers=workers, timeout=2400, heap="6g",
                         files={"run.cfg": cfg.replace("Part = 0", "Part = %d" % p)})
        shutil.rmtree(d, ignore_errors=True)
        return r
    rs = par(one, range(b["Parts"]), workers=nproc)
    violated = set()
    tot = vlib.TlcResult()
    tot.ok = True
    for p, r in enumerate(rs):
        vlib.tlc_expect_ok(r, "%s shard %d" % (b["cfg"], p))
        if not r.ok and not r.violated:
            raise vlib.MachineryError("%s shard %d did not complete:\n%s" % (b["cfg"], p, r.out[-1500:]))
        violated |= set(r.violated)
        tot.generated += r.generated
        tot.distinct += r.distinct
        tot.wall = max(tot.wall, r.wall)
        tot.depth = max(tot.depth, r.depth)
    tot.violated = sorted(violated)
    rep.add_tlc(label, tot, "N=%d Levels=%s MaxFiles=%d MaxTs=%d requests=%s, %d TLC process(es) x %d workers, Fanout=%s, invariants: %s" % (
        b["N"], b["Levels"], b["MaxFiles"], b["MaxTs"], "timestamp only" if b["TsOnly"] else "all", b["Parts"], workers,
        b["Fanout"], invariants))
    if violated:
        rep.notes.append("design-level counterexample in RestorePlan.tla (%s): %s (verdict only if the real code shows it)" % (
            label, sorted(violated)))
    # states that are not file sets: the root and one group state per key (Fanout only)
    extra = (1 + (len(keys_of(b)) if b["MaxFiles"] > 0 else 0)) if b["Fanout"] else 0
    return [r.distinct - extra for r in rs]


def drive(binary, inp, out, obs):
    """real CalcRestorePlan on every case of `inp`; `out` readable ndjson, `obs` the same as integers for TLC"""
    p = vlib.run([binary, "-in", inp, "-out", out, "-obs", obs], timeout=1800)
    return json.loads(p.stdout.strip().splitlines()[-1])


def judge_file(wd, name, obs_path, workers):
    """RestorePlanObs on one ndjson file -> (TlcResult, verdicts [(clause, line, id, req)], divergences, notes)"""
    d = subdir(wd, "j-" + name)
    os.replace(obs_path, os.path.join(d, "restoreplan_obs.ndjson"))
    r = vlib.run_tlc("RestorePlanObs", "RestorePlanObs.cfg", d, workers=workers, timeout=2400, heap="8g")
    vlib.tlc_expect_ok(r, "RestorePlanObs(%s)" % name)
    if not r.ok:
        raise vlib.MachineryError("RestorePlanObs(%s) did not complete:\n%s" % (name, r.out[-2000:]))
    v = vlib.verdicts(r.out)
    dv = sorted(set((int(a), int(b), int(c)) for a, b, c in _DIV.findall(r.out)))
    nt = sorted(set((n, int(a), int(b), int(c)) for n, a, b, c in _NOTE.findall(r.out)))
    return r, v, dv, nt, d


def run_batches(rep, wd, binary, inputs, clauses, prop, label, keep_samples=True):
    """inputs: list of (name, input path). Drives the real code and judges every file in parallel.
    Returns stats dict. Verdicts on `clauses` become violations of `prop`; others are noted."""
    nproc = max(1, min(4, len(inputs)))
    workers = max(1, vlib.NCPU // nproc)

    def one(item):
        name, inp = item
        out = os.path.join(wd, name + ".out.ndjson")
        obs = os.path.join(wd, name + ".obs.ndjson")
        info = drive(binary, inp, out, obs)
        with open(out) as fh:
            first = fh.readline()
        sample = json.loads(first) if first.strip() else None
        r, v, dv, nt, d = judge_file(wd, name, obs, workers)
        by_id = {}
        if v or dv or nt:       # fetch the readable record of every log line TLC pointed at
            want = set(x[1] for x in v) | set(x[0] for x in dv) | set(x[1] for x in nt)
            with open(out) as fh:
                by_id = {k + 1: json.loads(ln) for k, ln in enumerate(fh) if k + 1 in want}
        shutil.rmtree(d, ignore_errors=True)
        os.unlink(inp)
        os.unlink(out)
        if info.get("other_errors"):
            by_id["other_errors"] = info["other_errors"]
        return dict(name=name, info=info, r=r, v=v, dv=dv, nt=nt, lines=by_id, nontrivial=info["nontrivial"], sample=sample)
    results = par(one, inputs, workers=nproc)
    st = dict(cases=0, evals=0, nontrivial=0, divergences=0, verdict_cases=0, other_clause_hits=0)
    tot = vlib.TlcResult()
    tot.ok = True
    for x in results:
        if x["lines"].get("other_errors") and len(rep.notes) < 12:
            rep.notes.append("unclassified errors returned by the real CalcRestorePlan: %s" % json.dumps(x["lines"]["other_errors"])[:400])
        st["cases"] += x["info"]["cases"]
        st["evals"] += x["info"]["evals"]
        st["nontrivial"] += x["nontrivial"]
        tot.generated += x["r"].generated
        tot.distinct += x["r"].distinct
        tot.wall = max(tot.wall, x["r"].wall)
        per_case = {}
        for clause, l, cid, j in x["v"]:
            if clause in clauses:
                per_case.setdefault(l, []).append((clause, j))
            else:
                st["other_clause_hits"] += 1
                if len(rep.notes) < 12:
                    rep.notes.append("clause %s (not part of %s) is false on real output, case %s request %s: %s" % (
                        clause, prop, cid, j, json.dumps(x["lines"].get(l))[:400]))
        for l, items in sorted(per_case.items()):
            line = x["lines"][l]
            st["verdict_cases"] += 1
            js = sorted(set(j for _, j in items))
            payload = {"files": line["files"], "reqs": [line["reqs"][j - 1] for j in js],
                       "real": [line["res"][j - 1] for j in js],
                       "violated": sorted(set((c, tuple(line["reqs"][j - 1])) for c, j in items))}
            classify(rep, prop, payload,
                     "real CalcRestorePlan output violates %s on files=%s (requests [tx,T] %s -> %s)" % (
                         sorted(set(c for c, _ in items)), line["files"], payload["reqs"],
                         [(r_["err"], r_["plan"]) for r_ in payload["real"]]))
        st["divergences"] += len(x["dv"])
        for l, cid, j in x["dv"][:2]:
            if sum(1 for n_ in rep.notes if n_.startswith("DIVERGENCE")) < 6:
                line = x["lines"][l]
                rep.notes.append("DIVERGENCE module=RestorePlan batch=%s real output differs from Planner: files=%s req=%s real=%s" % (
                    x["name"], line["files"], line["reqs"][j - 1], json.dumps(line["res"][j - 1])))
        for n_, l, cid, j in x["nt"][:2]:
            if sum(1 for m in rep.notes if m.startswith("NOTE")) < 4:
                line = x["lines"][l]
                rep.notes.append("NOTE %s (binding-level) false: files=%s req=%s real=%s" % (
                    n_, line["files"], line["reqs"][j - 1], json.dumps(line["res"][j - 1])))
        if keep_samples and x["sample"] is not None:
            rep.sample({"batch": x["name"], "case": x["sample"]}, limit=4)
    rep.add_tlc("RestorePlanObs(%s)" % label, tot, "judge over %d file sets / %d real CalcRestorePlan calls in %d batches" % (
        st["cases"], st["evals"], len(inputs)))
    return st


def classify(rep, prop, payload, what):
    """known_findings.json entry {"match": {"clauses": [...], "files": [...] (optional)}} -> KNOWN-FINDING, else VIOLATION"""
    names = set(c if isinstance(c, str) else c[0] for c in payload["violated"])
    for f in vlib.known_findings(prop):
        m = f.get("match", {})
        if "clauses" in m and names <= set(m["clauses"]) and \
                ("files" not in m or sorted(m["files"]) == sorted(payload["files"])):
            rep.known_finding(f["id"], f.get("what", ""))
            return
    rep.violation(what, payload)


def write_cases(path, cases):
    with open(path, "w") as fh:
        for c in cases:
            fh.write(json.dumps(c, separators=(",", ":")) + "\n")


def parse_args():
    tier, replay_path = "quick", None
    args = sys.argv[1:]
    while args:
        a = args.pop(0)
        if a == "--tier":
            tier = args.pop(0)
        elif a == "--replay":
            replay_path = args.pop(0)
    return os.environ.get("VERIF_TIER", tier), replay_path


def main():
    tier, replay_path = parse_args()
    seed = vlib.seed()
    rep = vlib.Report(PROP, tier)
    rep.assumptions = [
        "file listings: at most one file per (level, minTXID, maxTXID) (it is the file name), minTXID <= maxTXID, snapshot-level (9) files start at TXID 1",
        "every backend lists a level in filename order (ltx.NewFileInfoSliceIterator sorts by (min,max)); the driver serves the listing through that iterator",
        "exhaustive for the stated bound only (TXIDs 1..N, levels {0,1,2,9}, <= MaxFiles files, MaxTs distinct file times); larger inputs are sampled (seeded)",
        "FurthestLatest reads 'the latest state' as the furthest TXID reachable by any valid chain",
    ]
    wd = vlib.scratch("c08-")
    try:
        binary, _ = vlib.go_build("./cmd/restoreplan", "restoreplan")
        if replay_path:
            case = json.load(open(replay_path))["case"]
            inp = os.path.join(wd, "replay.in.ndjson")
            write_cases(inp, [{"id": 0, "files": case["files"], "reqs": case["reqs"]}])
            st = run_batches(rep, wd, binary, [("replay", inp)], C08_CLAUSES, PROP, "replay")
            rep.cov["evaluations"] = st["evals"]
            rep.cov["traces_validated_against_impl"] = st["cases"]
            return rep.finish()

        # R1 exhaustive: transcription |= declarative spec;  R2 the same input spaces, enumerated here
        cw = CaseWriter(wd, "ex", CHUNK[tier])
        rep.cov["input_space"] = []
        for b in BOUNDS[tier]:
            inits = model_check(rep, wd, b, MC_INVS_C08, b["cfg"][:-4])
            counts = write_exhaustive(b, cw, id0=cw.n)
            if counts != inits:
                raise vlib.MachineryError("input space mismatch (%s): python enumerates %d file sets (%s...), TLC %d (%s...)" % (
                    b["cfg"], sum(counts), counts[:4], sum(inits), inits[:4]))
            rep.cov["input_space"].append({"cfg": b["cfg"], "file_sets": sum(counts), "requests_per_set": len(reqs_of(b)),
                                           "tlc_file_set_states": sum(inits), "tlc_processes": b["Parts"],
                                           "file_sets_are_initial_states": not b["Fanout"]})
        rep.cov["exhaustive"] = True
        # seeded random larger cases
        nrand = 2000 if tier == "quick" else 60000
        n_ex = cw.n
        for c in random_cases(seed, nrand, 10 ** 7):
            cw.add(json.dumps(c, separators=(",", ":")))
        cw.close()
        # R3 real code + judge
        st = run_batches(rep, wd, binary, cw.inputs, C08_CLAUSES, PROP, "exhaustive + random")
        st["exhaustive_file_sets"], st["random_file_sets"] = n_ex, nrand
        rep.cov["traces_validated_against_impl"] = st["evals"]
        rep.cov["evaluations"] = st["evals"]
        rep.cov["distinct_nontrivial"] = st["nontrivial"]
        rep.cov["divergences"] = st["divergences"]
        rep.cov["cases"] = st
        rep.cov["rule"] = ("evaluation = one real CalcRestorePlan call (file set, request) judged by TLC; inputs = every file set of the "
                           "TLC-enumerated spaces x every request + seeded random larger sets; non-trivial = distinct (file set, request) "
                           "whose real result is a plan of >= 2 files, a gap error, or not-found although a file reaches the target")
        if st["other_clause_hits"]:
            rep.notes.append("%d hits of C15-only clauses (TsMonotone/TsPrecise) on real output: see c15.py" % st["other_clause_hits"])
        return rep.finish()
    finally:
        shutil.rmtree(wd, ignore_errors=True)


if __name__ == "__main__":
    vlib.main_wrapper(main)

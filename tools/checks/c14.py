#!/usr/bin/env python3
"""C14 - see tools/checks/corecheck.py (plan "C14") and spec/Core.tla, spec/CoreObs.tla."""
import os, sys
sys.path.insert(0, os.path.dirname(os.path.abspath(__file__)))
sys.path.insert(0, os.path.dirname(os.path.dirname(os.path.abspath(__file__))))
import vlib, corecheck

if __name__ == "__main__":
    vlib.main_wrapper(lambda: corecheck.run("C14", sys.argv[1:]))

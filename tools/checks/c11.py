#!/usr/bin/env python3
"""C11 - files are flushed before they are published, the directory is flushed before success is reported, deletes
happen only after the superseding file is durable.

R1  TLC exhaustive: FsProtocol.tla with PowerFail (volatile view reverts to the durable one) and kernel write-back
    anywhere between two system calls of the publish protocols: no partial file under a final name in the durable
    view, every acknowledged sync stays restorable, R2 (except the modelled D1 hazard), R3. The as-is model must
    reproduce D1 (MC_FsProtocol_power_d1.cfg) and the repaired protocol must satisfy R2 (…_fixed.cfg).
R2  histories = scenario catalogue S1 S2 S3 S4 S5 S6 S7 S9 (quick: S1 S2 S3 S5 S7 S9; S2 = chunked catch-up, MaxSyncWALBytes = 3 frames), seeded (page size, rows, payload).
R3  each scenario runs as a real process (harness/cmd/scen: real SQLite + real litestream) under
    `strace -f -y`; tools/strace2ndjson.py projects the trace to create/write/fsync/rename/unlink/mark events and
    FsTraceObs.tla judges R1/R2/R3 at every rename / Mark(op ok) / unlink of the REAL trace.
"""
import json, os, shutil, subprocess, sys
sys.path.insert(0, os.path.dirname(os.path.dirname(os.path.abspath(__file__))))
import vlib
import strace2ndjson

PROP = "C11"
QUICK = ["S1", "S2", "S3", "S5", "S7", "S9"]
ALL = ["S1", "S2", "S3", "S4", "S5", "S6", "S7", "S9"]
TRACE = ("openat,open,creat,write,pwrite64,writev,pwritev,pwritev2,fsync,fdatasync,rename,renameat,renameat2,"
         "unlink,unlinkat,copy_file_range,sendfile,splice,ftruncate,fallocate")


def trace_scenario(binary, wd, t, scen, seed):
    d = os.path.join(wd, "tr-%s-%d" % (scen, seed))
    os.makedirs(d)
    tr = os.path.join(d, "trace.txt")
    p = subprocess.run(["strace", "-f", "-y", "-qq", "-s", "96", "-e", "trace=" + TRACE, "-e", "signal=none", "-o", tr,
                        binary, "-scenario", scen, "-work", d, "-seed", str(seed)],
                       stdout=subprocess.PIPE, stderr=subprocess.PIPE, text=True, timeout=180)
    marks = os.path.join(d, "marks")
    if p.returncode != 0 or not os.path.exists(marks) or "MARK 0 end ok" not in open(marks).read():
        raise vlib.MachineryError("scenario %s under strace failed (rc %d): %s" % (scen, p.returncode, p.stderr[-1500:]))
    evs = strace2ndjson.parse(tr, os.path.join(d, "fs"), marks, t, scen)
    raw = [l.rstrip("\n") for l in open(tr, errors="replace")]
    errs = [l for l in open(marks) if l.startswith("MARK") and l.rstrip().endswith(" err")]
    shutil.rmtree(d, ignore_errors=True)
    return evs, raw, errs


def excerpt(evs, k, before=8, after=1):
    out = []
    for e in evs[max(0, k - before): k + after + 1]:
        if e["ev"] == "mark":
            out.append("Mark(%s, %s)" % (e["op"], e["what"]))
        elif e["ev"] == "rename":
            out.append("rename(%s -> %s) [%s]" % (e["old"], e["path"], e["cls"]))
        elif e["ev"] == "write":
            out.append("write x%d (%s)" % (e["n"], e["path"]))
        else:
            out.append("%s(%s)" % (e["ev"], e["path"]))
    return out


def main():
    tier = "quick"
    args = sys.argv[1:]
    replay_path = None
    while args:
        a = args.pop(0)
        if a == "--tier":
            tier = args.pop(0)
        elif a == "--replay":
            replay_path = args.pop(0)
    tier = os.environ.get("VERIF_TIER", tier)
    seed = vlib.seed()
    rep = vlib.Report(PROP, tier)
    rep.assumptions = [
        "durability is judged from the system-call order only (POSIX-minimal: nothing is durable before fsync of the file / of its directory); "
        "no real power failure is injected",
        "strace -f -y resolves descriptors to paths; events are successful calls below the scenario directory, SQLite's own files excluded; "
        "an unfinished/resumed call takes the position of its completion",
        "file replica only (the directory layout of file/replica_client.go); object stores have no rename/fsync protocol",
        "R3 accepts as superseding: a present replica file of a higher level covering the range, a snapshot with max >= the file's max, "
        "or - for a local file - its copy on the replica, with flushed content and flushed directory entry",
        "FsProtocol.tla: exhaustive for the stated constants only",
    ]
    d1_known = [f for f in vlib.known_findings(PROP)
                if f.get("status") == "known" and (f.get("id") == "D1" or f.get("signature") == "D1")]
    wd = vlib.scratch("c11-")
    try:
        binary, _ = vlib.go_build("./cmd/scen", "scen")
        # ---- R1 design level
        runs = [("MC_FsProtocol_power.cfg", "as-is, PowerFail + write-back anywhere, no meta loss (no baseline fetch): R1 R2 R3", None)]
        runs.append(("MC_FsProtocol_power_d1.cfg", "as-is must reproduce D1 at model level", "R2_DirFlushedBeforeOk"))
        if tier == "thorough":
            runs.append(("MC_FsProtocol_power_fixed.cfg", "directory fsync added to the baseline fetch: R2 holds", None))
            runs.append(("MC_FsProtocol_power_meta.cfg", "as-is with meta loss: R2 except the D1 hazard", None))
            runs.append(("MC_FsProtocol_power2.cfg", "as-is, two crashes, Size 2", None))
            runs.append(("MC_FsProtocol_both.cfg", "Kill and PowerFail combined (POSIX-minimal ordering)", None))
            runs.append(("MC_FsProtocol_m_nofsync.cfg", "model sensitivity: fsync before rename dropped", "DurableNoPartialFinalName"))
            runs.append(("MC_FsProtocol_m_nodirsync.cfg", "model sensitivity: replica directory fsync dropped", "R2_ExceptD1"))
        for cfg, what, expect in ([] if replay_path else runs):
            r = vlib.run_tlc("FsProtocol", cfg, wd, workers=vlib.NCPU, timeout=1700)
            vlib.tlc_expect_ok(r, cfg)
            rep.add_tlc(cfg, r, what)
            if expect:
                if expect not in r.violated:
                    rep.notes.append("MODEL: %s was expected to violate %s and did not (%s)" % (cfg, expect, r.violated))
            elif r.violated:
                rep.notes.append("design-level counterexample in FsProtocol.tla (%s): %s (a verdict only if observed on the real trace)" % (cfg, r.violated))
        rep.cov["exhaustive"] = not replay_path
        # ---- R2/R3 real traces
        if replay_path:
            case = json.load(open(replay_path))["case"]
            todo = [(case["scen"], case["seed"])]
        else:
            seeds = [seed] if tier == "quick" else [seed, seed + 1, seed + 2]
            todo = [(s, sd) for s in (QUICK if tier == "quick" else ALL) for sd in seeds]
        all_evs, per, raws = [], {}, {}
        for t, (scen, sd) in enumerate(todo):
            evs, raw, errs = trace_scenario(binary, wd, t, scen, sd)
            if errs:
                rep.notes.append("%s seed %d: operations that returned an error: %s" % (scen, sd, errs[:3]))
            per[t] = evs
            all_evs += evs
        with open(os.path.join(wd, "fs_trace.ndjson"), "w") as fh:
            for e in all_evs:
                fh.write(json.dumps(e) + "\n")
        r = vlib.run_tlc("FsTraceObs", "FsTraceObs.cfg", wd, workers=1, timeout=1200)
        vlib.tlc_expect_ok(r, "FsTraceObs")
        if not r.ok:
            raise vlib.MachineryError("FsTraceObs did not complete:\n%s" % r.out[-2000:])
        if r.distinct != len(all_evs) + 1:
            raise vlib.MachineryError("FsTraceObs consumed %d of %d events" % (r.distinct - 1, len(all_evs)))
        rep.add_tlc("FsTraceObs", r, "judge over %d events of %d real traces" % (len(all_evs), len(todo)))
        n_ren = sum(1 for e in all_evs if e["ev"] == "rename" and e["cls"] != "other")
        n_ok = sum(1 for e in all_evs if e["ev"] == "mark" and e["what"] == "ok")
        n_unl = sum(1 for e in all_evs if e["ev"] == "unlink" and e["cls"] in ("localltx", "replicaltx"))
        rep.cov["rule_evaluations"] = {"R1_renames_to_final_names": n_ren, "R2_marks_ok": n_ok, "R3_unlinks_of_ltx_names": n_unl}
        rep.cov["final_name_classes"] = sorted(set(e["cls"] for e in all_evs if e["ev"] == "rename"))
        for name, l, t, i in vlib.verdicts(r.out):
            scen, sd = todo[t]
            evs = per[t]
            ex = excerpt(evs, i)
            if name == "R2_D1" and d1_known:
                if not rep.known:
                    rep.known_finding("D1", "%s [%s seed %d: %s]" % (d1_known[0].get("what", "")[:200], scen, sd, " ; ".join(ex[-4:])))
                rep.cov["d1_occurrences"] = rep.cov.get("d1_occurrences", 0) + 1
                continue
            rep.violation("%s violated on the real system-call trace of %s (seed %d) at event %d: %s" % (
                "R2_DirFlushedBeforeOk (signature D1: fetched baseline renamed without directory fsync; not listed in known_findings.json)"
                if name == "R2_D1" else name, scen, sd, i, " ; ".join(ex)),
                {"scen": scen, "seed": sd, "violated": name, "event": evs[i], "excerpt": ex})
        rep.cov["traces_validated_against_impl"] = len(todo)
        rep.cov["evaluations"] = n_ren + n_ok + n_unl
        rep.cov["distinct_nontrivial"] = len(set((e["scen"], e["cls"], e["lvl"], e["ev"]) for e in all_evs
                                                 if e["ev"] in ("rename", "unlink") and e["cls"] != "other"))
        rep.cov["rule"] = ("traces = strace of the real process per scenario and seed; evaluations = renames to final names (R1) + Mark(op ok) (R2) "
                           "+ unlinks of published LTX names (R3); non-trivial = distinct (scenario, final-name class, level, rename|unlink)")
        for t in list(per)[:3]:
            k = next((j for j, e in enumerate(per[t]) if e["ev"] == "rename"), 0)
            rep.sample({"scenario": todo[t][0], "excerpt": excerpt(per[t], k + 1, 5, 1)})
        return rep.finish()
    finally:
        shutil.rmtree(wd, ignore_errors=True)


if __name__ == "__main__":
    sys.path.insert(0, os.path.dirname(os.path.dirname(os.path.abspath(__file__))))
    vlib.main_wrapper(main)

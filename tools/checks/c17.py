#!/usr/bin/env python3
"""C17 - databases crossing the 1 GiB lock page replicate and restore correctly.

R1  LockPage.tla: litestream's page loops (snapshot, incremental + growth fill, compaction, decode) with the lock page as
    a constant, every (size at snapshot, size at sync, WAL page set): no file contains the lock page, restores are exact.
R3  REAL databases > 1 GiB (cmd/bigdb, on tmpfs): snapshot path below the boundary, growth across it within one sync,
    committed size passing lock-1 / lock / lock+1 in small steps, compaction, level-9 snapshot, close; every replica file is
    decoded and every restore compared page by page; LockObs.tla judges C17_*.
    (R2 does not apply: the lock page number is fixed by the page size, so the real cases are the three placements
    {beyond, last, inside} x paths named in the property, per page size.)
"""
import json, os, shutil, subprocess, sys, time
from concurrent.futures import ThreadPoolExecutor
sys.path.insert(0, os.path.dirname(os.path.abspath(__file__)))
sys.path.insert(0, os.path.dirname(os.path.dirname(os.path.abspath(__file__))))
import vlib

PROP = "C17"


def main():
    tier = "quick"
    args = sys.argv[1:]
    while args:
        a = args.pop(0)
        if a == "--tier":
            tier = args.pop(0)
        elif a == "--replay":
            args.pop(0)
    tier = os.environ.get("VERIF_TIER", tier)
    rep = vlib.Report(PROP, tier)
    rep.assumptions = ["scratch databases of ~1 GiB live on tmpfs (/dev/shm) and are removed after each case",
                       "the lock page number is ltx.LockPgno(pageSize) (1 GiB / pageSize + 1); SQLite itself never writes that page"]
    wd = vlib.scratch("c17-")
    try:
        binary, _ = vlib.go_build("./cmd/bigdb", "bigdb")
        for cfg, what in [("MC_LockPage.cfg", "6 pages, lock page 4"), ("MC_LockPage8.cfg", "8 pages, lock page 8 (last)"),
                          ("MC_LockPage3.cfg", "7 pages, lock page 3")][: (1 if tier == "quick" else 3)]:
            r = vlib.run_tlc("LockPage", cfg, wd, workers=4, timeout=900)
            vlib.tlc_expect_ok(r, cfg)
            rep.add_tlc(cfg, r, what)
            if r.violated:
                rep.notes.append("design-level counterexample in LockPage.tla (%s): %s" % (cfg, r.violated))
        rep.cov["exhaustive"] = True
        if tier == "quick":
            jobs = [(65536, "cross")]
            par = 1
        else:
            jobs = [(ps, v) for ps in (512, 1024, 2048, 4096, 8192, 16384, 32768, 65536) for v in ("cross", "last", "below")]
            par = 4
        work = os.environ.get("VERIF_BIG_SCRATCH", "/dev/shm")

        def one(k):
            ps, v = jobs[k]
            out = os.path.join(wd, "big-%d.ndjson" % k)
            t0 = time.time()
            p = subprocess.run([binary, "-ps", str(ps), "-variant", v, "-t", str(k), "-work", work, "-out", out],
                               stdout=subprocess.PIPE, stderr=subprocess.PIPE, text=True, timeout=3000)
            return k, p.returncode, p.stderr[-500:], out, time.time() - t0
        lines = []
        with ThreadPoolExecutor(max_workers=par) as ex:
            for k, rc, err, out, dt in ex.map(one, range(len(jobs))):
                if rc != 0:
                    raise vlib.MachineryError("bigdb %s failed: %s" % (jobs[k], err))
                lines += open(out).readlines()
                rep.cov.setdefault("cases", []).append({"pageSize": jobs[k][0], "variant": jobs[k][1], "wall_s": round(dt, 1)})
        with open(os.path.join(wd, "bigdb_trace.ndjson"), "w") as fh:
            fh.writelines(lines)
        r = vlib.run_tlc("LockObs", "LockObs.cfg", wd, workers=1, timeout=900)
        vlib.tlc_expect_ok(r, "LockObs")
        if not r.ok:
            raise vlib.MachineryError("LockObs did not complete: %s" % r.out[-2000:])
        rep.add_tlc("LockObs", r, "judge over %d observed steps" % len(lines))
        evs = [json.loads(x) for x in lines]
        bad = {}
        for name, l, t, i in vlib.verdicts(r.out):
            bad.setdefault(t, []).append((name, i))
        rep.cov["traces_validated_against_impl"] = len(jobs)
        rep.cov["evaluations"] = len(evs)
        rep.cov["distinct_nontrivial"] = len(set((e["pageSize"], e["where"], e["step"].split("-step-")[0]) for e in evs if e["restored"] and e["where"] != "beyond"))
        rep.cov["rule"] = ("real databases around the 1 GiB boundary; one evaluation = one step (sync / compaction / snapshot / close) with the "
                           "replica files decoded and a full restore compared; non-trivial = distinct (page size, lock page inside|last, path) with a restore")
        placements = sorted(set((e["pageSize"], e["where"]) for e in evs))
        rep.cov["placements_seen"] = placements
        for e in evs[:3]:
            rep.sample(e)
        for t, items in bad.items():
            steps = [e for e in evs if e["t"] == t]
            rep.violation("%s violated on a real database crossing the lock page (page size %d, variant %s)" % (
                sorted(set(n for n, _ in items)), jobs[t][0], jobs[t][1]), {"job": jobs[t], "violated": items, "steps": steps})
        return rep.finish()
    finally:
        shutil.rmtree(wd, ignore_errors=True)


if __name__ == "__main__":
    vlib.main_wrapper(main)

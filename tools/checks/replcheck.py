#!/usr/bin/env python3
"""Runner shared by C05 (storage faults), C06 (compaction), C07 (retention).

R1  Replica.tla (file sets under upload / compaction with cache / snapshot / three retention passes, planner =
    RestorePlan.tla) and Faults.tla (upload loop + compaction under ok / fail-before / fail-after / listing errors).
R2  behaviours of those modules (simulate, seeded) translated to driver operations + seeded random schedules.
R3  harness/cmd/core on the real litestream + file replica (fault-injecting client for C05); the recorder decodes every
    replica file; CoreObs.tla judges C05_* / C06_* / C07_* (and C02's audit) on the observed files and restores.
"""
import json, os, random, shutil, sys, time
sys.path.insert(0, os.path.dirname(os.path.dirname(os.path.abspath(__file__))))
import vlib, corelib


def repl_to_driver(sched, rnd, rows):
    out = [["LsOpen", "new"]]
    for st in sched:
        a = st[0]
        if a == "Sync":
            out += [["AppWrite", rnd.randint(1, rows)], ["LsSyncAndWait"]]
        elif a == "Snapshot":
            out.append(["Snapshot"])
        elif a == "Compact":
            out.append(["Compact", st[1]])
        elif a == "SnapRetention":
            out.append(["SnapRetention", max(0, st[1] - 1)])
        elif a == "L0Retention":
            out.append(["L0Retention", st[1]])
    return out


def faults_to_driver(sched, rnd, rows):
    out = [["LsOpen", "new"]]
    pending = False
    for st in sched:
        a = st[0]
        if a == "LocalSync":
            out += [["AppWrite", rnd.randint(1, rows)], ["LsSync"]]
        elif a == "RBegin":
            pending = True
            out.append(["__sync__"])
        elif a == "RCalcPos" and st[1] == "err":
            out.insert(len(out) - 1 if pending else len(out), ["Fault", "list", 1])
        elif a == "RUpload" and st[1] != "ok":
            out.insert(len(out) - 1 if pending else len(out), ["Fault", "write-before" if st[1] == "failBefore" else "write-after", 1])
        elif a == "REnd":
            pending = False
        elif a == "Compact":
            if st[2] == "failBefore":
                out.append(["Fault", rnd.choice(["write-before", "write-partial", "open", "openmid", "openmid"]), rnd.choice([1, 5])])
            elif st[2] == "failAfter":
                out.append(["Fault", "write-after", 1])
            out.append(["Compact", st[1]])
    out = [(["LsReplicaSync"] if s == ["__sync__"] else s) for s in out]
    return out


def random_repl(rnd, n, rows, faults=False, retention=True, levels=2):
    s = [["LsOpen", "new"]]
    for _ in range(n):
        x = rnd.random()
        if x < 0.30:
            s += [[rnd.choice(["AppWrite", "AppWrite", "AppGrow", "AppShrink"]), rnd.randint(1, rows)], ["LsSyncAndWait"]]
        elif x < 0.36:
            s += [["AppWrite", rnd.randint(1, rows)], ["LsSync"]]
        elif x < 0.40:
            s.append(["LsReplicaSync"])
        elif x < 0.55:
            s.append(["Compact", rnd.randint(1, levels)])
        elif x < 0.63:
            s.append(["Snapshot"])
        elif x < 0.72 and retention:
            s.append(["SnapRetention", rnd.randint(0, 3)])
        elif x < 0.80 and retention:
            s.append(["L0Retention", rnd.randint(0, 6)])
        elif x < 0.83 and retention:
            s.append(["RetByTXID", rnd.randint(1, levels), rnd.randint(1, 8)])
        elif x < 0.845 and retention:   # file ages placed arbitrarily around a fixed retention window
            for _ in range(rnd.randint(1, 4)):
                s.append(["AgeFile", rnd.choice([0, 0, 0, 9]), rnd.randint(1, 8), rnd.choice(["old", "old", "fresh"])])
            s.append([rnd.choice(["L0RetentionAbs", "L0RetentionAbs", "SnapRetentionAbs"])])
        elif x < 0.86:
            s.append(["LsCheckpoint", rnd.choice(["PASSIVE", "TRUNCATE"])])
        elif x < 0.90:
            s.append(["AuditNow"])
        elif faults:
            # single faults, and bursts that outlast the download retry budget (3 retries)
            s.append(["Fault", rnd.choice(["list", "open", "openmid", "openmid", "write-before", "write-partial", "write-after",
                                           "delete-before", "delete-after"]), rnd.choice([1, 1, 2, 5])])
            if rnd.random() < 0.5:
                s.append(["Compact", rnd.randint(1, levels)])
        else:
            s += [["AppWrite", rnd.randint(1, rows)], ["LsSyncAndWait"]]
    return s


def directed(prop, rnd):
    out = []
    SY = lambda k: sum([[["AppWrite", 1 + (j % 5)], ["LsSyncAndWait"]] for j in range(k)], [])
    if prop == "C06":   # long backlogs in front of one compaction (nothing in the property bounds the number of inputs)
        for n in (70, 135):
            out.append([["LsOpen", "new"]] + SY(n) + [["Compact", 1], ["Compact", 2], ["AppWrite", 2], ["LsSyncAndWait"], ["Compact", 1], ["Compact", 2], ["AuditNow"]])
        out.append([["LsOpen", "new"]] + sum([SY(9) + [["Compact", 1]] for _ in range(8)], []) + [["Compact", 2], ["AuditNow"]])
    if prop == "C07":   # ages out of TXID order around a fixed one-hour window, after everything was compacted into level 1
        for n in (4, 6):
            for fresh in range(1, n + 1):
                d = [["LsOpen", "new"]] + SY(n) + [["Compact", 1]] + [["AgeFile", 0, k, "fresh" if k == fresh else "old"] for k in range(1, n + 1)] + \
                    [["L0RetentionAbs"], ["AppWrite", 2], ["LsSyncAndWait"], ["Compact", 1], ["L0RetentionAbs"]]
                out.append(d)
        for n in (3, 5):
            for fresh in range(1, 4):
                d = [["LsOpen", "new"]]
                for k in range(1, 4):
                    d += SY(n) + [["Snapshot"]]
                d += [["Compact", 1], ["Compact", 2]] + [["AgeFile", 9, k, "fresh" if k == fresh else "old"] for k in range(1, 4)] + [["SnapRetentionAbs"], ["L0RetentionAbs"]]
                out.append(d)
    if prop == "C05":   # compaction that reads its inputs from the replica (level 1 -> 2) under bursts of download faults
        for kind in ("openmid", "open"):
            for n in (1, 3, 4, 6):
                out.append([["LsOpen", "new"]] + SY(3) + [["Compact", 1]] + SY(2) + [["Compact", 1], ["Fault", kind, n], ["Compact", 2],
                           ["ClearFaults"], ["Compact", 2]] + SY(1))
    return out


SUFFIX = [["ClearFaults"], ["AppWrite", 1], ["LsSyncAndWait"], ["LsSyncAndWait"], ["RestoreCheck"], ["LsClose"]]

PLANS = {
    "C05": dict(
        mc=[("Faults", "MC_Faults.cfg", "4 syncs, levels 1-2, up to 3 faults of every kind on listings, uploads and compaction writes")],
        mc_thorough=[("Faults", "MC_Faults5.cfg", "5 syncs, up to 4 faults")],
        sim=("Faults", "Sim_Faults.cfg", 120, 700, 40, "faults"),
        random=dict(n=120, n_thorough=900, length=26, faults=True, retention=False),
        cfg=dict(faults=True, restoreEach=True),
        invariants=["C05_Level0Gapless", "C05_AckMeansStored", "C05_AlwaysRestorable", "C05_CatchesUp", "C06_NoCorruptFile"],
        nontrivial="distinct schedule in which at least one injected storage fault was consumed by a litestream call and a later acknowledgement was judged",
    ),
    "C06": dict(
        mc=[("Replica", "MC_Replica.cfg", "3 syncs, clock 3, levels {0,1,2,9}, snapshots, all retention thresholds: LevelContig on retention-free histories")],
        mc_thorough=[("Replica", "MC_Replica4.cfg", "4 syncs, clock 4")],
        sim=("Replica", "Sim_Replica_noret.cfg", 100, 600, 30, "repl"),
        random=dict(n=120, n_thorough=900, length=24, faults=False, retention=False),
        cfg=dict(restoreEach=True, audit=True),
        invariants=["C06_CompactedEqualsInputs", "C06_NoCorruptFile", "C06_LevelsContiguous", "C02_EveryTxidIsACommittedState"],
        nontrivial="distinct schedule with at least one compaction or snapshot output compared with the composition of its level-0 inputs",
    ),
    "C07": dict(
        mc=[("Replica", "MC_Replica.cfg", "3 syncs, clock 3, levels {0,1,2,9}, snapshots, every retention threshold: Restorable, SnapshotKept, L0Run"),
            ("Replica", "MC_Replica_noret.cfg", "same with RetentionEnabled = FALSE")],
        mc_thorough=[("Replica", "MC_Replica4.cfg", "4 syncs, clock 4")],
        sim=("Replica", "Sim_Replica.cfg", 120, 700, 34, "repl"),
        random=dict(n=120, n_thorough=900, length=26, faults=False, retention=True),
        cfg=dict(restoreEach=True),
        invariants=["C07_LatestStillRestorable", "C07_SnapshotKept", "C07_Level0OneRun"],
        nontrivial="distinct schedule in which a retention pass ran after compactions/snapshots and the latest restore was judged afterwards",
    ),
}


def run(prop, argv):
    tier, replay_path = "quick", None
    args = list(argv)
    while args:
        a = args.pop(0)
        if a == "--tier":
            tier = args.pop(0)
        elif a == "--replay":
            replay_path = args.pop(0)
    tier = os.environ.get("VERIF_TIER", tier)
    seed = vlib.seed()
    rnd = random.Random(seed)
    plan = PLANS[prop]
    thorough = tier == "thorough"
    rep = vlib.Report(prop, tier)
    rep.assumptions = [
        "file replica (ages = mtimes set from the LTX header timestamp); retention cut-offs are placed relative to the observed file times",
        "synchronous litestream; compaction levels 1..2 (3 in some random cases) + snapshot level 9",
        "restore oracle = the real Replica.Restore with a fresh, un-faulted client; committed states = source observed after every step",
    ]
    wd = vlib.scratch(prop.lower() + "-")
    try:
        binary, _ = vlib.go_build("./cmd/core", "core")
        cases = []
        if replay_path:
            case = json.load(open(replay_path))["case"]
            cases = [{"id": 0, "cfg": case["cfg"], "sched": case["sched"], "label": "replay"}]
        else:
            for module, cfgname, what in plan["mc"] + (plan.get("mc_thorough", []) if thorough else []):
                r = vlib.run_tlc(module, cfgname, wd, workers=vlib.NCPU, timeout=3300)
                vlib.tlc_expect_ok(r, cfgname)
                rep.add_tlc(cfgname, r, what)
                if r.violated:
                    rep.notes.append("design-level counterexample in %s (%s): %s" % (module, cfgname, r.violated))
            rep.cov["exhaustive"] = True
            module, cfgname, nq, nt, depth, kind = plan["sim"]
            rs, ss = vlib.tlc_simulate(module, cfgname, wd, nt if thorough else nq, depth, seed)
            rep.cov["transitions"] += rs.generated
            scheds = []
            for s in ss:
                d = (faults_to_driver if kind == "faults" else repl_to_driver)(s, rnd, 6)
                if len(d) > 2:
                    scheds.append(("sim:" + cfgname, d))
            rp = plan["random"]
            for k in range(rp["n_thorough"] if thorough else rp["n"]):
                lv = 3 if k % 4 == 0 else 2
                scheds.append(("random", random_repl(rnd, rp["length"], 6, faults=rp["faults"], retention=rp["retention"], levels=lv)))
            for d in directed(prop, rnd):
                scheds.append(("directed", d))
            seen = set()
            sizes = corelib.PAGE_SIZES_ALL if thorough else corelib.PAGE_SIZES_QUICK
            for label, d in scheds:
                d = d + SUFFIX
                key = json.dumps(d)
                if key in seen:
                    continue
                seen.add(key)
                i = len(cases)
                cfg = corelib.mk_cfg(seed * 100003 + i, page_size=sizes[i % len(sizes)], rows=6, init_ckpt=True,
                                     auto_vacuum=["none", "incremental"][i % 2], audit=bool(plan["cfg"].get("audit")))
                cfg["levels"] = 3 if any(st[0] == "Compact" and st[1] == 3 for st in d) else 2
                cfg["faults"] = bool(plan["cfg"].get("faults"))
                cfg["restoreEach"] = bool(plan["cfg"].get("restoreEach"))
                cfg["noRetention"] = (prop == "C07" and i % 5 == 0)
                cases.append({"id": i, "cfg": cfg, "sched": d, "label": label})
        if replay_path and cases[0]["cfg"].get("daemon", {}).get("monMs", 0) > 0:
            corelib.daemon_run(rep, binary, wd, cases, prop)     # a daemon-mode replay is judged by DaemonObs only
            return rep.finish()
        by_id = {c["id"]: c for c in cases}
        t0 = time.time()
        out, info = corelib.run_cases(binary, wd, "cases", [{k: c[k] for k in ("id", "cfg", "sched")} for c in cases])
        t1 = time.time()
        events, verdicts, hazards = corelib.judge(rep, wd, out, plan["invariants"], prop, chunk=2500)
        rep.cov["phase_s"] = {"replay_on_real_code": round(t1 - t0, 1), "judge": round(time.time() - t1, 1)}
        if prop in ("C06", "C07") and not replay_path:
            t2 = time.time()
            corelib.replica_conformance(rep, wd, out, prop)
            rep.cov["phase_s"]["conformance"] = round(time.time() - t2, 1)
        rep.cov["traces_validated_against_impl"] = len(events)
        rep.cov["evaluations"] = len(events)
        nontriv = 0
        for t, evs in events.items():
            if prop == "C05":
                ok = any(any(c.startswith("FAULT:") for c in e["calls"]) for e in evs) and any(e["ack"] for e in evs)
            elif prop == "C06":
                ok = any(any(f["lvl"] >= 1 for f in e["newrem"]) for e in evs)
            else:
                ok = any(e["op"] in ("SnapRetention", "L0Retention", "RetByTXID") and e["res"] == "ok" and e["rest"]["done"] for e in evs)
            nontriv += 1 if ok else 0
            for e in evs:
                if e["op"] == "Panic":
                    rep.notes.append("driver panic in trace %d: %s" % (t, e["res"][:200]))
        rep.cov["distinct_nontrivial"] = nontriv
        rep.cov["rule"] = ("schedules = TLC behaviours of %s (simulate, seeded) translated to driver operations + seeded random "
                           "schedules over {write, sync, compact L, snapshot, retention passes, faults}, each followed by a fault-free "
                           "suffix, de-duplicated; non-trivial = %s" % (plan["sim"][0] + ".tla", plan["nontrivial"]))
        for c in cases[:2] + [c for c in cases if c["label"] == "random"][:1]:
            evs = events.get(c["id"], [])
            rep.sample({"source": c["label"], "cfg": c["cfg"], "schedule": c["sched"][:30],
                        "observed": [[e["op"], e["res"][:40], e["ack"], e["remote"]] for e in evs[:12]]})
        corelib.classify(rep, prop, by_id, events, verdicts, hazards, set(plan["invariants"]), prop)
        if not replay_path:
            # daemon mode: the same clauses with the Store's own monitors doing the compactions / retention passes / uploads
            # on short intervals next to a live application writer (C05: storage faults armed in bursts meanwhile)
            t3 = time.time()
            dcases = corelib.daemon_cases(seed + {"C05": 5, "C06": 6, "C07": 7}[prop], 12 if not thorough else 150, first_id=len(cases),
                                          faults="all" if prop == "C05" else "none", store_ops=thorough)
            corelib.daemon_run(rep, binary, wd, dcases, prop)
            rep.cov["traces_validated_against_impl"] += len(dcases)
            rep.cov["phase_s"]["daemon_mode"] = round(time.time() - t3, 1)
        return rep.finish()
    finally:
        shutil.rmtree(wd, ignore_errors=True)

#!/usr/bin/env python3
"""C20 - at most one instance holds an unexpired replica lease.

R1  TLC exhaustive: Lease.tla, 2 clients (quick) / 3 clients (thorough): Mutex, StaleCannot, GenIncreases,
    AcquireOnlyAfterExpiry at the granularity of single conditional requests, clock ticks in between.
R2  schedules = TLC behaviours (-simulate, seeded; thorough: + every edge of the dumped state graph of a
    smaller configuration), replayed EXACTLY on the real s3.Leaser (requests gated in an in-memory S3).
R3  LeaseObs.tla judges the observed states (verdict); Trace_Lease.tla checks that the observed trace is a
    behaviour of Lease.tla (binding).
"""
import json, os, shutil, sys
sys.path.insert(0, os.path.dirname(os.path.dirname(os.path.abspath(__file__))))
import vlib

PROP = "C20"


def replay(binary, wd, name, clients, scheds):
    inp = os.path.join(wd, name + ".in.json")
    out = os.path.join(wd, name + ".ndjson")
    with open(inp, "w") as fh:
        json.dump({"ttl": 2, "clients": clients, "schedules": scheds}, fh)
    p = vlib.run([binary, "-in", inp, "-out", out], timeout=1200)
    info = json.loads(p.stdout.strip().splitlines()[-1])
    return out, info


def judge(rep, wd, trace_path, clients, label):
    """Returns (n_violating_traces, n_diverged)"""
    events = [json.loads(x) for x in open(trace_path)]
    shutil.copyfile(trace_path, os.path.join(wd, "lease_trace.ndjson"))
    # verdict: property invariants on observed states
    r = vlib.run_tlc("LeaseObs", "LeaseObs.cfg", wd, workers=1, timeout=1200)
    vlib.tlc_expect_ok(r, "LeaseObs")
    if not r.ok:
        raise vlib.MachineryError("LeaseObs did not complete:\n%s" % r.out[-2000:])
    rep.add_tlc("LeaseObs(%s)" % label, r, "judge over %d observed events" % len(events))
    bad = {}
    for name, l, t, i in vlib.verdicts(r.out):
        bad.setdefault(t, []).append((name, i))
    # binding: the observed trace is a behaviour of Lease.tla
    cfg = open(os.path.join(vlib.SPEC, "Trace_Lease.cfg")).read().replace(
        'Clients = {"a", "b", "c"}', "Clients = {%s}" % ", ".join('"%s"' % c for c in clients))
    r2 = vlib.run_tlc("Trace_Lease", "Trace_Lease_run.cfg", wd, workers=1, timeout=1200,
                      files={"Trace_Lease_run.cfg": cfg})
    rep.add_tlc("Trace_Lease(%s)" % label, r2, "conformance")
    diverged = []
    if not r2.ok:
        errs = vlib.parse_tlc_errors(r2.out)
        if not errs and r2.error:
            raise vlib.MachineryError("Trace_Lease: %s\n%s" % (r2.error, r2.out[-2000:]))
        for kind, name, last in errs:
            l = vlib.state_int(last, "l")
            e = events[l] if l is not None and l < len(events) else None
            diverged.append({"kind": kind, "name": name, "at_event": e})
    return events, bad, diverged


def main():
    tier = "quick"
    args = sys.argv[1:]
    replay_path = None
    while args:
        a = args.pop(0)
        if a == "--tier":
            tier = args.pop(0)
        elif a == "--replay":
            replay_path = args.pop(0)
    tier = os.environ.get("VERIF_TIER", tier)
    seed = vlib.seed()
    rep = vlib.Report(PROP, tier)
    rep.assumptions = [
        "in-memory S3 implements If-None-Match:* / If-Match:<etag> atomically and issues a fresh ETag per successful write (as S3 does)",
        "model time: one tick = one hour of real TTL; the fake serves expires_at relative to the model clock, the leaser reads the real clock",
        "exhaustive result holds for the stated constants only (clients, ops per client, clock range)",
    ]
    wd = vlib.scratch("c20-")
    try:
        binary, _ = vlib.go_build("./cmd/lease", "lease")
        # R1 exhaustive
        r = vlib.run_tlc("Lease", "MC_Lease2.cfg", wd, workers=vlib.NCPU)
        vlib.tlc_expect_ok(r, "MC_Lease2")
        rep.add_tlc("MC_Lease2", r, "Clients=2 TTL=2 MaxNow=5 MaxOps=3 MaxTag=6")
        model_violations = list(r.violated)
        if tier == "thorough":
            r3 = vlib.run_tlc("Lease", "MC_Lease3.cfg", wd, workers=vlib.NCPU, timeout=3000)
            vlib.tlc_expect_ok(r3, "MC_Lease3")
            rep.add_tlc("MC_Lease3", r3, "Clients=3 TTL=2 MaxNow=4 MaxOps=2 MaxTag=6")
            model_violations += r3.violated
        if tier == "thorough" and not replay_path:
            # behaviours of ANY length (3 clients, clock and ETags to 12): inductive invariant discharged by Apalache (LeaseInd.tla)
            obligations = [("Init => IndInv", "CInit", "Init", "IndInv", 0, "NoError"),
                           ("IndInv /\\ Next => IndInv'", "CInit", "IndInit", "IndInv", 1, "NoError"),
                           ("IndInv => Mutex /\\ StaleCannot", "CInit", "IndInit", "Safety", 0, "NoError"),
                           ("NEGATIVE CONTROL: takeover without the expiry test - the induction must fail", "CInitBad", "IndInit", "IndInv", 1, "Error")]
            from concurrent.futures import ThreadPoolExecutor
            with ThreadPoolExecutor(4) as ex:
                res = list(ex.map(lambda o: vlib.apalache_check(wd, "LeaseInd", o[1], o[2], o[3], o[4]), obligations))
            rep.cov["apalache_inductive"] = [{"obligation": o[0], "outcome": r[0], "expected": o[5], "wall_s": r[1]} for o, r in zip(obligations, res)]
            for o, r in zip(obligations, res):
                if r[0].startswith("failed"):
                    raise vlib.MachineryError("apalache did not complete (%s): %s" % (o[0], r[0]))
                if r[0] != o[5] and o[5] == "Error":
                    raise vlib.MachineryError("negative control of the inductive argument found no counterexample")
                if r[0] != o[5]:
                    rep.notes.append("design-level: inductive obligation not discharged (%s): %s" % (o[0], r[0]))
        rep.cov["exhaustive"] = True
        if model_violations:
            rep.notes.append("design-level counterexample in Lease.tla: %s (reported only if reproduced on the real code)" % model_violations)

        # R2 schedules
        batches = []
        if replay_path:
            case = json.load(open(replay_path))["case"]
            batches.append(("replay", case["clients"], [case["schedule"]]))
        else:
            n2, n3, depth = (400, 200, 28) if tier == "quick" else (6000, 3000, 40)
            _, s2 = vlib.tlc_simulate("Lease", "Sim_Lease2.cfg", wd, n2, depth, seed)
            _, s3 = vlib.tlc_simulate("Lease", "Sim_Lease3.cfg", wd, n3, depth, seed + 1)
            batches.append(("sim2", ["a", "b"], s2))
            batches.append(("sim3", ["a", "b", "c"], s3))
            # every edge of the state graph of a small configuration
            dot = os.path.join(wd, "g.dot")
            cfgname = "Dump_Lease2.cfg" if tier == "quick" else "Dump_Lease2t.cfg"
            rd = vlib.run_tlc("Lease", cfgname, wd, workers=4, extra=["-dump", "dot,actionlabels", dot], timeout=1200)
            vlib.tlc_expect_ok(rd, "dump")
            sg, ginfo = vlib.dot_schedules(dot, cover="edges", max_schedules=1500 if tier == "quick" else 40000)
            os.unlink(dot)
            rep.cov["graph"] = ginfo
            batches.append(("graph", ["a", "b"], sg))
        total, nontrivial, distinct = 0, 0, set()
        all_bad = 0
        for label, clients, scheds in batches:
            scheds = [s for s in scheds if s]
            if not scheds:
                continue
            out, info = replay(binary, wd, label, clients, scheds)
            events, bad, diverged = judge(rep, wd, out, clients, label)
            total += len(scheds)
            rep.cov["traces_validated_against_impl"] += len(scheds)
            # non-trivial: a second client attempted an acquire while a record existed, or a stale renew/release
            per = {}
            for e in events:
                per.setdefault(e["t"], []).append(e)
            for t, evs in per.items():
                key = json.dumps(scheds[t])
                contested = any(e["ev"] in ("AcqDecide", "AcqPut", "RenewPut", "Release") and
                                evs[k - 1]["obj"]["exists"] and evs[k - 1]["obj"]["owner"] != e["c"]
                                for k, e in enumerate(evs) if k > 0)
                if contested and key not in distinct:
                    distinct.add(key)
                    nontrivial += 1
            if info.get("desync"):
                rep.notes.append("%s: %d schedules could not be followed by the real code (driver desync) - counted as divergence" % (label, info["desync"]))
            for t, items in bad.items():
                all_bad += 1
                rep.violation("lease invariant(s) %s violated by the real s3.Leaser on a replayed TLC interleaving (%s #%d)" % (
                    sorted(set(n for n, _ in items)), label, t),
                    {"clients": clients, "schedule": scheds[t], "violated": items, "trace": per[t]})
            for d in diverged[:5]:
                rep.notes.append("DIVERGENCE module=Lease batch=%s %s" % (label, json.dumps(d)[:600]))
            rep.cov.setdefault("divergences", 0)
            rep.cov["divergences"] += len(diverged)
            if scheds:
                rep.sample({"batch": label, "schedule": scheds[0][:20], "last_observed": per[0][-1] if 0 in per else None})
        rep.cov["evaluations"] = total
        rep.cov["distinct_nontrivial"] = nontrivial
        rep.cov["rule"] = ("schedules = TLC behaviours of Lease.tla (simulate, seeded) + all edges of a dumped state graph; "
                           "non-trivial = distinct schedule in which a client issued a decision/put/renew/release against a record owned by another client")
        return rep.finish()
    finally:
        shutil.rmtree(wd, ignore_errors=True)


if __name__ == "__main__":
    vlib.main_wrapper(main)

#!/usr/bin/env python3
"""C06 - see tools/checks/replcheck.py (plan "C06") and spec/Replica.tla, spec/Faults.tla, spec/CoreObs.tla."""
import os, sys
sys.path.insert(0, os.path.dirname(os.path.abspath(__file__)))
sys.path.insert(0, os.path.dirname(os.path.dirname(os.path.abspath(__file__))))
import vlib, replcheck

if __name__ == "__main__":
    vlib.main_wrapper(lambda: replcheck.run("C06", sys.argv[1:]))

#!/usr/bin/env python3
"""Regenerates /verif/MANIFEST.json from the table below (single source of truth for the interface)."""
import json, os
V = os.path.dirname(os.path.dirname(os.path.abspath(__file__)))

TB = ("TLC/SANY/CommunityModules; Go toolchain; the recorder's projection of the real state into the spec's vocabulary; "
      "exhaustive results hold for the stated constants, replays for the schedules run")

CHECKS = {
    "C20": dict(
        technique="TLA+ spec Lease.tla: TLC exhaustive + TLC-generated interleavings replayed exactly on the real s3.Leaser (gated in-memory S3) + TLC judge (LeaseObs) and trace validation (Trace_Lease); thorough: inductive invariant discharged by Apalache (LeaseInd.tla)",
        text="Lease.tla models s3/leaser.go at the granularity of single conditional requests and clock reads; TLC checks Mutex/StaleCannot/GenIncreases/AcquireOnlyAfterExpiry for 2 (quick) and 3 (thorough) clients exhaustively; TLC behaviours (simulate + every edge of a dumped state graph) are replayed request-by-request on the real leaser and the observed states are judged by TLC (verdict) and validated against the spec (binding).",
        design="7/C20",
        note="In-memory S3 with atomic If-Match/If-None-Match and fresh ETag per write stands for S3; model time maps 1 tick = 1 h of TTL. " + TB),
}

CORE_TECH = ("TLA+ spec Core.tla (SQLite WAL environment + litestream verify/sync/checkpoint/lifecycle): TLC exhaustive; TLC behaviours "
             "(simulate / dumped graph) + seeded schedules replayed on the real SQLite + litestream; TLC judge CoreObs.tla over the recorded states; "
             "bindings Trace_CoreSync.tla / SqliteWal.tla; daemon-mode family (real Store with all monitors, judge DaemonObs.tla); LocalChain.tla for C04")
CORE_NOTE = ("Synchronous litestream (no monitor goroutines) except in the daemon-mode family, file replica, modernc SQLite; source state derived by SQLite's own recovery of a copy of (db,-wal); "
             "known findings identified by history signatures computed in TLA+ (known_findings.json). " + TB)
CHECKS.update({
    "C01": dict(technique=CORE_TECH, design="7/C01", note=CORE_NOTE,
        text="Core.tla is model-checked exhaustively (as-is code modulo the listed known findings); its behaviours and seeded histories over the full operation vocabulary (writes, growth, shrink, VACUUM, DDL, rollbacks, all checkpoint modes by app and litestream, long readers, page sizes, auto_vacuum modes) are replayed on the real code; at every acknowledgement the real Replica.Restore output is compared page by page with the source by the TLA+ judge."),
    "C02": dict(technique=CORE_TECH, design="7/C02", note=CORE_NOTE,
        text="NoUncommitted is model-checked in Core.tla (spilled / rolled-back frames physically in the WAL); on the real code every TXID listed at any level is restored and the TLA+ judge requires each to equal one recorded committed state, in order, with level 0 gapless from 1; chunked syncs and open transactions across litestream steps included."),
    "C04": dict(technique=CORE_TECH, design="7/C04", note=CORE_NOTE,
        text="Core.tla explores stop/start of the same object, new process, crash and arbitrary application activity while litestream is down; replays add lost/reset state directories and replaced database files; the TLA+ judge tracks from observed WAL states whether uncopied committed frames were destroyed and demands a full snapshot above the replica's TXIDs, position agreement at every acknowledgement, and C01."),
    "C13": dict(technique="TLA+ spec Policy.tla (checkpointIfNeeded over frame counts): TLC exhaustive over all small configurations; its behaviours replayed on the real litestream for every configuration; TLC judge CoreObs.tla (C13_*) on the observed WAL and level-0 files; binding Trace_Policy.tla (SyncOutcome instantiated on the state observed before each real DB.Sync)",
        design="7/C13", note=CORE_NOTE,
        text="Policy.tla checks AfterSyncBound and IdleSilence for every (MinCheckpointPageN, TruncatePageN, interval) in 1..9 pages x {off, elapsed, not yet}; every configuration is then run on the real code with model-generated write/sync histories followed by idle syncs, and the TLA+ judge evaluates the WAL bound after every successful sync and the number of files created by idle syncs."),
    "C14": dict(technique=CORE_TECH, design="7/C14", note=CORE_NOTE,
        text="Every history is executed twice (with and without litestream); the TLA+ judge requires the application-visible content (schema + rows minus _litestream_*) unchanged by every litestream step and equal to the control run after every application step, _litestream_lock empty, integrity_check ok, WAL mode."),
})

REPL_TECH = ("TLA+ specs Replica.tla / Faults.tla (replica file sets under upload, compaction with cache, snapshot, retention passes, storage faults; planner = RestorePlan.tla): "
             "TLC exhaustive; TLC behaviours + seeded schedules replayed on the real litestream + file replica; every replica file decoded; TLC judge CoreObs.tla; "
             "binding Trace_Replica.tla; daemon-mode family (real Store with all monitors, storage faults for C05; judge DaemonObs.tla)")
CHECKS.update({
    "C05": dict(technique=REPL_TECH, design="7/C05", note=CORE_NOTE + " Faults are injected by a wrapper around the DB's replica client (ok / fail-before / partial / fail-after / listing and read errors); the restore oracle uses an un-faulted client.",
        text="Faults.tla checks L0Gapless, AckStored, Restorable for every placement of up to 3 faults; its behaviours and seeded fault schedules run on the real code; after every step the TLA+ judge requires the level-0 names gapless, every acknowledgement stored and restoring to the source, the replica restorable to a committed state, and catch-up once faults stop."),
    "C06": dict(technique=REPL_TECH, design="7/C06", note=CORE_NOTE,
        text="Replica.tla checks level contiguity on retention-free histories; on the real code every compaction/snapshot output is decoded and the TLA+ judge recomposes its level-0 inputs (latest page wins, trimmed to the final size, newest input's timestamp) and requires equality, contiguity per level, and that every listed TXID restores to the recorded committed state (plan independence)."),
    "C07": dict(technique=REPL_TECH, design="7/C07", note=CORE_NOTE + " EnforceRetentionByTXID is exercised with floors covered by a snapshot (the only floors the daemon passes).",
        text="Replica.tla checks Restorable, SnapshotKept, L0Run for every retention threshold (RetentionEnabled true/false); on the real code cut-offs are placed around the observed file times and after every pass the TLA+ judge requires the latest state restorable to a committed state not older than the last acknowledgement, a snapshot kept, level 0 one contiguous run."),
    "C12": dict(technique="TLA+ spec Concurrency.tla (executor semaphore, checkpoint RW-lock, read transaction, lifecycle): TLC exhaustive; TLC interleavings + seeded orders executed by real goroutines parked at verif hooks (exact replay) on one Store; TLC judge CoreObs.tla (C12_* + C01/C02/C06); trace validation of the recorded hook events (Trace_Concurrency.tla); daemon mode (the real Store with all monitors running, judge DaemonObs.tla); Go race detector for the data-race clause",
        design="7/C12", note=CORE_NOTE + " Interleaving granularity = verif hooks; blocked goroutines stay blocked (nothing simulated). The data-race clause is decided by the race detector, not TLA+ (DESIGN 10).",
        text="Concurrency.tla checks LocksFree, NoDeadlock and NoLeakAfterClose over all interleavings of the daemon operations at hook granularity; those interleavings and seeded ones over the full operation set (sync, upload, checkpoint, snapshot, compaction, retention, status, register/unregister, enable/disable, close, live writers) are replayed exactly with real goroutines; a watchdog decides 'every call returns'; the judge requires no read lock / handle after close, one instance per path, and C01/C02/snapshot=position afterwards; the same replays run under -race."),
    "C17": dict(technique="TLA+ spec LockPage.tla (litestream's page loops with the lock page as a constant, all small inputs) + REAL > 1 GiB databases replicated, compacted, snapshotted and restored (cmd/bigdb); TLC judge LockObs.tla on the decoded files and page-by-page restore comparison",
        design="7/C17", note="Quick tier: page size 65536, growth across the boundary in one sync; thorough: eight page sizes x {cross, step across, below}. tmpfs scratch. " + TB,
        text="LockPage.tla checks that no file produced by the snapshot / incremental+growth-fill / compaction loops contains the lock page and that decode restores every other page, for every small (size, size, WAL page set); the binding needs real files because the lock page number is fixed by the page size: real databases are driven across the 1 GiB boundary and the TLA+ judge requires every operation to succeed, no file to contain the lock page, full files to be complete, and the restore to equal the source on every other page with the lock page empty."),
    "C08": dict(technique="TLA+ spec RestorePlan.tla (transcription of CalcRestorePlan + declarative ValidPlan/Reachable/gap reporting): TLC enumerates all small file sets; the same sets + seeded larger ones run through the real CalcRestorePlan (in-memory client); TLC judge RestorePlanObs.tla",
        design="7/C08", note="TXIDs 1..N at levels {0,1,2,9}, a few distinct timestamps, every target; in-memory ReplicaClient (only listings matter). " + TB,
        text="The transcription is checked against the declarative spec (starts at 1, contiguous, ends at the target, nothing created at/after the timestamp, found whenever a chain exists, gap reported for latest-state requests) on every small file set; the real planner is run on the same enumeration (count cross-checked with TLC) plus seeded larger inputs and judged in TLA+ against the declarative spec (verdict) and the transcription (binding)."),
    "C15": dict(technique="TLA+ spec RestorePlan.tla timestamp clauses (TLC exhaustive) + real replicas from real histories restored with the real Replica.Restore at timestamps at/around every recorded replication time; TLC judge TsRestoreObs.tla",
        design="7/C15", note="File replica (CreatedAt = mtime set from the LTX header time); histories with and without compaction/snapshots. " + TB,
        text="Plans never contain a file created at/after T and are monotone in T (model, all small file sets); on real replicas every T in {each replication time, +-1 ms, midpoints, before first, after last} is restored and the TLA+ judge requires the state of one TXID replicated before T, never a later one, monotone in T, precise while all level-0 files exist, and an error before the first backup."),
    "C09": dict(technique="TLA+ spec WalReader.tla (abstract WALs: header class x frame descriptors; transcription of wal_reader.go vs declarative Recovered): TLC enumerates all small WALs; real SQLite WAL bytes mutated (truncation, flips, duplication/reordering, stale tails, salt/commit edits, byte order, recomputed checksums) and read by the real WALReader and by real SQLite recovery; TLC judge WalReaderObs.tla",
        design="7/C09", note="The checksum arithmetic is not modelled: saltOK/chainOK are abstract bits whose byte meaning is fixed by the materialiser and checked by the SQLite oracle (DESIGN 10). " + TB,
        text="PageMap(w) = Recovered(w) and chunked reading composes, for every abstract WAL up to the bound; on real bytes litestream's WALReader (incl. chunked pageMap via the verif export) must equal what SQLite itself recovers from the same bytes, and my decoder's descriptor must predict both (binding)."),
    "C10": dict(technique="TLA+ spec Restore.tla (resumable reader state machine under read faults; restore output protocol under file corruption): TLC exhaustive; real replicas corrupted (delete/truncate/flip at offsets) and read-faulted through a wrapping client, restored by the real Replica.Restore in child processes; TLC judge RestoreObs.tla",
        design="7/C10", note="Quick tier: every 64th offset + structural boundaries, read faults per offset class (each injected fault costs >= 250 ms of production back-off). " + TB,
        text="delivered is always a prefix of the file and the outcome is error or the whole file (reader model); outcome is error with no output or success with the original (protocol model); on the real code every corruption / read-fault case must end in an error with no file at the output path (pre-existing output untouched) or in the reference database, and a crash is not an error report."),
    "C03": dict(technique="TLA+ spec FsProtocol.tla (volatile/durable file system, the five publish protocols, Kill anywhere): TLC exhaustive; the real litestream process killed (ptrace supervisor) immediately before every FS-mutating syscall of model-derived scenarios, inspected, restarted; TLC judge KillObs.tla",
        design="7/C03", note="Scenarios S1,S3,S4,S5,S6,S7,S9 of DESIGN 11a; quick tier: every 7th kill point + all within 3 syscalls of a rename/unlink; a kill run whose syscall prefix differs from the reference is recorded as divergence. " + TB,
        text="NoPartialFinalName under Kill between any two syscall-level actions (model); on the real process every kill point leaves every final-named LTX file decodable, no partial restore output or sidecar, the last acknowledged state restorable, and a restarted process resumes without repair and its next acknowledgement restores the source."),
    "C11": dict(technique="TLA+ spec FsProtocol.tla (PowerFail reverts to the durable view): TLC exhaustive; real strace -f -y syscall traces of the litestream process for each scenario parsed to events; TLC judge FsTraceObs.tla evaluates the flush-order rules at every rename / success mark / unlink",
        design="7/C11", note="The property states ordering rules over syscalls; real power loss is not simulated on real disks. " + TB,
        text="R1: content fsynced after the last write and before every rename to a final name; R2: every directory an operation renamed in is fsynced before the operation reports success; R3: a published LTX file is unlinked only after a superseding file is durable - evaluated in TLA+ on the syscall trace of the real process for every scenario."),
    "C18": dict(technique="TLA+ spec Vfs.tla (page index / pending index / poll of level 0 and 1 / open from a plan; as-is and with candidate repairs): TLC exhaustive; its behaviours + directed schedules driven on the REAL VFSFile (cgo, tags vfs verif) with a 1-page cache and a gated replica client granting one poll round at a time; TLC judges VfsObs.tla (verdict) and Trace_Vfs.tla (conformance); VfsCache.tla (page cache protocol, negative controls) with default-cache cases and gated page fetches on the real VFSFile",
        design="7/C18", note="Reference = the real Replica.Restore at the VFS's reported TXID with the header bytes the VFS rewrites masked. " + TB,
        text="Served (every page <= commit is the restore's page at the reported position) and FileSizeOK at open and after every poll, across growth, partial shrink, VACUUM, compaction and retention of the files being read; every observation of the real VFSFile is judged in TLA+ and replayed through the as-is model (0 divergences)."),
    "C16": dict(technique="TLA+ specs Follow.tla / FollowAlg.tla (Replica.tla + follower: transcription of applyNewLTXFiles / fillFollowGap / resume validation, step-wise apply, sidecar publish, Kill): TLC exhaustive; its behaviours on a real primary + the real Restore(Follow) as a child process fed published replica views, killed before FS-mutating syscalls (ptrace supervisor) and restarted; TLC judges FollowObs.tla (verdict) and Trace_Follow.tla (binding)",
        design="7/C16", note="Poll timing is made deterministic by publishing replica views to the follower; quick tier kills at every 5th FS-mutating syscall + near renames. " + TB,
        text="NeverAhead, NoSkip, SidecarMonotone, Converges/NoStall, ResumeAccepted are model-checked with Kill between apply steps; on the real code the follower at quiescence must equal an ordinary restore of the latest TXID (header bytes that follow mode rewrites masked), the sidecar TXID sequence must be monotone across kills/restarts, resumes must be accepted and no silent stall may occur while an ordinary restore succeeds."),
    "C19": dict(technique="TLA+ spec RestoreV3.tla/RestoreV3Plan.tla (transcription of the 0.3.x restore planning + declarative statement): TLC enumerates all small layouts; same layouts materialised as real lz4 snapshot/WAL-segment files from real SQLite histories and restored by the real code; TLC judge RestoreV3Obs.tla",
        design="7/C19", note="Layouts <= 2 generations, <= 2 snapshots, <= 3 indices, <= 3 segments per index, one segment removed, all timestamps; file replica client. " + TB,
        text="The transcription of findBestSnapshotV3 / filterWALSegmentsV3 / the contiguity walk / format arbitration is checked against the declarative statement on every small layout; each layout is built physically from a real history and restored with the real Replica.Restore; the TLA+ judge requires the real outcome to satisfy the declarative statement (verdict) and to equal the transcription (binding)."),
})

PENDING = {}
for i in range(1, 21):
    pid = "C%02d" % i
    if pid not in CHECKS:
        PENDING[pid] = "check not built yet in this round (planned in DESIGN.md section 7); not claimed until its spec, driver and judge exist"


def main():
    src_commits = []
    p = os.path.join(V, "hooks_commits.txt")
    if os.path.exists(p):
        src_commits = [l.split()[0] for l in open(p) if l.strip()]
    m = {
        "version": 1,
        "setup_cmd": "python3 tools/setup.py",
        "hooks": {
            "guard": "verif",
            "enable": "go build -tags verif (harness module with `replace github.com/benbjohnson/litestream => /repo`)",
            "baseline_off_cmd": "cd /repo && GOFLAGS=-mod=mod GOPROXY=off go test -vet=off -count=1 -timeout 25m ./...",
            "source_commits": src_commits,
            "add_only": True,
        },
        "engines": [
            {"name": "tlc", "path": "spec/", "serves_properties": sorted(CHECKS), "kind_free_text": "TLA+ specifications checked with TLC: exhaustive configs (MC_*), simulation/dump configs for schedule generation, judge (*Obs) and trace-validation (Trace_*) specs"},
            {"name": "harness", "path": "harness/", "serves_properties": sorted(CHECKS), "kind_free_text": "Go drivers that replay TLC schedules on the real litestream code (built with -tags verif from /repo's working tree) and record ndjson traces"},
        ],
        "checks": [],
        "not_applicable": [{"property_id": k, "reason": v} for k, v in sorted(PENDING.items())],
        "notes": "Verdicts (exit 1) only from TLA+ invariants evaluated by TLC on states recorded from the real code; machinery failures exit 2. See DESIGN.md section 4.",
    }
    for pid in sorted(CHECKS):
        c = CHECKS[pid]
        script = "tools/checks/%s.py" % pid.lower()
        m["checks"].append({
            "property_id": pid,
            "quick_cmd": "python3 %s --tier quick" % script,
            "thorough_cmd": "python3 %s --tier thorough" % script,
            "evidence_file": "evidence/%s.json" % pid,
            "replay_cmd_template": "python3 %s --replay {path}" % script,
            "engine": "tlc+harness",
            "level_claimed": {"category": c.get("category", "model_checking"), "text": c["text"], "design_ref": c["design"]},
            "level_note": c["note"],
            "technique": c["technique"],
        })
    with open(os.path.join(V, "MANIFEST.json"), "w") as fh:
        json.dump(m, fh, indent=1)
    print("MANIFEST.json: %d checks, %d not_applicable" % (len(m["checks"]), len(m["not_applicable"])))


if __name__ == "__main__":
    main()

#!/usr/bin/env python3
"""Regenerates /verif/MANIFEST.json from the table below (single source of truth for the interface)."""
import json, os
V = os.path.dirname(os.path.dirname(os.path.abspath(__file__)))

TB = ("TLC/SANY/CommunityModules; Go toolchain; the recorder's projection of the real state into the spec's vocabulary; "
      "exhaustive results hold for the stated constants, replays for the schedules run")

CHECKS = {
    "C20": dict(
        technique="TLA+ spec Lease.tla: TLC exhaustive + TLC-generated interleavings replayed exactly on the real s3.Leaser (gated in-memory S3) + TLC judge (LeaseObs) and trace validation (Trace_Lease)",
        text="Lease.tla models s3/leaser.go at the granularity of single conditional requests and clock reads; TLC checks Mutex/StaleCannot/GenIncreases/AcquireOnlyAfterExpiry for 2 (quick) and 3 (thorough) clients exhaustively; TLC behaviours (simulate + every edge of a dumped state graph) are replayed request-by-request on the real leaser and the observed states are judged by TLC (verdict) and validated against the spec (binding).",
        design="7/C20",
        note="In-memory S3 with atomic If-Match/If-None-Match and fresh ETag per write stands for S3; model time maps 1 tick = 1 h of TTL. " + TB),
}

PENDING = {}
for i in range(1, 21):
    pid = "C%02d" % i
    if pid not in CHECKS:
        PENDING[pid] = "check not built yet in this round (planned in DESIGN.md section 7); not claimed until its spec, driver and judge exist"


def main():
    src_commits = []
    p = os.path.join(V, "hooks_commits.txt")
    if os.path.exists(p):
        src_commits = [l.split()[0] for l in open(p) if l.strip()]
    m = {
        "version": 1,
        "setup_cmd": "python3 tools/setup.py",
        "hooks": {
            "guard": "verif",
            "enable": "go build -tags verif (harness module with `replace github.com/benbjohnson/litestream => /repo`)",
            "baseline_off_cmd": "cd /repo && GOFLAGS=-mod=mod GOPROXY=off go test -vet=off -count=1 -timeout 25m ./...",
            "source_commits": src_commits,
            "add_only": True,
        },
        "engines": [
            {"name": "tlc", "path": "spec/", "serves_properties": sorted(CHECKS), "kind_free_text": "TLA+ specifications checked with TLC: exhaustive configs (MC_*), simulation/dump configs for schedule generation, judge (*Obs) and trace-validation (Trace_*) specs"},
            {"name": "harness", "path": "harness/", "serves_properties": sorted(CHECKS), "kind_free_text": "Go drivers that replay TLC schedules on the real litestream code (built with -tags verif from /repo's working tree) and record ndjson traces"},
        ],
        "checks": [],
        "not_applicable": [{"property_id": k, "reason": v} for k, v in sorted(PENDING.items())],
        "notes": "Verdicts (exit 1) only from TLA+ invariants evaluated by TLC on states recorded from the real code; machinery failures exit 2. See DESIGN.md section 4.",
    }
    for pid in sorted(CHECKS):
        c = CHECKS[pid]
        script = "tools/checks/%s.py" % pid.lower()
        m["checks"].append({
            "property_id": pid,
            "quick_cmd": "python3 %s --tier quick" % script,
            "thorough_cmd": "python3 %s --tier thorough" % script,
            "evidence_file": "evidence/%s.json" % pid,
            "replay_cmd_template": "python3 %s --replay {path}" % script,
            "engine": "tlc+harness",
            "level_claimed": {"category": c.get("category", "model_checking"), "text": c["text"], "design_ref": c["design"]},
            "level_note": c["note"],
            "technique": c["technique"],
        })
    with open(os.path.join(V, "MANIFEST.json"), "w") as fh:
        json.dump(m, fh, indent=1)
    print("MANIFEST.json: %d checks, %d not_applicable" % (len(m["checks"]), len(m["not_applicable"])))


if __name__ == "__main__":
    main()

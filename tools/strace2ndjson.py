#!/usr/bin/env python3
"""strace -f -y output of harness/cmd/scen  ->  ndjson events for spec/FsTraceObs.tla (C11).

usage: strace2ndjson.py <trace.txt> <root dir (…/fs)> <marks file> <t> <scenario>   (events on stdout)

Kept: successful calls on paths below <root> except SQLite's own files (db, db-wal, db-shm, db-journal and the
-wal/-shm of the restore output), plus the Mark lines the child writes to <marks>. Failed calls (e.g. the deferred
unlink of an already renamed .tmp, ENOENT) are not events. `<unfinished ...>` / `<... resumed>` pairs are joined and
take the position of the completion. Every record has the same fields:
  t i ev path old dir cls tree lvl min max n op what
  ev   reset | create | write | fsync | rename | unlink | metalost | mark
  cls  class of the FINAL name involved (rename target / unlinked name): localltx | replicaltx | restore | sidecar | other
  tree meta | rep | out | ""      lvl/min/max: parsed from an LTX final name (else -1/0/0)      n: merged write count
"""
import json, os, re, sys

LTX = re.compile(r"^([0-9a-f]{16})-([0-9a-f]{16})\.ltx$")
FD = re.compile(r"(-?\d+)<([^>]*)>")


def classify(rel):
    """(cls, tree, lvl, min, max) of a path relative to root, as a FINAL name."""
    parts = rel.split("/")
    base = parts[-1]
    m = LTX.match(base)
    if m and len(parts) >= 3 and parts[-3] == "ltx" and parts[-2].isdigit():
        tree = "meta" if parts[0].endswith("-litestream") else ("rep" if parts[0] == "replica" else "")
        if tree:
            return ("localltx" if tree == "meta" else "replicaltx"), tree, int(parts[-2]), int(m.group(1), 16), int(m.group(2), 16)
    if rel == "restored.db":
        return "restore", "out", -1, 0, 0
    if rel.endswith("-txid"):
        return "sidecar", "out", -1, 0, 0
    return "other", "", -1, 0, 0


def join_lines(path):
    """yield complete syscall lines (pid stripped), unfinished/resumed joined."""
    pend = {}
    for raw in open(path, errors="replace"):
        raw = raw.rstrip("\n")
        m = re.match(r"^(\d+)\s+(.*)$", raw)
        pid, line = (m.group(1), m.group(2)) if m else ("0", raw)
        if line.endswith("<unfinished ...>"):
            pend[pid] = line[: -len("<unfinished ...>")].rstrip()
            continue
        m = re.match(r"^<\.\.\. (\w+) resumed>\s?(.*)$", line)
        if m:
            head = pend.pop(pid, None)
            if head is None:
                continue
            line = head + m.group(2)
        yield line


def parse(trace, root, marks, t, scen):
    root = root.rstrip("/")
    metadir = None

    def rel(p):
        p = p.replace(" (deleted)", "")
        if p.startswith(root + "/"):
            return p[len(root) + 1:]
        return None

    def skip(r):
        if r is None:
            return True
        b = r.split("/")[-1]
        return r in ("db", "db-wal", "db-shm", "db-journal") or b.endswith("-wal") or b.endswith("-shm") or b.endswith("-journal")

    out = []

    def emit(ev, path="", old="", op="", what="", final=None):
        cls, tree, lvl, mn, mx = classify(final) if final is not None else ("other", "", -1, 0, 0)
        if ev == "write" and out and out[-1]["ev"] == "write" and out[-1]["path"] == path:
            out[-1]["n"] += 1
            return
        out.append({"t": t, "i": len(out), "ev": ev, "path": path, "old": old, "dir": (os.path.dirname(path) or "."), "cls": cls,
                    "tree": tree, "lvl": lvl, "min": mn, "max": mx, "n": 1, "op": op, "what": what, "scen": scen})

    emit("reset")
    for line in join_lines(trace):
        if re.search(r"\) = -1 E", line) or line.startswith("+++") or line.startswith("---"):
            continue
        m = re.match(r"write\((\d+)<([^>]*)>, \"((?:[^\"\\]|\\.)*)\"", line)
        if m and m.group(2) == marks:
            w = m.group(3).replace("\\n", "").split()
            if len(w) >= 4 and w[0] == "MARK":
                emit("mark", op="%s#%s" % (w[2], w[1]), what=w[3])
            continue
        m = re.match(r"(?:openat\([^,]*, |open\(|creat\()\"([^\"]*)\"(?:, ([A-Z_|0-9x]+))?", line)
        if m:
            r = rel(m.group(1)) if m.group(1).startswith("/") else None
            fl = m.group(2) or "O_CREAT|O_TRUNC"
            if not skip(r) and ("O_CREAT" in fl or "O_TRUNC" in fl) and "O_DIRECTORY" not in fl:
                emit("create", r)
            continue
        m = re.match(r"(write|pwrite64|writev|pwritev2?|ftruncate|fallocate)\((\d+)<([^>]*)>", line)
        if m:
            r = rel(m.group(3))
            if not skip(r):
                emit("write", r)
            continue
        m = re.match(r"(copy_file_range|sendfile|splice)\(", line)
        if m:
            fds = FD.findall(line)
            if len(fds) >= 2 and not re.search(r"\) = 0$", line):
                dst = fds[0][1] if m.group(1) == "sendfile" else fds[1][1]
                r = rel(dst)
                if not skip(r):
                    emit("write", r)
            continue
        m = re.match(r"(fsync|fdatasync)\((\d+)<([^>]*)>", line)
        if m:
            r = rel(m.group(3))
            if r is None and m.group(3).rstrip("/") == root:
                r = "."
            if not skip(r):
                emit("fsync", r)
            continue
        m = re.match(r"rename(?:at2?)?\((?:[^,\"]*, )?\"([^\"]*)\", (?:[^,\"]*, )?\"([^\"]*)\"", line)
        if m:
            a, b = rel(m.group(1)), rel(m.group(2))
            if a is not None and a.endswith("-litestream") and b is None:
                emit("metalost", a)
            elif not skip(b):
                emit("rename", b, old=a or "", final=b)
            continue
        m = re.match(r"(?:unlinkat\([^,]*, |unlink\()\"([^\"]*)\"(?:, ([A-Z_|0-9x]+))?", line)
        if m:
            r = rel(m.group(1))
            if not skip(r) and "AT_REMOVEDIR" not in (m.group(2) or ""):
                emit("unlink", r, final=r)
            continue
    return out


if __name__ == "__main__":
    evs = parse(sys.argv[1], sys.argv[2], sys.argv[3], int(sys.argv[4]), sys.argv[5])
    for e in evs:
        print(json.dumps(e))

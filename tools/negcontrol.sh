#!/bin/sh
# Negative control: rebuild the PINNED behaviour (every `fix:` commit reverted, verif hooks kept) in a scratch worktree and run
# the named checks against it with an empty known-findings file: each must exit 1 and name the defect it was written down for.
# usage: tools/negcontrol.sh c04 c12 c19 c11 c10 c16 c09 c18
set -e
WT=/tmp/wt-pinned
git -C /repo worktree remove --force $WT 2>/dev/null || true
git -C /repo worktree add --detach $WT >/dev/null 2>&1
( cd $WT && git revert --no-edit $(git log --format=%H --grep='^fix:' c829ceb..HEAD) >/dev/null 2>&1 )
echo '{"findings": []}' > /tmp/kf_empty.json
for p in "$@"; do
  echo "== $p"
  VERIF_REPO=$WT VERIF_KNOWN_FINDINGS=/tmp/kf_empty.json python3 tools/checks/$p.py --tier quick 2>&1 | grep -E '^OK|^VIOLATION|MACH|^  ' | cut -c1-170 | head -4
done
git -C /repo worktree remove --force $WT

#!/usr/bin/env python3
"""Shared runner for the checks bound to harness/cmd/core + spec/CoreObs.tla (C01, C02, C04, C13, C14).

 model (spec/Core.tla) --TLC simulate / dump--> schedules --(model_to_driver)--> harness/cmd/core on the REAL
 SQLite + litestream --> ndjson --> TLC judge CoreObs.tla (VERDICT/HAZARD lines) --> classification against
 known_findings.json --> evidence.
"""
import json, os, random, shutil
import vlib

PAGE_SIZES_QUICK = [4096, 512]
PAGE_SIZES_ALL = [512, 1024, 2048, 4096, 8192, 16384, 32768, 65536]


def model_to_driver(sched, gated=False):
    """Translate a behaviour of Core.tla (list of [action, args...]) into driver steps.
    gated: the checkpoint sub-steps of the model become CkStart / CkStep (the litestream goroutine is parked at the
    verif hooks between them, so application steps land exactly where the behaviour puts them)."""
    out = []
    for st in sched:
        a, args = st[0], st[1:]
        if a == "OpenSame":
            out.append(["LsOpen", "same"])
        elif a == "OpenNew":
            out.append(["LsOpen", "new"])
        elif a == "Close":
            out.append(["LsClose"])
        elif a == "AppWrite":
            out.append(["AppWrite", args[0] - 1])
        elif a == "AppWrite2":
            out.append(["AppWrite2", args[0] - 1, args[1] - 1])
        elif a == "AppGrow":
            out.append(["AppGrow", 1])
        elif a == "AppGrowWrite":
            out.append(["AppGrowWrite", 1])
        elif a == "AppShrink":
            out.append(["AppShrink", 1])
        elif a == "AppBeginSpill":
            out += [["AppBegin"], ["AppSpill", 3, args[0] - 1]]
        elif a == "AppCommitTx":
            out += [["AppSpill", 1, args[0] - 1], ["AppCommit"]]
        elif a == "AppRollbackTx":
            out.append(["AppRollback"])
        elif a == "AppCkpt":
            out.append(["AppCheckpoint", args[0]])
        elif a == "Sync":
            out.append(["LsSync"])
        elif a == "SyncAndWait":
            out.append(["LsSyncAndWait"])
        elif a == "CkStart":
            out.append(["CkStart" if gated else "LsCheckpoint", args[0]])
        elif gated and a in ("CkBarrier", "CkRelease", "CkPragma", "CkUnbarrier", "CkBump", "CkFinish"):
            out.append(["CkStep"])
        elif gated and a == "CkCtxCancel":      # the request's context is cancelled while the checkpoint is parked, then it runs on (and fails)
            out += [["CkCancel"], ["CkStep"]]
        # Bump, Ck* sub-steps, Crash: no driver step (internal to the calls above)
    return out


def mk_cfg(seed, page_size=4096, auto_vacuum="none", rows=6, min_pg=1000, trunc_pg=0, interval_ms=0, max_bytes=0,
           control=False, audit=False, init_ckpt=False):
    return {"pageSize": page_size, "autoVacuum": auto_vacuum, "rows": rows, "minPg": min_pg, "truncPg": trunc_pg,
            "intervalMs": interval_ms, "maxBytes": max_bytes, "seed": seed, "control": control, "audit": audit,
            "initCkpt": init_ckpt}


def run_cases(binary, wd, name, cases, j=None):
    inp = os.path.join(wd, name + ".in.json")
    out = os.path.join(wd, name + ".ndjson")
    work = os.path.join(wd, name + ".work")
    os.makedirs(work, exist_ok=True)
    with open(inp, "w") as fh:
        json.dump({"cases": cases}, fh)
    p = vlib.run([binary, "-in", inp, "-out", out, "-work", work, "-j", str(j or vlib.NCPU)], timeout=10000)
    shutil.rmtree(work, ignore_errors=True)
    info = json.loads(p.stdout.strip().splitlines()[-1])
    return out, info


def judge(rep, wd, trace_path, invariants, label, chunk=4000, module="CoreObs"):
    """Run CoreObs (or another judge module of the same conventions) over the trace (in chunks of whole traces). Returns (per_trace_events, verdicts, hazards)."""
    per, order = {}, []
    with open(trace_path) as fh:
        for line in fh:
            e = json.loads(line)
            if e["t"] not in per:
                per[e["t"]] = []
                order.append(e["t"])
            per[e["t"]].append(line)
    verdicts, hazards = {}, {}
    cfg = "SPECIFICATION Spec\nINVARIANTS %s\nCHECK_DEADLOCK FALSE\n" % " ".join(invariants)
    batch, n, k = [], 0, 0
    batches = []
    for t in order:
        batch += per[t]
        n += len(per[t])
        if n >= chunk:
            batches.append(batch)
            batch, n = [], 0
    if batch:
        batches.append(batch)
    for b in batches:
        k += 1
        with open(os.path.join(wd, "core_trace.ndjson"), "w") as fh:
            fh.writelines(b)
        r = vlib.run_tlc(module, module + "_run.cfg", wd, workers=1, timeout=1800, files={module + "_run.cfg": cfg})
        vlib.tlc_expect_ok(r, module)
        if not r.ok:
            raise vlib.MachineryError("%s did not complete:\n%s" % (module, r.out[-3000:]))
        rep.add_tlc("%s(%s#%d)" % (module, label, k), r, "judge over %d observed events" % len(b))
        for name, l, t, i in vlib.verdicts(r.out):
            verdicts.setdefault(t, []).append((name, i))
        for m in vlib.re.finditer(r'<<"HAZARD", "(\w+)", (-?\d+), (-?\d+), (-?\d+)>>', r.out):
            hazards.setdefault(int(m.group(3)), set()).add(m.group(1))
        for m in vlib.re.finditer(r'<<"NOTE", "(\w+)", (-?\d+), (-?\d+), (-?\d+)>>', r.out):      # conformance notes, never verdicts
            d = rep.cov.setdefault("conformance_notes", {})
            d[m.group(1)] = d.get(m.group(1), 0) + 1
            if d[m.group(1)] <= 2:
                rep.notes.append("DIVERGENCE %s: trace %s step %s" % (m.group(1), m.group(3), m.group(4)))
    events = {t: [json.loads(x) for x in lines] for t, lines in per.items()}
    return events, verdicts, hazards


def conformance(rep, wd, trace_path, label, chunk=2500):
    """Binding of Core.tla: its own Verify/SyncResult operators, instantiated on the pre-state observed before each real
    sync, must predict the level-0 file the real code wrote (Trace_CoreSync.tla). Divergences are reported, not verdicts."""
    lines = [x for x in open(trace_path)]
    full = [x for x in lines if '"has":true' in x.replace(" ", "")]
    if not full:
        return
    tids = set(json.loads(x)["t"] for x in full)
    sel = [x for x in lines if json.loads(x)["t"] in tids]
    branches, div, n = {}, [], 0
    for k in range(0, len(sel), chunk):
        # cut at trace boundaries
        part = sel[k:k + chunk]
        with open(os.path.join(wd, "core_trace.ndjson"), "w") as fh:
            fh.writelines(part)
        r = vlib.run_tlc("Trace_CoreSync", "Trace_CoreSync.cfg", wd, workers=1, timeout=1800)
        vlib.tlc_expect_ok(r, "Trace_CoreSync")
        rep.add_tlc("Trace_CoreSync(%s)" % label, r, "Core.tla's Verify/SyncResult vs the files written by the real code")
        for m in vlib.re.finditer(r'<<"BRANCH", "([a-z/-]+)", (\d+), (\d+), (\d+)>>', r.out):
            branches[m.group(1)] = branches.get(m.group(1), 0) + 1
            n += 1
        for m in vlib.re.finditer(r'<<"DIVERGE", (\d+), (\d+), (\d+)>>', r.out):
            e = json.loads(part[int(m.group(1)) - 1])
            div.append({"t": e["t"], "i": e["i"], "op": e["op"]})
    rep.cov["core_conformance"] = {"syncs_predicted": n, "branches": branches, "divergences": len(div), "first": div[:3]}
    for d in div[:3]:
        rep.notes.append("DIVERGENCE module=Core (Verify/SyncResult) trace=%d step=%d op=%s" % (d["t"], d["i"], d["op"]))


def policy_conformance(rep, wd, trace_path, label, chunk=3000):
    """Binding of Policy.tla: its own SyncOutcome, instantiated on the WAL / sync-state observed before each real DB.Sync,
    must predict the frames left in the WAL and the number of level-0 files created (Trace_Policy.tla)."""
    per, order = {}, []
    for line in open(trace_path):
        t = json.loads(line)["t"]
        if t not in per:
            per[t] = []
            order.append(t)
        per[t].append(line)
    batches, cur = [], []
    for t in order:
        cur += per[t]
        if len(cur) >= chunk:
            batches.append(cur)
            cur = []
    if cur:
        batches.append(cur)
    kinds, div, n = {}, [], 0
    for part in batches:
        with open(os.path.join(wd, "core_trace.ndjson"), "w") as fh:
            fh.writelines(part)
        r = vlib.run_tlc("Trace_Policy", "Trace_Policy.cfg", wd, workers=1, timeout=1800)
        vlib.tlc_expect_ok(r, "Trace_Policy")
        rep.add_tlc("Trace_Policy(%s)" % label, r, "Policy.tla's SyncOutcome vs what the real DB.Sync did")
        for m in vlib.re.finditer(r'<<"BRANCH", "([a-z+-]+)", (\d+), (\d+), (\d+)>>', r.out):
            kinds[m.group(1)] = kinds.get(m.group(1), 0) + 1
            n += 1
        for m in vlib.re.finditer(r'<<"DIVERGE", (\d+), (\d+), (\d+), (-?\d+), (\d+)>>', r.out):
            e = json.loads(part[int(m.group(1)) - 1])
            div.append({"t": e["t"], "i": e["i"], "cfg": [e["cfg"]["minPg"], e["cfg"]["truncPg"], e["cfg"]["intervalMs"]],
                        "pre": [e["pre"]["valid"], e["pre"]["synced"], e["pre"]["since"]],
                        "predicted": [int(m.group(4)), int(m.group(5))],
                        "observed": [e["wal"]["valid"], sum(1 for f in e["newl0"] if not f["fetched"])]})
    rep.cov["policy_conformance"] = {"syncs_predicted": n, "branches": kinds, "divergences": len(div), "first": div[:3]}
    for d in div[:3]:
        rep.notes.append("DIVERGENCE module=Policy (SyncOutcome) trace=%d step=%d cfg=%s pre=%s predicted=%s observed=%s"
                         % (d["t"], d["i"], d["cfg"], d["pre"], d["predicted"], d["observed"]))
    return div


def replica_conformance(rep, wd, trace_path, label, chunk=3000):
    """Binding of Replica.tla: its own CompactOut / SnapRetentionOut / L0RetentionResult, instantiated on the replica listing
    observed before each real compaction / retention call, must predict what the real code did (Trace_Replica.tla)."""
    per, order = {}, []
    for line in open(trace_path):
        t = json.loads(line)["t"]
        if t not in per:
            per[t] = []
            order.append(t)
        per[t].append(line)
    batches, cur = [], []
    for t in order:
        cur += per[t]
        if len(cur) >= chunk:
            batches.append(cur)
            cur = []
    if cur:
        batches.append(cur)
    kinds, div, n = {}, [], 0
    for part in batches:
        with open(os.path.join(wd, "core_trace.ndjson"), "w") as fh:
            fh.writelines(part)
        r = vlib.run_tlc("Trace_Replica", "Trace_Replica.cfg", wd, workers=1, timeout=1800)
        vlib.tlc_expect_ok(r, "Trace_Replica")
        rep.add_tlc("Trace_Replica(%s)" % label, r, "Replica.tla's compaction/retention operators vs what the real code did")
        for m in vlib.re.finditer(r'<<"BRANCH", "([a-z0-9-]+)", (\d+), (\d+), (\d+)>>', r.out):
            kinds[m.group(1)] = kinds.get(m.group(1), 0) + 1
            n += 1
        for m in vlib.re.finditer(r'<<"DIVERGE", (\d+), (\d+), (\d+)>>', r.out):
            e = json.loads(part[int(m.group(1)) - 1])
            div.append({"t": e["t"], "i": e["i"], "op": e["op"], "n": e["n"]})
    rep.cov["replica_conformance"] = {"operations_predicted": n, "kinds": kinds, "divergences": len(div), "first": div[:3]}
    for d in div[:3]:
        rep.notes.append("DIVERGENCE module=Replica trace=%d step=%d op=%s %s" % (d["t"], d["i"], d["op"], d["n"]))


def environment_conformance(rep, wd, seed, files=4, traces=40):
    """SqliteWal.tla (the environment half of the specification) must accept traces recorded from REAL SQLite with no
    litestream attached (cmd/envtrace).  Includes a negative control: one corrupted page id must be rejected."""
    binary, _ = vlib.go_build("./cmd/envtrace", "envtrace")
    acc, ev = 0, 0
    for k in range(files):
        out = os.path.join(wd, "env_trace.ndjson")
        vlib.run([binary, "-seed", str(seed * 100 + k), "-n", str(traces), "-ps", str([4096, 512, 1024, 8192][k % 4]), "-out", out, "-work", wd], timeout=600)
        n = sum(1 for _ in open(out))
        r = vlib.run_tlc("SqliteWal", "SqliteWal.cfg", wd, workers=1, timeout=900)
        vlib.tlc_expect_ok(r, "SqliteWal")
        rep.add_tlc("SqliteWal(env #%d)" % k, r, "real SQLite trace of %d events" % n)
        ok = r.ok and r.distinct >= n
        ev += n
        acc += 1 if ok else 0
        if not ok:
            rep.notes.append("DIVERGENCE module=SqliteWal (environment): real SQLite trace #%d rejected after %d of %d events" % (k, max(0, r.distinct - 1), n))
        if k == 0:   # negative control
            lines = open(out).readlines()
            for j, ln in enumerate(lines):
                e = json.loads(ln)
                if e["ev"] == "txn" and j > 20:
                    e["obs"]["wal"][-1]["ver"] += 1000
                    lines[j] = json.dumps(e) + "\n"
                    break
            open(out, "w").writelines(lines)
            r2 = vlib.run_tlc("SqliteWal", "SqliteWal.cfg", wd, workers=1, timeout=900)
            rejected = (not r2.ok) or r2.distinct < n
            rep.cov.setdefault("negative_controls", {})["corrupted_env_trace_rejected"] = bool(rejected)
    rep.cov["environment_conformance"] = {"files": files, "accepted": acc, "events": ev}


def classify(rep, prop, cases_by_id, events, verdicts, hazards, my_invariants, label):
    """Known finding <=> the trace shows the signature (hazard) of a listed finding and only invariants listed for it."""
    known = [f for f in vlib.known_findings(prop) if f.get("status") == "known"]
    nviol = 0
    for t, items in sorted(verdicts.items()):
        items = [(n, i) for (n, i) in items if n in my_invariants]
        if not items:
            continue
        names = sorted(set(n for n, _ in items))
        hz = hazards.get(t, set())
        match = None
        for f in known:
            if f["signature"] in hz and all(n in f["invariants"] for n in names):
                match = f
                break
        slim = [{k: e[k] for k in ("i", "op", "arg", "n", "res", "ack", "lpos", "rpos")} for e in events.get(t, [])]
        if match:
            rep.known_finding(match["id"], match["what"])
            rep.cov.setdefault("known_finding_traces", 0)
            rep.cov["known_finding_traces"] += 1
            continue
        nviol += 1
        c = cases_by_id[t]
        rep.violation("%s violated on the real litestream (batch %s, trace %d, steps %s; hazards seen: %s)" % (
            names, label, t, sorted(set(i for _, i in items))[:5], sorted(hz)),
            {"cfg": c["cfg"], "sched": c["sched"], "violated": items, "hazards": sorted(hz), "steps": slim})
    return nviol


# --------------------------------------------------------------------------------------------------------------
# daemon mode: the real Store with all its monitors running next to a live application writer (harness/core/daemon.go)

DAEMON_INV = ["D_AckRestoreEqualsSource", "D_FinalRestoreEqualsSource", "D_EveryTxidIsACommittedState", "D_ReplicaMonotone",
              "D_Level0OneRun", "D_LevelsContiguous", "D_SnapshotKept", "D_CatchesUp", "D_SameAsControlRun", "D_BookkeepingOnly", "D_StopReturns", "D_NoLeakAfterStop",
              "D_SourceNotPinned", "D_NoPanic"]


FAULT_KINDS = ["list", "open", "openmid", "write-before", "write-partial", "write-after", "delete-before", "delete-after"]


def daemon_cases(seed, n, first_id=0, steps=(40, 90), faults="some", loss=False, restarts=True, loss_modes=("all",), store_ops=True):
    """faults: "none" | "some" (every third case) | "all": storage faults armed in bursts while the monitors run
    loss: local level-0 files vanish / are truncated under the running daemon (auto-recovery on in two cases of three)"""
    rnd = random.Random(seed * 7793 + 17)
    cases = []
    for k in range(n):
        with_faults = faults == "all" or (faults == "some" and k % 3 == 2)
        rich = k % 2 == 1        # multi-statement transactions, long readers, disable / enable
        sched = [["DaemonStart"]]
        for _ in range(rnd.randint(*steps)):
            x = rnd.random()
            if with_faults and x < 0.12:
                sched.append(["Fault", rnd.choice(FAULT_KINDS), rnd.randint(1, 3)])
                continue
            if loss and x < 0.05:
                sched += [["LocalLoss", rnd.choice(loss_modes)], ["Sleep", rnd.randint(20, 120)]]
                continue
            if x < 0.45:
                sched.append(["AppWrite", rnd.randint(1, 6)])
            elif x < 0.55:
                sched.append(["AppWrite2", rnd.randint(1, 6), rnd.randint(1, 6)])
            elif x < 0.65:
                sched.append(["AppGrow", rnd.randint(1, 3)])
            elif x < 0.70:
                sched += [["AppDelete", 1], ["AppReclaim"]]
            elif x < 0.76:
                sched.append(["AppCheckpoint", rnd.choice(["PASSIVE", "FULL", "RESTART", "TRUNCATE"])])
            elif x < 0.79:
                sched.append(["AppDDL", rnd.randint(0, 7)])
            elif x < 0.82 and rich:
                # a multi-statement transaction whose frames spill into the WAL before it commits or rolls back
                blk = [["AppBegin"]]
                for _ in range(rnd.randint(1, 3)):
                    blk.append(rnd.choice([["AppSpill", rnd.randint(1, 4), rnd.randint(0, 5)], ["Sleep", rnd.randint(5, 40)], ["SyncWait"]]))
                blk.append(["AppSpill", rnd.randint(1, 3), rnd.randint(0, 5)])
                blk.append(rnd.choice([["AppCommit"], ["AppCommit"], ["AppRollback"]]))
                sched += blk
            elif x < 0.84 and rich:
                # a long application reader pins the WAL for a while
                sched += [["ReaderOpen"]] + [rnd.choice([["AppWrite", rnd.randint(1, 6)], ["Sleep", rnd.randint(5, 40)], ["AppGrow", 1]]) for _ in range(rnd.randint(1, 4))] + [["ReaderClose"]]
            elif x < 0.855 and rich and store_ops:
                # the daemon disables and re-enables the database while its monitors keep running
                sched += [["StDisable"]] + [rnd.choice([["AppWrite", rnd.randint(1, 6)], ["Sleep", rnd.randint(5, 30)], ["AppCheckpoint", "TRUNCATE"]]) for _ in range(rnd.randint(0, 3))] + [["StEnable"]]
            elif x < 0.87:
                sched.append(["SyncWait"])
            else:
                sched.append(["Sleep", rnd.randint(5, 80)])
            if rnd.random() < 0.5:
                sched.append(["Sleep", rnd.randint(1, 20)])
        if restarts and k % 2 == 0:
            # the process is restarted (new DB object) once or twice, the application keeps working while litestream is down
            cut = sorted(rnd.sample(range(5, len(sched) - 1), min(2, rnd.randint(1, 2))))
            out, prev = [], 0
            for c in cut:
                down = [rnd.choice([["AppWrite", rnd.randint(1, 6)], ["AppGrow", 1], ["AppCheckpoint", rnd.choice(["PASSIVE", "RESTART", "TRUNCATE"])],
                                    ["Sleep", rnd.randint(5, 30)]]) for _ in range(rnd.randint(0, 5))]
                out += sched[prev:c] + [["DaemonStop"]] + down + [["DaemonStart"]]
                prev = c
            sched = out + sched[prev:]
        if with_faults:
            sched += [["ClearFaults"], ["Sleep", 30], ["SyncWait"], ["SyncWait"]]
        elif rnd.random() < 0.7:
            sched.append(["SyncWait"])
        sched += [["DaemonStop"], ["Validate"], ["AuditNow"], ["RestoreCheck"], ["AppCheckpoint", "TRUNCATE"]]
        cfg = mk_cfg(seed * 1009 + k, page_size=[4096, 512, 1024][k % 3], rows=6, init_ckpt=(k % 2 == 0),
                     auto_vacuum=["none", "none", "incremental"][k % 3],
                     min_pg=[1000, 4, 2][k % 3], trunc_pg=[0, 0, 9][(k // 3) % 3],
                     max_bytes=[0, 0, [4096, 512, 1024][k % 3] + 24, 3 * ([4096, 512, 1024][k % 3] + 24)][k % 4])
        fast = k % 2 == 0
        cfg["faults"] = with_faults
        cfg["control"] = True       # the same application history without litestream (C14 clause of the daemon judge)
        cfg["daemon"] = {"monMs": rnd.choice([5, 10, 25]), "syncMs": rnd.choice([5, 10, 30]),
                         "l1Ms": 60 if fast else 150, "l2Ms": 200 if fast else 450, "snapMs": rnd.choice([250, 500, 900]),
                         "snapRetMs": rnd.choice([300, 700, 1500]), "l0RetMs": rnd.choice([50, 150, 400]), "l0CheckMs": rnd.choice([40, 90]),
                         "shutdownMs": 3000, "validateMs": rnd.choice([0, 150]), "appAutoCkpt": rnd.choice([0, 0, 2, 8]),
                         "autoRecover": bool(loss and k % 3 != 0)}
        cases.append({"id": first_id + k, "cfg": cfg, "sched": sched, "label": "daemon"})
    return cases


def daemon_run(rep, binary, wd, cases, prop, name="daemon"):
    """Run daemon-mode cases on the real code and judge them with DaemonObs.tla. Returns the number of violations."""
    by_id = {c["id"]: c for c in cases}
    out, info = run_cases(binary, wd, name, [{k: c[k] for k in ("id", "cfg", "sched")} for c in cases], j=8)
    events, verdicts, hazards = judge(rep, wd, out, DAEMON_INV, prop + "-daemon", module="DaemonObs")
    st = {"runs": len(events), "runs_with_faults": sum(1 for c in cases if c["cfg"].get("faults")), "acks": 0, "acks_restored": 0, "txids_audited": 0, "txids_below_floor": 0, "compactions": 0,
          "snapshots": 0, "l0_deleted_runs": 0, "validator_disagrees": 0, "clean_stops": 0, "steps_compared_with_control": 0}
    for t, evs in events.items():
        st["acks"] += sum(1 for e in evs if e["ack"])
        st["steps_compared_with_control"] += sum(1 for e in evs if e["ctl"] != -1)
        st["acks_restored"] += sum(1 for e in evs if e["ack"] and e["rest"]["ok"])
        for e in evs:
            if e["op"] == "AuditNow":
                st["txids_audited"] += len(e["audit"])
                st["txids_below_floor"] += sum(1 for a in e["audit"] if not a["ok"])
            if e["op"] == "DaemonStop" and e["res"] == "ok":
                st["clean_stops"] += 1
            if e["op"] == "Validate" and e["res"].startswith("invalid"):
                st["validator_disagrees"] += 1
                rep.notes.append("litestream's own Store.Validate reports the replica invalid (trace %d): %s" % (t, e["res"][:200]))
        last = evs[-1]["remote"] if evs else []
        st["compactions"] += sum(1 for f in last if f[0] in (1, 2))
        st["snapshots"] += sum(1 for f in last if f[0] == 9)
        l0 = [f[1] for f in last if f[0] == 0]
        st["l0_deleted_runs"] += 1 if l0 and min(l0) > 1 else 0
    rep.cov["daemon_mode"] = st
    nv = 0
    known = [f for f in vlib.known_findings(prop) if f.get("status") == "known"]
    for t, items in sorted(verdicts.items()):
        names = sorted(set(n for n, _ in items))
        c = by_id[t]
        hz = hazards.get(t, set())
        match = [f for f in known if f["signature"] in hz and all(n in f["invariants"] for n in names)]
        if match:
            rep.known_finding(match[0]["id"], match[0]["what"])
            rep.cov.setdefault("known_finding_traces", 0)
            rep.cov["known_finding_traces"] += 1
            continue
        slim = [{k: e[k] for k in ("i", "op", "arg", "n", "res", "ack", "rpos", "app")} for e in events.get(t, [])]
        audits = [[[a["lvl"], a["txid"], a["ok"], a["app"], a.get("integ", "")[:24]] for a in e["audit"]] for e in events.get(t, []) if e["op"] == "AuditNow"]
        rep.violation("%s violated by the real daemon (Store with all monitors running, trace %d, steps %s)" % (
            names, t, sorted(set(i for _, i in items))[:5]), {"cfg": c["cfg"], "sched": c["sched"], "violated": items, "steps": slim[-60:],
                                                             "ledger": [e["app"] for e in events.get(t, [])], "audits": audits[-1:],
                                                             "listing": (events.get(t) or [{}])[-1].get("remote")})
        nv += 1
    return nv, events


# --------------------------------------------------------------------------------------------------------------
# seeded random schedules for operations outside the model's vocabulary

def random_schedule(rnd, n, rows, with_down=True, with_state_loss=False, with_tx=True, with_policy=False):
    s = [["LsOpen", "new"]]
    up, intx = True, False
    downs = 0
    for _ in range(n):
        x = rnd.random()
        if intx:
            c = rnd.random()
            if c < 0.35:
                s.append(["AppSpill", rnd.randint(1, 4), rnd.randint(0, rows - 1)])
            elif c < 0.6:
                s.append(["AppCommit"]); intx = False
            elif c < 0.75:
                s.append(["AppRollback"]); intx = False
            elif up:
                s.append([rnd.choice(["LsSync", "LsSyncAndWait", "LsSync"])])
            continue
        if x < 0.30:
            s.append(["AppWrite", rnd.randint(1, rows)])
        elif x < 0.36:
            s.append(["AppWrite2", rnd.randint(1, rows), rnd.randint(1, rows)])
        elif x < 0.43:
            s.append(["AppGrow", rnd.randint(1, 3)])
        elif x < 0.47:
            s.append(["AppShrink", 1])
        elif x < 0.50:
            s.append(["AppDDL", rnd.randint(0, 7)])
        elif x < 0.52:
            s.append(["AppVacuum"])
        elif x < 0.57 and with_tx:
            s.append(["AppBegin"]); intx = True
        elif x < 0.64:
            s.append(["AppCheckpoint", rnd.choice(["PASSIVE", "FULL", "RESTART", "TRUNCATE"])])
        elif x < 0.66:
            s.append([rnd.choice(["ReaderOpen", "ReaderClose"])])
        elif x < 0.80:
            s.append([rnd.choice(["LsSync", "LsSyncAndWait", "LsSyncAndWait", "LsReplicaSync"])])
        elif x < 0.86:
            s.append(["LsCheckpoint", rnd.choice(["PASSIVE", "FULL", "RESTART", "TRUNCATE"])])
        elif x < 0.93 and with_down:
            if up and downs < 3:
                s.append(["LsClose"]); up = False; downs += 1
            elif not up:
                if with_state_loss and rnd.random() < 0.25:
                    s.append([rnd.choice(["MetaLost", "SaveCopy", "ReplaceDb", "SaveAll", "RestoreAll", "RestoreAll"])])
                s.append(["LsOpen", rnd.choice(["new", "same"])]); up = True
        elif x < 0.95 and with_state_loss and up:
            s.append(["LsReset"])
        elif x < 0.97 and not up:
            s.append([rnd.choice(["AppClose", "AppOpen"])])
        else:
            s.append(["AppWrite", rnd.randint(1, rows)])
    if intx:
        s.append(["AppCommit"])
    s.append(["AppOpen"])
    if not up:
        s.append(["LsOpen", "new"])
    s.append(["LsSyncAndWait"])
    s.append(["LsClose"])
    return s

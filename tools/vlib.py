#!/usr/bin/env python3
"""Common plumbing for the litestream TLA+ verification checks.

Every check (tools/checks/cXX.py) uses this module to
  * build the Go drivers from /repo's *current working tree* with the `verif` build tag,
  * run TLC (exhaustive / simulate / trace validation) in a scratch directory that is removed afterwards,
  * classify violating traces against known_findings.json,
  * write evidence/<id>.json and print the VIOLATION / KNOWN-FINDING lines.

Exit codes: 0 = property held on everything explored (known findings are printed),
            1 = violation not listed in known_findings.json (VIOLATION line printed),
            2 = the machinery itself failed (build error, TLC crash, dead driver, timeout): never a violation.
"""
import json, os, re, shutil, subprocess, sys, tempfile, time, hashlib

VERIF = os.path.dirname(os.path.dirname(os.path.abspath(__file__)))
REPO = os.environ.get("VERIF_REPO", "/repo")
SPEC = os.path.join(VERIF, "spec")
HARNESS = os.path.join(VERIF, "harness")
BUILD = os.path.join(VERIF, "build")
EVID = os.path.join(VERIF, "evidence")
REPLAY = os.path.join(VERIF, "replay")      # violating traces are kept here (path printed in the VIOLATION line)
if os.path.realpath(REPO) != "/repo":
    # Testing the machinery against a scratch worktree (seeded mutants): VERIF_REPO=/tmp/wt python3 tools/checks/cXX.py
    # builds, evidence and replay files go to a per-worktree directory so that /verif's own results are not disturbed.
    _h = hashlib.sha1(os.path.realpath(REPO).encode()).hexdigest()[:10]
    BUILD = os.path.join(VERIF, "build", "alt-" + _h)
    EVID = os.path.join(BUILD, "evidence")
    REPLAY = os.path.join(BUILD, "replay")
NCPU = os.cpu_count() or 4


class MachineryError(Exception):
    pass


def goenv():
    e = dict(os.environ)
    e["GOFLAGS"] = "-mod=mod"
    e["GOPROXY"] = "off"
    e.pop("GOSUMDB", None)          # GOSUMDB=off breaks the cached-toolchain switch
    e["GOTOOLCHAIN"] = "auto"       # go.mod pins go1.25.13 which is in the module cache
    e.setdefault("GOCACHE", os.path.expanduser("~/.cache/go-build"))
    return e


def seed():
    try:
        return int(os.environ.get("VERIF_SEED", "1"))
    except ValueError:
        return 1


def scratch(prefix="verif-"):
    base = os.environ.get("VERIF_SCRATCH")
    if not base:
        base = "/dev/shm" if os.path.isdir("/dev/shm") and os.access("/dev/shm", os.W_OK) else tempfile.gettempdir()
    return tempfile.mkdtemp(prefix=prefix, dir=base)


def sync_gosum():
    """harness/go.sum is a copy of /repo/go.sum (the harness has no dependency of its own).
    Returns extra `go` flags: with VERIF_REPO set, an alternative modfile whose replace points there."""
    src = os.path.join(REPO, "go.sum")
    if os.path.realpath(REPO) == "/repo":
        dst = os.path.join(HARNESS, "go.sum")
        if os.path.exists(src) and (not os.path.exists(dst) or open(src, "rb").read() != open(dst, "rb").read()):
            shutil.copyfile(src, dst)
        return []
    os.makedirs(BUILD, exist_ok=True)
    mod = open(os.path.join(HARNESS, "go.mod")).read().replace("=> /repo", "=> " + os.path.realpath(REPO))
    alt = os.path.join(BUILD, "go.mod")
    if not os.path.exists(alt) or open(alt).read() != mod:
        open(alt, "w").write(mod)
    shutil.copyfile(src, os.path.join(BUILD, "go.sum"))
    return ["-modfile=" + alt]


def go_build(pkg, out, tags="verif", race=False, timeout=1500):
    """Build harness package `pkg` (e.g. ./cmd/lease) against /repo's working tree."""
    os.makedirs(BUILD, exist_ok=True)
    cmd = ["go", "build"] + sync_gosum() + ["-tags", tags, "-o", os.path.join(BUILD, out)]
    if race:
        cmd.append("-race")
    cmd.append(pkg)
    t0 = time.time()
    p = subprocess.run(cmd, cwd=HARNESS, env=goenv(), stdout=subprocess.PIPE, stderr=subprocess.STDOUT,
                       text=True, timeout=timeout)
    if p.returncode != 0:
        raise MachineryError("go build failed for %s:\n%s" % (pkg, p.stdout[-4000:]))
    return os.path.join(BUILD, out), time.time() - t0


def go_test_build(pkg, out, tags="verif", race=False, timeout=1500):
    os.makedirs(BUILD, exist_ok=True)
    cmd = ["go", "test", "-c"] + sync_gosum() + ["-tags", tags, "-o", os.path.join(BUILD, out)]
    if race:
        cmd.append("-race")
    cmd.append(pkg)
    p = subprocess.run(cmd, cwd=HARNESS, env=goenv(), stdout=subprocess.PIPE, stderr=subprocess.STDOUT,
                       text=True, timeout=timeout)
    if p.returncode != 0:
        raise MachineryError("go test -c failed for %s:\n%s" % (pkg, p.stdout[-4000:]))
    return os.path.join(BUILD, out)


# ----------------------------------------------------------------------------------------------
# TLC

TLC_JAR = "/opt/veriftools/tla/tla2tools.jar:/opt/veriftools/tla/CommunityModules-deps.jar"


class TlcResult:
    def __init__(self):
        self.rc = None
        self.out = ""
        self.generated = 0
        self.distinct = 0
        self.depth = 0
        self.violated = []      # names of violated invariants / properties
        self.ok = False         # finished without error
        self.error = None       # non-invariant error text (parse error, runtime error, ...)
        self.wall = 0.0
        self.coverage = {}      # action -> (total, distinct) when -coverage was on
        self.postcond_failed = False

    def summary(self):
        return {"generated": self.generated, "distinct": self.distinct, "depth": self.depth,
                "violated": self.violated, "ok": self.ok, "wall_s": round(self.wall, 2)}


def run_tlc(module, cfg, workdir, workers=None, timeout=1800, extra=None, heap=None, dfs=False, files=None,
            simulate=None, depth=None, coverage=False, deadlock=None):
    """Run TLC on spec/<module>.tla with spec/<cfg> inside `workdir` (spec files are copied there)."""
    for f in os.listdir(SPEC):
        if f.endswith(".tla") or f.endswith(".cfg"):
            shutil.copyfile(os.path.join(SPEC, f), os.path.join(workdir, f))
    for name, content in (files or {}).items():
        with open(os.path.join(workdir, name), "w") as fh:
            fh.write(content)
    meta = os.path.join(workdir, "meta-%s-%d" % (module, int(time.time() * 1000) % 100000))
    java = ["java", "-XX:+UseParallelGC"]
    if heap:
        java.append("-Xmx%s" % heap)
    java += ["-Xss64m", "-Djava.io.tmpdir=%s" % workdir]   # TLC's tlc-<n> temp dirs go away with the scratch dir
    if dfs:
        java.append("-Dtlc2.tool.queue.IStateQueue=StateDeque")
    cmd = java + ["-cp", TLC_JAR, "tlc2.TLC", "-workers", str(workers or "auto"), "-metadir", meta,
                  "-config", cfg]
    if simulate:
        cmd += ["-simulate", simulate]
    if depth:
        cmd += ["-depth", str(depth)]
    if coverage:
        cmd += ["-coverage", "1"]
    if deadlock is False:
        cmd += ["-deadlock"]
    cmd += (extra or [])
    cmd.append(module + ".tla")
    r = TlcResult()
    t0 = time.time()
    try:
        p = subprocess.run(cmd, cwd=workdir, stdout=subprocess.PIPE, stderr=subprocess.STDOUT, text=True,
                           timeout=timeout)
        r.rc, r.out = p.returncode, p.stdout
    except subprocess.TimeoutExpired as e:
        r.rc, r.out = -9, (e.stdout or b"").decode("utf-8", "replace") if isinstance(e.stdout, bytes) else (e.stdout or "")
        r.error = "timeout after %ss" % timeout
    r.wall = time.time() - t0
    shutil.rmtree(meta, ignore_errors=True)
    parse_tlc(r)
    return r


def parse_tlc(r):
    out = r.out
    for m in re.finditer(r"(\d+) states generated, (\d+) distinct states found", out):
        r.generated, r.distinct = int(m.group(1)), int(m.group(2))
    m = re.search(r"The depth of the complete state graph search is (\d+)", out)
    if m:
        r.depth = int(m.group(1))
    for m in re.finditer(r"Invariant (\S+) is violated", out):
        r.violated.append(m.group(1))
    for m in re.finditer(r"Action property (\S+) is violated|Temporal properties were violated|property (\S+) is violated", out):
        r.violated.append(m.group(1) or m.group(2) or "temporal")
    if "Deadlock reached" in out:
        r.violated.append("Deadlock")
    if re.search(r"Postcondition .* violated|The postcondition .* (is )?(false|violated)|Evaluating postcondition .* failed", out, re.I):
        r.postcond_failed = True
    r.ok = ("Model checking completed. No error has been found." in out) or \
           (r.rc == 0 and "Error:" not in out)
    if not r.ok and not r.violated and not r.postcond_failed and r.error is None:
        m = re.search(r"Error: (.*(?:\n.*){0,12})", out)
        r.error = m.group(1) if m else "TLC rc=%s" % r.rc
    # coverage lines: <Action line 12, col 1 to line 20, col 30 of module X>: 12:345
    for m in re.finditer(r"<(\w+) line \d+, col \d+ to line \d+, col \d+ of module (\w+)>: (\d+):(\d+)", out):
        r.coverage[m.group(1)] = (int(m.group(4)), int(m.group(3)))
    return r


def tlc_expect_ok(r, what):
    if r.error:
        raise MachineryError("%s: TLC error: %s\n%s" % (what, r.error, r.out[-3000:]))


# ----------------------------------------------------------------------------------------------
# Known findings

def known_findings(prop=None):
    # VERIF_KNOWN_FINDINGS: testing aid only (e.g. to confirm that a candidate repair in a scratch worktree makes a
    # check pass with the finding no longer listed); registered commands never set it.
    with open(os.environ.get("VERIF_KNOWN_FINDINGS") or os.path.join(VERIF, "known_findings.json")) as fh:
        kf = json.load(fh)
    out = []
    for f in kf.get("findings", []):
        props = f["property"] if isinstance(f["property"], list) else [f["property"]]
        if prop is None or prop in props:
            out.append(f)
    return out


# ----------------------------------------------------------------------------------------------
# Evidence / verdict

class Report:
    """Collects what one check run covered and decides the exit code."""

    def __init__(self, prop, tier, level="model_checking"):
        self.prop, self.tier, self.level = prop, tier, level
        self.t0 = time.time()
        self.cov = {"states": 0, "transitions": 0, "traces_validated_against_impl": 0, "samples": [],
                    "evaluations": 0, "distinct_nontrivial": 0, "rule": "", "exhaustive": False}
        self.assumptions = []
        self.violations = []        # list of (what, replay_path)
        self.known = []             # list of (finding id, what)
        self.notes = []
        self.machinery = None

    def add_tlc(self, name, r, constants=""):
        self.cov["states"] += r.distinct
        self.cov["transitions"] += r.generated
        self.cov.setdefault("tlc_runs", []).append(dict(r.summary(), name=name, constants=constants))

    def sample(self, s, limit=6):
        if len(self.cov["samples"]) < limit:
            self.cov["samples"].append(s)

    def violation(self, what, payload):
        self.nviol = getattr(self, "nviol", 0) + 1
        if len(self.violations) >= 5:       # keep a handful of replay files, count the rest
            return
        os.makedirs(REPLAY, exist_ok=True)
        h = hashlib.sha1(json.dumps(payload, sort_keys=True, default=str).encode()).hexdigest()[:12]
        path = os.path.join(REPLAY, "%s-%s.json" % (self.prop, h))
        with open(path, "w") as fh:
            json.dump({"property": self.prop, "what": what, "case": payload}, fh, indent=1, default=str)
        self.violations.append((what, path))

    def known_finding(self, fid, what):
        if (fid, what) not in self.known:
            self.known.append((fid, what))

    def finish(self):
        wall = time.time() - self.t0
        self.cov["known_findings_reproduced"] = [k[0] for k in self.known]
        self.cov["notes"] = self.notes
        ev = {"property_id": self.prop, "tier": self.tier, "seed": seed(), "level": self.level,
              "coverage": self.cov, "assumptions": self.assumptions, "wall_s": round(wall, 2),
              "violations": getattr(self, "nviol", 0)}
        os.makedirs(EVID, exist_ok=True)
        # a --replay run re-executes one stored case: its (tiny) coverage must not replace the evidence of the last full run
        name = self.prop + (".replay.json" if "--replay" in sys.argv else ".json")
        with open(os.path.join(EVID, name), "w") as fh:
            json.dump(ev, fh, indent=1, default=str)
        for fid, what in self.known:
            print("KNOWN-FINDING: property=%s %s %s" % (self.prop, fid, what))
        for what, path in self.violations:
            print("VIOLATION property=%s replay=%s" % (self.prop, path))
            print("  " + what)
        if self.violations:
            return 1
        print("OK property=%s tier=%s states=%d traces=%d wall=%.1fs" % (
            self.prop, self.tier, self.cov["states"], self.cov["traces_validated_against_impl"], wall))
        return 0


def main_wrapper(fn):
    """Run a check function; map machinery failures to exit 2."""
    try:
        rc = fn()
    except MachineryError as e:
        print("MACHINERY-ERROR: %s" % e, file=sys.stderr)
        sys.exit(2)
    except subprocess.TimeoutExpired as e:
        print("MACHINERY-ERROR: timeout %s" % e, file=sys.stderr)
        sys.exit(2)
    sys.exit(rc)


def apalache_check(wd, module, cinit, init, inv, length, timeout=1800):
    """One bounded Apalache run in a scratch copy of spec/. Returns (outcome, seconds): outcome 'NoError' | 'Error' | 'failed:<tail>'."""
    d = os.path.join(wd, "apalache-%s-%s-%s-%d" % (module, cinit, inv, length))
    os.makedirs(d, exist_ok=True)
    shutil.copy(os.path.join(SPEC, module + ".tla"), d)
    t0 = time.time()
    p = subprocess.run(["apalache-mc", "check", "--cinit=" + cinit, "--init=" + init, "--inv=" + inv, "--length=%d" % length,
                        "--out-dir=" + os.path.join(d, "out"), module + ".tla"], cwd=d, stdout=subprocess.PIPE, stderr=subprocess.STDOUT,
                       text=True, timeout=timeout)
    m = re.search(r"The outcome is: (\w+)", p.stdout)
    shutil.rmtree(d, ignore_errors=True)
    return (m.group(1) if m else "failed:" + p.stdout[-600:]), round(time.time() - t0, 1)


def run(cmd, cwd=None, timeout=600, env=None, check=True, input=None):
    p = subprocess.run(cmd, cwd=cwd, env=env, stdout=subprocess.PIPE, stderr=subprocess.PIPE, text=True,
                       timeout=timeout, input=input)
    if check and p.returncode != 0:
        raise MachineryError("command failed (%d): %s\n%s\n%s" % (p.returncode, " ".join(cmd), p.stdout[-2000:], p.stderr[-4000:]))
    return p


def tla_str(s):
    return '"' + s.replace("\\", "\\\\").replace('"', '\\"') + '"'


def to_tla(v):
    """Python value -> TLA+ expression (records from dicts, sequences from lists, sets from python sets)."""
    if isinstance(v, bool):
        return "TRUE" if v else "FALSE"
    if isinstance(v, int):
        return str(v)
    if isinstance(v, str):
        return tla_str(v)
    if isinstance(v, (list, tuple)):
        return "<<" + ", ".join(to_tla(x) for x in v) + ">>"
    if isinstance(v, (set, frozenset)):
        return "{" + ", ".join(to_tla(x) for x in sorted(v, key=repr)) + "}"
    if isinstance(v, dict):
        if not v:
            return "<<>>"
        return "[" + ", ".join("%s |-> %s" % (k, to_tla(x)) for k, x in v.items()) + "]"
    if v is None:
        return '"nil"'
    raise TypeError(type(v))


# ----------------------------------------------------------------------------------------------
# Schedules out of TLC

_ACT = re.compile(r"^\\\* <(\w+)(?:\((.*)\))? line \d+", re.M)


def _split_args(s):
    if s is None or s.strip() == "":
        return []
    out, depth, cur = [], 0, ""
    for ch in s:
        if ch in "<[{(":
            depth += 1
        elif ch in ">]})":
            depth -= 1
        if ch == "," and depth == 0:
            out.append(cur.strip())
            cur = ""
        else:
            cur += ch
    out.append(cur.strip())
    res = []
    for a in out:
        if len(a) >= 2 and a[0] == '"' and a[-1] == '"':
            res.append(a[1:-1])
        elif re.fullmatch(r"-?\d+", a):
            res.append(int(a))
        elif a in ("TRUE", "FALSE"):
            res.append(a == "TRUE")
        else:
            res.append(a)
    return res


def parse_behaviour(text, skip=("Init",)):
    """TLC `-simulate file=` behaviour -> [[action, arg...], ...]"""
    sched = []
    for m in _ACT.finditer(text):
        if m.group(1) in skip:
            continue
        sched.append([m.group(1)] + _split_args(m.group(2)))
    return sched


def tlc_simulate(module, cfg, workdir, num, depth, seed_, files=None, timeout=900, skip=("Init",)):
    """Run `tlc -simulate` and return (TlcResult, list of schedules)."""
    prefix = os.path.join(workdir, "sim%d" % seed_)
    r = run_tlc(module, cfg, workdir, workers=1, timeout=timeout, files=files,
                simulate="file=%s,num=%d" % (prefix, num), depth=depth, extra=["-seed", str(seed_)])
    scheds = []
    base = os.path.basename(prefix)
    for f in sorted(os.listdir(workdir)):
        if f.startswith(base + "_"):
            with open(os.path.join(workdir, f)) as fh:
                scheds.append(parse_behaviour(fh.read(), skip))
            os.unlink(os.path.join(workdir, f))
    m = re.search(r"The number of states generated: (\d+)", r.out)
    if m:
        r.generated = int(m.group(1))
    if r.rc == 0 or "traces generated" in r.out:
        r.ok, r.error = True, None
    return r, scheds


_EDGE = re.compile(r'^(-?\d+) -> (-?\d+) \[label="((?:[^"\\]|\\.)*)"')
_NODE = re.compile(r'^(-?\d+) \[label=')


def dot_schedules(dotpath, max_schedules=None, cover="edges"):
    """Turn a `-dump dot,actionlabels` graph into schedules.

    cover="labels": one shortest schedule per distinct edge label;
    cover="tree":   every root-to-leaf path of a BFS spanning tree (visits every reachable state);
    cover="edges":  tree paths + for every non-tree edge the tree path to its source followed by that edge.
    """
    edges, succ, init = [], {}, None
    with open(dotpath) as fh:
        for line in fh:
            m = _EDGE.match(line)
            if m:
                a, b, lab = m.group(1), m.group(2), m.group(3).replace('\\"', '"')
                succ.setdefault(a, []).append((b, lab))
                continue
            if init is None:
                m = _NODE.match(line)
                if m and "style = filled" in line:
                    init = m.group(1)
    if init is None:
        raise MachineryError("no initial state in dot dump")
    parent, order, q = {init: None}, [init], [init]
    tree_children = {}
    nontree = []
    while q:
        nq = []
        for s in q:
            for (t, lab) in succ.get(s, []):
                if t not in parent:
                    parent[t] = (s, lab)
                    tree_children.setdefault(s, []).append(t)
                    order.append(t)
                    nq.append(t)
                else:
                    nontree.append((s, t, lab))
        q = nq

    def path(s):
        p = []
        while parent[s] is not None:
            s, lab = parent[s][0], parent[s][1]
            p.append(lab)
        p.reverse()
        return p

    def lab2step(lab):
        m = re.match(r"(\w+)(?:\((.*)\))?$", lab)
        return [m.group(1)] + _split_args(m.group(2)) if m else [lab]

    scheds = []
    if cover == "labels":
        seen = {}
        for s in order:
            for (t, lab) in succ.get(s, []):
                if lab not in seen:
                    seen[lab] = path(s) + [lab]
        scheds = list(seen.values())
    else:
        leaves = [s for s in order if s not in tree_children]
        scheds = [path(s) for s in leaves]
        if cover == "edges":
            for (s, t, lab) in nontree:
                scheds.append(path(s) + [lab])
    if max_schedules and len(scheds) > max_schedules:
        import random
        rnd = random.Random(seed())
        scheds = rnd.sample(scheds, max_schedules)
    return [[lab2step(l) for l in p] for p in scheds if p], {"states": len(order), "edges": sum(len(v) for v in succ.values())}


def parse_tlc_errors(out):
    """Split TLC output (possibly produced with -continue) into [(kind, name, last_state_text)]."""
    res = []
    chunks = re.split(r"(?=Error: )", out)
    for ch in chunks:
        m = re.match(r"Error: Invariant (\S+) is violated", ch)
        kind, name = None, None
        if m:
            kind, name = "invariant", m.group(1)
        elif ch.startswith("Error: Deadlock reached"):
            kind, name = "deadlock", "Deadlock"
        elif re.match(r"Error: Action property (\S+) is violated", ch):
            kind, name = "action", re.match(r"Error: Action property (\S+)", ch).group(1)
        if not kind:
            continue
        states = re.split(r"\nState \d+: ", ch)
        last = states[-1] if len(states) > 1 else ""
        res.append((kind, name, last))
    return res


def state_int(text, var):
    m = re.search(r"(?:^|\n|/\\ )%s = (-?\d+)" % re.escape(var), text)
    return int(m.group(1)) if m else None


_VERDICT = re.compile(r'<<"VERDICT", "(\w+)", (-?\d+), (-?\d+), (-?\d+)>>')


def verdicts(out):
    """VERDICT lines printed by a judge spec: [(invariant, log line, trace, step)] (deduplicated)."""
    seen, res = set(), []
    for m in _VERDICT.finditer(out):
        k = (m.group(1), int(m.group(2)), int(m.group(3)), int(m.group(4)))
        if k not in seen:
            seen.add(k)
            res.append(k)
    return res

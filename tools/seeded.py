#!/usr/bin/env python3
"""Confirm a seeded change delivered by a sub-agent and run the checks against it.

usage: tools/seeded.py <outdir> <id> <check>[,<check>...] [--tier quick]
 1. fresh worktree of /repo HEAD; demo test must PASS there;
 2. apply patch.diff; go build; demo must FAIL;
 3. run each named check with VERIF_REPO=<worktree>; record exit codes and VIOLATION lines;
 4. write /verif/seeded/<id>/{patch.diff, demo, meta.json}; remove the worktree.
"""
import json, os, shutil, subprocess, sys, glob
sys.path.insert(0, os.path.dirname(os.path.abspath(__file__)))
import vlib

def sh(cmd, cwd, timeout=1800, env=None):
    p = subprocess.run(cmd, cwd=cwd, shell=True, stdout=subprocess.PIPE, stderr=subprocess.STDOUT, text=True, timeout=timeout, env=env)
    return p.returncode, p.stdout

def main():
    out, sid, checks = sys.argv[1], sys.argv[2], sys.argv[3].split(",")
    tier = "quick"
    meta = json.load(open(os.path.join(out, "meta.json")))
    wt = "/tmp/seedwt-" + sid
    subprocess.run("git -C /repo worktree remove --force %s" % wt, shell=True, capture_output=True)
    rc, o = sh("git -C /repo worktree add --detach %s" % wt, "/")
    assert rc == 0, o
    env = vlib.goenv()
    res = {"id": sid, "property": meta.get("property"), "title": meta.get("title"), "what_breaks": meta.get("what_breaks"),
           "needs": meta.get("needs"), "demo_cmd": meta.get("demo_cmd"), "repo_head": subprocess.run("git -C /repo rev-parse HEAD", shell=True, capture_output=True, text=True).stdout.strip()}
    try:
        demos = [f for f in glob.glob(os.path.join(out, "*_test.go"))]
        sub = os.environ.get("SEEDED_DEMO_DIR", "")
        os.makedirs(os.path.join(wt, sub), exist_ok=True)
        for d in demos:
            shutil.copy(d, os.path.join(wt, sub))
        demo_cmd = meta["demo_cmd"].replace("/tmp/seeded/wt-" + sid.lower(), wt)
        if "cd " in demo_cmd and wt not in demo_cmd:
            demo_cmd = demo_cmd.split("&&", 1)[-1].strip()
        rc0, o0 = sh("export GOFLAGS=-mod=mod GOPROXY=off; " + demo_cmd, wt, env=env)
        res["demo_without_change"] = "pass" if rc0 == 0 else "FAIL"
        rc, o = sh("git apply %s" % os.path.join(out, "patch.diff"), wt)
        assert rc == 0, "patch does not apply: " + o
        rc, o = sh("export GOFLAGS=-mod=mod GOPROXY=off; go build ./... && go build -tags verif ./...", wt, env=env)
        res["builds"] = rc == 0
        rc1, o1 = sh("export GOFLAGS=-mod=mod GOPROXY=off; " + demo_cmd, wt, env=env)
        res["demo_with_change"] = "fail" if rc1 != 0 else "PASSES"
        res["checks"] = {}
        for c in checks:
            e = dict(os.environ, VERIF_REPO=wt)
            p = subprocess.run(["python3", os.path.join(vlib.VERIF, "tools", "checks", c.lower() + ".py"), "--tier", tier], cwd=vlib.VERIF,
                               env=e, stdout=subprocess.PIPE, stderr=subprocess.STDOUT, text=True, timeout=5400)
            viol = [l for l in p.stdout.splitlines() if l.startswith("VIOLATION") or l.startswith("  [") or l.startswith("  ")][:6]
            res["checks"][c] = {"exit": p.returncode, "lines": [v[:300] for v in viol]}
            print(c, "exit", p.returncode, *[v[:200] for v in viol[:3]], sep="\n   ")
        dst = os.path.join(vlib.VERIF, "seeded", sid)
        os.makedirs(dst, exist_ok=True)
        shutil.copy(os.path.join(out, "patch.diff"), dst)
        for d in demos:
            shutil.copy(d, dst)
        res["detected_by"] = [c for c, v in res["checks"].items() if v["exit"] == 1]
        json.dump(res, open(os.path.join(dst, "meta.json"), "w"), indent=1)
        print(json.dumps({k: res[k] for k in ("demo_without_change", "builds", "demo_with_change", "detected_by")}))
    finally:
        subprocess.run("git -C /repo worktree remove --force %s" % wt, shell=True, capture_output=True)
        # remove the per-worktree build output of the checks
        import hashlib
        h = hashlib.sha1(os.path.realpath(wt).encode()).hexdigest()[:10]
        shutil.rmtree(os.path.join(vlib.VERIF, "build", "alt-" + h), ignore_errors=True)

if __name__ == "__main__":
    main()

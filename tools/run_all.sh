#!/bin/sh
# usage: tools/run_all.sh quick|thorough [ids...]   - runs the checks one after another, prints one line each
tier=${1:-quick}; shift
ids=${@:-c01 c02 c03 c04 c05 c06 c07 c08 c09 c10 c11 c12 c13 c14 c15 c16 c17 c18 c19 c20}
for p in $ids; do
  s=$(date +%s)
  out=$(python3 tools/checks/$p.py --tier $tier 2>&1); rc=$?
  e=$(( $(date +%s) - s ))
  echo "$p rc=$rc ${e}s $(echo "$out" | grep -E '^(OK|VIOLATION|MACHINERY)' | head -2 | cut -c1-150 | tr '\n' ' ')"
done

#!/usr/bin/env python3
"""Exploratory only (not a registered check): daemon mode with run-time loss of local level-0 files.
usage: tools/explore_loss.py <seed> <cases> <parallel>   (LOSS_MODES=all,newest,corrupt)  - prints the runs whose acknowledged
syncs restore to another state than the source or whose audited TXIDs restore to a state the application never committed."""
import sys, json, subprocess, os
sys.path.insert(0,'/verif/tools'); sys.path.insert(0,'/verif/tools/checks')
import corelib
cases = corelib.daemon_cases(int(sys.argv[1]), int(sys.argv[2]), faults="none", loss=True, loss_modes=tuple(os.environ.get("LOSS_MODES","all").split(",")))
json.dump({"cases":[{k:c[k] for k in ("id","cfg","sched")} for c in cases]},open('/dev/shm/explore-loss.in.json','w'))
subprocess.run(['/verif/build/core','-in','/dev/shm/explore-loss.in.json','-out','/dev/shm/explore-loss.ndjson','-work','/dev/shm/explore-lossw','-j',sys.argv[3]],check=True,stdout=subprocess.DEVNULL,env=dict(os.environ,VERIF_ROWSIG="1"))
per={}
for l in open('/dev/shm/explore-loss.ndjson'):
    e=json.loads(l); per.setdefault(e['t'],[]).append(e)
for t,evs in sorted(per.items()):
    au=[e for e in evs if e['op']=='AuditNow']
    if not au: continue
    a=au[-1]['audit']
    frm=0; bad=[]
    for x in a:
        if not x['ok']: continue
        m=[k for k,e in enumerate(evs) if k>=frm and e['app']==x['app']]
        if not m:
            anyk=[k for k,e in enumerate(evs) if e['app']==x['app']]
            bad.append((x['txid'],x['app'],'never' if not anyk else 'earlier@%d<from%d'%(anyk[-1],frm)))
        else: frm=m[0]
    acks=[(k,e['op'],e['rest']['app'],e['app']) for k,e in enumerate(evs) if e['ack'] and e['rest']['ok'] and e['rest']['app']!=e['app']]
    if bad or acks:
        print(t,'bad',bad[:6],'acks',acks[:3])
        open('/dev/shm/explore-loss-fail-%d.ndjson'%t,'w').write(''.join(json.dumps(e)+'\n' for e in evs))

#!/usr/bin/env python3
"""Runs the repository's pinned test suite with the verif tag OFF and compares with /root/.vp/BASELINE.json (stable_pass)."""
import json, os, subprocess, sys
sys.path.insert(0, os.path.dirname(os.path.abspath(__file__)))
import vlib

def main():
    base = json.load(open("/root/.vp/BASELINE.json"))
    want = set(base["stable_pass"])
    env = vlib.goenv()
    p = subprocess.run(["go", "test", "-json", "-vet=off", "-count=1", "-timeout", "25m", "./..."], cwd=vlib.REPO, env=env,
                       stdout=subprocess.PIPE, stderr=subprocess.DEVNULL, text=True)
    passed, failed = set(), set()
    for line in p.stdout.splitlines():
        try:
            e = json.loads(line)
        except ValueError:
            continue
        if e.get("Test") and e.get("Action") in ("pass", "fail"):
            (passed if e["Action"] == "pass" else failed).add(e["Package"] + "::" + e["Test"])
    missing = sorted(want - passed)
    print("passed=%d failed=%d baseline=%d missing_from_baseline=%d" % (len(passed), len(failed), len(want), len(missing)))
    for m in missing[:40]:
        print("  MISSING", m, "(failed)" if m in failed else "(not run)")
    return 1 if missing else 0

if __name__ == "__main__":
    sys.exit(main())

------------------------------ MODULE LockObs ------------------------------
(***************************************************************************)
(* Judge for C17 on observations of REAL > 1 GiB databases (cmd/bigdb):     *)
(* per step the replica files that appeared (decoded: page range, contains  *)
(* the lock page?) and the real restore compared page by page with a        *)
(* checkpointed copy of the source.                                         *)
(***************************************************************************)
EXTENDS Integers, Sequences, TLC, Json
Log == ndJsonDeserialize("bigdb_trace.ndjson")
VARIABLE l
Init == l = 1
Next == l < Len(Log) /\ l' = l + 1
Spec == Init /\ [][Next]_l
cur == Log[l]

\* syncs, snapshots and compactions succeed
C17_OperationsSucceed_ == cur.res = "ok"
\* no replicated file ever contains the lock page, and every file decodes
C17_NoLockPageInFiles_ == \A i \in DOMAIN cur.files : ~cur.files[i].hasLock /\ cur.files[i].err = "none"
\* full files (snapshots, level >= 1 outputs starting at TXID 1) hold every page except the lock page
C17_FullFilesComplete_ == \A i \in DOMAIN cur.files : (cur.files[i].min = 1 /\ cur.files[i].lvl \in {1, 2, 9}) => cur.files[i].full
\* restore reproduces every other page exactly, same size, lock page empty, integrity ok
C17_RestoreExact_ == cur.restored => (cur.restOK /\ cur.restN = cur.srcN /\ cur.diffN = 0 /\ cur.lockZero /\ cur.integ = "ok")

V(name, ok) == ok \/ PrintT(<<"VERDICT", name, l, cur.t, cur.i>>)
C17_OperationsSucceed == V("C17_OperationsSucceed", C17_OperationsSucceed_)
C17_NoLockPageInFiles == V("C17_NoLockPageInFiles", C17_NoLockPageInFiles_)
C17_FullFilesComplete == V("C17_FullFilesComplete", C17_FullFilesComplete_)
C17_RestoreExact == V("C17_RestoreExact", C17_RestoreExact_)
====

SPECIFICATION Spec
CONSTANTS
  Clients = {"a", "b"}
  TTL = 1
  MaxNow = 3
  MaxOps = 3
  MaxTag = 5
INVARIANTS Mutex
VIEW view
CHECK_DEADLOCK FALSE

SPECIFICATION Spec
CONSTANTS
  MaxTx = 2
  Size = 1
  MaxCrash = 1
  KillOn = FALSE
  PowerOn = TRUE
  WritebackOn = TRUE
  MetaLossOn = TRUE
  NoTmp = {}
  NoFsync = {}
  NoDirSync = {"baseline"}
INVARIANTS TypeOK NoPartialFinalName AckedRestorable DurableNoPartialFinalName R3_SupersededBeforeUnlink R2_ExceptD1
CHECK_DEADLOCK FALSE

SPECIFICATION SpecF
CONSTANTS NSync=4 MaxClock=2 RetentionEnabled=TRUE Fine=FALSE Variant="asis" Fixes={}
INVARIANTS NeverAhead NoSkip SidecarAfterApply Converges NoStallH ResumeAcceptedH ResumeAfterKillH
PROPERTY SidecarMonotone
CHECK_DEADLOCK FALSE

\* C15 quick, timestamp requests T in 1..4: TXIDs 1..3, levels {0,1,9}, <= 3 files, file timestamps 1..3.
\* The runner rewrites `Part = 0` for every shard 0..Parts-1 (one TLC process each; Fanout: several workers per process).
SPECIFICATION Spec
CONSTANTS
  N = 3
  Levels = {0, 1, 9}
  MaxFiles = 3
  MaxTs = 3
  Part = 0
  Parts = 1
  Fanout = TRUE
  TsOnly = TRUE
INVARIANTS Sound CompleteTx CompleteLatest GapReported FurthestLatest TsExcluded TsFurthest TsMonotone ErrKinds
CHECK_DEADLOCK FALSE

---------------------------- MODULE RestoreV3Obs ----------------------------
(***************************************************************************)
(* The judge for C19.  Every line of v3restore.ndjson is one REAL restore   *)
(* (harness/cmd/v3restore): the listing the real code saw (built from a     *)
(* real SQLite history, real byte offsets / sizes, mtimes as ticks), the    *)
(* removed segment, T, the current-format files' timestamps, and the        *)
(* outcome of the real Replica.Restore / RestoreV3: error class or the      *)
(* number of the recorded source state the restored database equals.        *)
(*   verdict : real outcome |= declarative statement (RestoreV3Plan)        *)
(*   binding : real outcome = transcription PlanV3 / UseV3  ("Bind_" lines) *)
(*   "Note_" lines are observations, neither verdict nor binding.           *)
(***************************************************************************)
EXTENDS RestoreV3Plan, Json

Log == ndJsonDeserialize("v3restore.ndjson")

VARIABLE l
Init == l = 1
Next == l < Len(Log) /\ l' = l + 1
Spec == Init /\ [][Next]_l

Rng(s) == {s[i] : i \in DOMAIN s}
cur   == Log[l]
snaps == Rng(cur.snaps)
segs  == Rng(cur.segs)
rm    == cur.rm
T     == cur.T
ltx   == [snaps |-> Rng(cur.ltx.snaps), files |-> Rng(cur.ltx.files)]
res   == cur.res

\* the outcome is one of the legacy restore (no current-format file present, RestoreV3 called directly, or
\* recognised from the error text / the restored state)
IsV3   == cur.direct \/ ltx.files = {} \/ res.used = "v3"
Hidden == HiddenMidLoss(snaps, segs, T, rm)

NoSnapshotIsError_ == IsV3 => NoSnapshotIsError(snaps, segs, T, res)
GapOK              == IsV3 => GapIsError(snaps, segs, T, res)
GapIsError_        == IsU1(segs, rm) \/ GapOK            \* any unreported gap outside the U1 input family
GapIsError_U1_     == ~IsU1(segs, rm) \/ GapOK           \* an unreported gap inside the U1 input family
RightState_        == (IsV3 /\ ~Hidden) => RightState(snaps, segs, T, res)
ArbitrationClear_  == ~cur.direct => ArbitrationClear(snaps, segs, ltx, T, res.used)

\* binding: the real code did what the transcription says
FixU1 == TRUE       \* TRUE once the repair of finding U1 (segment must belong to the index being assembled) is in the tree
plan == PlanV3(snaps, segs, T, FixU1)
Bind_Format_ == (~cur.direct /\ res.used # "?") => (res.used = (IF UseV3(snaps, segs, ltx, T) THEN "v3" ELSE "ltx"))
Bind_Plan_   == IsV3 => /\ res.err = plan.err
                        /\ (~res.err /\ ~Hidden) => res.st = plan.st
                        /\ res.err => \/ plan.why = "nosnapshot" /\ res.cls = "v3-no-snapshot"
                                      \/ plan.why = "index" /\ res.cls = "v3-missing-index"
                                      \/ plan.why = "segment" /\ res.cls = "v3-missing-segment"

\* observations
Note_ArbitrationNewestFile_ == ~cur.direct => ArbitrationNewestFile(snaps, segs, ltx, T, res.used)
Note_HiddenMidLoss_ == ~(IsV3 /\ Hidden)
-----------------------------------------------------------------------------
V(name, ok) == ok \/ PrintT(<<"VERDICT", name, l, cur.t, cur.i>>)
InvNoSnapshotIsError == V("NoSnapshotIsError", NoSnapshotIsError_)
InvGapIsError        == V("GapIsError", GapIsError_)
InvGapIsError_U1     == V("GapIsError_U1", GapIsError_U1_)
InvRightState        == V("RightState", RightState_)
InvArbitrationClear  == V("ArbitrationClear", ArbitrationClear_)
InvBind_Format       == V("Bind_Format", Bind_Format_)
InvBind_Plan         == V("Bind_Plan", Bind_Plan_)
InvNote_ArbitrationNewestFile == V("Note_ArbitrationNewestFile", Note_ArbitrationNewestFile_)
InvNote_HiddenMidLoss == V("Note_HiddenMidLoss", Note_HiddenMidLoss_)
=============================================================================

SPECIFICATION Spec
CONSTANTS MaxPg=6 LockPg=4
INVARIANTS NoLockPageInAnyFile SnapshotRestores ChainRestores
CHECK_DEADLOCK FALSE

------------------------------ MODULE SqliteWal ------------------------------
(***************************************************************************)
(* SQLite's WAL protocol as litestream's environment - the half of the      *)
(* specification that is not litestream - judged against traces recorded    *)
(* from REAL (modernc) SQLite with no litestream attached (cmd/envtrace):   *)
(* committed transactions (restart-on-write exactly when mx > 0, everything *)
(* backfilled and no reader beyond lock 0; stale tail left in the file),    *)
(* checkpoints of the four modes (per page only the LATEST frame is copied, *)
(* and only if it lies in (nBackfill, target]; busy results; TRUNCATE       *)
(* empties the file), long readers (read marks).  Every step is             *)
(* deterministic given the logged arguments, so a line the model cannot     *)
(* match stops the trace: Accepted = all lines consumed.                    *)
(* This is what justifies the environment actions of Core.tla.              *)
(***************************************************************************)
EXTENDS Integers, Sequences, FiniteSets, Json, TLC

Log == ndJsonDeserialize("env_trace.ndjson")

VARIABLES l, dbf, wal, hdr, mx, bf, rd, pend     \* rd: -1 none, 0 lock0, k mark ; pend: wal-index restarted but file header not yet rewritten
vars == <<l, dbf, wal, hdr, mx, bf, rd, pend>>

O(i) == Log[i].obs
Ev(i) == Log[i].ev

Overlay(base, frames) ==
  LET F[i \in 0..Len(frames)] ==
        IF i = 0 THEN base
        ELSE LET b == F[i-1] p == frames[i].pg IN
             IF p <= Len(b) THEN [b EXCEPT ![p] = frames[i].ver]
             ELSE b \o [k \in 1..(p - Len(b)) |-> IF k = p - Len(b) THEN frames[i].ver ELSE -1]
  IN F[Len(frames)]

LastCommit(frames, dflt) ==
  LET cs == {i \in 1..Len(frames) : frames[i].commit # 0} IN
  IF cs = {} THEN dflt ELSE frames[CHOOSE i \in cs : \A j \in cs : j <= i].commit

TakeN(s, n) == IF n >= Len(s) THEN s ELSE SubSeq(s, 1, n)

Load(i) == /\ dbf' = O(i).dbf /\ wal' = O(i).wal /\ hdr' = O(i).hdr
           /\ mx' = O(i).mx /\ bf' = O(i).bf /\ rd' = -1 /\ pend' = FALSE

Init == l = 1 /\ dbf = <<>> /\ wal = <<>> /\ hdr = 0 /\ mx = 0 /\ bf = 0 /\ rd = -1 /\ pend = FALSE

Reset == /\ l <= Len(Log) /\ Ev(l) = "reset" /\ Load(l) /\ l' = l + 1

\* ---- a committed write transaction
Txn ==
  /\ l <= Len(Log) /\ Ev(l) = "txn"
  /\ LET o == O(l)
         restart == (mx > 0 /\ bf = mx /\ rd \in {-1, 0}) \/ pend
         fresh   == restart \/ hdr = 0
         base    == IF fresh THEN 0 ELSE mx
         k       == o.mx - base
         newfr   == SubSeq(o.wal, base + 1, base + k)
     IN /\ k >= 1
        /\ Len(o.wal) >= base + k
        \* generation: changes exactly when the log is restarted / created
        /\ (fresh <=> o.hdr # hdr)
        /\ \A i \in 1..k : newfr[i].gen = o.hdr
        /\ \A i \in 1..(k-1) : newfr[i].commit = 0
        /\ newfr[k].commit > 0
        \* physical file: untouched slots keep their old content (stale tail), nothing else appears
        /\ \A i \in 1..Len(o.wal) : (i <= base \/ i > base + k) => (i <= Len(wal) /\ o.wal[i] = wal[i])
        /\ Len(o.wal) = (IF base + k > Len(wal) THEN base + k ELSE Len(wal))
        /\ o.valid = base + k
        /\ o.bf = (IF fresh THEN 0 ELSE bf)
        /\ o.dbf = dbf
        /\ wal' = o.wal /\ hdr' = o.hdr /\ mx' = o.mx /\ bf' = o.bf /\ dbf' = dbf
        /\ pend' = FALSE
  /\ UNCHANGED rd
  /\ l' = l + 1

\* ---- checkpoint
Ckpt ==
  /\ l <= Len(Log) /\ Ev(l) = "ckpt"
  /\ LET o == O(l)  mode == Log[l].mode
         canBf  == rd # 0
         target == IF pend \/ hdr = 0 THEN bf ELSE IF ~canBf THEN bf ELSE IF rd > 0 /\ rd < mx THEN rd ELSE mx
         full   == (target = mx)
         \* SQLite copies, per page, only the page's LATEST frame, and only if it lies in (bf, target]
         latest(p) == LET fs == {i \in 1..mx : wal[i].pg = p} IN
                      IF fs = {} THEN 0 ELSE CHOOSE i \in fs : \A j \in fs : j <= i
         pick   == {i \in (bf+1)..target : latest(wal[i].pg) = i}
         frs    == IF target > bf THEN SelectSeq([i \in 1..target |-> [pg |-> wal[i].pg, ver |-> wal[i].ver, keep |-> i \in pick]], LAMBDA f : f.keep) ELSE <<>>
         ov     == Overlay(dbf, frs)
         size   == LastCommit(TakeN(wal, mx), Len(dbf))
         newdbf == IF full /\ mx > 0 /\ ~pend /\ hdr # 0 THEN TakeN(ov, size) ELSE ov
         restartOK == full /\ rd \in {-1, 0} /\ mode = "TRUNCATE"
         busy   == IF mode = "PASSIVE" THEN 0
                   ELSE IF ~full THEN 1
                   ELSE IF mode \in {"RESTART", "TRUNCATE"} /\ ~(rd \in {-1, 0}) THEN 1 ELSE 0
     IN /\ Len(o.dbf) = Len(newdbf) /\ \A i \in 1..Len(newdbf) : newdbf[i] = -1 \/ newdbf[i] = o.dbf[i]
        /\ Log[l].busy = busy
        /\ IF restartOK
             THEN /\ o.wal = <<>> /\ o.hdr = 0 /\ o.mx = 0 /\ o.bf = 0
                  /\ Log[l].log = 0 /\ Log[l].ckpt = 0
                  /\ pend' = (mx > 0 \/ pend)
             ELSE /\ o.wal = wal /\ o.hdr = hdr
                  /\ Log[l].log = (IF pend THEN 0 ELSE mx) /\ Log[l].ckpt = (IF pend THEN 0 ELSE target)
                  /\ o.bf = target
                  /\ pend' = pend
        /\ dbf' = o.dbf /\ wal' = o.wal /\ hdr' = o.hdr /\ mx' = o.mx /\ bf' = o.bf
  /\ UNCHANGED rd
  /\ l' = l + 1

ReaderOn ==
  /\ l <= Len(Log) /\ Ev(l) = "readerOn"
  /\ rd' = IF bf = mx \/ pend \/ hdr = 0 THEN 0 ELSE mx
  /\ (rd' > 0 => \E i \in 2..5 : O(l).marks[i] = rd')
  /\ O(l).wal = wal /\ O(l).dbf = dbf
  /\ UNCHANGED <<dbf, wal, hdr, mx, bf, pend>>
  /\ l' = l + 1

ReaderOff ==
  /\ l <= Len(Log) /\ Ev(l) = "readerOff"
  /\ rd' = -1
  /\ UNCHANGED <<dbf, wal, hdr, mx, bf, pend>>
  /\ l' = l + 1

Next == Reset \/ Txn \/ Ckpt \/ ReaderOn \/ ReaderOff
Spec == Init /\ [][Next]_vars

Accepted == TLCGet("stats").diameter - 1 = Len(Log)
\* helper to print where it stopped
Stuck == l <= Len(Log) /\ ~ENABLED Next
=============================================================================
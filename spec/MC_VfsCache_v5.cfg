SPECIFICATION Spec
CONSTANTS MaxPg=3 MaxVer=5 Variant="noRecheck" UnlockedReads=TRUE
INVARIANTS CacheCoherent ReaderViewStable
CHECK_DEADLOCK FALSE

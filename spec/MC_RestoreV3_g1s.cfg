SPECIFICATION Spec
CONSTANTS
  MaxGen = 1
  MaxIdx = 2
  MaxSeg = 3
  MaxSnap = 2
  Sizes = {1, 2}
  LtxMode = 0
  FixU1 = TRUE
  Parts = 1
  Part = 0
INVARIANTS InvNoSnapshotIsError InvGapIsErrorModU1 InvRightState InvArbitrationClear InvCompleteHasNoGap InvU1Outcome
CHECK_DEADLOCK FALSE

SPECIFICATION Spec
CONSTANTS MaxPg=8 LockPg=8
INVARIANTS NoLockPageInAnyFile SnapshotRestores ChainRestores
CHECK_DEADLOCK FALSE

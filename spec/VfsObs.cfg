SPECIFICATION Spec
INVARIANTS ServedMissing ServedStale Available SizeBig SizeSmall TimeTravelView
CHECK_DEADLOCK FALSE

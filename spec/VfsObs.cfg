SPECIFICATION Spec
INVARIANTS Served Available FileSizeOK TimeTravelView
CHECK_DEADLOCK FALSE

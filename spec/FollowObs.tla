------------------------------ MODULE FollowObs ------------------------------
(***************************************************************************)
(* The judge for C16: the property evaluated on values OBSERVED from the     *)
(* real Replica.Restore(Follow: true) run as a child process by              *)
(* harness/cmd/followdrv. Nothing of Follow.tla's transition relation is     *)
(* assumed: every value is read from the recorded trace.                     *)
(* One record per follower session (kind "sess"), per kill point (kind       *)
(* "kill": the session was killed before system call killAt, the record is   *)
(* the restarted follower driven to quiescence on the final view) and per    *)
(* supervised reference run (kind "sys": its file-system-mutating calls).    *)
(* A file is <<level, min, max>>; an opened file <<level, min, max, ok>>.    *)
(***************************************************************************)
EXTENDS Integers, Sequences, FiniteSets, TLC, Json

Log == ndJsonDeserialize("follow_trace.ndjson")

VARIABLE l
Init == l = 1
Next == l < Len(Log) /\ l' = l + 1
Spec == Init /\ [][Next]_l

cur == Log[l]
IsSess == cur.kind \in {"sess", "kill"}
Rng(s) == {s[k] : k \in DOMAIN s}
MaxTX(fs) == IF Rng(fs) = {} THEN 0 ELSE (CHOOSE f \in Rng(fs) : \A g \in Rng(fs) : g[3] <= f[3])[3]
Snaps(fs) == {f \in Rng(fs) : f[1] = 9}
\* the newest snapshot = the last item of the level-9 iterator (ordered by min, max)
NewestSnap(fs) == CHOOSE f \in Snaps(fs) : \A g \in Snaps(fs) : g[2] < f[2] \/ (g[2] = f[2] /\ g[3] <= f[3])

\* ---- known findings as predicates of the observed values (DESIGN section 8)
\* W1: at resume the sidecar TXID is ahead of the newest level-9 snapshot of the replica the follower sees
HzW1 == Snaps(cur.startFiles) # {} /\ cur.sidePre > NewestSnap(cur.startFiles)[3]
\* W2: nothing below the snapshot level connects to the follower's position, a snapshot does
HzW2 == /\ ~\E f \in Rng(cur.endFiles) : f[1] < 9 /\ f[2] <= cur.sideAfter + 1 /\ f[3] > cur.sideAfter
        /\ \E f \in Snaps(cur.endFiles) : f[3] > cur.sideAfter
\* W3: the output database exists without a sidecar (killed between the rename of the restored database and the
\* first sidecar publish)
HzW3 == cur.dbPre /\ cur.sidePre = 0

-----------------------------------------------------------------------------
\* the sidecar sequence (before the session, at every poll, after it; across the kill and the restart) never decreases
NP == Len(cur.polls)
SideSeq == [k \in 1..(NP + 2) |-> IF k = 1 THEN cur.sidePre0 ELSE IF k = NP + 2 THEN cur.sideAfter ELSE cur.polls[k - 1].side]
SidecarMonotone_ == IsSess =>
  /\ \A k \in 1..(Len(SideSeq) - 1) : SideSeq[k] <= SideSeq[k + 1]
  /\ \A k \in DOMAIN SideSeq : SideSeq[k] >= 0                              \* -1: unreadable sidecar
  /\ cur.kind = "kill" => (cur.sidePre0 <= cur.sideKill /\ cur.sideKill <= cur.sideAfter /\ cur.sideKill >= 0)

\* every applied file begins at <= position + 1 and extends it: nothing skipped, nothing repeated or out of order
RECURSIVE Chain(_, _, _)
Chain(c, fs, k) == IF k > Len(fs) THEN TRUE
                   ELSE IF fs[k][4] = 0 THEN TRUE                           \* open failed: the poll is abandoned
                   ELSE fs[k][2] <= c + 1 /\ fs[k][3] > c /\ Chain(fs[k][3], fs, k + 1)
NoSkip_ == IsSess => \A k \in DOMAIN cur.polls : Chain(cur.polls[k].side, cur.polls[k].files, 1)

\* the follower is never ahead of the replica it reads
NeverAhead_ == (IsSess /\ cur.sideAfter > 0) => cur.sideAfter <= cur.endMax

\* a follower whose sidecar TXID is on the replica's chain resumes; a killed follower restarts
Refused == cur.err # "none"
OnChain == cur.sidePre <= MaxTX(cur.startFiles)
W1shape == cur.sidePre > 0 /\ cur.err = "ahead" /\ HzW1
W3shape == HzW3 /\ cur.err = "nosidecar"
ResumeAccepted_ == (IsSess /\ cur.start = "resume" /\ OnChain /\ Refused) => (W1shape \/ W3shape)
ResumeAccepted_W1_ == ~(IsSess /\ cur.start = "resume" /\ OnChain /\ Refused /\ W1shape)
ResumeAfterKill_W3_ == ~(IsSess /\ cur.start = "resume" /\ OnChain /\ Refused /\ W3shape /\ ~W1shape)
\* killed before the output database existed: the restart is an ordinary fresh start and must work when a plan exists
RestartFresh_ == (cur.kind = "kill" /\ cur.start = "fresh" /\ cur.ordOK) => ~Refused

\* once the replica stopped changing and an ordinary restore of it succeeds, the follower reaches the same TXID ...
Quiet == IsSess /\ cur.quiescent /\ ~Refused /\ cur.ordOK
Stalled == Quiet /\ cur.sideAfter < cur.ordTx
NoStall_ == Stalled => HzW2
NoStall_W2_ == ~(Stalled /\ HzW2)
\* ... and the same content (header bytes 18-19 and 24-27 of page 1 masked on both sides by the driver)
Converges_ == (Quiet /\ cur.sideAfter = cur.ordTx) => (cur.fExists /\ cur.fPg = cur.ordPg)

\* ---- the publish protocol on the observed system calls (kind "sys": <<name, file>>)
S == cur.sys
IsSync(k) == S[k][1] \in {"fsync", "fdatasync"}
IsWrite(k) == S[k][1] \in {"write", "pwrite64", "writev", "pwritev", "pwritev2", "ftruncate", "truncate"}
SideRename(k) == S[k][2] = "side.tmp>side"
Touch(k, f) == {j \in 1..(k - 1) : S[j][2] = f}
LastOf(T) == CHOOSE j \in T : \A i \in T : i <= j
\* the sidecar is written to a temporary file, fsynced, then renamed (replica.go:1730 "temp-file + fsync + rename")
SidecarPublish_ == cur.kind = "sys" => \A k \in DOMAIN S : SideRename(k) =>
  LET T == Touch(k, "side.tmp") IN
  /\ T # {} /\ IsSync(LastOf(T))
  /\ \E j \in T : IsWrite(j)
\* ... and only after everything applied to the database has been fsynced ("written atomically after apply")
ApplyDurableBeforePublish_ == cur.kind = "sys" => \A k \in DOMAIN S : SideRename(k) =>
  LET T == Touch(k, "db") IN T # {} => IsSync(LastOf(T))
-----------------------------------------------------------------------------
\* A false invariant is reported as a VERDICT line (name, log line, case, session / kill index); evaluation continues.
V(name, ok) == ok \/ PrintT(<<"VERDICT", name, l, cur.t, cur.i>>)
SidecarMonotone == V("SidecarMonotone", SidecarMonotone_)
NoSkip == V("NoSkip", NoSkip_)
NeverAhead == V("NeverAhead", NeverAhead_)
ResumeAccepted == V("ResumeAccepted", ResumeAccepted_)
ResumeAccepted_W1 == V("ResumeAccepted_W1", ResumeAccepted_W1_)
ResumeAfterKill_W3 == V("ResumeAfterKill_W3", ResumeAfterKill_W3_)
RestartFresh == V("RestartFresh", RestartFresh_)
NoStall == V("NoStall", NoStall_)
NoStall_W2 == V("NoStall_W2", NoStall_W2_)
Converges == V("Converges", Converges_)
SidecarPublish == V("SidecarPublish", SidecarPublish_)
ApplyDurableBeforePublish == V("ApplyDurableBeforePublish", ApplyDurableBeforePublish_)
=============================================================================

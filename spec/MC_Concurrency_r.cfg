SPECIFICATION Spec
CONSTANTS FixZ1=TRUE FixQ1=TRUE FixR=FALSE Procs={"syncdb","disable","snap","enable","compact"}
INVARIANTS NoDataRace
CHECK_DEADLOCK FALSE

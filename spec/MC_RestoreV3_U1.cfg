SPECIFICATION Spec
CONSTANTS
  MaxGen = 1
  MaxIdx = 2
  MaxSeg = 2
  MaxSnap = 1
  Sizes = {1}
  LtxMode = 0
  FixU1 = FALSE
  Parts = 1
  Part = 0
INVARIANTS InvGapIsError
CHECK_DEADLOCK FALSE

SPECIFICATION SpecF
CONSTANTS NSync=4 MaxClock=2 RetentionEnabled=TRUE Fine=FALSE Variant="asis" Fixes={}
INVARIANTS NoStall
CHECK_DEADLOCK FALSE

SPECIFICATION Spec
CONSTANTS NSync=4 MaxClock=4 RetentionEnabled=TRUE
INVARIANTS Restorable SnapshotKept L0Run LevelContig
CHECK_DEADLOCK FALSE

------------------------------ MODULE Policy ------------------------------
(***************************************************************************)
(* litestream's checkpoint policy (db.go: syncLocked 1260-1339,             *)
(* checkpointIfNeeded 1407-1494, checkpointWithExecutor 2448-2632) over     *)
(* frame counts, with no application transaction pinned open.               *)
(*   w       committed frames in the live WAL generation                    *)
(*   synced  lastSyncedWALOffset in frames (0 = nothing synced yet)         *)
(*   since   syncedSinceCheckpoint                                          *)
(*   idle    the application has stopped writing                            *)
(*   made    level-0 files created by idle syncs after the second one       *)
(* One Sync = verify/sync (new file iff frames beyond `synced`) followed    *)
(* by checkpointIfNeeded with its three priorities; a checkpoint that       *)
(* backfills everything is followed by litestream's own bookkeeping write   *)
(* (bumpLitestreamSeq), which restarts the WAL: w = 1, and by one more      *)
(* file (post-checkpoint sync or boundary snapshot).                        *)
(***************************************************************************)
EXTENDS Integers, TLC
CONSTANTS MinPgs, TruncPgs, Intervals, MaxW, MaxIdle   \* sets of configurations; interval \in {"off", "elapsed", "notyet"}

VARIABLES cfg, w, synced, since, idle, nidle, made, lastFiles
vars == <<cfg, w, synced, since, idle, nidle, made, lastFiles>>
MinPg == cfg.minPg
TruncPg == cfg.truncPg
Interval == cfg.interval

Init == cfg \in [minPg : MinPgs, truncPg : TruncPgs, interval : Intervals] /\ w = 1 /\ synced = 0 /\ since = FALSE /\ idle = FALSE /\ nidle = 0 /\ made = 0 /\ lastFiles = 0

AppWrite(k) == /\ ~idle /\ w + k <= MaxW
               /\ w' = w + k
               /\ UNCHANGED <<cfg, synced, since, idle, nidle, made, lastFiles>>

GoIdle == ~idle /\ idle' = TRUE /\ UNCHANGED <<cfg, w, synced, since, nidle, made, lastFiles>>

\* result of one DB.Sync as a record [w, synced, since, files]
SyncOutcome ==
  LET orig   == IF synced = 0 THEN w ELSE synced           \* db.go:1362-1370
      fresh  == w > synced                                    \* frames to copy -> one level-0 file
      new    == w
      since1 == since \/ fresh                                \* db.go:1306
      f1     == IF fresh THEN 1 ELSE 0
      trunc  == TruncPg > 0 /\ orig >= TruncPg                \* priority 1 (tested on the size BEFORE this sync); 0 = default (121359 pages)
      pmin   == new >= MinPg                                  \* priority 2
      ptime  == Interval = "elapsed" /\ since1 /\ new > 1     \* priority 3
      \* priority 1 tries PASSIVE first (db.go:1438-1459); with nothing pinned it restarts the WAL (bump, one more file), and the
      \* blocking TRUNCATE with its boundary snapshot follows only if the bookkeeping frame alone still reaches the threshold
      again  == IF trunc /\ 1 >= TruncPg THEN 1 ELSE 0
  IN IF trunc \/ pmin \/ ptime
       THEN [w |-> 1, synced |-> 1, since |-> FALSE, files |-> f1 + 1 + again, ckpt |-> TRUE]   \* checkpoint, bump, one more file
       ELSE [w |-> w, synced |-> new, since |-> since1, files |-> f1, ckpt |-> FALSE]

Sync == /\ LET o == SyncOutcome IN
           /\ w' = o.w /\ synced' = o.synced /\ since' = o.since /\ lastFiles' = o.files
           /\ nidle' = IF idle THEN nidle + 1 ELSE 0
           /\ made' = IF idle /\ nidle >= 2 THEN made + o.files ELSE made
        /\ (idle => nidle < MaxIdle)
        /\ UNCHANGED <<idle, cfg>>

Next == (\E k \in 1..3 : AppWrite(k)) \/ GoIdle \/ Sync
Spec == Init /\ [][Next]_vars

Lowest == IF TruncPg = 0 \/ MinPg < TruncPg THEN MinPg ELSE TruncPg
\* C13, first sentence: after every successful sync the live generation holds fewer frames than the lowest
\* threshold plus litestream's own bookkeeping frame (evaluated in the state right after a Sync step)
AfterSyncBound == [][Sync => w' < Lowest + 1]_vars
\* C13, second sentence: once the application stops, at most a small constant number of further files, then none
IdleSilence == made = 0
\* configuration shapes of the known findings
Y1 == MinPg = 1 \/ TruncPg = 1          \* the bookkeeping frame alone reaches the threshold: idle syncs checkpoint forever
Y2 == TruncPg > 0 /\ TruncPg < MinPg                    \* emergency threshold below the regular one is tested on the pre-sync size
AfterSyncBoundK == [][(Sync /\ ~Y2) => w' < Lowest + 1]_vars
IdleSilenceK == Y1 \/ made = 0
====

SPECIFICATION Spec
CONSTANTS
  MaxFrames = 6
  NPages = 2
  PgMin = 1
  BothBad = FALSE
  MaxBad = 2
  NParts = 48
  Part = 0
INVARIANTS OneShotIsRecovered CommitExact NothingFromInvalid NoPageAboveCommit ChunksCompose GrowthComposes HazardIsReal
CHECK_DEADLOCK FALSE

\* C08/C15 thorough bound: TXIDs 1..5, levels {0,1,2,9}, <= 4 files, file timestamps 1..2 (request timestamps 1..3).
\* The runner rewrites `Part = 0` for every shard 0..Parts-1 (one TLC process each, several workers: Fanout).
SPECIFICATION Spec
CONSTANTS
  N = 5
  Levels = {0, 1, 2, 9}
  MaxFiles = 4
  MaxTs = 2
  Part = 0
  Parts = 4
  Fanout = TRUE
INVARIANTS Sound CompleteTx CompleteLatest GapReported FurthestLatest TsExcluded TsFurthest TsMonotone ErrKinds
CHECK_DEADLOCK FALSE

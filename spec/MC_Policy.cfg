SPECIFICATION Spec
CONSTANTS MinPgs={1,2,3,4,5} TruncPgs={0,1,2,3,4,5,6,7,9} Intervals={"off","elapsed","notyet"} MaxW=10 MaxIdle=6
INVARIANTS IdleSilenceK
PROPERTIES AfterSyncBoundK
CHECK_DEADLOCK FALSE

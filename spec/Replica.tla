------------------------------ MODULE Replica ------------------------------
(***************************************************************************)
(* Replica file sets (level, min, max, ts) under upload, compaction with     *)
(* the per-level max-file cache (compactor.go:104-192, db.go:350), snapshot  *)
(* (db.go:2933), and the three retention passes: snapshot retention +        *)
(* cascade below the oldest kept snapshot (db.go:2953, store.go:838,         *)
(* compactor.go:293), level-0 retention after compaction (db.go:3019).       *)
(* The restore planner is the transcription in RestorePlan.tla.              *)
(* C06: LevelContig (retention-free histories); C07: Restorable,             *)
(* SnapshotKept, L0Run; C15: TsOK, TsMono, TsComplete.                       *)
(***************************************************************************)
EXTENDS Integers, Sequences, FiniteSets, SequencesExt, TLC

CONSTANTS NSync, MaxClock, RetentionEnabled

\* reuse planner definitions with N large enough
N == NSync
Levels == {0, 1, 2, 9}
P == INSTANCE RestorePlan WITH Levels <- Levels

None == P!None
VARIABLES remote, pos, cache, clock, hadSnap, tsOf, l0ret, sret
vars == <<remote, pos, cache, clock, hadSnap, tsOf, l0ret, sret>>

LevelSeq(l) == P!LevelSeq(remote, l)
MaxFileAt(l) == LET s == {f \in remote : f.lvl = l} IN
                IF s = {} THEN None ELSE CHOOSE f \in s : \A g \in s : g.max <= f.max

Init == /\ remote = {} /\ pos = 0 /\ cache = [l \in Levels |-> None] /\ clock = 1
        /\ hadSnap = FALSE /\ tsOf = [n \in 1..NSync |-> 0] /\ l0ret = FALSE /\ sret = FALSE

Tick == clock < MaxClock /\ clock' = clock + 1 /\ UNCHANGED <<remote, pos, cache, hadSnap, tsOf, l0ret, sret>>

Sync == /\ pos < NSync
        /\ LET f == [lvl |-> 0, min |-> pos + 1, max |-> pos + 1, ts |-> clock] IN
           /\ remote' = remote \cup {f} /\ cache' = [cache EXCEPT ![0] = f]
           /\ tsOf' = [tsOf EXCEPT ![pos + 1] = clock]
        /\ pos' = pos + 1
        /\ UNCHANGED <<clock, hadSnap, l0ret, sret>>

L0RetentionResult(thr) ==
  LET l1 == {f \in remote : f.lvl = 1}
      maxL1 == IF l1 = {} THEN 0 ELSE (CHOOSE f \in l1 : \A g \in l1 : g.max <= f.max).max
      s == LevelSeq(0)
      stopIdx == LET late == {i \in 1..Len(s) : s[i].ts > thr} IN
                 IF late = {} THEN Len(s) + 1 ELSE CHOOSE i \in late : \A j \in late : i <= j
      scanned == 1..(stopIdx - 1)
      del0 == {i \in scanned : s[i].max <= maxL1}
      processedAll == stopIdx = Len(s) + 1
      del == IF processedAll /\ del0 # {} /\ Len(s) \in del0 THEN del0 \ {Len(s)} ELSE del0
  IN IF maxL1 = 0 THEN {} ELSE {s[i] : i \in del}

\* what Compactor.Compact(d) does: [ok, nf] (ok = there is something to compact and ltx.Compactor accepts the inputs)
CompactOut(d) ==
  LET prev == IF cache[d] # None THEN cache[d] ELSE MaxFileAt(d)
      seek == prev.max + 1
      src  == SelectSeq(LevelSeq(d - 1), LAMBDA f : f.min >= seek)
  IN [ok |-> /\ Len(src) > 0
             /\ \A i \in 2..Len(src) : src[i].min <= src[i-1].max + 1 /\ src[i].max > src[i-1].max,   \* ltx.Compactor contiguity check
      nf |-> IF Len(src) = 0 THEN None ELSE [lvl |-> d, min |-> src[1].min, max |-> Last(src).max, ts |-> Last(src).ts]]

Compact(d) ==
  /\ d \in {1, 2}
  /\ CompactOut(d).ok
  /\ LET nf == CompactOut(d).nf IN
       /\ cache' = [cache EXCEPT ![d] = nf]
       /\ remote' = remote \cup {nf}     \* L0 retention after L1 compaction is modelled as its own action
  /\ UNCHANGED <<pos, clock, hadSnap, tsOf, l0ret, sret>>

Snapshot ==
  /\ pos > 0
  /\ LET prev == IF cache[9] # None THEN cache[9] ELSE MaxFileAt(9) IN prev.max < pos   \* CompactDB guard
  /\ LET nf == [lvl |-> 9, min |-> 1, max |-> pos, ts |-> clock] IN
     remote' = remote \cup {nf} /\ cache' = [cache EXCEPT ![9] = nf]
  /\ hadSnap' = TRUE
  /\ UNCHANGED <<pos, clock, tsOf, l0ret, sret>>

RetByTXID(files, l, floor) ==
  LET s == P!LevelSeq(files, l)
      del0 == {i \in 1..Len(s) : s[i].max < floor}
      del == IF del0 # {} /\ Len(s) \in del0 THEN del0 \ {Len(s)} ELSE del0
  IN {s[i] : i \in del}

\* the replica after snapshot retention with cut-off `cut` + the cascade below the oldest kept snapshot
SnapRetentionOut(cut) ==
  LET s == LevelSeq(9)
      del0 == {i \in 1..Len(s) : s[i].ts < cut}
      del == IF del0 # {} /\ Len(s) \in del0 THEN del0 \ {Len(s)} ELSE del0
      kept == (1..Len(s)) \ del
      firstKept == IF kept = {} THEN 0 ELSE CHOOSE i \in kept : \A j \in kept : i <= j
      floor == IF firstKept > 1 THEN s[firstKept - 1].max ELSE 0
      r1 == IF RetentionEnabled THEN remote \ {s[i] : i \in del} ELSE remote
      r2 == IF RetentionEnabled THEN r1 \ RetByTXID(r1, 1, floor) ELSE r1
      r3 == IF RetentionEnabled THEN r2 \ RetByTXID(r2, 2, floor) ELSE r2
  IN r3

SnapRetention(cut) ==
  /\ remote' = SnapRetentionOut(cut)
  /\ sret' = TRUE
  /\ UNCHANGED <<pos, cache, clock, hadSnap, tsOf, l0ret>>

L0Retention(thr) ==
  /\ LET del == L0RetentionResult(thr) IN
     /\ del # {}
     /\ remote' = IF RetentionEnabled THEN remote \ del ELSE remote
  /\ l0ret' = TRUE
  /\ UNCHANGED <<pos, cache, clock, hadSnap, tsOf, sret>>

Next == \/ Tick \/ Sync \/ Snapshot
        \/ \E d \in {1, 2} : Compact(d)
        \/ \E c \in 1..(MaxClock + 1) : SnapRetention(c)
        \/ \E t \in 0..MaxClock : L0Retention(t)
Spec == Init /\ [][Next]_vars

---------------------------------------------------------------------------
Latest == P!Planner(remote, 0, 0)
Restorable == pos > 0 => /\ Latest.err = "none"
                         /\ Last(Latest.plan).max = pos
                         /\ P!ValidPlan(remote, 0, 0, Latest.plan)
SnapshotKept == hadSnap => \E f \in remote : f.lvl = 9
L0Run == LET ids == {f.min : f \in {g \in remote : g.lvl = 0}} IN
         pos > 0 => /\ pos \in ids
                    /\ \A a \in ids : \A b \in a..pos : b \in ids
LevelContig == ~sret => \A l \in {1, 2} : LET s == LevelSeq(l) IN \A i \in 2..Len(s) : s[i].min = s[i-1].max + 1
\* timestamp restore
TsOK == \A T \in 1..(MaxClock + 1) :
          LET r == P!Planner(remote, 0, T) IN
          r.err = "none" =>
             /\ \A i \in 1..Len(r.plan) : r.plan[i].ts < T
             /\ tsOf[Last(r.plan).max] < T
             /\ (~l0ret => \A m \in 1..pos : tsOf[m] < T => m <= Last(r.plan).max)
TsMono == \A T1 \in 1..MaxClock : LET a == P!Planner(remote, 0, T1) b == P!Planner(remote, 0, T1 + 1) IN
            (a.err = "none" /\ b.err = "none") => Last(a.plan).max <= Last(b.plan).max
TsComplete == \A T \in 1..(MaxClock + 1) :
          (~l0ret /\ \E m \in 1..pos : tsOf[m] < T) => P!Planner(remote, 0, T).err = "none"
=============================================================================

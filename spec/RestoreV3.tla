----------------------------- MODULE RestoreV3 -----------------------------
(***************************************************************************)
(* C19 - exhaustive check: the transcription of the legacy restore          *)
(* (RestoreV3Plan!PlanV3, UseV3 = the code as it is) against the            *)
(* declarative statement, over ALL small layouts.                           *)
(*                                                                          *)
(* A layout: 1..MaxGen generations; a generation has WAL indices 0..n-1     *)
(* (n <= MaxIdx), WAL index i is tiled by 1..MaxSeg segments with sizes in  *)
(* Sizes, snapshots at a non-empty set of <= MaxSnap indices.  Files get    *)
(* timestamps in creation order (even ticks; snapshot i precedes the        *)
(* segments of index i; generations do not overlap in time, either may be   *)
(* the older one).  Then at most one segment is removed, and T ranges over  *)
(* "none" and every tick.  LtxMode = 1 adds every current-format replica    *)
(* with <= 2 files (<= 1 of them a snapshot) at odd ticks.                  *)
(* Every input is an initial state; Part/Parts shards them by T.            *)
(***************************************************************************)
EXTENDS RestoreV3Plan

CONSTANTS MaxGen, MaxIdx, MaxSeg, MaxSnap, Sizes, LtxMode, FixU1, Parts, Part

VARIABLES snaps, segs, rm, T, ltx
vars == <<snaps, segs, rm, T, ltx>>

SegSeqs   == UNION {[1..n -> Sizes] : n \in 1..MaxSeg}
Wals      == UNION {[1..n -> SegSeqs] : n \in 1..MaxIdx}
GenShapes == {g \in [w : Wals, sn : SUBSET (1..MaxIdx)] :
                g.sn # {} /\ g.sn \subseteq 1..Len(g.w) /\ Cardinality(g.sn) <= MaxSnap}

RECURSIVE SumTo(_, _)
SumTo(s, k) == IF k = 0 THEN 0 ELSE s[k] + SumTo(s, k - 1)            \* s[1] + .. + s[k]
RECURSIVE SegsBefore(_, _)
SegsBefore(w, i) == IF i <= 1 THEN 0 ELSE Len(w[i - 1]) + SegsBefore(w, i - 1)
NSegs(g)  == SegsBefore(g.w, Len(g.w) + 1)
NFiles(g) == NSegs(g) + Cardinality(g.sn)
FilesBefore(g, i) == SegsBefore(g.w, i) + Cardinality({s \in g.sn : s < i})
In(g, i) == IF i \in g.sn THEN 1 ELSE 0

GenSnaps(g, name, tick0, st0) ==
  {[gen |-> name, idx |-> i - 1, ts |-> 2 * (tick0 + FilesBefore(g, i) + 1), st |-> st0 + SegsBefore(g.w, i)] : i \in g.sn}
GenSegs(g, name, tick0, st0) ==
  UNION {{[gen |-> name, idx |-> i - 1, off |-> SumTo(g.w[i], k - 1), size |-> g.w[i][k],
           ts |-> 2 * (tick0 + FilesBefore(g, i) + In(g, i) + k), st |-> st0 + SegsBefore(g.w, i) + k]
          : k \in 1..Len(g.w[i])} : i \in 1..Len(g.w)}

Odd(n) == {x \in 1..n : x % 2 = 1}
LtxChoices(N) == IF LtxMode = 0 THEN {[snaps |-> {}, files |-> {}]}
                 ELSE {l \in [snaps : SUBSET Odd(2 * N + 1), files : SUBSET Odd(2 * N + 1)] :
                         l.snaps \subseteq l.files /\ Cardinality(l.files) <= 2 /\ Cardinality(l.snaps) <= 1}
Times(N) == IF LtxMode = 0 THEN {0, 1} \cup {2 * k : k \in 1..N} ELSE 0..(2 * N + 2)

\* every generation shape materialised once (ticks and states relative to the generation's own start)
GenListings == {[sn |-> GenSnaps(g, 0, 0, 0), sg |-> GenSegs(g, 0, 0, 0), nf |-> NFiles(g), ns |-> NSegs(g)] : g \in GenShapes}
Place(S, name, dt, ds) == {[x EXCEPT !.gen = name, !.ts = @ + 2 * dt, !.st = @ + ds] : x \in S}
NoGen == [sn |-> {}, sg |-> {}, nf |-> 0, ns |-> 0]

Init ==
  \E ng \in 1..MaxGen : \E g1 \in GenListings :
  \E g2 \in (IF ng = 2 THEN GenListings ELSE {NoGen}) : \E first \in (IF ng = 2 THEN {1, 2} ELSE {1}) :
    LET t1 == IF first = 1 THEN 0 ELSE g2.nf
        s1 == IF first = 1 THEN 0 ELSE g2.ns
        t2 == IF first = 2 THEN 0 ELSE g1.nf
        s2 == IF first = 2 THEN 0 ELSE g1.ns
        N  == g1.nf + g2.nf
    IN /\ snaps = Place(g1.sn, 1, t1, s1) \cup Place(g2.sn, 2, t2, s2)
       /\ \E r \in Place(g1.sg, 1, t1, s1) \cup Place(g2.sg, 2, t2, s2) \cup {NoSeg} :
            /\ rm = r
            /\ segs = (Place(g1.sg, 1, t1, s1) \cup Place(g2.sg, 2, t2, s2)) \ {r}
       /\ T \in {x \in Times(N) : x % Parts = Part}
       /\ ltx \in LtxChoices(N)
Next == UNCHANGED vars
Spec == Init /\ [][Next]_vars
-----------------------------------------------------------------------------
v3  == PlanV3(snaps, segs, T, FixU1)                    \* outcome of the legacy restore
fmt == IF UseV3(snaps, segs, ltx, T) THEN "v3" ELSE "ltx"

InvNoSnapshotIsError == NoSnapshotIsError(snaps, segs, T, v3)
InvGapIsError        == GapIsError(snaps, segs, T, v3)
InvGapIsErrorModU1   == IsU1(segs, rm) \/ GapIsError(snaps, segs, T, v3)      \* U1 is the ONLY family
InvRightState        == RightState(snaps, segs, T, v3)
InvArbitrationClear  == ArbitrationClear(snaps, segs, ltx, T, fmt)
InvArbitrationNewestFile == ArbitrationNewestFile(snaps, segs, ltx, T, fmt)
\* sanity of the generator: an unmodified layout never shows a gap
InvCompleteHasNoGap  == (rm = NoSeg /\ HasSnap(snaps, T)) => ~Gap(snaps, segs, T)
\* U1 made precise: when the transcription misses a gap it returns the state at the end of the previous index
InvU1Outcome == (HasSnap(snaps, T) /\ Gap(snaps, segs, T) /\ ~v3.err) =>
                   \E x \in segs : x.gen = rm.gen /\ x.idx = rm.idx - 1 /\ v3.st = x.st
=============================================================================

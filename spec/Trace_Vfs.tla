------------------------------ MODULE Trace_Vfs ------------------------------
(***************************************************************************)
(* Conformance (binding) for C18: the trace recorded from the REAL VFSFile  *)
(* (harness/cmd/vfsdrv) is replayed through Vfs.tla AS IT IS.  The replica   *)
(* side (level-0 / level-1 / snapshot files, their commits and page sets)   *)
(* is taken from the observation; the VFS side (index, pending, commit,     *)
(* pos, maxTXID1) is computed by the model's Open / Poll / Lock / Unlock /  *)
(* TT / TTReset and must reproduce what the real code reported: Pos,        *)
(* MaxTXID1, FileSize and, per page, "page not found" / "file gone" / the   *)
(* id of the page version the index entry points at.                        *)
(* A line the model cannot reproduce prints <<"DIVERGENCE", l, t, i, op>>   *)
(* and the rest of that trace is skipped (divergence is evidence, never a   *)
(* verdict); a line whose action is not enabled at all is a TLC deadlock.   *)
(***************************************************************************)
EXTENDS Vfs, Json

Log == ndJsonDeserialize("vfs_trace.ndjson")

VARIABLES l,     \* last line replayed
          bad,   \* the current trace diverged: skip to the next Reset
          pid    \* Seq (by TXID) of [pgs, ids]: page ids of every level-0 file (to name the version a page is served at)
tvars == <<vars, l, bad, pid>>

Range(s) == {s[j] : j \in DOMAIN s}
NewAt(e, lvl) == SelectSeq(e.new, LAMBDA f : f.lvl = lvl)
L0Of(e) == {e.remote[j][2] : j \in {x \in DOMAIN e.remote : e.remote[x][1] = 0}}

ResetVfs == /\ opened' = FALSE /\ index' = [p \in Pages |-> None] /\ pending' = [p \in Pages |-> None]
            /\ pendRepl' = FALSE /\ lock' = FALSE /\ commit' = 0 /\ pos' = 0 /\ max1' = 0 /\ target' = 0 /\ lockPos' = 0
            /\ fresh' = FALSE /\ openPos' = 0 /\ hzOpen' = FALSE /\ hzSeed' = FALSE /\ hzMix' = FALSE /\ pollErr' = FALSE

TInit == /\ l = 0 /\ bad = FALSE /\ pid = <<>>
         /\ txs = <<>> /\ have0 = {} /\ l1 = <<>> /\ snaps = {}
         /\ opened = FALSE /\ index = [p \in Pages |-> None] /\ pending = [p \in Pages |-> None]
         /\ pendRepl = FALSE /\ lock = FALSE /\ commit = 0 /\ pos = 0 /\ max1 = 0 /\ target = 0 /\ lockPos = 0
         /\ fresh = FALSE /\ openPos = 0 /\ hzOpen = FALSE /\ hzSeed = FALSE /\ hzMix = FALSE /\ pollErr = FALSE

\* the replica as observed after the step: new files are appended, the level-0 set is what is listed
Replica(e) ==
  LET n0 == NewAt(e, 0) n1 == NewAt(e, 1) n9 == NewAt(e, 9) IN
  /\ txs' = txs \o [j \in 1..Len(n0) |-> [commit |-> n0[j].commit, pages |-> Range(n0[j].pgs)]]
  /\ pid' = pid \o [j \in 1..Len(n0) |-> [pgs |-> n0[j].pgs, ids |-> n0[j].ids]]
  /\ l1' = l1 \o [j \in 1..Len(n1) |-> [min |-> n1[j].min, max |-> n1[j].max]]
  /\ snaps' = snaps \cup {n9[j].max : j \in 1..Len(n9)}
  /\ have0' = L0Of(e)

IdOf(k, p) == IF k < 1 \/ k > Len(pid') THEN -9
              ELSE LET r == pid'[k] js == {j \in DOMAIN r.pgs : r.pgs[j] = p}
                   IN IF js = {} THEN -9 ELSE r.ids[CHOOSE j \in js : TRUE]
\* what the model's index would serve for page p (evaluated in the post-state)
ServeP(p) == IF index'[p] = None THEN 0
             ELSE IF ~Exists(index'[p]) THEN -1
             ELSE IdOf(ElemVer(index'[p], p), p)
MatchP(e) ==
  /\ pos' = e.pos /\ max1' = e.max1
  /\ e.obs => /\ SetMax({p \in Pages : index'[p] # None \/ pending'[p] # None}) = e.size
              \* page 1: the served image is masked, ids differ.  The one-page cache (not modelled) may still hold a
              \* page whose file retention has deleted: then the version the index entry names is served
              /\ \A p \in 2..Len(e.pg) : p \in Pages =>
                    \/ ServeP(p) = e.pg[p]
                    \/ (ServeP(p) = -1 /\ e.pg[p] = IdOf(ElemVer(index'[p], p), p))
Check(e) == /\ bad' = ~MatchP(e)
            /\ (MatchP(e) \/ PrintT(<<"DIVERGENCE", l + 1, e.t, e.i, e.op>>))

VfsStep(e) ==
  CASE e.op = "Open" /\ e.res = "ok"    -> (Open \/ Reopen)
    [] e.op = "Poll" /\ e.res = "ok"    -> (Poll /\ ~pollErr')
    [] e.op = "Poll" /\ e.res # "skip"  -> (Poll /\ pollErr')
    [] e.op = "Lock" /\ e.res = "ok"    -> Lock
    [] e.op = "Unlock" /\ e.res = "ok"  -> Unlock
    [] e.op = "TT" /\ e.res = "ok"      -> TT(e.arg)
    [] e.op = "TTReset" /\ e.res = "ok" -> TTReset
    [] OTHER -> UNCHANGED vars

IsVfsOp(e) == e.op \in {"Open", "Poll", "Lock", "Unlock", "TT", "TTReset"}

TNext ==
  /\ l < Len(Log) /\ l' = l + 1
  /\ LET e == Log[l + 1] IN
     IF e.op = "Reset"
       THEN /\ ResetVfs /\ bad' = FALSE /\ pid' = <<>> /\ txs' = <<>> /\ have0' = {} /\ l1' = <<>> /\ snaps' = {}
     ELSE IF bad THEN UNCHANGED <<vars, bad, pid>>
     ELSE IF IsVfsOp(e) THEN /\ VfsStep(e) /\ UNCHANGED pid /\ Check(e)
     ELSE /\ Replica(e) /\ UNCHANGED <<opened, index, pending, pendRepl, lock, commit, pos, max1, target, lockPos, openPos, hzOpen, hzSeed, hzMix, pollErr>>
          /\ fresh' = (fresh /\ e.op # "Ret0")
          /\ UNCHANGED bad
TSpec == TInit /\ [][TNext \/ (l = Len(Log) /\ UNCHANGED tvars)]_tvars
Done == l = Len(Log)
====

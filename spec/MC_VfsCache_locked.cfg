SPECIFICATION Spec
CONSTANTS MaxPg=3 MaxVer=5 Variant="asis" UnlockedReads=FALSE
INVARIANTS CacheCoherent ReaderViewStable
CHECK_DEADLOCK FALSE

---------------------------- MODULE FsTraceObs ----------------------------
(***************************************************************************)
(* The judge for C11: the flush-ordering rules evaluated on the SYSTEM CALL *)
(* TRACE OF THE REAL PROCESS (strace -f -y of harness/cmd/scen, parsed by   *)
(* tools/strace2ndjson.py). The variables below are a running summary of    *)
(* the trace prefix Log[1..l-1] (which paths have unflushed writes, which   *)
(* final names are present, whose directory entry has been flushed); the    *)
(* invariants state each rule at the event Log[l] where it matters:         *)
(*   R1 at rename(x.tmp -> final name): the content was written, and        *)
(*      flushed (fsync/fdatasync) after the last write and before the rename*)
(*   R2 at Mark(op, ok): every directory in which op renamed a file to a    *)
(*      final name has been fsynced since that rename                       *)
(*   R3 at unlink(published LTX name): some present file that supersedes it *)
(*      (higher level covering its range, a snapshot with max >= its max,   *)
(*      or - for a local file - its copy on the replica) has flushed content*)
(*      and a flushed directory entry                                       *)
(* Final-name classes (cls): localltx, replicaltx, restore, sidecar; a      *)
(* "fetched baseline" is a localltx level-0 name that is already present    *)
(* under the same name on the replica when it is renamed (db.go:1631-1668). *)
(* Nothing of FsProtocol.tla's transition relation is assumed.              *)
(***************************************************************************)
EXTENDS Integers, Sequences, FiniteSets, TLC, Json

Log == ndJsonDeserialize("fs_trace.ndjson")

VARIABLES l,
          dirty,    \* paths created or written since their last fsync
          wrote,    \* paths with at least one write since creation
          pub,      \* published LTX files present: [path, tree, lvl, min, max]
          undur,    \* [path, dir]: final names renamed (by any operation) whose directory has not been fsynced since
          pend      \* [path, dir, cls] renamed to a final name by the current operation, directory not fsynced since
vars == <<l, dirty, wrote, pub, undur, pend>>

Final(e) == e.cls \in {"localltx", "replicaltx", "restore", "sidecar"}
IsLtx(e) == e.cls \in {"localltx", "replicaltx"}
File(e) == [path |-> e.path, tree |-> e.tree, lvl |-> e.lvl, min |-> e.min, max |-> e.max]
\* class of a rename target, refined: a level-0 local name that the replica already holds is a fetched baseline
ClsOf(e) == IF e.cls = "localltx" /\ e.lvl = 0 /\ \E g \in pub : g.tree = "rep" /\ g.lvl = 0 /\ g.min = e.min /\ g.max = e.max
              THEN "baseline" ELSE e.cls

Init == l = 1 /\ dirty = {} /\ wrote = {} /\ pub = {} /\ undur = {} /\ pend = {}

Step ==
  /\ l <= Len(Log)
  /\ l' = l + 1
  /\ LET e == Log[l] IN
     CASE e.ev = "reset"  -> dirty' = {} /\ wrote' = {} /\ pub' = {} /\ undur' = {} /\ pend' = {}
       [] e.ev = "create" -> /\ dirty' = dirty \cup {e.path} /\ wrote' = wrote \ {e.path}
                             /\ UNCHANGED <<pub, undur, pend>>
       [] e.ev = "write"  -> /\ dirty' = dirty \cup {e.path} /\ wrote' = wrote \cup {e.path}
                             /\ UNCHANGED <<pub, undur, pend>>
       [] e.ev = "fsync"  -> /\ dirty' = dirty \ {e.path}
                             /\ undur' = {u \in undur : u.dir # e.path}
                             /\ pend' = {p \in pend : p.dir # e.path}
                             /\ UNCHANGED <<wrote, pub>>
       [] e.ev = "rename" -> /\ dirty' = (dirty \ {e.old, e.path}) \cup (IF e.old \in dirty THEN {e.path} ELSE {})
                             /\ wrote' = (wrote \ {e.old, e.path}) \cup (IF e.old \in wrote THEN {e.path} ELSE {})
                             /\ pub' = IF IsLtx(e) THEN {g \in pub : g.path # e.path} \cup {File(e)} ELSE pub
                             /\ undur' = {u \in undur : u.path # e.path} \cup (IF Final(e) THEN {[path |-> e.path, dir |-> e.dir]} ELSE {})
                             /\ pend' = IF Final(e) THEN {p \in pend : p.path # e.path} \cup {[path |-> e.path, dir |-> e.dir, cls |-> ClsOf(e)]}
                                        ELSE pend
       [] e.ev = "unlink" -> /\ dirty' = dirty \ {e.path} /\ wrote' = wrote \ {e.path}
                             /\ pub' = {g \in pub : g.path # e.path}
                             /\ undur' = {u \in undur : u.path # e.path}
                             /\ pend' = {p \in pend : p.path # e.path}
       [] e.ev = "metalost" -> /\ pub' = {g \in pub : g.tree # "meta"}       \* the local state directory vanished (environment)
                               /\ pend' = {p \in pend : p.cls \notin {"localltx", "baseline"}}
                               /\ UNCHANGED <<dirty, wrote, undur>>
       [] e.ev = "mark"   -> /\ pend' = IF e.what = "begin" THEN {} ELSE pend
                             /\ UNCHANGED <<dirty, wrote, pub, undur>>
       [] OTHER           -> UNCHANGED <<dirty, wrote, pub, undur, pend>>
Spec == Init /\ [][Step]_vars

-----------------------------------------------------------------------------
AtEvent == l <= Len(Log)
cur == Log[l]

Supersedes(g, f) == /\ g.path # f.path /\ g.tree = "rep"
                    /\ \/ g.lvl > f.lvl /\ g.lvl < 9 /\ g.min <= f.min /\ g.max >= f.max
                       \/ g.lvl = 9 /\ g.max >= f.max
                       \/ f.tree = "meta" /\ g.lvl = f.lvl /\ g.min = f.min /\ g.max = f.max
Durable(g) == g.path \notin dirty /\ g.path \in wrote /\ \A u \in undur : u.path # g.path

R1_ == (AtEvent /\ cur.ev = "rename" /\ Final(cur)) => (cur.old \in wrote /\ cur.old \notin dirty)
R2_ == (AtEvent /\ cur.ev = "mark" /\ cur.what = "ok") => pend = {}
\* the one known case (finding D1): the only unflushed publish of the operation is a fetched baseline in the meta L0 directory
IsD1 == AtEvent /\ cur.ev = "mark" /\ cur.what = "ok" /\ pend # {} /\ \A p \in pend : p.cls = "baseline"
R3_ == (AtEvent /\ cur.ev = "unlink" /\ IsLtx(cur) /\ \E f \in pub : f.path = cur.path)
         => \E g \in pub : Supersedes(g, File(cur)) /\ Durable(g)

V(name, ok) == ok \/ PrintT(<<"VERDICT", name, l, cur.t, cur.i>>)
R1_FlushedBeforePublished == V("R1_FlushedBeforePublished", R1_)
R2_DirFlushedBeforeOk == V(IF IsD1 THEN "R2_D1" ELSE "R2_DirFlushedBeforeOk", R2_)
R3_SupersededBeforeUnlink == V("R3_SupersededBeforeUnlink", R3_)
=============================================================================

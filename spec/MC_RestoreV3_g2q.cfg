SPECIFICATION Spec
CONSTANTS
  MaxGen = 2
  MaxIdx = 2
  MaxSeg = 2
  MaxSnap = 2
  Sizes = {1}
  LtxMode = 0
  FixU1 = TRUE
  Parts = 1
  Part = 0
INVARIANTS InvNoSnapshotIsError InvGapIsErrorModU1 InvRightState InvArbitrationClear InvCompleteHasNoGap InvU1Outcome
CHECK_DEADLOCK FALSE

---------------------------- MODULE RestorePlan ----------------------------
(***************************************************************************)
(* C08 / C15 (model side).  Function-shaped module:                         *)
(*   Planner(files, tx, T)  = line-by-line transcription of                 *)
(*        litestream.CalcRestorePlan (replica.go:1514-1631) with            *)
(*        restoreLevelCursor.refresh / ensureCurrent (replica.go:1644-1697) *)
(*        and restoreCandidateBetter (replica.go:1699-1710), AS THE CODE IS;*)
(*   ValidPlan / ReachSet / the invariants below = the property, stated     *)
(*        declaratively (no reference to the algorithm).                    *)
(* MC_RestorePlan.tla enumerates every file set up to a bound and checks    *)
(* transcription |= declarative spec; RestorePlanObs.tla evaluates the      *)
(* declarative spec on the outputs of the real code.                        *)
(*                                                                          *)
(* A file is [lvl, min, max, ts]; ts = index of its CreatedAt (the driver   *)
(* maps k to base+k seconds).  tx = 0: no target TXID; T = 0: no timestamp. *)
(***************************************************************************)
EXTENDS Integers, Sequences, FiniteSets, SequencesExt, FiniteSetsExt, TLC

CONSTANTS Levels      \* levels that may hold files (subset of 0..9; 9 = snapshot level); cursors for Levels \ {9}

SnapLvl == 9
None == [lvl |-> -1, min |-> 0, max |-> 0, ts |-> 0]
File(l, a, b, t) == [lvl |-> l, min |-> a, max |-> b, ts |-> t]

-----------------------------------------------------------------------------
(* ---------------- transcription of the code ---------------- *)

\* iterator order of every client: filename order = (min, max)   (ltx.NewFileInfoSliceIterator; file names)
Less(a, b) == a.min < b.min \/ (a.min = b.min /\ a.max < b.max)
LevelSeq(files, l) == SetToSortSeq({f \in files : f.lvl = l}, Less)

\* restoreCandidateBetter(curr, next)                            replica.go:1699
Better(c, n) ==
  IF n.max # c.max THEN n.max > c.max
  ELSE IF n.min # c.min THEN n.min < c.min
  ELSE IF n.lvl # c.lvl THEN n.lvl > c.lvl
  ELSE n.ts < c.ts

\* the two filters `txID != 0 && info.MaxTXID > txID` / `!timestamp.IsZero() && !info.CreatedAt.Before(timestamp)`
\*                                                               replica.go:1532-1537, 1670-1675
Elig(f, tx, T) == ~(tx # 0 /\ f.max > tx) /\ ~(T # 0 /\ ~(f.ts < T))

\* restoreLevelCursor: i = index of the next item of the level's iterator that has not been evaluated yet
\* (`current` = seq[i] once fetched), cand = candidate, done = iterator exhausted.
Cursor0 == [i |-> 1, cand |-> None, done |-> FALSE]

\* the for-loop of refresh                                       replica.go:1654-1681
RECURSIVE Loop(_, _, _, _, _, _)
Loop(i, cand, seq, curMax, tx, T) ==
  IF i > Len(seq) THEN [i |-> i, cand |-> cand, done |-> TRUE]          \* ensureCurrent: itr exhausted -> done
  ELSE LET f == seq[i] IN
       IF f.min > curMax + 1 THEN [i |-> i, cand |-> cand, done |-> FALSE]   \* keeps `current`
       ELSE IF f.max <= curMax \/ ~Elig(f, tx, T) THEN Loop(i + 1, cand, seq, curMax, tx, T)
       ELSE Loop(i + 1, IF cand = None \/ Better(cand, f) THEN f ELSE cand, seq, curMax, tx, T)

\* refresh(currentMax, txID, timestamp)                          replica.go:1644
Refresh(c, seq, curMax, tx, T) ==
  IF c.done THEN c                                   \* returns before the stale-candidate reset
  ELSE LET cand1 == IF c.cand # None /\ c.cand.max <= curMax THEN None ELSE c.cand
       IN Loop(c.i, cand1, seq, curMax, tx, T)

\* cursors are created for level = maxLevel .. 0                 replica.go:1558
CurLevels == SetToSortSeq((Levels \cup {0}) \ {SnapLvl}, LAMBDA a, b : a > b)
LvlSet == {CurLevels[k] : k \in DOMAIN CurLevels}

\* `next` selection over the cursors in creation order           replica.go:1577-1588
RECURSIVE Pick(_, _, _)
Pick(cs, k, best) ==
  IF k > Len(CurLevels) THEN best
  ELSE LET l == CurLevels[k] IN
       IF cs[l].cand = None THEN Pick(cs, k + 1, best)
       ELSE IF best = -1 \/ Better(cs[best].cand, cs[l].cand) THEN Pick(cs, k + 1, l)
       ELSE Pick(cs, k + 1, best)

\* the outer for-loop                                            replica.go:1576-1609
RECURSIVE Main(_, _, _, _, _, _)
Main(seqs, infos, curMax, cs, tx, T) ==
  LET cs1 == [l \in LvlSet |-> Refresh(cs[l], seqs[l], curMax, tx, T)]
      b   == Pick(cs1, 1, -1)
  IN IF b = -1 THEN [infos |-> infos, curMax |-> curMax, cs |-> cs1]                 \* break
     ELSE IF cs1[b].cand.max <= curMax
            THEN Main(seqs, infos, curMax, [cs1 EXCEPT ![b].cand = None], tx, T)     \* continue
     ELSE LET c == cs1[b].cand
              infos2 == Append(infos, c)
              cs2 == [cs1 EXCEPT ![b].cand = None]
          IN IF tx # 0 /\ c.max >= tx THEN [infos |-> infos2, curMax |-> c.max, cs |-> cs2]   \* break
             ELSE Main(seqs, infos2, c.max, cs2, tx, T)

\* snapshot selection: the LAST eligible item of the level-9 iterator     replica.go:1526-1546
Snapshot(s, tx, T) ==
  LET ok == {i \in 1..Len(s) : Elig(s[i], tx, T)}
  IN IF ok = {} THEN None ELSE s[CHOOSE i \in ok : \A j \in ok : j <= i]

SeqsOf(files) == [l \in LvlSet \cup {SnapLvl} |-> LevelSeq(files, l)]

\* err: "none" | "gap" (non-contiguous ltx files) | "notfound" (ErrTxNotAvailable) | "both"
PlannerS(seqs, tx, T) ==
  IF tx # 0 /\ T # 0 THEN [err |-> "both", plan |-> <<>>]                            \* replica.go:1515
  ELSE
  LET snap == Snapshot(seqs[SnapLvl], tx, T)
      infos0 == IF snap = None THEN <<>> ELSE <<snap>>
      cur0 == IF snap = None THEN 0 ELSE snap.max                                    \* infos.MaxTXID()
      cs0 == [l \in LvlSet |-> Cursor0]
  IN IF tx # 0 /\ cur0 >= tx THEN [err |-> "none", plan |-> infos0]                  \* replica.go:1553
     ELSE LET r == Main(seqs, infos0, cur0, cs0, tx, T)
              \* gap check, latest-state requests only                               replica.go:1611-1620
              gap == /\ Len(r.infos) > 0 /\ tx = 0 /\ T = 0
                     /\ \E l \in LvlSet :
                          LET c == r.cs[l] s == seqs[l] IN
                          c.i <= Len(s) /\ s[c.i].min > r.curMax + 1
          IN IF gap THEN [err |-> "gap", plan |-> <<>>]
             ELSE IF Len(r.infos) = 0 THEN [err |-> "notfound", plan |-> <<>>]       \* replica.go:1622
             ELSE IF tx # 0 /\ r.infos[Len(r.infos)].max < tx THEN [err |-> "notfound", plan |-> <<>>]
             ELSE [err |-> "none", plan |-> r.infos]

Planner(files, tx, T) == PlannerS(SeqsOf(files), tx, T)

-----------------------------------------------------------------------------
(* ---------------- the property, declaratively ---------------- *)

\* p is a valid restore chain over `files` for the request (tx, T)
ValidPlan(files, tx, T, p) ==
  /\ Len(p) > 0
  /\ \A i \in 1..Len(p) : p[i] \in files
  /\ p[1].min = 1                                                           \* starts at TXID 1
  /\ \A i \in 2..Len(p) : p[i].min <= p[i-1].max + 1 /\ p[i].max > p[i-1].max   \* contiguous, extends
  /\ (tx # 0 => p[Len(p)].max = tx)                                         \* ends exactly at the target
  /\ (T # 0 => \A i \in 1..Len(p) : p[i].ts < T)                            \* nothing created at/after T

\* C15 clause on its own: no file with createdAt >= T in the plan
TsExcludedP(T, p) == T # 0 => \A i \in 1..Len(p) : p[i].ts < T

\* TXIDs that are the end of some valid chain for (tx, T)  (least fixed point)
ReachSet(files, tx, T) ==
  LET E == {f \in files : (T # 0 => f.ts < T) /\ (tx # 0 => f.max <= tx)}
      RECURSIVE Grow(_)
      Grow(R) == LET R2 == R \cup {f.max : f \in {g \in E : g.min = 1 \/ \E r \in R : g.min <= r + 1 /\ g.max > r}}
                 IN IF R2 = R THEN R ELSE Grow(R2)
  IN Grow({})
\* a valid chain for the request exists (to the target when one is given)
Reachable(files, tx, T) == IF tx # 0 THEN tx \in ReachSet(files, tx, T) ELSE ReachSet(files, tx, T) # {}
MaxOf(S) == IF S = {} THEN 0 ELSE CHOOSE m \in S : \A x \in S : x <= m
End(res) == IF res.plan = <<>> THEN 0 ELSE res.plan[Len(res.plan)].max

\* --- the clauses, as predicates of (files, request, result, R) with R = ReachSet(files, tx, T) of the same request;
\* --- used here on Planner's result and by RestorePlanObs.tla on the REAL result
SoundP(files, tx, T, res) == res.err = "none" => ValidPlan(files, tx, T, res.plan)
\* a valid chain to the target exists => a plan is returned rather than an error
CompleteTxP(tx, T, res, R) == (tx # 0 /\ T = 0 /\ tx \in R) => res.err = "none"
\* latest / timestamp: some chain exists => a plan, or (latest only) a gap error justified by a file beyond the gap
CompleteLatestP(files, tx, T, res, R) ==
  (tx = 0 /\ R # {}) =>
     \/ res.err = "none"
     \/ T = 0 /\ res.err = "gap" /\ \E f \in files : f.min > MaxOf(R) + 1
\* latest: never silently stop before files that lie beyond a gap
GapReportedP(files, tx, T, res) ==
  (tx = 0 /\ T = 0 /\ res.err = "none") => ~\E f \in files : f.min > End(res) + 1
\* latest: the plan reaches the furthest TXID any valid chain reaches
FurthestLatestP(tx, T, res, R) == (tx = 0 /\ T = 0 /\ res.err = "none") => End(res) = MaxOf(R)
\* timestamp: same over the files created before T (model / binding level; C15 states it for real replicas)
FurthestTsP(tx, T, res, R) == (tx = 0 /\ T # 0 /\ res.err = "none") => End(res) = MaxOf(R)
\* C15: a later T never yields an earlier state (nor an error where the earlier T succeeded)
MonoP(r1, r2) == r1.err = "none" => (r2.err = "none" /\ End(r2) >= End(r1))

=============================================================================

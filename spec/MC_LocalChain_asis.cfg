SPECIFICATION Spec
CONSTANTS MaxTx=5 MaxId=7 Variant="asis"
INVARIANTS OneChain AckMeansStored
CHECK_DEADLOCK FALSE

SPECIFICATION Spec
CONSTANTS MaxTx=5 MaxId=7 Variant="asis"
INVARIANTS OneChain AckMeansStored AckMeansRestorable SnapshotOnChain
CHECK_DEADLOCK FALSE

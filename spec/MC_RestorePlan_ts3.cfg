\* C15 thorough bound: three distinct file timestamps (request timestamps 1..4), TXIDs 1..4, <= 3 files.
\* The runner rewrites `Part = 0` for every shard 0..Parts-1 (one TLC process each, several workers: Fanout).
SPECIFICATION Spec
CONSTANTS
  N = 4
  Levels = {0, 1, 2, 9}
  MaxFiles = 3
  MaxTs = 3
  Part = 0
  Parts = 1
  Fanout = TRUE
INVARIANTS TsExcluded TsFurthest TsMonotone Sound CompleteLatest
CHECK_DEADLOCK FALSE

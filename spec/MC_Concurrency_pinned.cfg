SPECIFICATION Spec
CONSTANTS FixZ1=FALSE FixQ1=FALSE FixR=FALSE Procs={"syncdb","syncdb2","disable","snap","enable"}
INVARIANTS LocksFree NoDeadlock NoLeakAfterCloseK
CHECK_DEADLOCK FALSE

------------------------------ MODULE Vfs ------------------------------
(***************************************************************************)
(* C18 - a VFS read replica serves the same pages as a full restore.       *)
(*                                                                         *)
(* The page index of litestream's VFSFile (vfs.go) AS THE CODE IS, next to *)
(* the restore semantics of the replica, over primary histories with       *)
(* growth, partial shrink (auto_vacuum incremental), VACUUM, level-1       *)
(* compaction, snapshots and level-0 retention of files being read.        *)
(*                                                                         *)
(*   Open / TT / TTReset : CalcRestorePlan (replica.go:1517) + buildIndexMap*)
(*                         (vfs.go:1251) + rebuildIndex (vfs.go:1200)       *)
(*   Poll                : pollReplicaClient (vfs.go:2500) = pollLevel(0)   *)
(*                         and pollLevel(1) (vfs.go:2626) in ONE round,     *)
(*                         replace-on-shrink (vfs.go:2664), pending index   *)
(*                         while a reader holds the shared lock (2565-2590) *)
(*   Lock / Unlock       : vfs.go:2182 / 2231 (pending -> index)            *)
(*                                                                         *)
(* FixV1..FixV4 = FALSE is the code as it is; TRUE = candidate repair:      *)
(*   FixV1  no replace on shrink; trim the index above the newest commit    *)
(*   FixV2  buildIndexMap drops entries above the final commit              *)
(*   FixV3  per page keep the entry of the file with the larger max TXID    *)
(*   FixV4  seed maxTXID1 at the end of the last level-1 file that lies     *)
(*          below the plan's first level-0 file (else below the oldest      *)
(*          level-0 file), so the compaction of the files in use is polled  *)
(***************************************************************************)
EXTENDS Integers, Sequences, FiniteSets, TLC

CONSTANTS MaxPg, MaxTx,             \* pages, transactions (= level-0 files)
          MaxL1,                    \* level-1 compactions
          FixV1, FixV2, FixV3, FixV4,
          WithLock, WithRet, WithSnap, WithTT

Pages == 1..MaxPg
None  == [lvl |-> -1, id |-> 0]

VARIABLES txs,      \* Seq of [commit, pages]: transaction k = level-0 file k (content; history of the primary)
          have0,    \* TXIDs whose level-0 file is still on the replica
          l1,       \* Seq of [min, max]: level-1 files (contiguous)
          snaps,    \* TXIDs t with a snapshot file 1..t
          opened, index, pending, pendRepl, lock, commit, pos, max1, target,
          lockPos,  \* ghost: pos when the shared lock was taken
          fresh,    \* ghost: the last VFS step was a successful open/poll and no retention ran since
          openPos,  \* ghost: pos after the last index build (Open / TT / TTReset)
          hzOpen,   \* ghost: that build's plan had an element with a commit above the final one   (shape of V2)
          hzSeed,   \* ghost: that build's plan had no level-1 element (cursor seeded from pos)      (shape of V4)
          hzMix,    \* ghost: some poll since consumed a level-1 file and a newer level-0 file      (shape of V3)
          pollErr   \* ghost: the last poll returned an error
vfsvars == <<opened, index, pending, pendRepl, lock, commit, pos, max1, target, lockPos, fresh, openPos, hzOpen, hzSeed, hzMix, pollErr>>
vars == <<txs, have0, l1, snaps, vfsvars>>

N == Len(txs)
Commit(k) == IF k = 0 THEN 0 ELSE txs[k].commit
SetMax(S) == IF S = {} THEN 0 ELSE CHOOSE m \in S : \A q \in S : q <= m

\* ---- restore semantics: database state after transaction n (page -> TXID that last wrote it; 0 = not in the file)
Apply(st, k) == [n |-> txs[k].commit,
                 pg |-> [p \in Pages |-> IF p > txs[k].commit THEN 0
                                          ELSE IF p \in txs[k].pages THEN k ELSE st.pg[p]]]
S(n) == LET F[i \in 0..n] == IF i = 0 THEN [n |-> 0, pg |-> [p \in Pages |-> 0]] ELSE Apply(F[i-1], i) IN F[n]

\* ---- file contents.  Element = [lvl, id]: lvl 0 id = TXID; lvl 1 id = position in l1; lvl 9 id = snapshot TXID
L1Pages(f) == {p \in Pages : p <= Commit(f.max) /\ \E k \in f.min..f.max : p \in txs[k].pages /\ p <= Commit(k)}
L1Ver(f, p) == SetMax({k \in f.min..f.max : p \in txs[k].pages})
ElemPages(e) == CASE e.lvl = 0 -> txs[e.id].pages [] e.lvl = 1 -> L1Pages(l1[e.id]) [] OTHER -> 1..Commit(e.id)
ElemVer(e, p) == CASE e.lvl = 0 -> e.id [] e.lvl = 1 -> L1Ver(l1[e.id], p) [] OTHER -> S(e.id).pg[p]
ElemMax(e)    == CASE e.lvl = 0 -> e.id [] e.lvl = 1 -> l1[e.id].max [] OTHER -> e.id
ElemCommit(e) == Commit(ElemMax(e))
Exists(e)     == CASE e.lvl = 0 -> e.id \in have0 [] e.lvl = 1 -> e.id \in 1..Len(l1) [] OTHER -> e.id \in snaps
L1Max == IF Len(l1) = 0 THEN 0 ELSE l1[Len(l1)].max

Init == /\ txs = <<[commit |-> 2, pages |-> {1, 2}]>>      \* TXID 1 = first sync of a 2-page database
        /\ have0 = {1} /\ l1 = <<>> /\ snaps = {}
        /\ opened = FALSE /\ index = [p \in Pages |-> None] /\ pending = [p \in Pages |-> None]
        /\ pendRepl = FALSE /\ lock = FALSE /\ commit = 0 /\ pos = 0 /\ max1 = 0 /\ target = 0 /\ lockPos = 0
        /\ fresh = FALSE /\ openPos = 0 /\ hzOpen = FALSE /\ hzSeed = FALSE /\ hzMix = FALSE /\ pollErr = FALSE

\* ---- primary: one transaction + sync = one level-0 file
Tx(c, ps) == /\ N < MaxTx
             /\ txs' = Append(txs, [commit |-> c, pages |-> ps])
             /\ have0' = have0 \cup {N + 1}
             /\ UNCHANGED <<l1, snaps, vfsvars>>
Write(p)  == p \in 1..Commit(N) /\ Tx(Commit(N), {p})                               \* UPDATE of one row
Grow(c)   == c \in (Commit(N)+1)..MaxPg /\ Tx(c, {1} \cup (Commit(N)+1)..c)         \* every new page is written
Shrink(c, m) == /\ c \in 1..(Commit(N)-1) /\ m \subseteq 2..c /\ Cardinality(m) <= 1   \* incremental_vacuum: header + moved page
                /\ Tx(c, {1} \cup m)
Vacuum(c) == c \in 1..Commit(N) /\ Tx(c, 1..c)                                      \* VACUUM rewrites everything

Compact1 == /\ Len(l1) < MaxL1 /\ L1Max < N
            /\ l1' = Append(l1, [min |-> L1Max + 1, max |-> N])                     \* db.Compact(1): all level-0 files since
            /\ UNCHANGED <<txs, have0, snaps, vfsvars>>
Snapshot == /\ WithSnap /\ N \notin snaps /\ snaps' = snaps \cup {N}
            /\ UNCHANGED <<txs, have0, l1, vfsvars>>
\* EnforceL0RetentionByTime (db.go:3061) once the retention period has passed: compacted level-0 files, never the newest
Ret0 == /\ WithRet
        /\ LET del == {k \in have0 : k <= L1Max /\ k # N} IN
           /\ del # {} /\ have0' = have0 \ del
        /\ fresh' = FALSE
        /\ UNCHANGED <<txs, l1, snaps, opened, index, pending, pendRepl, lock, commit, pos, max1, target, lockPos, openPos, hzOpen, hzSeed, hzMix, pollErr>>

\* ---- CalcRestorePlan (replica.go:1517): newest eligible snapshot, then repeatedly the file that extends the
\* contiguous range furthest (level 1 wins over level 0).  k bounds the file times (time travel); tt: snapshot time
\* lies after the time of its TXID, so a snapshot at k is not eligible for target k.
RECURSIVE PlanFrom(_, _)
PlanFrom(cur, k) ==
  LET c1 == {i \in 1..Len(l1) : l1[i].min <= cur + 1 /\ l1[i].max > cur /\ l1[i].max <= k} IN
  IF c1 # {} THEN LET i == CHOOSE i \in c1 : \A j \in c1 : l1[j].max <= l1[i].max
                  IN <<[lvl |-> 1, id |-> i]>> \o PlanFrom(l1[i].max, k)
  ELSE IF cur + 1 \in have0 /\ cur + 1 <= k THEN <<[lvl |-> 0, id |-> cur + 1]>> \o PlanFrom(cur + 1, k)
  ELSE <<>>
PlanAt(k, tt) == LET ss == {t \in snaps : IF tt THEN t < k ELSE t <= k}
                     s == SetMax(ss)
                 IN IF s = 0 THEN PlanFrom(0, k) ELSE <<[lvl |-> 9, id |-> s]>> \o PlanFrom(s, k)

\* ---- buildIndexMap (vfs.go:1251): later plan elements overwrite earlier ones; commit = last header's commit
BuildIndex(plan) ==
  LET F[i \in 0..Len(plan)] ==
        IF i = 0 THEN [p \in Pages |-> None]
        ELSE [p \in Pages |-> IF p \in ElemPages(plan[i]) THEN plan[i] ELSE F[i-1][p]]
      last == ElemCommit(plan[Len(plan)])
  IN IF FixV2 THEN [p \in Pages |-> IF p > last THEN None ELSE F[Len(plan)][p]] ELSE F[Len(plan)]

Rebuild(plan, tgt) ==
  LET p1 == {ElemMax(plan[i]) : i \in {j \in 1..Len(plan) : plan[j].lvl = 1}}
      \* repair: the cursor goes to the end of the last level-1 file below the plan's first level-0 file
      l0s == {plan[i].id : i \in {j \in 1..Len(plan) : plan[j].lvl = 0}}
      first == IF l0s = {} THEN ElemMax(plan[Len(plan)]) + 1 ELSE CHOOSE x \in l0s : \A y \in l0s : x <= y
      below == {l1[i].max : i \in {j \in 1..Len(l1) : l1[j].max < first}}
      last == plan[Len(plan)]
  IN /\ plan # <<>>
     /\ index' = BuildIndex(plan) /\ pending' = [p \in Pages |-> None] /\ pendRepl' = FALSE
     /\ commit' = ElemCommit(last) /\ pos' = ElemMax(last)
     /\ max1' = IF FixV4 THEN (IF below # {} THEN SetMax(below)
                                ELSE IF have0 = {} THEN first - 1
                                ELSE LET m == CHOOSE x \in have0 : \A y \in have0 : x <= y
                                     IN IF m - 1 < first - 1 THEN m - 1 ELSE first - 1)
                ELSE IF p1 = {} THEN ElemMax(last) ELSE SetMax(p1)                              \* vfs.go:1211-1215
     /\ target' = tgt /\ openPos' = ElemMax(last) /\ fresh' = TRUE /\ pollErr' = FALSE
     /\ hzOpen' = \E i \in 1..Len(plan) : ElemCommit(plan[i]) > ElemCommit(last)
     /\ hzSeed' = (p1 = {})
     /\ hzMix' = FALSE

Open == /\ ~opened /\ opened' = TRUE /\ lock' = FALSE /\ lockPos' = 0
        /\ Rebuild(PlanAt(N, FALSE), 0)
        /\ UNCHANGED <<txs, have0, l1, snaps>>
\* a new VFSFile on the same replica
Reopen == /\ opened /\ lock' = FALSE /\ lockPos' = 0 /\ UNCHANGED opened
          /\ Rebuild(PlanAt(N, FALSE), 0)
          /\ UNCHANGED <<txs, have0, l1, snaps>>
TT(k) == /\ WithTT /\ opened /\ ~lock /\ k \in 1..N            \* SetTargetTime (vfs.go:1166) with a time just after file k's
         /\ Rebuild(PlanAt(k, TRUE), k)
         /\ UNCHANGED <<txs, have0, l1, snaps, opened, lock, lockPos>>
TTReset == /\ WithTT /\ opened /\ ~lock /\ target # 0          \* ResetTime (vfs.go:1188)
           /\ Rebuild(PlanAt(N, FALSE), 0)
           /\ UNCHANGED <<txs, have0, l1, snaps, opened, lock, lockPos>>

\* ---- pollLevel (vfs.go:2626): acc = [max, idx, commit, last, repl, err, n]
AddFile(acc, e) ==
  LET c == ElemCommit(e)
      shrink == c < acc.last
      base == IF ~shrink THEN acc.idx
              ELSE IF FixV1 THEN [p \in Pages |-> IF p > c THEN None ELSE acc.idx[p]]   \* repair: only pages above the new commit go
              ELSE [p \in Pages |-> None]                                           \* vfs.go:2664 replace on shrink
  IN [max |-> ElemMax(e), idx |-> [p \in Pages |-> IF p \in ElemPages(e) THEN e ELSE base[p]],
      commit |-> c, last |-> c, repl |-> (acc.repl \/ (shrink /\ ~FixV1)), shr |-> (acc.shr \/ shrink), err |-> FALSE, n |-> acc.n + 1,
      first |-> IF acc.n = 0 THEN ElemMax(e) ELSE acc.first]
Acc0(prevMax, base) == [max |-> prevMax, idx |-> [p \in Pages |-> None], commit |-> base, last |-> base,
                        repl |-> FALSE, shr |-> FALSE, err |-> FALSE, n |-> 0, first |-> 0]
\* level 0: consecutive existing files from prevMax+1; a gap defers to the higher level (vfs.go:2648)
RECURSIVE Poll0(_, _)
Poll0(acc, j) == IF j > N \/ j \notin have0 THEN acc ELSE Poll0(AddFile(acc, [lvl |-> 0, id |-> j]), j + 1)
\* level 1: files listed with MinTXID >= prevMax+1 (file client seek), each must start at max+1 or the poll fails
RECURSIVE Poll1(_, _, _)
Poll1(acc, i, prevMax) ==
  IF i > Len(l1) THEN acc
  ELSE LET f == l1[i] IN
       IF f.min < prevMax + 1 THEN Poll1(acc, i + 1, prevMax)
       ELSE IF f.min # acc.max + 1 THEN [acc EXCEPT !.err = TRUE]
       ELSE Poll1(AddFile(acc, [lvl |-> 1, id |-> i]), i + 1, prevMax)

Newer(a, b) == ElemMax(a) > ElemMax(b) \/ (ElemMax(a) = ElemMax(b) /\ a.lvl >= b.lvl)
Over(under, over) == [p \in Pages |-> IF over[p] # None THEN over[p] ELSE under[p]]
Trim(idx, c) == [p \in Pages |-> IF p > c THEN None ELSE idx[p]]
NonEmpty(idx) == \E p \in Pages : idx[p] # None

\* pollReplicaClient (vfs.go:2500)
PollResult ==
  LET r0 == Poll0(Acc0(pos, commit), pos + 1)
      base1 == IF r0.repl THEN r0.commit ELSE IF NonEmpty(r0.idx) THEN r0.commit ELSE commit
      new0 == IF r0.repl THEN r0.commit ELSE IF r0.commit > commit THEN r0.commit ELSE commit
      r1 == Poll1(Acc0(max1, base1), 1, max1)
      replace == r0.repl \/ r1.repl
      combined == IF FixV3 THEN [p \in Pages |-> IF r0.idx[p] = None THEN r1.idx[p]
                                                 ELSE IF r1.idx[p] = None THEN r0.idx[p]
                                                 ELSE IF Newer(r1.idx[p], r0.idx[p]) THEN r1.idx[p] ELSE r0.idx[p]]
                  ELSE IF r1.repl THEN r1.idx                                       \* vfs.go:2545-2548
                  ELSE Over(r0.idx, r1.idx)                                         \* vfs.go:2550: level 1 laid over level 0
      newC == IF r1.repl THEN r1.commit ELSE IF r1.commit > new0 THEN r1.commit ELSE new0
      newest == IF r0.max >= r1.max THEN r0.commit ELSE r1.commit
  IN [r0 |-> r0, r1 |-> r1, replace |-> replace, combined |-> combined, newC |-> newC, newest |-> newest,
      shrunk |-> (r0.shr \/ r1.shr \/ newest < commit), err |-> r1.err]

Poll ==
  /\ opened /\ target = 0                                  \* the monitor skips polling during time travel (vfs.go:2480)
  /\ LET r == PollResult IN
     IF r.err
       THEN /\ pollErr' = TRUE /\ fresh' = FALSE            \* error: nothing is applied
            /\ UNCHANGED <<opened, index, pending, pendRepl, lock, commit, pos, max1, target, lockPos, openPos, hzOpen, hzSeed, hzMix>>
       ELSE /\ pollErr' = FALSE /\ fresh' = TRUE
            /\ IF FixV1
                 THEN /\ commit' = r.newest
                      /\ LET tgt(x) == IF r.shrunk THEN Trim(x, r.newest) ELSE x
                             upd == Trim(r.combined, r.newest) IN
                         IF lock THEN /\ pending' = Over(tgt(pending), upd) /\ UNCHANGED index
                                 ELSE /\ index' = Over(tgt(index), upd) /\ UNCHANGED pending
                      /\ UNCHANGED pendRepl
                 ELSE /\ IF lock
                           THEN /\ pending' = IF r.replace THEN r.combined ELSE Over(pending, r.combined)
                                /\ pendRepl' = (pendRepl \/ r.replace)
                                /\ UNCHANGED index
                           ELSE /\ index' = IF r.replace THEN r.combined ELSE Over(index, r.combined)
                                /\ pendRepl' = FALSE
                                /\ UNCHANGED pending
                      /\ commit' = IF r.replace THEN r.newC
                                   ELSE IF NonEmpty(r.combined) /\ r.newC > commit THEN r.newC ELSE commit
            /\ pos' = IF r.r0.max > r.r1.max THEN r.r0.max ELSE r.r1.max
            /\ max1' = r.r1.max
            /\ hzMix' = (hzMix \/ (r.r1.n > 0 /\ r.r0.n > 0 /\ r.r0.max > r.r1.first))
            /\ UNCHANGED <<opened, lock, target, lockPos, openPos, hzOpen, hzSeed>>
  /\ UNCHANGED <<txs, have0, l1, snaps>>

Lock == /\ WithLock /\ opened /\ ~lock /\ lock' = TRUE /\ lockPos' = pos
        /\ UNCHANGED <<txs, have0, l1, snaps, opened, index, pending, pendRepl, commit, pos, max1, target, fresh, openPos, hzOpen, hzSeed, hzMix, pollErr>>
Unlock == /\ opened /\ lock /\ lock' = FALSE /\ lockPos' = 0
          /\ index' = IF FixV1 THEN Trim(Over(index, pending), commit)
                      ELSE IF pendRepl THEN pending ELSE Over(index, pending)        \* vfs.go:2254-2270
          /\ pending' = [p \in Pages |-> None] /\ pendRepl' = FALSE
          /\ UNCHANGED <<txs, have0, l1, snaps, opened, commit, pos, max1, target, fresh, openPos, hzOpen, hzSeed, hzMix, pollErr>>

Next == \/ \E p \in Pages : Write(p)
        \/ \E c \in Pages : Grow(c) \/ Vacuum(c)
        \/ \E c \in Pages : \E m \in SUBSET Pages : Shrink(c, m)
        \/ Compact1 \/ Snapshot \/ Ret0
        \/ Open \/ Reopen \/ Poll \/ Lock \/ Unlock \/ TTReset
        \/ \E k \in 1..MaxTx : TT(k)
Spec == Init /\ [][Next]_vars

\* ---------------------------------------------------------------------------------------------------------------
\* C18.  The pages served are those of the index (a reader under the shared lock keeps the view it locked).
View == IF lock THEN lockPos ELSE pos
Served == opened =>
  LET st == S(View) IN \A p \in 1..st.n : index[p] # None /\ ElemVer(index[p], p) = st.pg[p]
\* FileSize (vfs.go:2153) = highest page number in the index (and the pending index) x page size
FileSizeOK == (opened /\ ~lock) => SetMax({p \in Pages : index[p] # None}) = S(pos).n
\* after a successful open/poll every page is fetched from a file that exists
Available == (opened /\ fresh /\ ~lock) => \A p \in 1..S(pos).n : index[p] # None => Exists(index[p])
\* a time-travel view is the restore for that time: the plan is CalcRestorePlan's, so pos is the TXID restore reaches
TimeTravelOK == (opened /\ target # 0) => pos <= target
C18 == Served /\ FileSizeOK /\ Available

\* Shapes of the known findings as history predicates
HzV1 == opened /\ \E k \in (openPos+1)..pos : Commit(k) < Commit(k-1)     \* the database shrank since the index was built
HzV2 == opened /\ hzOpen                                                  \* index built from a plan that spans a shrink
HzV3 == opened /\ hzMix                                                   \* level-1 file + newer level-0 file in one poll
HzV4 == opened /\ hzSeed                                                  \* level-1 cursor seeded from pos (no level-1 file in the plan)
Hz == (IF ~FixV1 /\ HzV1 THEN {"V1"} ELSE {}) \cup (IF ~FixV2 /\ HzV2 THEN {"V2"} ELSE {})
      \cup (IF ~FixV3 /\ HzV3 THEN {"V3"} ELSE {}) \cup (IF ~FixV4 /\ HzV4 THEN {"V4"} ELSE {})
\* Kinds of violation, and which known shapes may explain each kind.  The as-is model is checked against the guarded
\* form (every violation of a kind has one of the shapes allowed for that kind); with a repair switched on its shape
\* explains nothing any more, so with all repairs the guards are the plain property.  The judge (VfsObs.tla) and the
\* runner use the same table to tell a known finding from a new violation.
St == S(View)
Missing   == opened /\ \E p \in 1..St.n : index[p] = None                                   \* "page not found"
Stale     == opened /\ \E p \in 1..St.n : index[p] # None /\ ElemVer(index[p], p) # St.pg[p]  \* wrong page version
SizeBig   == opened /\ ~lock /\ SetMax({p \in Pages : index[p] # None}) > S(pos).n
SizeSmall == opened /\ ~lock /\ SetMax({p \in Pages : index[p] # None}) < S(pos).n
Unavail   == ~Available
GMissing   == Missing   => Hz \cap {"V1", "V3"} # {}
GStale     == Stale     => Hz \cap {"V3"} # {}
GSizeBig   == SizeBig   => Hz \cap {"V2", "V3"} # {}
GSizeSmall == SizeSmall => Hz \cap {"V1", "V3"} # {}
GAvail     == Unavail   => Hz \cap {"V4"} # {}
GStall     == pollErr   => Hz \cap {"V4"} # {}
=============================================================================

SPECIFICATION Spec
CONSTANTS MinPgs={1,2,3,4,5} TruncPgs={1,2,3,4,5,6,7,9} Intervals={"off","elapsed","notyet"} MaxW=14 MaxIdle=7
CHECK_DEADLOCK FALSE

------------------------------ MODULE Concurrency ------------------------------
(***************************************************************************)
(* Lifecycle + executor semaphore (db.execSem) + checkpoint RW-lock          *)
(* (db.chkMu) + long read transaction (db.rtx) of one DB under concurrent    *)
(* daemon operations (Store.SyncDB, DisableDB, EnableDB, DB.Snapshot).       *)
(* Granularity = the verif hook points (store.*.checked, exec.acquired,      *)
(* sync.chk-rlock, chk.*, close.locked, close.synced, snapshot.pos).         *)
(* FixZ1 = FALSE is the code as it is: newSyncExecutor -> init() re-opens    *)
(* the database whenever db.db == nil, whatever `opened` says (db.go:1934).  *)
(* hz records the shape of known finding Z1 (a sync acquires the executor    *)
(* of a DB that is no longer open) so the as-is check continues past it.     *)
(***************************************************************************)
EXTENDS Integers, FiniteSets, TLC

CONSTANTS FixZ1, Procs,    \* e.g. {"syncdb", "disable", "snap", "enable"}
          FixQ1,           \* FALSE: the read transaction is bound to the context of the call that began it (finding Q1): it dies
                           \* when that call - a request with its own context - returns
          FixR             \* FALSE: DB.Open / DB.init rewrite shared fields (compactor client and flags, page size) unconditionally
                           \* (findings R2, R3); TRUE: a field is only written when its value changed (never, in these histories)

VARIABLES
  pc,          \* per process program counter
  execSem,     \* "free" or the holder
  chkR, chkW,  \* readers of chkMu, writer (checkpoint) present
  opened, inited, rtx,
  streaming,   \* a snapshot stream goroutine holds chkMu.RLock
  done,        \* processes that finished
  hz,          \* history: shapes of known findings seen
  rtxBy,       \* the process whose context the read transaction was begun with ("boot" = the daemon's own context)
  inComp,      \* the store's compaction / retention monitor is inside the compactor (reads compactor.client and its flags)
  raced        \* ghost: a shared field was written while another goroutine was reading it (data race)
vars == <<pc, execSem, chkR, chkW, opened, inited, rtx, streaming, done, hz, rtxBy, inComp, raced>>

Init == /\ pc = [p \in Procs |-> "start"]
        /\ execSem = "free" /\ chkR = 0 /\ chkW = FALSE
        /\ opened = TRUE /\ inited = TRUE /\ rtx = TRUE       \* a running, initialised DB
        /\ streaming = FALSE /\ done = {} /\ hz = {} /\ rtxBy = "boot" /\ inComp = FALSE /\ raced = FALSE

Goto(p, l) == pc' = [pc EXCEPT ![p] = l]
Finish(p) == pc' = [pc EXCEPT ![p] = "end"] /\ done' = done \cup {p}

\* ---------------- Store.SyncDB / DB.Sync / DB.Checkpoint : check IsOpen, then sync
SyncCheck(p) == /\ pc[p] = "start" /\ p \in {"syncdb", "syncdb2"}
                /\ IF opened THEN Goto(p, "s_lock") /\ UNCHANGED done ELSE Finish(p)     \* ErrDatabaseNotOpen
                /\ UNCHANGED <<execSem, chkR, chkW, opened, inited, rtx, streaming>>
SyncLock(p) == /\ pc[p] = "s_lock" /\ execSem = "free"
               /\ execSem' = p /\ Goto(p, "s_init")
               /\ UNCHANGED <<chkR, chkW, opened, inited, rtx, streaming, done>>
\* newSyncExecutor -> init(): (re)opens the database whenever db.db == nil, regardless of `opened`
SyncInit(p) == /\ pc[p] = "s_init"
               /\ IF FixZ1 /\ ~opened
                    THEN Goto(p, "s_unlock") /\ UNCHANGED <<inited, rtx>>     \* refuse to re-initialise a closed DB
                    ELSE inited' = TRUE /\ rtx' = TRUE /\ Goto(p, "s_copy")
               /\ rtxBy' = IF (FixZ1 /\ ~opened) \/ rtx THEN rtxBy ELSE p       \* acquireReadLock is a no-op while a transaction is held
               \* a (re-)initialisation scans the page size into db.pageSize, which a streaming snapshot reads (writeLTXFromDB)
               /\ raced' = (raced \/ (~FixR /\ ~inited /\ ~(FixZ1 /\ ~opened) /\ streaming))
               /\ UNCHANGED <<execSem, chkR, chkW, opened, streaming, done>>
SyncCopyBegin(p) == /\ pc[p] = "s_copy" /\ ~chkW
                    /\ chkR' = chkR + 1 /\ Goto(p, "s_copy2")
                    /\ UNCHANGED <<execSem, chkW, opened, inited, rtx, streaming, done>>
SyncCopyEnd(p) == /\ pc[p] = "s_copy2"
                  /\ chkR' = chkR - 1 /\ Goto(p, "s_chk")
                  /\ UNCHANGED <<execSem, chkW, opened, inited, rtx, streaming, done>>
\* checkpointIfNeeded: TryLock chkMu; skipped while a snapshot streams
SyncChk(p) == /\ pc[p] = "s_chk"
              /\ \/ /\ chkR = 0 /\ ~chkW /\ chkW' = TRUE /\ Goto(p, "s_chk_rel") /\ UNCHANGED rtx
                 \/ /\ Goto(p, "s_unlock") /\ UNCHANGED <<chkW, rtx>>                       \* no checkpoint needed / TryLock failed
              /\ UNCHANGED <<execSem, chkR, opened, inited, streaming, done>>
SyncChkRelease(p) == /\ pc[p] = "s_chk_rel" /\ rtx' = FALSE /\ Goto(p, "s_chk_reacq")
                     /\ UNCHANGED <<execSem, chkR, chkW, opened, inited, streaming, done>>
SyncChkReacq(p) == /\ pc[p] = "s_chk_reacq" /\ rtx' = TRUE /\ chkW' = FALSE /\ Goto(p, "s_unlock") /\ rtxBy' = p
                   /\ UNCHANGED <<execSem, chkR, opened, inited, streaming, done>>
\* the request returns and its context is cancelled: database/sql rolls back a transaction begun with it
SyncUnlock(p) == /\ pc[p] = "s_unlock" /\ execSem' = "free" /\ Finish(p)
                 /\ rtx' = IF ~FixQ1 /\ rtxBy = p THEN FALSE ELSE rtx
                 /\ UNCHANGED <<chkR, chkW, opened, inited, streaming, rtxBy>>

\* ---------------- Store.DisableDB : check IsOpen, then DB.Close
CloseCheck(p) == /\ pc[p] = "start" /\ p = "disable"
                 /\ IF opened THEN Goto(p, "c_lock") /\ UNCHANGED done ELSE Finish(p)
                 /\ UNCHANGED <<execSem, chkR, chkW, opened, inited, rtx, streaming>>
CloseLock(p) == /\ pc[p] = "c_lock" /\ execSem = "free"
                /\ execSem' = p /\ Goto(p, "c_sync")
                /\ UNCHANGED <<chkR, chkW, opened, inited, rtx, streaming, done>>
\* final sync takes chkMu.RLock like any sync; then read lock released and handles dropped
CloseSync(p) == /\ pc[p] = "c_sync" /\ ~chkW
                /\ Goto(p, "c_release")
                /\ UNCHANGED <<execSem, chkR, chkW, opened, inited, rtx, streaming, done>>
CloseRelease(p) == /\ pc[p] = "c_release"
                   /\ rtx' = FALSE /\ inited' = FALSE /\ opened' = FALSE
                   /\ Goto(p, "c_unlock")
                   /\ UNCHANGED <<execSem, chkR, chkW, streaming, done>>
CloseUnlock(p) == /\ pc[p] = "c_unlock" /\ execSem' = "free" /\ Finish(p)
                  /\ UNCHANGED <<chkR, chkW, opened, inited, rtx, streaming>>

\* ---------------- Store.EnableDB : check !IsOpen, then DB.Open (no executor lock; init happens at the next sync)
EnableCheck(p) == /\ pc[p] = "start" /\ p = "enable"
                  /\ IF ~opened THEN Goto(p, "e_open") /\ UNCHANGED done ELSE Finish(p)
                  /\ UNCHANGED <<execSem, chkR, chkW, opened, inited, rtx, streaming>>
\* DB.Open sets the compactor's client and flags (db.go Open): a write next to a monitor that is inside the compactor is a data race
EnableOpen(p) == /\ pc[p] = "e_open" /\ opened' = TRUE /\ Finish(p)
                 /\ raced' = (raced \/ (~FixR /\ inComp))
                 /\ UNCHANGED <<execSem, chkR, chkW, inited, rtx, streaming>>

\* ---------------- DB.Snapshot : position + RLock under execSem, stream after releasing it
SnapLock(p) == /\ pc[p] = "start" /\ p = "snap" /\ execSem = "free"
               /\ execSem' = p /\ Goto(p, "n_pos")
               /\ UNCHANGED <<chkR, chkW, opened, inited, rtx, streaming, done>>
SnapPos(p) == /\ pc[p] = "n_pos" /\ ~chkW
              /\ chkR' = chkR + 1 /\ streaming' = TRUE /\ execSem' = "free" /\ Goto(p, "n_stream")
              /\ UNCHANGED <<chkW, opened, inited, rtx, done>>
SnapDone(p) == /\ pc[p] = "n_stream"
               /\ chkR' = chkR - 1 /\ streaming' = FALSE /\ Finish(p)
               /\ UNCHANGED <<execSem, chkW, opened, inited, rtx>>

\* ---------------- Store.monitorCompactionLevel : skip a DB that is not open, else work inside the compactor (no DB lock held)
CompCheck(p) == /\ pc[p] = "start" /\ p = "compact"
                /\ IF opened THEN Goto(p, "k_in") /\ inComp' = TRUE /\ UNCHANGED done ELSE Finish(p) /\ UNCHANGED inComp
                /\ UNCHANGED <<execSem, chkR, chkW, opened, inited, rtx, streaming>>
CompDone(p) == /\ pc[p] = "k_in" /\ inComp' = FALSE /\ Finish(p)
               /\ UNCHANGED <<execSem, chkR, chkW, opened, inited, rtx, streaming>>

Step0(p) == \/ CompCheck(p) \/ CompDone(p)
           \/ SyncCheck(p) \/ SyncLock(p) \/ SyncInit(p) \/ SyncCopyBegin(p) \/ SyncCopyEnd(p)
           \/ SyncChk(p) \/ SyncChkRelease(p) \/ SyncChkReacq(p) \/ SyncUnlock(p)
           \/ CloseCheck(p) \/ CloseLock(p) \/ CloseSync(p) \/ CloseRelease(p) \/ CloseUnlock(p)
           \/ EnableCheck(p) \/ EnableOpen(p)
           \/ SnapLock(p) \/ SnapPos(p) \/ SnapDone(p)
Step(p) == /\ Step0(p) /\ hz' = hz \cup (IF pc[p] = "s_lock" /\ ~opened THEN {"Z1"} ELSE {})
           /\ (pc[p] \in {"s_init", "s_chk_reacq", "s_unlock"} \/ UNCHANGED rtxBy)
           /\ (p = "compact" \/ UNCHANGED inComp)
           /\ (pc[p] \in {"s_init", "e_open"} \/ UNCHANGED raced)
Next == (\E p \in Procs : Step(p)) \/ (done = Procs /\ UNCHANGED vars)
Spec == Init /\ [][Next]_vars

AllDone == done = Procs
LocksFree == AllDone => execSem = "free" /\ chkR = 0 /\ ~chkW
\* the property clause: a closed (disabled) DB holds no read lock and no handles
NoLeakAfterClose == (AllDone /\ ~opened) => (~rtx /\ ~inited)
NoDeadlock == ~AllDone => ENABLED (\E p \in Procs : Step(p))
NoLeakAfterCloseK == NoLeakAfterClose \/ hz # {}
\* with no call in flight an open, initialised DB holds its read transaction (what keeps other connections from restarting the WAL)
ReadLockWhileOpen == (AllDone /\ opened /\ inited) => rtx
\* the data-race clause at design level (decided on the real code by the Go race detector): no shared field is written while read
NoDataRace == ~raced
=============================================================================
SPECIFICATION Spec
CONSTANTS MaxTx=5 MaxId=7 Variant="zeroOnly"
INVARIANTS OneChain AckMeansStored
CHECK_DEADLOCK FALSE

SPECIFICATION Spec
CONSTANTS
  MaxTx = 2
  Size = 2
  MaxCrash = 1
  KillOn = FALSE
  PowerOn = TRUE
  WritebackOn = TRUE
  MetaLossOn = TRUE
  NoTmp = {}
  NoFsync = {}
  NoDirSync = {}
INVARIANTS TypeOK NoPartialFinalName AckedRestorable DurableNoPartialFinalName R3_SupersededBeforeUnlink R2_DirFlushedBeforeOk
CHECK_DEADLOCK FALSE

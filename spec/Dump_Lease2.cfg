SPECIFICATION Spec
CONSTANTS
  Clients = {"a", "b"}
  TTL = 1
  MaxNow = 2
  MaxOps = 2
  MaxTag = 4
INVARIANTS Mutex
VIEW view
CHECK_DEADLOCK FALSE

SPECIFICATION SpecF
CONSTANTS NSync=4 MaxClock=2 RetentionEnabled=TRUE Fine=FALSE Variant="m_gap" Fixes={}
INVARIANTS NeverAhead NoSkip SidecarAfterApply Converges NoStallH ResumeAcceptedH ResumeAfterKillH
CHECK_DEADLOCK FALSE

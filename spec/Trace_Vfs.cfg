SPECIFICATION TSpec
CONSTANTS
  MaxPg = 64
  MaxTx = 999
  MaxL1 = 999
  FixV1 = FALSE
  FixV2 = FALSE
  FixV3 = FALSE
  FixV4 = FALSE
  WithLock = TRUE
  WithRet = TRUE
  WithSnap = TRUE
  WithTT = TRUE
CHECK_DEADLOCK TRUE

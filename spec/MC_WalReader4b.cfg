SPECIFICATION Spec
CONSTANTS
  MaxFrames = 4
  NPages = 3
  PgMin = 1
  BothBad = TRUE
  MaxBad = 4
  NParts = 48
  Part = 0
INVARIANTS OneShotIsRecovered CommitExact NothingFromInvalid NoPageAboveCommit ChunksCompose GrowthComposes HazardIsReal
CHECK_DEADLOCK FALSE

SPECIFICATION Spec
CONSTANTS
  MaxFrames = 5
  NPages = 3
  PgMin = 1
  BothBad = TRUE
  MaxBad = 1
  NParts = 48
  Part = 0
INVARIANTS OneShotIsRecovered CommitExact NothingFromInvalid NoPageAboveCommit ChunksCompose GrowthComposes HazardIsReal
CHECK_DEADLOCK FALSE

SPECIFICATION Spec
INVARIANTS Report
CHECK_DEADLOCK FALSE

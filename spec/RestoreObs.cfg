SPECIFICATION Spec
INVARIANTS NoPanic NoSilentWrong MustFail NoFileAfterError PreexistingUntouched NoOutputBeforeComplete ResumeExact
CHECK_DEADLOCK FALSE

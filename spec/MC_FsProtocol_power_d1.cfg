SPECIFICATION Spec
CONSTANTS
  MaxTx = 2
  Size = 1
  MaxCrash = 1
  KillOn = FALSE
  PowerOn = TRUE
  WritebackOn = TRUE
  MetaLossOn = TRUE
  NoTmp = {}
  NoFsync = {}
  NoDirSync = {"baseline"}
INVARIANTS R2_DirFlushedBeforeOk
CHECK_DEADLOCK FALSE

SPECIFICATION Spec
INVARIANTS InvNoSnapshotIsError InvGapIsError InvGapIsError_U1 InvRightState InvArbitrationClear InvBind_Format InvBind_Plan InvNote_ArbitrationNewestFile InvNote_HiddenMidLoss
CHECK_DEADLOCK FALSE

SPECIFICATION Spec
CONSTANTS
  MaxFrames = 3
  NPages = 2
  PgMin = 0
  BothBad = TRUE
  MaxBad = 3
  NParts = 1
  Part = 0
INVARIANTS OneShotIsRecovered CommitExact NothingFromInvalid NoPageAboveCommit ChunksCompose GrowthComposes HazardIsReal
CHECK_DEADLOCK FALSE

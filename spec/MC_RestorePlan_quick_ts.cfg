\* C08/C15 quick, timestamp requests T in 1..3: TXIDs 1..3, <= 3 files, file timestamps 1..2.
\* The runner rewrites `Part = 0` for every shard 0..Parts-1 (one TLC process each; Fanout: several workers per process).
SPECIFICATION Spec
CONSTANTS
  N = 3
  Levels = {0, 1, 2, 9}
  MaxFiles = 3
  MaxTs = 2
  Part = 0
  Parts = 1
  Fanout = TRUE
  TsOnly = TRUE
INVARIANTS Sound CompleteTx CompleteLatest GapReported FurthestLatest TsExcluded TsFurthest TsMonotone ErrKinds
CHECK_DEADLOCK FALSE

------------------------------ MODULE Restore ------------------------------
(***************************************************************************)
(* C10 - Restore fails loudly rather than produce a wrong or partial       *)
(* database.  Two state machines, selected by Part:                        *)
(*                                                                         *)
(*  "reader"  internal/resumable_reader.go:74 Read, transcribed branch by  *)
(*            branch (offset, retryN, rc, err) against an environment that *)
(*            fails the stream (error / premature EOF, with or without a   *)
(*            last chunk of data) or the re-open, any number of times up   *)
(*            to MaxFaults > MaxRetries.  A file is the sequence 1..B.     *)
(*  "proto"   replica.go:611-802 Restore as a sequence of file-system      *)
(*            actions (exists-check, size check, create .tmp, stream the   *)
(*            plan files through the compactor, close = verify integrity   *)
(*            tags, fsync, rename, fsync dir, integrity check -> remove)   *)
(*            for every single corruption class of one plan file.  The     *)
(*            reader enters only through its contract (Outcome below):     *)
(*            a file read either fails or delivers the stored bytes.       *)
(*                                                                         *)
(* Variants other than "asis" are the negative controls (seeded mutants of *)
(* the code, expressed in the model): every one must violate an invariant. *)
(***************************************************************************)
EXTENDS Integers, Sequences, FiniteSets, TLC

CONSTANTS
  Part,           \* "reader" | "proto"
  B,              \* reader: number of blocks of the file
  MaxRetries,     \* resumableReaderMaxRetries = 3                       (resumable_reader.go:67)
  MaxFaults,      \* faults the environment may inject (budget + 2)
  AllowMissing,   \* reader: the re-open may answer os.ErrNotExist
  ReaderVariant,  \* "asis" | "noadvance" | "resume0"
  F,              \* proto: number of plan files
  PB,             \* proto: page blocks per plan file
  ProtoVariant,   \* "asis" | "nocheck" | "keepbad" | "direct" | "sentinel" (output removed only when the PRAGMA answered rows)
  X1Fixed,        \* proto: FALSE = ltx.Decoder.Close slices [:len-8] without a length check (finding X1)
  Collisions      \* proto: a flipped block whose integrity tag still matches is possible

VARIABLES
  \* ---- reader
  pc,        \* "loop" (inside Read / between two Read calls) | "done"
  offset,    \* r.offset
  retryN,    \* r.retryN
  rc,        \* 0 = nil, 1 = open stream
  rcPos,     \* position of the open stream in the file (blocks already handed out by the storage)
  rerr,      \* r.err (sticky): "none" | "max"
  delivered, \* blocks handed to the caller, in order
  faults,    \* faults injected so far
  result,    \* what the caller finally saw: "none" | "eof" | "error" (retries exhausted) | "notexist"
  backoff,   \* total back-off slept, in units of resumableReaderBackoff (250 ms)
  openOK,    \* history: every (re)open asked for exactly the first byte not yet delivered
  \* ---- proto
  ppc, out, tmp, tmpSynced, dirSynced, pre, cls, integ, sqliteSees, pres, nextF, content, renamedSynced

rvars == <<pc, offset, retryN, rc, rcPos, rerr, delivered, faults, result, backoff, openOK>>
pvars == <<ppc, out, tmp, tmpSynced, dirSynced, pre, cls, integ, sqliteSees, pres, nextF, content, renamedSynced>>
vars  == <<rvars, pvars>>

Pow2(n) == IF n = 0 THEN 1 ELSE IF n = 1 THEN 2 ELSE IF n = 2 THEN 4 ELSE IF n = 3 THEN 8 ELSE 16

-----------------------------------------------------------------------------
(* reader *)

RInit ==
  /\ pc = "loop" /\ offset = 0 /\ retryN = 0 /\ rc = 0 /\ rcPos = 0 /\ rerr = "none"
  /\ delivered = <<>> /\ faults = 0 /\ result = "none" /\ backoff = 0 /\ openOK = TRUE

\* retry(): resumable_reader.go:162-180.  `cont` is what the caller of retry does when retry returns nil.
Retry ==
  /\ retryN' = retryN + 1
  /\ IF retryN + 1 > MaxRetries
       THEN /\ rerr' = "max" /\ pc' = "done" /\ result' = "error" /\ backoff' = backoff
       ELSE /\ rerr' = rerr /\ pc' = "loop" /\ result' = result
            /\ backoff' = backoff + Pow2(retryN)          \* resumableReaderBackoff << (retryN-1)

OpenOffset == IF ReaderVariant = "resume0" /\ retryN > 0 THEN 0 ELSE offset

\* :82-97  r.rc == nil  ->  client.OpenLTXFile(ctx, level, min, max, r.offset, 0)
OpenOK_ ==
  /\ pc = "loop" /\ rc = 0
  /\ rc' = 1 /\ rcPos' = OpenOffset
  /\ openOK' = (openOK /\ OpenOffset = Len(delivered))
  /\ UNCHANGED <<pc, offset, retryN, rerr, delivered, faults, result, backoff>>

\* :88  transient failure of the re-open: retry(), then `continue`
OpenFail_ ==
  /\ pc = "loop" /\ rc = 0 /\ faults < MaxFaults
  /\ faults' = faults + 1
  /\ Retry
  /\ UNCHANGED <<offset, rc, rcPos, delivered, openOK>>

\* :85-87  os.ErrNotExist (or a cancelled context): no retry, the error is returned
OpenNotExist_ ==
  /\ AllowMissing /\ pc = "loop" /\ rc = 0
  /\ pc' = "done" /\ result' = "notexist"
  /\ UNCHANGED <<offset, retryN, rc, rcPos, rerr, delivered, faults, backoff, openOK>>

\* :99-143  n, err := r.rc.Read(p); r.offset += n; ...
\* e = "nil": n = 1.  e = "eof": legitimate iff the stream really is at the end of the file, else a fault.
\* e = "err": always a fault.  n = blocks that come with it.
ReadResult(n, e) ==
  LET off2 == IF ReaderVariant = "noadvance" /\ e # "nil" THEN offset ELSE offset + n
      del2 == delivered \o [i \in 1..n |-> rcPos + i]
      isFault == e = "err" \/ (e = "eof" /\ rcPos + n < B)
  IN
  /\ pc = "loop" /\ rc = 1
  /\ rcPos + n <= B
  /\ (e = "nil") => (n = 1)
  /\ isFault => faults < MaxFaults
  /\ faults' = IF isFault THEN faults + 1 ELSE faults
  /\ offset' = off2 /\ delivered' = del2
  /\ openOK' = openOK
  /\ IF e = "nil"
       THEN /\ rcPos' = rcPos + n
            /\ UNCHANGED <<pc, retryN, rc, rerr, result, backoff>>                 \* :102 return n, nil
       ELSE IF e = "eof" /\ ~(off2 < B)
       THEN /\ pc' = "done" /\ result' = "eof"                                    \* :126 return n, io.EOF
            /\ UNCHANGED <<retryN, rc, rcPos, rerr, backoff>>
       ELSE /\ rc' = 0 /\ rcPos' = 0                                              \* :114 / :134 close, rc = nil
            /\ Retry                                                               \* :116 / :136

\* the actions proper (one named operator per action: TLC labels the edges of the dumped state graph with them)
OpenOK       == OpenOK_ /\ UNCHANGED pvars
OpenFail     == OpenFail_ /\ UNCHANGED pvars
OpenNotExist == OpenNotExist_ /\ UNCHANGED pvars
ReadData     == ReadResult(1, "nil") /\ UNCHANGED pvars
ReadEOF(n)   == ReadResult(n, "eof") /\ UNCHANGED pvars
ReadErr(n)   == ReadResult(n, "err") /\ UNCHANGED pvars

File == [i \in 1..B |-> i]
IsPrefix(s, t) == Len(s) <= Len(t) /\ \A i \in 1..Len(s) : s[i] = t[i]

\* `delivered` is always a prefix of the file: no duplicate, no skipped byte on resume
R_Prefix == IsPrefix(delivered, File)
R_OffsetIsDelivered == offset = Len(delivered)
R_StreamAtOffset == (pc = "loop" /\ rc = 1) => rcPos = offset
R_ResumeExact == openOK
\* the caller sees an error or the whole file
R_Outcome == pc = "done" => (result \in {"error", "notexist"} \/ delivered = File)
\* (binding) an error only beyond the retry budget or for a missing file; back-off law 250 ms * (2^k - 1)
R_ErrorOnlyBeyondBudget == (pc = "done" /\ result = "error") => faults > MaxRetries
R_BackoffLaw == backoff = Pow2(IF retryN > MaxRetries THEN MaxRetries ELSE retryN) - 1
R_RetryBound == retryN <= MaxRetries + 1

-----------------------------------------------------------------------------
(* restore output protocol *)

\* block ids of a plan file: 0 = header (100 bytes), 1..PB = page frames, PB+1 = the first 8 bytes after the page
\* block, PB+2 = rest of the page index and the trailer.
Blocks == 0..(PB + 2)
NoCls == [f |-> 0, kind |-> "intact", b |-> 0, tag |-> FALSE]
Classes ==
  {NoCls}
  \cup {[f |-> f, kind |-> "missing", b |-> 0, tag |-> FALSE] : f \in 1..F}
  \cup {[f |-> f, kind |-> "trunc", b |-> b, tag |-> FALSE] : f \in 1..F, b \in Blocks}
  \cup {[f |-> f, kind |-> "flip", b |-> b, tag |-> t] : f \in 1..F, b \in Blocks, t \in (IF Collisions THEN BOOLEAN ELSE {FALSE})}

PInit ==
  /\ ppc = "check" /\ tmp = "absent" /\ tmpSynced = FALSE /\ dirSynced = FALSE
  /\ pre \in BOOLEAN /\ out = (IF pre THEN "pre" ELSE "absent")
  /\ cls \in Classes /\ integ \in {"none", "check"} /\ sqliteSees \in {"no", "rows", "fails"}
  /\ pres = "none" /\ nextF = 1 /\ content = "good" /\ renamedSynced = TRUE

\* every `return err` after :733 runs the deferred os.Remove(tmpOutputPath)
Fail ==
  /\ ppc' = "done" /\ pres' = "error"
  /\ tmp' = IF ProtoVariant = "direct" THEN tmp ELSE "absent"

\* :669 output path must not exist
CheckExists_ ==
  /\ ppc = "check"
  /\ IF out # "absent" /\ ProtoVariant # "nocheck"
       THEN /\ ppc' = "done" /\ pres' = "error" /\ UNCHANGED tmp
       ELSE /\ ppc' = "plan" /\ UNCHANGED <<pres, tmp>>
  /\ UNCHANGED <<out, tmpSynced, dirSynced, pre, cls, integ, sqliteSees, nextF, content, renamedSynced>>

\* :689-719 plan + size sanity check (info.Size < ltx.HeaderSize)
Plan_ ==
  /\ ppc = "plan"
  /\ IF cls.kind = "trunc" /\ cls.b = 0
       THEN /\ ppc' = "done" /\ pres' = "error"
       ELSE /\ ppc' = "create" /\ UNCHANGED pres
  /\ UNCHANGED <<out, tmp, tmpSynced, dirSynced, pre, cls, integ, sqliteSees, nextF, content, renamedSynced>>

\* :731-739 os.Create(output + ".tmp")
CreateTmp_ ==
  /\ ppc = "create"
  /\ IF ProtoVariant = "direct"
       THEN /\ out' = "partial" /\ UNCHANGED tmp
       ELSE /\ tmp' = "partial" /\ UNCHANGED out
  /\ ppc' = "stream"
  /\ UNCHANGED <<tmpSynced, dirSynced, pre, cls, integ, sqliteSees, pres, nextF, content, renamedSynced>>

\* :743-756 compactor goroutine + DecodeDatabaseTo: file nextF is read to its end (pages go to the output as
\* they are merged).  rd = outcome of the resumable reader for this file (contract R_Outcome).
StreamFile_(rd) ==
  /\ ppc = "stream" /\ nextF <= F
  /\ LET mine == cls.f = nextF IN
     IF rd = "err" \/ (mine /\ cls.kind = "missing")
       THEN Fail /\ UNCHANGED <<out, nextF, content>>                       \* max retries exceeded / not exist
     ELSE IF mine /\ cls.kind = "trunc" /\ cls.b = PB + 1 /\ ~X1Fixed
       THEN /\ ppc' = "done" /\ pres' = "panic"                            \* X1: process dies, nothing is cleaned up
            /\ UNCHANGED <<out, tmp, nextF, content>>
     ELSE IF mine /\ cls.kind = "trunc"
       THEN Fail /\ UNCHANGED <<out, nextF, content>>                       \* unexpected EOF / short index / trailer
     ELSE IF mine /\ cls.kind = "flip" /\ ~cls.tag
       THEN Fail /\ UNCHANGED <<out, nextF, content>>                       \* header/page validation or ErrChecksumMismatch at Close
     ELSE /\ nextF' = nextF + 1
          /\ content' = IF mine /\ cls.kind = "flip" THEN "bad" ELSE content
          /\ UNCHANGED <<ppc, pres, out, tmp>>
  /\ UNCHANGED <<tmpSynced, dirSynced, pre, cls, integ, sqliteSees, renamedSynced>>

\* all inputs closed (tags verified), encoder closed, decoder done: the temporary file is complete
Complete_ ==
  /\ ppc = "stream" /\ nextF = F + 1
  /\ IF ProtoVariant = "direct" THEN out' = content /\ UNCHANGED tmp ELSE tmp' = content /\ UNCHANGED out
  /\ ppc' = "fsync"
  /\ UNCHANGED <<tmpSynced, dirSynced, pre, cls, integ, sqliteSees, pres, nextF, content, renamedSynced>>

\* :758 f.Sync(); f.Close()
Fsync_ ==
  /\ ppc = "fsync" /\ tmpSynced' = TRUE /\ ppc' = "rename"
  /\ UNCHANGED <<out, tmp, dirSynced, pre, cls, integ, sqliteSees, pres, nextF, content, renamedSynced>>

\* :766 os.Rename(tmp, output)
Rename_ ==
  /\ ppc = "rename"
  /\ IF ProtoVariant = "direct" THEN UNCHANGED <<out, tmp>> ELSE out' = tmp /\ tmp' = "absent"
  /\ renamedSynced' = tmpSynced
  /\ ppc' = "fsyncdir"
  /\ UNCHANGED <<tmpSynced, dirSynced, pre, cls, integ, sqliteSees, pres, nextF, content>>

\* :769 internal.FsyncDir
FsyncDir_ ==
  /\ ppc = "fsyncdir" /\ dirSynced' = TRUE /\ ppc' = "integrity"
  /\ UNCHANGED <<out, tmp, tmpSynced, pre, cls, integ, sqliteSees, pres, nextF, content, renamedSynced>>

\* :773-783 checkIntegrity; on failure remove output, -shm, -wal
Integrity_ ==
  /\ ppc = "integrity"
  /\ IF integ = "check" /\ out = "bad" /\ sqliteSees # "no"
       THEN /\ out' = IF ProtoVariant = "keepbad" \/ (ProtoVariant = "sentinel" /\ sqliteSees = "fails") THEN out ELSE "absent"
            /\ pres' = "error"
       ELSE /\ pres' = "ok" /\ UNCHANGED out
  /\ ppc' = "done"
  /\ UNCHANGED <<tmp, tmpSynced, dirSynced, pre, cls, integ, sqliteSees, nextF, content, renamedSynced>>

Undetectable == cls.kind = "flip" /\ cls.tag /\ (integ = "none" \/ sqliteSees = "no")

\* error  =>  no file at the output path, a pre-existing output untouched, no .tmp left
P_ErrorClean == (ppc = "done" /\ pres = "error") => (out = (IF pre THEN "pre" ELSE "absent") /\ tmp = "absent")
\* success  =>  output = original (unless every integrity tag matched and SQLite sees nothing: no detector exists)
P_OkCorrect == (ppc = "done" /\ pres = "ok") => (out = "good" \/ (Undetectable /\ out = "bad"))
P_OkMeansNoPre == (ppc = "done" /\ pres = "ok") => ~pre
\* never a partial file at the output path, never touch a pre-existing output
P_NoPartial == out # "partial"
P_PreUntouched == pre => out = "pre"
P_NoPanic == pres # "panic"
\* flushed before published (C11 owns this; kept because the protocol is modelled anyway)
P_RenameSynced == renamedSynced
\* (binding) which classes must end in an error
P_DetectableIsError == (ppc = "done" /\ pres = "ok") => (cls.kind \in {"intact"} \/ (cls.kind = "flip" /\ cls.tag))

-----------------------------------------------------------------------------
Init == IF Part = "reader"
          THEN RInit /\ ppc = "off" /\ out = "absent" /\ tmp = "absent" /\ tmpSynced = FALSE /\ dirSynced = FALSE
               /\ pre = FALSE /\ cls = NoCls /\ integ = "none" /\ sqliteSees = "no" /\ pres = "none" /\ nextF = 1
               /\ content = "good" /\ renamedSynced = TRUE
          ELSE PInit /\ pc = "off" /\ offset = 0 /\ retryN = 0 /\ rc = 0 /\ rcPos = 0 /\ rerr = "none"
               /\ delivered = <<>> /\ faults = 0 /\ result = "none" /\ backoff = 0 /\ openOK = TRUE

CheckExists    == CheckExists_ /\ UNCHANGED rvars
Plan           == Plan_ /\ UNCHANGED rvars
CreateTmp      == CreateTmp_ /\ UNCHANGED rvars
StreamFile(rd) == StreamFile_(rd) /\ UNCHANGED rvars
Complete       == Complete_ /\ UNCHANGED rvars
Fsync          == Fsync_ /\ UNCHANGED rvars
Rename         == Rename_ /\ UNCHANGED rvars
FsyncDir       == FsyncDir_ /\ UNCHANGED rvars
Integrity      == Integrity_ /\ UNCHANGED rvars

\* the guards pc = "loop" / ppc # "off" keep the two machines apart
Next ==
  \/ OpenOK \/ OpenFail \/ OpenNotExist \/ ReadData
  \/ \E n \in 0..1 : ReadEOF(n)
  \/ \E n \in 0..1 : ReadErr(n)
  \/ CheckExists \/ Plan \/ CreateTmp
  \/ \E rd \in {"ok", "err"} : StreamFile(rd)
  \/ Complete \/ Fsync \/ Rename \/ FsyncDir \/ Integrity

Spec == Init /\ [][Next]_vars
=============================================================================

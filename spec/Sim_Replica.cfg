SPECIFICATION Spec
CONSTANTS NSync=7 MaxClock=6 RetentionEnabled=TRUE
CHECK_DEADLOCK FALSE

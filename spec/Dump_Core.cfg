SPECIFICATION Spec
CONSTANTS MaxPg=3 InitN=2 MaxVer=2 MaxFrames=3 MaxTx=4 MaxGen=3 MaxDown=1 FixF1=TRUE FixF2=TRUE FixG1=TRUE ReqCtx=TRUE FixQ1=TRUE FixQ2=TRUE FixM2=TRUE
  Modes={"PASSIVE","TRUNCATE"} AppModes={"PASSIVE","TRUNCATE"} AtomicChk=TRUE WithCrash=FALSE
VIEW view
CHECK_DEADLOCK FALSE

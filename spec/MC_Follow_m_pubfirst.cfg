SPECIFICATION SpecF
CONSTANTS NSync=3 MaxClock=1 RetentionEnabled=TRUE Fine=TRUE Variant="m_pubfirst" Fixes={}
INVARIANTS NeverAhead NoSkip SidecarAfterApply Converges NoStallH ResumeAcceptedH ResumeAfterKillH
CHECK_DEADLOCK FALSE

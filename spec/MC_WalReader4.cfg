SPECIFICATION Spec
CONSTANTS
  MaxFrames = 4
  NPages = 3
  PgMin = 1
  BothBad = FALSE
  MaxBad = 2
  NParts = 16
  Part = 0
INVARIANTS OneShotIsRecovered CommitExact NothingFromInvalid NoPageAboveCommit ChunksCompose GrowthComposes HazardIsReal
CHECK_DEADLOCK FALSE

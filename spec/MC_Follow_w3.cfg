SPECIFICATION SpecF
CONSTANTS NSync=3 MaxClock=1 RetentionEnabled=TRUE Fine=TRUE Variant="asis" Fixes={}
INVARIANTS ResumeAfterKill
CHECK_DEADLOCK FALSE

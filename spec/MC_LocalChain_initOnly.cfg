SPECIFICATION Spec
CONSTANTS MaxTx=5 MaxId=7 Variant="initOnly"
INVARIANTS OneChain AckMeansStored AckMeansRestorable SnapshotOnChain
CHECK_DEADLOCK FALSE

---------------------------- MODULE Trace_Follow ----------------------------
(***************************************************************************)
(* C16, binding: every poll and every resume decision OBSERVED from the real *)
(* follower (harness/cmd/followdrv) equals what the transcription in         *)
(* FollowAlg.tla computes from the same replica listing and position. A      *)
(* mismatch is a DIVERGENCE (the model does not describe the code), reported *)
(* by the runner, never a verdict.                                           *)
(***************************************************************************)
EXTENDS FollowAlg, Json

Log == ndJsonDeserialize("follow_trace.ndjson")

VARIABLE l
Init == l = 1
Next == l < Len(Log) /\ l' = l + 1
Spec == Init /\ [][Next]_l

cur == Log[l]
IsSess == cur.kind \in {"sess", "kill"}
F(t) == [lvl |-> t[1], min |-> t[2], max |-> t[3], ts |-> 0]
Files(s) == {F(s[k]) : k \in DOMAIN s}
Tup(fs) == [k \in 1..Len(fs) |-> <<fs[k].lvl, fs[k].min, fs[k].max>>]
Seen(p) == [k \in 1..Len(p.files) |-> <<p.files[k][1], p.files[k][2], p.files[k][3]>>]

\* the files a poll opened = PollFiles on the listing it saw (a prefix of them for the poll that was killed)
PollMatches(p, partial) ==
  LET m == Tup(PollFiles(Files(p.viewFiles), p.side).fs)
      o == Seen(p)
  IN IF p.mixed \/ p.side < 0 \/ \E k \in 1..Len(p.files) : p.files[k][4] = 0 THEN TRUE
     ELSE IF partial THEN Len(o) <= Len(m) /\ \A k \in 1..Len(o) : o[k] = m[k]
     ELSE Len(o) = Len(m) /\ \A k \in 1..Len(o) : o[k] = m[k]
Polls_ == IsSess => \A k \in 1..Len(cur.polls) :
            PollMatches(cur.polls[k], cur.kind = "kill" /\ k = cur.restartPoll)

\* the resume decision = ResumeCheck on the listing the resuming process saw
Resume_ == (IsSess /\ cur.start = "resume" /\ cur.sidePre >= 0 /\ cur.err \in {"none", "ahead", "behind", "nosidecar"}) =>
             LET r == ResumeCheck(Files(cur.startFiles), cur.sidePre) IN
             (IF r = "ok" THEN "none" ELSE r) = cur.err

D(name, ok) == ok \/ PrintT(<<"DIVERGE", name, l, cur.t, cur.i>>)
Polls == D("Polls", Polls_)
Resume == D("Resume", Resume_)
=============================================================================

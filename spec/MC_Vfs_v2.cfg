SPECIFICATION Spec
CONSTANTS
  MaxPg = 3
  MaxTx = 4
  MaxL1 = 2
  FixV1 = TRUE
  FixV2 = FALSE
  FixV3 = TRUE
  FixV4 = TRUE
  WithLock = FALSE
  WithRet = TRUE
  WithSnap = FALSE
  WithTT = FALSE
INVARIANTS C18
CHECK_DEADLOCK FALSE

SPECIFICATION Spec
CONSTANTS NSync=4 MaxFaults=3
INVARIANTS L0Gapless AckStored Restorable
CHECK_DEADLOCK FALSE

SPECIFICATION Spec
INVARIANTS R1_FlushedBeforePublished R2_DirFlushedBeforeOk R3_SupersededBeforeUnlink
CHECK_DEADLOCK FALSE

------------------------------ MODULE DaemonObs ------------------------------
(***************************************************************************)
(* The judge for daemon-mode runs (harness/core/daemon.go): the real Store  *)
(* with every monitor running on short intervals (DB.monitor,               *)
(* Replica.monitor, a compaction monitor per level, the snapshot monitor    *)
(* with snapshot retention and its cascade, the level-0 retention monitor,  *)
(* the validation monitor) next to a live application writer.  Nothing is   *)
(* gated, so only facts that are sound to observe next to running monitors  *)
(* are judged:                                                              *)
(*   app      application-visible content read through the application's    *)
(*            own connection after each of its transactions (the ledger)    *)
(*   remote   listing of the replica directory <<lvl, min, max>>            *)
(*   ack/rest outcome of Store.SyncDB(wait) / of a clean Store.Close, and   *)
(*            the real Replica.Restore run right after it                   *)
(*   audit    after Store.Close returned: Restore(TXID = n) for every n     *)
(*            that ends a file on the replica                               *)
(*   hasRead, handles, execFree, chkFree   after Store.Close                *)
(* Clauses: C01 (acknowledged => restore equals source), C02 (every TXID    *)
(* restores to a committed state, in order), C05 (catches up once storage   *)
(* faults stop), C06 (levels contiguous from the retention floor upwards),  *)
(* C07 (latest restorable, a snapshot remains, level 0 one run), C12 (Close *)
(* returns, nothing leaked), C14 (same application-visible content as the   *)
(* control run of the same history without litestream).  A DaemonStart      *)
(* after a DaemonStop is a restart of the process (new DB object).          *)
(***************************************************************************)
EXTENDS Integers, Sequences, FiniteSets, TLC, Json

Log == ndJsonDeserialize("core_trace.ndjson")

VARIABLES l,        \* current log line
          t0,       \* log line of the current trace's Reset
          snapSeen, \* a level-9 file has been listed in this trace
          maxR,     \* highest replica position listed so far in this trace
          stopped,  \* Store.Close has returned without error in this trace
          flushed,  \* ... and the DB was initialised at that moment, so that Close flushed everything (an acknowledgement)
          hz        \* shapes of known findings (known_findings.json "signature") seen so far in this trace
vars == <<l, t0, snapSeen, maxR, stopped, flushed, hz>>

cur  == Log[l]
IsStep == cur.op # "Reset"
FilesAt(files, lvl) == {files[j] : j \in {k \in 1..Len(files) : files[k][1] = lvl}}
HasSnap(e) == FilesAt(e.remote, 9) # {}

Init == l = 1 /\ t0 = 1 /\ snapSeen = FALSE /\ maxR = 0 /\ stopped = FALSE /\ flushed = FALSE /\ hz = {}
Next ==
  /\ l < Len(Log) /\ l' = l + 1
  /\ LET e == Log[l + 1] IN
     IF e.op = "Reset" THEN t0' = l + 1 /\ snapSeen' = FALSE /\ maxR' = 0 /\ stopped' = FALSE /\ flushed' = FALSE /\ hz' = {}
     ELSE /\ t0' = t0
          \* S2: local level-0 files vanished / were truncated while litestream was running (its position may fall behind the replica)
          /\ hz' = hz \cup (IF e.op = "LocalLoss" /\ e.res = "ok" THEN {"S2"} ELSE {})
          /\ snapSeen' = (snapSeen \/ HasSnap(Log[l]))
          /\ maxR' = IF Log[l].rpos > maxR THEN Log[l].rpos ELSE maxR
          \* (a later DaemonStart = a restart of the process with a new DB object: the flags describe the current down time only)
          /\ stopped' = IF e.op = "DaemonStart" /\ e.res = "ok" THEN FALSE ELSE (stopped \/ (e.op = "DaemonStop" /\ e.res = "ok"))
          /\ flushed' = IF e.op \in {"DaemonStart"} \/ (stopped /\ e.op \notin {"Validate", "AuditNow", "RestoreCheck", "Sleep"})
                           THEN FALSE ELSE (flushed \/ (e.op = "DaemonStop" /\ e.ack))
Spec == Init /\ [][Next]_vars

\* the ledger: every application-visible content the application has committed so far (the application is single-threaded
\* and each of its operations is one transaction, so every state a replicated TXID may hold is one of these)
Ledger == {k \in t0..l : Log[k].app # -1}

(* C01: an acknowledged sync - Store.SyncDB(wait) = nil, or a clean Store.Close - restores to exactly the source *)
\* (a restore racing the retention monitors may fail to open a file that was just deleted; only its content is judged then)
D_AckRestoreEqualsSource_ ==
  (IsStep /\ cur.ack) => /\ (cur.op = "DaemonStop" => cur.rest.ok)
                         /\ (cur.rest.ok => (cur.rest.app = cur.app /\ cur.rest.integ = "ok"))
D_FinalRestoreEqualsSource_ ==
  (IsStep /\ cur.op = "RestoreCheck" /\ flushed) => (cur.rest.ok /\ cur.rest.app = cur.app)

(* C02: every TXID left on the replica restores to one committed state, in commit order *)
Matches(a, from) == {k \in Ledger : k >= from /\ Log[k].app = a.app}
RECURSIVE MonoOK(_, _, _)
MonoOK(au, j, from) ==
  IF j > Len(au) THEN TRUE
  ELSE IF ~au[j].ok THEN MonoOK(au, j + 1, from)     \* below the retention floor: its lower files are gone (legitimate)
  ELSE LET m == Matches(au[j], from) IN
       /\ m # {}
       /\ MonoOK(au, j + 1, CHOOSE k \in m : \A k2 \in m : k <= k2)
D_EveryTxidIsACommittedState_ ==
  (Len(cur.audit) > 0) => /\ MonoOK(cur.audit, 1, t0)
                          /\ cur.audit[Len(cur.audit)].ok                      \* C07: the latest TXID is restorable
\* the replica never goes backwards while the daemon runs
D_ReplicaMonotone_ == IsStep => cur.rpos >= maxR

(* C06 / C07 on the listing once the daemon has stopped *)
L0Of(files) == {files[j][3] : j \in {k \in 1..Len(files) : files[k][1] = 0}}
D_Level0OneRun_ ==
  (IsStep /\ stopped) => /\ \A j \in 1..Len(cur.remote) : cur.remote[j][1] = 0 => cur.remote[j][2] = cur.remote[j][3]
                         /\ LET ids == L0Of(cur.remote) IN ids = {} \/ \A a \in ids : \A b \in a..cur.rpos : b \in ids
\* (claimed, as C06 is, for histories without storage faults.  The daemon's snapshot retention deletes, on every level, the files
\* below the oldest kept snapshot - also files a higher level has not compacted yet - so below that floor a level may have holes
\* by design; contiguity is required from the floor upwards, non-overlap everywhere)
Floor(files) == LET snaps == FilesAt(files, 9) IN IF snaps = {} THEN 0 ELSE CHOOSE m \in {f[3] : f \in snaps} : \A f \in snaps : m <= f[3]
D_LevelsContiguous_ ==
  (IsStep /\ stopped /\ ~cur.cfg.faults) =>
     \A lvl \in 1..8 : LET fs == FilesAt(cur.remote, lvl)  fl == Floor(cur.remote) IN
        /\ \A f \in fs : f[2] <= f[3]
        /\ \A f \in fs : \A g \in fs : (f # g) => (f[3] < g[2] \/ g[3] < f[2])
        /\ \A f \in fs : (f[2] <= fl + 1) \/ (\A g \in fs : g[2] >= f[2]) \/ (\E g \in fs : g[3] + 1 = f[2])
D_SnapshotKept_ == (IsStep /\ stopped /\ snapSeen) => HasSnap(cur)

(* C05: once failures stop the replica catches up: the second of two consecutive fault-free acknowledged-sync requests succeeds *)
\* (while the application holds a write transaction open litestream's own writes are refused as busy: not judged)
D_CatchesUp_ ==
  (IsStep /\ cur.cfg.faults /\ ~cur.inTx /\ ~cur.reader /\ l > t0 + 1 /\ cur.op = "SyncWait" /\ Log[l - 1].op = "SyncWait" /\ cur.faultsLeft = 0 /\ Log[l - 1].faultsLeft = 0
          /\ Log[l - 2].faultsLeft = 0 /\ cur.res \notin {"skip", "timeout"} /\ Log[l - 1].res \notin {"skip", "timeout"}) => cur.ack

(* C14: with the daemon running (its syncs, checkpoints, snapshots, compactions, close) the application-visible content is  *)
(* what the same application history yields without litestream (judged while no application operation was refused as busy) *)
D_SameAsControlRun_ == (IsStep /\ cur.ctl # -1) => cur.app = cur.ctl
D_BookkeepingOnly_ == (IsStep /\ cur.lockN # -1) => cur.lockN = 0

(* C12: Close returns and leaves nothing behind *)
D_StopReturns_ == (IsStep /\ cur.op = "DaemonStop") => cur.res # "hang"
D_NoLeakAfterStop_ == (IsStep /\ stopped) => (~cur.hasRead /\ ~cur.handles /\ cur.execFree /\ cur.chkFree)
D_SourceNotPinned_ == (IsStep /\ stopped /\ cur.op = "AppCheckpoint" /\ cur.arg = "TRUNCATE") => cur.res # "busy"
D_NoPanic_ == cur.op # "Panic"

V(name, ok) == ok \/ (/\ PrintT(<<"VERDICT", name, l, cur.t, cur.i>>)
                      /\ \A h \in hz : PrintT(<<"HAZARD", h, l, cur.t, cur.i>>))
D_AckRestoreEqualsSource == V("D_AckRestoreEqualsSource", D_AckRestoreEqualsSource_)
D_FinalRestoreEqualsSource == V("D_FinalRestoreEqualsSource", D_FinalRestoreEqualsSource_)
D_EveryTxidIsACommittedState == V("D_EveryTxidIsACommittedState", D_EveryTxidIsACommittedState_)
D_ReplicaMonotone == V("D_ReplicaMonotone", D_ReplicaMonotone_)
D_Level0OneRun == V("D_Level0OneRun", D_Level0OneRun_)
D_LevelsContiguous == V("D_LevelsContiguous", D_LevelsContiguous_)
D_SnapshotKept == V("D_SnapshotKept", D_SnapshotKept_)
D_CatchesUp == V("D_CatchesUp", D_CatchesUp_)
D_SameAsControlRun == V("D_SameAsControlRun", D_SameAsControlRun_)
D_BookkeepingOnly == V("D_BookkeepingOnly", D_BookkeepingOnly_)
D_StopReturns == V("D_StopReturns", D_StopReturns_)
D_NoLeakAfterStop == V("D_NoLeakAfterStop", D_NoLeakAfterStop_)
D_SourceNotPinned == V("D_SourceNotPinned", D_SourceNotPinned_)
D_NoPanic == V("D_NoPanic", D_NoPanic_)
====

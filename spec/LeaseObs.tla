------------------------------ MODULE LeaseObs ------------------------------
(***************************************************************************)
(* The judge for C20: the property, evaluated on states OBSERVED from the   *)
(* real s3.Leaser (harness/cmd/lease).  Nothing of Lease.tla's transition   *)
(* relation is assumed here: every variable is read from the recorded       *)
(* trace, so a verdict is a statement about what the code did.              *)
(* Log lines: [t, i, ev, c, req, cond, res, now, obj, held, expOK];         *)
(* ev = "Reset" starts a new trace (fresh store, fresh clients).            *)
(***************************************************************************)
EXTENDS Integers, Sequences, FiniteSets, TLC, Json

Log == ndJsonDeserialize("lease_trace.ndjson")

VARIABLE l
Init == l = 1
Next == l < Len(Log) /\ l' = l + 1
Spec == Init /\ [][Next]_l

cur  == Log[l]
prev == Log[l - 1]
Cl   == DOMAIN cur.held
IsStep == cur.ev # "Reset"

Valid(e, c) == e.held[c].has /\ e.now <= e.held[c].exp

\* two instances never both hold an unexpired lease
Mutex_ == \A a \in Cl : \A b \in Cl : (Valid(cur, a) /\ Valid(cur, b)) => a = b

\* the expiry the real code put into the lease it handed out is (time of the call) + TTL
ExpiryIsNowPlusTTL_ == cur.expOK

\* a second acquire succeeds only after the current lease has expired or been released
AcquireOnlyAfterExpiry_ ==
  (IsStep /\ cur.ev = "AcqPut" /\ cur.res = "ok" /\ prev.obj.exists) => prev.now > prev.obj.exp

\* the lease generation strictly increases from one owner to the next; a renewal keeps it
GenIncreases_ ==
  /\ (IsStep /\ cur.ev = "AcqPut" /\ cur.res = "ok" /\ prev.obj.exists)
        => (cur.obj.gen = prev.obj.gen + 1 /\ cur.held[cur.c].gen = cur.obj.gen)
  /\ (IsStep /\ prev.obj.exists /\ cur.obj.exists /\ cur.obj.owner # prev.obj.owner)
        => cur.obj.gen > prev.obj.gen
  /\ (IsStep /\ cur.ev = "RenewPut" /\ cur.res = "ok") => cur.obj.gen = prev.obj.gen

\* an instance whose lease was taken over (or released) can no longer renew or release it
StaleCannot_ ==
  (IsStep /\ cur.ev \in {"RenewPut", "Release"} /\ prev.held[cur.c].has
      /\ (~prev.obj.exists \/ prev.obj.tag # prev.held[cur.c].tag))
    => (cur.res # "ok" /\ cur.obj = prev.obj)

\* a successful call hands out exactly the stored record
HandedOutIsStored_ ==
  (IsStep /\ cur.ev \in {"AcqPut", "RenewPut"} /\ cur.res = "ok")
    => (cur.held[cur.c].has /\ cur.held[cur.c].tag = cur.obj.tag /\ cur.obj.owner = cur.c
        /\ cur.held[cur.c].gen = cur.obj.gen)

\* a refused acquire changes nothing
RefusedAcquireChangesNothing_ ==
  (IsStep /\ cur.ev \in {"AcqDecide", "AcqPut"} /\ cur.res = "exists") => cur.obj = prev.obj
-----------------------------------------------------------------------------
\* A false invariant is reported as a VERDICT line (name, log line, trace, step) and evaluation continues, so one
\* TLC run judges every trace of the batch.
V(name, ok) == ok \/ PrintT(<<"VERDICT", name, l, cur.t, cur.i>>)
Mutex == V("Mutex", Mutex_)
ExpiryIsNowPlusTTL == V("ExpiryIsNowPlusTTL", ExpiryIsNowPlusTTL_)
AcquireOnlyAfterExpiry == V("AcquireOnlyAfterExpiry", AcquireOnlyAfterExpiry_)
GenIncreases == V("GenIncreases", GenIncreases_)
StaleCannot == V("StaleCannot", StaleCannot_)
HandedOutIsStored == V("HandedOutIsStored", HandedOutIsStored_)
RefusedAcquireChangesNothing == V("RefusedAcquireChangesNothing", RefusedAcquireChangesNothing_)
====

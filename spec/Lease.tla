------------------------------ MODULE Lease ------------------------------
(***************************************************************************)
(* s3/leaser.go at the granularity of single conditional storage requests. *)
(*                                                                         *)
(* One client = one litestream instance using s3.Leaser against one        *)
(* lock.json object.  Every storage request (GetObject, conditional        *)
(* PutObject, conditional DeleteObject) is a separate action, and so is    *)
(* every reading of the wall clock (the expiry test and the computation of *)
(* ExpiresAt happen *before* the put lands: s3/leaser.go:96,108-114,       *)
(* 146-150), so that time may pass (Tick) between any two of them.         *)
(*                                                                         *)
(* Code sites:                                                             *)
(*   AcqRead    readLease  -> GetObject            (s3/leaser.go:91,202)   *)
(*   AcqDecide  IsExpired / generation+1 / ExpiresAt = now+TTL (96-114)    *)
(*   AcqPut     writeLease -> PutObject If-None-Match:* | If-Match:etag    *)
(*   RenewBegin ExpiresAt = now+TTL                (146-150)               *)
(*   RenewPut   PutObject If-Match:lease.ETag      (152)                   *)
(*   Release    DeleteObject If-Match:lease.ETag   (180)                   *)
(***************************************************************************)
EXTENDS Integers, FiniteSets, TLC
CONSTANTS Clients, TTL, MaxNow, MaxOps, MaxTag

NoTag == 0
VARIABLES obj,      \* the stored record: [exists, gen, exp, owner, tag]   (tag = ETag identity)
          now,      \* global clock
          nextTag,  \* fresh ETag per successful write
          pc,       \* per client: "idle" | "acqDecide" | "acqPut" | "renewPut"
          seen,     \* per client: what AcqRead read
          pend,     \* per client: [gen, exp] computed by the decision step, carried by the put
          held,     \* per client: the *Lease it believes it holds: [has, gen, exp, tag]
          ops,      \* per client operation budget (bounds the model only)
          hist,     \* history: successful acquisitions [gen, owner, over, prevGen]
          last      \* result of the last completed call: [c, op, res]   (observation, hidden by VIEW)
vars == <<obj, now, nextTag, pc, seen, pend, held, ops, hist, last>>
view == <<obj, now, nextTag, pc, seen, pend, held, ops, hist>>

NoObj  == [exists |-> FALSE, gen |-> 0, exp |-> 0, owner |-> "none", tag |-> NoTag]
NoHeld == [has |-> FALSE, gen |-> 0, exp |-> 0, tag |-> NoTag]
NoPend == [gen |-> 0, exp |-> 0]
NoLast == [c |-> "none", op |-> "none", res |-> "none"]

Init == /\ obj = NoObj /\ now = 0 /\ nextTag = 1
        /\ pc   = [c \in Clients |-> "idle"]
        /\ seen = [c \in Clients |-> NoObj]
        /\ pend = [c \in Clients |-> NoPend]
        /\ held = [c \in Clients |-> NoHeld]
        /\ ops  = [c \in Clients |-> 0]
        /\ hist = {}
        /\ last = NoLast

Tick == /\ now < MaxNow /\ now' = now + 1
        /\ UNCHANGED <<obj, nextTag, pc, seen, pend, held, ops, hist, last>>

\* AcquireLease step 1: GetObject
AcqRead(c) ==
  /\ pc[c] = "idle" /\ ops[c] < MaxOps
  /\ seen' = [seen EXCEPT ![c] = obj]
  /\ pc' = [pc EXCEPT ![c] = "acqDecide"]
  /\ ops' = [ops EXCEPT ![c] = @ + 1]
  /\ UNCHANGED <<obj, now, nextTag, pend, held, hist, last>>

\* step 2: local decision: time.Now().After(ExpiresAt); generation; ExpiresAt = now + TTL
AcqDecide(c) ==
  /\ pc[c] = "acqDecide"
  /\ IF seen[c].exists /\ ~(now > seen[c].exp)
       THEN /\ pc' = [pc EXCEPT ![c] = "idle"]                  \* LeaseExistsError, no write
            /\ last' = [c |-> c, op |-> "acquire", res |-> "exists"]
            /\ UNCHANGED pend
       ELSE /\ pc' = [pc EXCEPT ![c] = "acqPut"]
            /\ pend' = [pend EXCEPT ![c] = [gen |-> IF seen[c].exists THEN seen[c].gen + 1 ELSE 1,
                                            exp |-> now + TTL]]
            /\ UNCHANGED last
  /\ UNCHANGED <<obj, now, nextTag, seen, held, ops, hist>>

\* step 3: conditional PutObject (If-None-Match:* when nothing was read, If-Match:<etag> otherwise)
AcqPut(c) ==
  /\ pc[c] = "acqPut" /\ nextTag <= MaxTag
  /\ LET ok == IF seen[c].exists THEN obj.exists /\ obj.tag = seen[c].tag ELSE ~obj.exists
     IN IF ok
          THEN /\ obj' = [exists |-> TRUE, gen |-> pend[c].gen, exp |-> pend[c].exp, owner |-> c, tag |-> nextTag]
               /\ held' = [held EXCEPT ![c] = [has |-> TRUE, gen |-> pend[c].gen, exp |-> pend[c].exp, tag |-> nextTag]]
               /\ nextTag' = nextTag + 1
               /\ hist' = hist \cup {[gen |-> pend[c].gen, owner |-> c, over |-> seen[c].exists, prevGen |-> seen[c].gen]}
               /\ last' = [c |-> c, op |-> "acquire", res |-> "ok"]
          ELSE /\ UNCHANGED <<obj, held, nextTag, hist>>      \* 412 -> LeaseExistsError
               /\ last' = [c |-> c, op |-> "acquire", res |-> "exists"]
  /\ pc' = [pc EXCEPT ![c] = "idle"]
  /\ UNCHANGED <<now, seen, pend, ops>>

RenewBegin(c) ==
  /\ pc[c] = "idle" /\ held[c].has /\ ops[c] < MaxOps
  /\ ops' = [ops EXCEPT ![c] = @ + 1]
  /\ pend' = [pend EXCEPT ![c] = [gen |-> held[c].gen, exp |-> now + TTL]]
  /\ pc' = [pc EXCEPT ![c] = "renewPut"]
  /\ UNCHANGED <<obj, now, nextTag, seen, held, hist, last>>

RenewPut(c) ==
  /\ pc[c] = "renewPut" /\ nextTag <= MaxTag
  /\ IF obj.exists /\ obj.tag = held[c].tag
       THEN /\ obj' = [exists |-> TRUE, gen |-> pend[c].gen, exp |-> pend[c].exp, owner |-> c, tag |-> nextTag]
            /\ held' = [held EXCEPT ![c] = [has |-> TRUE, gen |-> pend[c].gen, exp |-> pend[c].exp, tag |-> nextTag]]
            /\ nextTag' = nextTag + 1
            /\ last' = [c |-> c, op |-> "renew", res |-> "ok"]
       ELSE /\ held' = [held EXCEPT ![c] = NoHeld]        \* ErrLeaseNotHeld: the caller drops the lease
            /\ UNCHANGED <<obj, nextTag>>
            /\ last' = [c |-> c, op |-> "renew", res |-> "notheld"]
  /\ pc' = [pc EXCEPT ![c] = "idle"]
  /\ UNCHANGED <<now, seen, pend, ops, hist>>

Release(c) ==
  /\ pc[c] = "idle" /\ held[c].has /\ ops[c] < MaxOps
  /\ ops' = [ops EXCEPT ![c] = @ + 1]
  /\ IF obj.exists /\ obj.tag = held[c].tag
       THEN obj' = NoObj /\ last' = [c |-> c, op |-> "release", res |-> "ok"]
       ELSE /\ UNCHANGED obj
            /\ last' = [c |-> c, op |-> "release", res |-> IF obj.exists THEN "notheld" ELSE "gone"]
  /\ held' = [held EXCEPT ![c] = NoHeld]
  /\ UNCHANGED <<now, nextTag, pc, seen, pend, hist>>

Next == \/ Tick
        \/ \E c \in Clients : AcqRead(c)
        \/ \E c \in Clients : AcqDecide(c)
        \/ \E c \in Clients : AcqPut(c)
        \/ \E c \in Clients : RenewBegin(c)
        \/ \E c \in Clients : RenewPut(c)
        \/ \E c \in Clients : Release(c)
Spec == Init /\ [][Next]_vars

-----------------------------------------------------------------------------
\* C20
Valid(c) == held[c].has /\ now <= held[c].exp
Mutex == \A a \in Clients : \A b \in Clients : (Valid(a) /\ Valid(b)) => a = b
\* a client whose record was replaced can no longer renew or release it
StaleCannot == \A c \in Clients : (held[c].has /\ obj.exists /\ obj.owner # c) => held[c].tag # obj.tag
\* the generation strictly increases from one owner to the next (takeover of an existing record)
GenIncreases == \A h \in hist : h.over => h.gen = h.prevGen + 1
\* a second acquire succeeds only after expiry or release: step-wise
AcquireOnlyAfterExpiry ==
  [][\A c \in Clients : (pc[c] = "acqPut" /\ held'[c].has /\ held'[c] # held[c] /\ obj.exists) => now > obj.exp]_vars
TypeOK == /\ now \in 0..MaxNow /\ nextTag \in 1..(MaxTag + 1)
          /\ \A c \in Clients : pc[c] \in {"idle", "acqDecide", "acqPut", "renewPut"}
====

------------------------------ MODULE Trace_Replica ------------------------------
(***************************************************************************)
(* Binding of Replica.tla to the code: Replica.tla's OWN operators          *)
(* CompactOut, SnapRetentionOut and L0RetentionResult are instantiated on   *)
(* the replica listing OBSERVED before a real compaction / retention call   *)
(* (files with their listed times) and their prediction is compared with    *)
(* what the real code did: the file a compaction wrote (level, TXID range), *)
(* the files a retention pass left.  Mismatch = DIVERGENCE (a note).        *)
(***************************************************************************)
EXTENDS Integers, Sequences, FiniteSets, SequencesExt, TLC, Json

Log == ndJsonDeserialize("core_trace.ndjson")
VARIABLES l, t0
cur == Log[l]
prev == Log[l - 1]

\* (ToSet comes from SequencesExt)
Seen(k) == UNION {ToSet(Log[j].newrem) : j \in t0..k}
\* listed time (ms) of a replica file as last observed
TsOf(k, f) == LET c == {g \in Seen(k) : g.lvl = f[1] /\ g.min = f[2] /\ g.max = f[3]} IN
              IF c = {} THEN 0 ELSE (CHOOSE g \in c : \A h \in c : h.ts <= g.ts).ts
Files(k) == {[lvl |-> f[1], min |-> f[2], max |-> f[3], ts |-> TsOf(k, f)] : f \in ToSet(Log[k].remote)}
Names(S) == {<<f.lvl, f.min, f.max>> : f \in S}

R == INSTANCE Replica WITH NSync <- 1000, MaxClock <- 0, RetentionEnabled <- TRUE,
       remote <- Files(l - 1), pos <- prev.rpos, cache <- [x \in {0, 1, 2, 9} |-> [lvl |-> -1, min |-> 0, max |-> 0, ts |-> 0]],
       clock <- 0, hadSnap <- FALSE, tsOf <- <<>>, l0ret <- FALSE, sret <- FALSE

Init == l = 1 /\ t0 = 1
Next == l < Len(Log) /\ l' = l + 1 /\ t0' = IF Log[l + 1].op = "Reset" THEN l + 1 ELSE t0
Spec == Init /\ [][Next]_<<l, t0>>

NoAging == \A j \in t0..l : Log[j].op # "AgeFile"
Plain == l > 1 /\ cur.op # "Reset" /\ ~cur.cfg.faults /\ ~cur.cfg.noRetention

CompactOK ==
  (Plain /\ cur.op = "Compact" /\ cur.n \in {1, 2} /\ cur.res \in {"ok", "nocompaction"}) =>
     LET o == R!CompactOut(cur.n)
         made == {f \in ToSet(cur.newrem) : f.lvl = cur.n}
     IN IF cur.res = "nocompaction" THEN ~o.ok
        ELSE o.ok /\ \E f \in made : f.min = o.nf.min /\ f.max = o.nf.max

SnapRetOK ==
  (Plain /\ NoAging /\ cur.op = "SnapRetention" /\ cur.res = "ok" /\ cur.cfg.levels <= 2) =>
     Names(R!SnapRetentionOut(cur.cut)) = ToSet(cur.remote)

L0RetOK ==
  (Plain /\ NoAging /\ cur.op = "L0Retention" /\ cur.res = "ok") =>
     ToSet(prev.remote) \ ToSet(cur.remote) = Names(R!L0RetentionResult(cur.cut))

Kind == IF ~Plain THEN "n/a"
        ELSE IF cur.op = "Compact" /\ cur.n \in {1, 2} /\ cur.res \in {"ok", "nocompaction"} THEN "compact"
        ELSE IF cur.op = "SnapRetention" /\ cur.res = "ok" /\ NoAging /\ cur.cfg.levels <= 2 THEN "snapshot-retention"
        ELSE IF cur.op = "L0Retention" /\ cur.res = "ok" /\ NoAging THEN "l0-retention" ELSE "n/a"

Report == /\ ((CompactOK /\ SnapRetOK /\ L0RetOK) \/ PrintT(<<"DIVERGE", l, cur.t, cur.i>>))
          /\ (Kind = "n/a" \/ PrintT(<<"BRANCH", Kind, l, cur.t, cur.i>>))
====

--------------------------- MODULE MC_RestorePlan ---------------------------
(***************************************************************************)
(* R1 for C08 / C15: TLC enumerates every file set up to the bound as an    *)
(* initial state (sharded by Part/Parts so that many TLC processes run in   *)
(* parallel) and checks, for every request (each target TXID, latest, each  *)
(* timestamp):  Planner (transcription of CalcRestorePlan) |= declarative   *)
(* spec of RestorePlan.tla.                                                 *)
(***************************************************************************)
EXTENDS RestorePlan

CONSTANTS N,          \* TXIDs 1..N
          MaxFiles,   \* file sets with at most this many files
          MaxTs,      \* file timestamps 1..MaxTs, request timestamps 1..MaxTs+1
          Part, Parts \* shard: this TLC process takes the file sets with Shard(keys) = Part

Keys == {k \in Levels \X (1..N) \X (1..N) : k[2] <= k[3] /\ (k[1] = SnapLvl => k[2] = 1)}
Weight(k) == k[1] * N * N + (k[2] - 1) * N + (k[3] - 1)
Shard(KS) == FoldSet(LAMBDA k, acc : acc + Weight(k), 0, KS) % Parts

\* res / reach memoise Planner's result and the declarative reach set per request (functions of `files`; they do
\* not add states: the number of initial states = the number of file sets of this shard)
VARIABLES files, res, reach
vars == <<files, res, reach>>
Reqs == {<<tx, 0>> : tx \in 0..N} \cup {<<0, T>> : T \in 1..(MaxTs + 1)}
Init ==
  /\ \E n \in 0..MaxFiles : \E KS \in kSubset(n, Keys) :
       /\ Shard(KS) = Part
       /\ \E tf \in [KS -> 1..MaxTs] : files = {File(k[1], k[2], k[3], tf[k]) : k \in KS}
  /\ res = LET seqs == SeqsOf(files) IN [q \in Reqs |-> PlannerS(seqs, q[1], q[2])]
  /\ reach = [q \in Reqs |-> ReachSet(files, q[1], q[2])]
Next == UNCHANGED vars
Spec == Init /\ [][Next]_vars

TsReqs == 1..(MaxTs + 1)
Sound          == \A q \in Reqs : SoundP(files, q[1], q[2], res[q])
CompleteTx     == \A q \in Reqs : CompleteTxP(q[1], q[2], res[q], reach[q])
CompleteLatest == \A q \in Reqs : CompleteLatestP(files, q[1], q[2], res[q], reach[q])
GapReported    == \A q \in Reqs : GapReportedP(files, q[1], q[2], res[q])
FurthestLatest == \A q \in Reqs : FurthestLatestP(q[1], q[2], res[q], reach[q])
\* C15 clauses
TsExcluded     == \A T \in TsReqs : TsExcludedP(T, res[<<0, T>>].plan)
TsFurthest     == \A q \in Reqs : FurthestTsP(q[1], q[2], res[q], reach[q])
TsMonotone     == \A T1 \in TsReqs : \A T2 \in T1..(MaxTs + 1) : MonoP(res[<<0, T1>>], res[<<0, T2>>])
\* no request makes the planner return anything but a plan / gap / notfound
ErrKinds       == \A q \in Reqs : res[q].err \in {"none", "gap", "notfound"}
=============================================================================

--------------------------- MODULE MC_RestorePlan ---------------------------
(***************************************************************************)
(* R1 for C08 / C15: TLC enumerates every file set up to the bound and      *)
(* checks, for every request (each target TXID, latest, each timestamp):    *)
(*   Planner (transcription of CalcRestorePlan) |= declarative spec         *)
(* of RestorePlan.tla.                                                      *)
(* Two ways to spread the enumeration over the cores:                       *)
(*  - Part/Parts: a TLC process takes the file sets whose key set hashes to *)
(*    Part (16 processes side by side);                                     *)
(*  - Fanout = FALSE: every file set of the shard is an INITIAL state (TLC  *)
(*    computes initial states with one thread);                             *)
(*    Fanout = TRUE: root state -> one group state per "top" key -> the     *)
(*    file sets whose largest key is that key, so that the workers of one   *)
(*    process (one warmed-up JVM) each expand a group.  Same file sets:     *)
(*    distinct states = file sets (+ 1 root + |Keys| groups when fanned).   *)
(***************************************************************************)
EXTENDS RestorePlan

CONSTANTS N,          \* TXIDs 1..N
          MaxFiles,   \* file sets with at most this many files
          MaxTs,      \* file timestamps 1..MaxTs, request timestamps 1..MaxTs+1
          Part, Parts,\* shard: this TLC process takes the file sets with Shard(keys) = Part
          Fanout,     \* see above
          TsOnly      \* TRUE: only the timestamp requests <<0, T>> (target-TXID / latest requests do not depend on
                      \* file timestamps: they are enumerated with MaxTs = 1 by another configuration)

Keys == {k \in Levels \X (1..N) \X (1..N) : k[2] <= k[3] /\ (k[1] = SnapLvl => k[2] = 1)}
Weight(k) == k[1] * N * N + (k[2] - 1) * N + (k[3] - 1)          \* injective on Keys: a total order
Shard(KS) == FoldSet(LAMBDA k, acc : acc + Weight(k), 0, KS) % Parts

\* ph: -1 = a file set (files/res/reach meaningful), 0 = root, w + 1 = group of the key of weight w.
\* res / reach memoise Planner's result and the declarative reach set per request (functions of `files`).
VARIABLES ph, files, res, reach
vars == <<ph, files, res, reach>>
Reqs == (IF TsOnly THEN {} ELSE {<<tx, 0>> : tx \in 0..N}) \cup {<<0, T>> : T \in 1..(MaxTs + 1)}
IsSet == ph = -1

\* v = the state of file set fs
SetState(fs, vph, vfiles, vres, vreach) ==
  /\ vph = -1 /\ vfiles = fs
  /\ \E seqs \in {SeqsOf(fs)} : vres = [q \in Reqs |-> PlannerS(seqs, q[1], q[2])]
  /\ vreach = [q \in Reqs |-> ReachSet(fs, q[1], q[2])]
\* every file set over the key set KS
Stamped(KS) == {{File(k[1], k[2], k[3], tf[k]) : k \in KS} : tf \in [KS -> 1..MaxTs]}

Init ==
  IF Fanout THEN ph = 0 /\ files = {} /\ res = <<>> /\ reach = <<>>
  ELSE \E n \in 0..(IF Cardinality(Keys) < MaxFiles THEN Cardinality(Keys) ELSE MaxFiles) : \E KS \in kSubset(n, Keys) :
          /\ Shard(KS) = Part
          /\ \E fs \in Stamped(KS) : SetState(fs, ph, files, res, reach)
Next ==
  \/ /\ Fanout /\ ph = 0
     /\ \/ \E k \in Keys : MaxFiles > 0 /\ ph' = Weight(k) + 1 /\ UNCHANGED <<files, res, reach>>
        \/ Shard({}) = Part /\ SetState({}, ph', files', res', reach')
  \/ /\ Fanout /\ ph > 0
     /\ \E top \in {k \in Keys : Weight(k) = ph - 1} :
        \E lower \in {{k \in Keys : Weight(k) < ph - 1}} :
        \E n \in 0..(IF Cardinality(lower) < MaxFiles - 1 THEN Cardinality(lower) ELSE MaxFiles - 1) :
        \E KS0 \in kSubset(n, lower) :
          /\ Shard(KS0 \cup {top}) = Part
          /\ \E fs \in Stamped(KS0 \cup {top}) : SetState(fs, ph', files', res', reach')
Spec == Init /\ [][Next]_vars

TsReqs == 1..(MaxTs + 1)
Sound          == IsSet => \A q \in Reqs : SoundP(files, q[1], q[2], res[q])
CompleteTx     == IsSet => \A q \in Reqs : CompleteTxP(q[1], q[2], res[q], reach[q])
CompleteLatest == IsSet => \A q \in Reqs : CompleteLatestP(files, q[1], q[2], res[q], reach[q])
GapReported    == IsSet => \A q \in Reqs : GapReportedP(files, q[1], q[2], res[q])
FurthestLatest == IsSet => \A q \in Reqs : FurthestLatestP(q[1], q[2], res[q], reach[q])
\* C15 clauses
TsExcluded     == IsSet => \A T \in TsReqs : TsExcludedP(T, res[<<0, T>>].plan)
TsFurthest     == IsSet => \A q \in Reqs : FurthestTsP(q[1], q[2], res[q], reach[q])
TsMonotone     == IsSet => \A T1 \in TsReqs : \A T2 \in T1..(MaxTs + 1) : MonoP(res[<<0, T1>>], res[<<0, T2>>])
\* no request makes the planner return anything but a plan / gap / notfound
ErrKinds       == IsSet => \A q \in Reqs : res[q].err \in {"none", "gap", "notfound"}
=============================================================================

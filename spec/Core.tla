------------------------------ MODULE Core ------------------------------
(***************************************************************************)
(* SQLite's WAL protocol as litestream sees it (environment) + litestream's *)
(* verify / sync / checkpoint / lifecycle (db.go), over abstract page        *)
(* versions.  One action per critical section of the code:                  *)
(*   Verify       verifyWithExecutor  db.go:1682-1822 (one branch per return)*)
(*   SyncResult   sync + pageMap      db.go:1998-2286, wal_reader.go:207     *)
(*   Chk*         checkpointWithExecutor db.go:2448-2632 as 7 interleavable  *)
(*                steps (copy, barrier+seal, release read lock, PRAGMA,      *)
(*                un-barrier, bump, finish/boundary snapshot)                *)
(*   LsClose / LsOpenSameObject / LsOpenNewProcess / LsCrash   db.go:770-878 *)
(* FixF1/FixF2/FixG1 = TRUE model the code as it is now (after the `fix:`    *)
(* commits); FALSE model the pinned code, in which TLC finds the data-loss   *)
(* histories F1, F2, G1 within seconds (kept as negative controls).          *)
(* ReqCtx = TRUE lets the context of a litestream call be cancelled once the *)
(* call has returned (request handlers do that); FixQ1 = FALSE is the code   *)
(* in which the long-running read transaction was bound to that context     *)
(* (finding Q1, found by the daemon-mode runs; MC_Core_q1.cfg is its        *)
(* negative control).  FixQ2 = FALSE: a checkpoint whose context is         *)
(* cancelled between releasing the read transaction and the PRAGMA does not *)
(* get it back (finding Q2; MC_Core_q2.cfg).                                *)
(* AtomicChk = TRUE disables application steps inside a litestream           *)
(* checkpoint (used to generate schedules that need no gating hooks).        *)
(* hz is a history variable naming the shapes of known findings; the as-is   *)
(* configuration checks C01 \/ hz # {} so that exploration continues past    *)
(* them and any OTHER violation is still found.                              *)
(***************************************************************************)
EXTENDS Integers, Sequences, FiniteSets, TLC

CONSTANTS MaxPg, InitN, MaxVer, MaxFrames, MaxTx, MaxGen, MaxDown, FixF1, FixF2, FixG1, Modes, AppModes, AtomicChk, WithCrash,
          FixM2,                  \* the prev-frame-mismatch fallback of sync() takes a snapshot (repair of M2)
          ReqCtx, FixQ1, FixQ2    \* litestream calls run under a request-scoped context (cancelled when the call returns) / the read transaction is detached from it

Pages == 1..MaxPg
SeqPg == 1
NoGen == 0
Absent == -1

VARIABLES
  dbf, dbfN,            \* main db file pages and size
  wal,                  \* Seq of [pg, ver, commit, gen, st]
  hdrGen, idxGen, mx, bf, sz,   \* sz = committed logical size (pages)
  rd, wlock,            \* litestream read mark (-1,0,k); write lock holder "none"|"app"|"ls"
  txn,                  \* open app txn: number of spilled frames (valid only if wlock="app")
  nextVer, nextGen, nextSt,
  up, mem, l0, rN, acked, downs,
  pc, cmode, ck,        \* checkpoint program counter, mode, scratch [hdr, pre, logN]
  cvers, spv,           \* committed versions; version spilled by the open txn
  lostM, sameSince, hz  \* history: unsynced committed frames were destroyed; the same DB object was reopened since; shapes of known findings seen

vars == <<dbf, dbfN, wal, hdrGen, idxGen, mx, bf, sz, rd, wlock, txn, nextVer, nextGen, nextSt,
          up, mem, l0, rN, acked, downs, pc, cmode, ck, cvers, spv, lostM, sameSince, hz>>
view == <<dbf, dbfN, wal, hdrGen, idxGen, mx, bf, sz, rd, wlock, txn, nextVer, nextGen, nextSt,
          up, mem, l0, rN, acked, downs, pc, cmode, ck, spv, lostM, sameSince, hz>>

EmptyPages == [p \in Pages |-> Absent]

Overlay(base, frames) ==
  LET F[i \in 0..Len(frames)] ==
        IF i = 0 THEN base ELSE [F[i-1] EXCEPT ![frames[i].pg] = frames[i].ver]
  IN F[Len(frames)]

CurFrames == IF hdrGen = idxGen THEN SubSeq(wal, 1, mx) ELSE <<>>
Logical == [n |-> sz, pg |-> [p \in Pages |-> IF p <= sz THEN Overlay(dbf, CurFrames)[p] ELSE Absent]]

Init ==
  /\ dbf = [p \in Pages |-> IF p <= InitN THEN 0 ELSE Absent] /\ dbfN = InitN
  /\ wal = <<>> /\ hdrGen = NoGen /\ idxGen = 1 /\ mx = 0 /\ bf = 0 /\ sz = InitN
  /\ rd = -1 /\ wlock = "none" /\ txn = 0
  /\ nextVer = 1 /\ nextGen = 2 /\ nextSt = 1
  /\ up = FALSE /\ mem = [toEnd |-> FALSE, lastOff |-> 0]
  /\ l0 = <<>> /\ rN = 0 /\ acked = FALSE /\ downs = 0
  /\ pc = "idle" /\ cmode = "PASSIVE" /\ ck = [hdr |-> 0, pre |-> 0, logN |-> 0]
  /\ cvers = {0} /\ spv = 0
  /\ lostM = FALSE /\ sameSince = FALSE /\ hz = {}

------------------------------------------------------------------------
CanRestart == mx > 0 /\ bf = mx /\ rd \in {-1, 0}

\* Physical placement of a list of frames (records without gen/st) by a writer starting a txn.
\* Returns the new environment fields as a record.
Place(frs, commitSize) ==
  LET restart == CanRestart
      g       == IF restart THEN nextGen ELSE idxGen
      m       == IF restart THEN 0 ELSE mx
      fresh   == (g # hdrGen)
      base    == IF fresh THEN 0 ELSE m
      k       == Len(frs)
      mk(i)   == [pg |-> frs[i].pg, ver |-> frs[i].ver,
                  commit |-> IF i = k THEN commitSize ELSE 0, gen |-> g, st |-> nextSt]
      newLen  == IF base + k > Len(wal) THEN base + k ELSE Len(wal)
      w2      == [i \in 1..newLen |->
                    IF i > base /\ i <= base + k THEN mk(i - base) ELSE wal[i]]
  IN [ok |-> base + k <= MaxFrames /\ g <= MaxGen,
      wal |-> w2, hdrGen |-> g, idxGen |-> g,
      nextGen |-> IF restart THEN nextGen + 1 ELSE nextGen,
      base |-> base, k |-> k,
      bf |-> IF restart \/ fresh THEN 0 ELSE bf]

\* committed transaction of `frs` resulting in database size n
CommitTxn(frs, n) ==
  LET r == Place(frs, n) IN
  /\ r.ok
  /\ wal' = r.wal /\ hdrGen' = r.hdrGen /\ idxGen' = r.idxGen /\ nextGen' = r.nextGen
  /\ mx' = r.base + r.k /\ bf' = r.bf /\ sz' = n
  /\ nextSt' = nextSt + 1
  /\ cvers' = cvers \cup {nextVer} /\ UNCHANGED spv

\* application transactions: one page, two pages, grow by one (writes the new page), shrink by one
AppTxnShapes ==
  {[pgs |-> <<p>>, n |-> sz] : p \in (2..sz)} \cup
  {[pgs |-> <<p, q>>, n |-> sz] : p \in (2..sz), q \in (2..sz)} \cup
  (IF sz < MaxPg THEN {[pgs |-> <<sz + 1>>, n |-> sz + 1]} \cup {[pgs |-> <<2, sz + 1>>, n |-> sz + 1]} ELSE {}) \cup
  (IF sz > 2 THEN {[pgs |-> <<2>>, n |-> sz - 1]} ELSE {})

AppCommit(shape) ==
  /\ wlock = "none"
  /\ \A i \in 1..Len(shape.pgs) : \A j \in 1..Len(shape.pgs) : i < j => shape.pgs[i] < shape.pgs[j]
  /\ nextVer <= MaxVer
  /\ CommitTxn([i \in 1..Len(shape.pgs) |-> [pg |-> shape.pgs[i], ver |-> nextVer]], shape.n)
  /\ nextVer' = nextVer + 1
  /\ acked' = FALSE
  /\ UNCHANGED <<dbf, dbfN, rd, wlock, txn, up, mem, l0, rN, downs, pc, cmode, ck>>

\* open transaction spilling one uncommitted frame, later commit (one more frame) or rollback
AppSpill(p) ==
  /\ wlock = "none" /\ p \in 2..sz /\ nextVer <= MaxVer
  /\ LET r == Place(<<[pg |-> p, ver |-> nextVer]>>, 0) IN
     /\ r.ok
     /\ wal' = r.wal /\ hdrGen' = r.hdrGen /\ idxGen' = r.idxGen /\ nextGen' = r.nextGen
     /\ bf' = r.bf
     /\ mx' = r.base           \* nothing committed yet
  /\ wlock' = "app" /\ txn' = 1 /\ spv' = nextVer /\ UNCHANGED cvers
  /\ nextVer' = nextVer + 1
  /\ UNCHANGED <<dbf, dbfN, sz, rd, nextSt, up, mem, l0, rN, acked, downs, pc, cmode, ck>>

AppSpillCommit(p) ==
  /\ wlock = "app" /\ p \in 2..sz /\ nextVer <= MaxVer
  /\ mx + txn + 1 <= MaxFrames
  /\ LET pos == mx + txn + 1
         f   == [pg |-> p, ver |-> nextVer, commit |-> sz, gen |-> idxGen, st |-> nextSt]
     IN wal' = IF pos <= Len(wal) THEN [wal EXCEPT ![pos] = f] ELSE Append(wal, f)
  /\ mx' = mx + txn + 1
  /\ wlock' = "none" /\ txn' = 0 /\ nextVer' = nextVer + 1 /\ nextSt' = nextSt + 1
  /\ cvers' = cvers \cup {spv, nextVer} /\ spv' = 0
  /\ acked' = FALSE
  /\ UNCHANGED <<dbf, dbfN, hdrGen, idxGen, bf, sz, rd, nextGen, up, mem, l0, rN, downs, pc, cmode, ck>>

AppRollback ==
  /\ wlock = "app"
  /\ wlock' = "none" /\ txn' = 0 /\ nextSt' = nextSt + 1 /\ spv' = 0 /\ UNCHANGED cvers
  /\ UNCHANGED <<dbf, dbfN, wal, hdrGen, idxGen, mx, bf, sz, rd, nextVer, nextGen, up, mem, l0, rN, acked, downs, pc, cmode, ck>>

\* generic checkpoint semantics, used by app and by litestream.  who = "app" | "ls"
\* returns record of new values
CkptResult(mode, holdsW) ==
  LET canBf  == rd # 0
      target == IF ~canBf THEN bf ELSE IF rd > 0 /\ rd < mx THEN rd ELSE mx
      full   == (target = mx)
      needW  == mode # "PASSIVE"
      wOK    == ~needW \/ wlock = "none" \/ holdsW
      tgt2   == IF wOK THEN target ELSE bf
      restartOK == wOK /\ full /\ rd \in {-1, 0} /\ mode = "TRUNCATE"
      lastC  == IF tgt2 = 0 THEN dbfN ELSE
                  LET cs == {i \in 1..tgt2 : wal[i].commit # 0} IN
                  IF cs = {} THEN dbfN ELSE wal[CHOOSE i \in cs : \A j \in cs : j <= i].commit
  IN [dbf  |-> Overlay(dbf, SubSeq(wal, bf + 1, tgt2)),
      dbfN |-> IF tgt2 = mx /\ mx > 0 THEN sz ELSE (IF lastC > dbfN THEN lastC ELSE dbfN),
      bf   |-> tgt2,
      trunc |-> restartOK,
      logN |-> IF restartOK THEN 0 ELSE mx]

AppCheckpoint(mode) ==
  /\ hdrGen = idxGen /\ mx > 0 /\ wlock # "app"
  /\ LET r == CkptResult(mode, FALSE) IN
     /\ dbf' = r.dbf /\ dbfN' = r.dbfN
     /\ IF r.trunc
          THEN /\ nextGen <= MaxGen
               /\ idxGen' = nextGen /\ nextGen' = nextGen + 1 /\ mx' = 0 /\ bf' = 0
               /\ wal' = <<>> /\ hdrGen' = NoGen
          ELSE /\ bf' = r.bf /\ UNCHANGED <<idxGen, nextGen, mx, wal, hdrGen>>
  /\ UNCHANGED <<sz, rd, wlock, txn, nextVer, nextSt, up, mem, l0, rN, acked, downs, pc, cmode, ck>>
  /\ UNCHANGED <<cvers, spv>>

------------------------------------------------------------------------
AcquireRead == IF bf = mx THEN 0 ELSE mx
Pos == Len(l0)

\* number of consecutive valid frames starting at index i for generation g (salt + checksum chain)
RECURSIVE ValidRun(_, _, _, _)
ValidRun(w, i, g, prevSt) ==
  IF i > Len(w) \/ w[i].gen # g \/ w[i].st < prevSt THEN 0
  ELSE 1 + ValidRun(w, i + 1, g, w[i].st)

\* committed prefix length within frames
LastCommitIdx(frames) ==
  LET cs == {i \in 1..Len(frames) : frames[i].commit # 0} IN
  IF cs = {} THEN 0 ELSE CHOOSE i \in cs : \A j \in cs : j <= i

PageMapOf(frames) ==
  LET F[i \in 0..Len(frames)] ==
        IF i = 0 THEN EmptyPages ELSE [F[i-1] EXCEPT ![frames[i].pg] = frames[i].ver]
  IN F[Len(frames)]

Verify ==
  IF Pos = 0 THEN [snap |-> TRUE, off |-> 0, gen |-> hdrGen, clr |-> FALSE, prevC |-> 0]
  ELSE
    LET last == l0[Pos]
        X    == last.off + last.n
        saltMatch == (hdrGen = last.gen)
        pc0  == last.commit
    IN IF X > Len(wal) THEN
            IF mem.toEnd THEN [snap |-> FALSE, off |-> 0, gen |-> hdrGen, clr |-> TRUE, prevC |-> pc0]
                         ELSE [snap |-> TRUE, off |-> X, gen |-> last.gen, clr |-> FALSE, prevC |-> pc0]
       ELSE IF X <= 1 THEN [snap |-> ~saltMatch, off |-> X, gen |-> last.gen, clr |-> FALSE, prevC |-> pc0]
       ELSE
         LET fr == wal[X]
             lpm == fr.gen = last.gen /\ last.pages[fr.pg] = fr.ver
             \* repaired code (db.go verifyWithExecutor): a frame carrying the old salts right after the cursor, or a
             \* header salt that is not the old one plus one, forces a snapshot from the new header
             cont == FixF2 /\ ((X + 1 <= Len(wal) /\ wal[X+1].gen = last.gen) \/ hdrGen # last.gen + 1)
         IN IF ~lpm THEN [snap |-> TRUE, off |-> X, gen |-> last.gen, clr |-> FALSE, prevC |-> pc0]
            ELSE IF saltMatch THEN [snap |-> FALSE, off |-> X, gen |-> last.gen, clr |-> FALSE, prevC |-> pc0]
            ELSE IF cont THEN [snap |-> TRUE, off |-> 0, gen |-> hdrGen, clr |-> FALSE, prevC |-> pc0]
            ELSE
              LET idxs == {i \in 1..Len(wal) : \A j \in 1..(i-1) : wal[j].gen # last.gen}
                  seen == {wal[i].gen : i \in idxs}
                  unknown == seen \ {hdrGen, last.gen}
              IN [snap |-> unknown # {}, off |-> 0, gen |-> hdrGen, clr |-> FALSE, prevC |-> pc0]

SyncResult(info) ==
  LET useOff == IF info.snap THEN 0 ELSE info.off     \* a snapshot reads the WAL from its header (db.go sync(), fix S1)
      g   == IF useOff = 0 THEN hdrGen ELSE info.gen
      prevOK == useOff = 0 \/ (useOff <= Len(wal) /\ wal[useOff].gen = g)
      off2 == IF prevOK THEN useOff ELSE 0
      g2   == IF prevOK THEN g ELSE hdrGen
      seedSt == IF off2 = 0 THEN 0 ELSE wal[off2].st
      run == IF off2 >= Len(wal) THEN 0 ELSE ValidRun(wal, off2 + 1, g2, seedSt)
      raw == SubSeq(wal, off2 + 1, off2 + run)
      n   == LastCommitIdx(raw)
      frames == SubSeq(raw, 1, n)
      walCommit == IF n = 0 THEN 0 ELSE frames[n].commit
      commit == IF walCommit > 0 THEN walCommit ELSE dbfN
      pm0 == PageMapOf(frames)
      pm  == [p \in Pages |-> IF p <= commit THEN pm0[p] ELSE Absent]
      growth(p) == p > info.prevC /\ p <= commit /\ pm[p] = Absent
      pagesInc == [p \in Pages |-> IF growth(p) THEN dbf[p] ELSE pm[p]]
      pagesSnap == [p \in Pages |-> IF p > commit THEN Absent ELSE IF pm[p] # Absent THEN pm[p] ELSE dbf[p]]
      \* (a previous frame that does not verify any more means the WAL changed after verify(): the file is a snapshot - repair of M2)
      snap2 == info.snap \/ (FixM2 /\ ~prevOK)
      pages == IF snap2 THEN pagesSnap ELSE pagesInc
      readErr == \E p \in Pages : p <= commit /\ pages[p] = Absent /\ (snap2 \/ growth(p))
  IN IF ~snap2 /\ n = 0
       THEN [skip |-> TRUE, err |-> FALSE]
       ELSE [skip |-> FALSE, err |-> readErr,
             ltx  |-> [off |-> off2, n |-> n, gen |-> g2, commit |-> commit, pages |-> pages, snap |-> snap2],
             lastOff |-> off2 + n,
             toEnd |-> (off2 + n = Len(wal))]

EnsureWAL == hdrGen # NoGen

LsBump ==
  /\ up /\ hdrGen = NoGen /\ wlock = "none" /\ pc = "idle"
  /\ nextVer <= MaxVer
  /\ CommitTxn(<<[pg |-> SeqPg, ver |-> nextVer]>>, sz) /\ nextVer' = nextVer + 1
  /\ UNCHANGED <<dbf, dbfN, rd, wlock, txn, up, mem, l0, rN, acked, downs, pc, cmode, ck>>

\* DoSyncWith(info): updates l0/mem (or fails silently leaving state when read error)
DoSyncWith(info) ==
  LET res == SyncResult(info) IN
  IF res.skip
    THEN /\ mem' = [mem EXCEPT !.toEnd = IF info.clr THEN FALSE ELSE mem.toEnd]
         /\ UNCHANGED l0
    ELSE IF res.err THEN UNCHANGED <<mem, l0>>
    ELSE /\ Len(l0) < MaxTx
         /\ l0' = Append(l0, res.ltx)
         /\ mem' = [toEnd |-> res.toEnd, lastOff |-> res.lastOff]
DoSync == DoSyncWith(Verify)
SyncFails(info) == LET res == SyncResult(info) IN ~res.skip /\ res.err

LsSync ==
  /\ up /\ EnsureWAL /\ pc = "idle"
  /\ DoSync
  /\ acked' = FALSE
  /\ UNCHANGED <<dbf, dbfN, wal, hdrGen, idxGen, mx, bf, sz, rd, wlock, txn, nextVer, nextGen, nextSt, up, rN, downs, pc, cmode, ck>>
  /\ UNCHANGED <<cvers, spv>>

LsSyncAndWait ==
  /\ up /\ EnsureWAL /\ pc = "idle" /\ wlock = "none"
  /\ ~SyncFails(Verify)
  /\ DoSync
  /\ rN' = IF rN < Len(l0') THEN Len(l0') ELSE rN
  /\ acked' = TRUE
  /\ UNCHANGED <<dbf, dbfN, wal, hdrGen, idxGen, mx, bf, sz, rd, wlock, txn, nextVer, nextGen, nextSt, up, downs, pc, cmode, ck>>
  /\ UNCHANGED <<cvers, spv>>

---- \* multi-step checkpoint
ChkStart(mode) ==
  /\ up /\ EnsureWAL /\ pc = "idle" /\ Len(l0) + 3 <= MaxTx
  /\ DoSync
  /\ pc' = "copied" /\ cmode' = mode /\ ck' = [hdr |-> hdrGen, pre |-> 0, logN |-> 0]
  /\ acked' = FALSE
  /\ UNCHANGED <<dbf, dbfN, wal, hdrGen, idxGen, mx, bf, sz, rd, wlock, txn, nextVer, nextGen, nextSt, up, rN, downs>>
  /\ UNCHANGED <<cvers, spv>>

ChkBarrier ==
  /\ pc = "copied"
  /\ IF cmode = "PASSIVE"
       THEN IF wlock = "none"
              THEN /\ wlock' = "ls" /\ DoSync /\ pc' = "sealed"
              ELSE /\ pc' = "idle" /\ UNCHANGED <<wlock, mem, l0>>     \* busy -> skipped
       ELSE /\ pc' = "sealed" /\ UNCHANGED <<wlock, mem, l0>>
  /\ UNCHANGED <<dbf, dbfN, wal, hdrGen, idxGen, mx, bf, sz, rd, txn, nextVer, nextGen, nextSt, up, rN, acked, downs, cmode, ck>>
  /\ UNCHANGED <<cvers, spv>>

ChkRelease ==
  /\ pc = "sealed"
  /\ rd' = -1 /\ pc' = "released"
  /\ ck' = [ck EXCEPT !.pre = mem.lastOff]
  /\ mem' = IF FixG1 /\ cmode # "PASSIVE" THEN [mem EXCEPT !.toEnd = FALSE] ELSE mem
  /\ UNCHANGED <<dbf, dbfN, wal, hdrGen, idxGen, mx, bf, sz, wlock, txn, nextVer, nextGen, nextSt, up, l0, rN, acked, downs, cmode>>
  /\ UNCHANGED <<cvers, spv>>

\* Q2: the context of the call is cancelled while the checkpoint has released the read transaction and not issued the PRAGMA
\* yet (a sync request timing out): the PRAGMA fails, the deferred re-acquisition ran its query under the same cancelled
\* context and its error is ignored - no read transaction any more, and nothing takes one until the next checkpoint.
ChkCtxCancel ==
  /\ ReqCtx /\ pc = "released"
  /\ pc' = "idle"
  /\ wlock' = IF wlock = "ls" THEN "none" ELSE wlock
  /\ rd' = IF FixQ2 THEN AcquireRead ELSE -1
  /\ UNCHANGED <<dbf, dbfN, wal, hdrGen, idxGen, mx, bf, sz, txn, nextVer, nextGen, nextSt, up, mem, l0, rN, acked, downs, cmode, ck>>
  /\ UNCHANGED <<cvers, spv>>

ChkPragma ==
  /\ pc = "released"
  /\ IF hdrGen = idxGen /\ mx > 0 /\ (wlock # "app" \/ cmode = "PASSIVE")
       THEN LET r == CkptResult(cmode, wlock = "ls") IN
            /\ dbf' = r.dbf /\ dbfN' = r.dbfN
            /\ ck' = [ck EXCEPT !.logN = r.logN]
            /\ IF r.trunc
                 THEN /\ nextGen <= MaxGen
                      /\ idxGen' = nextGen /\ nextGen' = nextGen + 1 /\ mx' = 0 /\ bf' = 0
                      /\ wal' = <<>> /\ hdrGen' = NoGen
                 ELSE /\ bf' = r.bf /\ UNCHANGED <<idxGen, nextGen, mx, wal, hdrGen>>
       ELSE /\ ck' = [ck EXCEPT !.logN = mx]
            /\ UNCHANGED <<dbf, dbfN, idxGen, nextGen, mx, bf, wal, hdrGen>>
  /\ rd' = IF bf' = mx' THEN 0 ELSE mx'
  /\ pc' = "execd"
  /\ UNCHANGED <<sz, wlock, txn, nextVer, nextSt, up, mem, l0, rN, acked, downs, cmode>>
  /\ UNCHANGED <<cvers, spv>>

ChkUnbarrier ==
  /\ pc = "execd"
  /\ wlock' = IF wlock = "ls" THEN "none" ELSE wlock
  /\ pc' = "unbarred"
  /\ UNCHANGED <<dbf, dbfN, wal, hdrGen, idxGen, mx, bf, sz, rd, txn, nextVer, nextGen, nextSt, up, mem, l0, rN, acked, downs, cmode, ck>>
  /\ UNCHANGED <<cvers, spv>>

ChkBump ==
  /\ pc = "unbarred" /\ nextVer <= MaxVer
  /\ IF wlock = "none"
       THEN /\ CommitTxn(<<[pg |-> SeqPg, ver |-> nextVer]>>, sz) /\ nextVer' = nextVer + 1
            /\ pc' = "bumped"
       ELSE /\ pc' = "idle"       \* busy: checkpoint returns an error after the PRAGMA
            /\ UNCHANGED <<wal, hdrGen, idxGen, nextGen, mx, bf, sz, nextSt, nextVer, cvers, spv>>
  /\ UNCHANGED <<dbf, dbfN, rd, wlock, txn, up, mem, l0, rN, acked, downs, cmode, ck>>

ChkFinish ==
  /\ pc = "bumped"
  /\ IF hdrGen = ck.hdr
       THEN UNCHANGED <<mem, l0, wlock>>
       ELSE IF cmode = "PASSIVE" \/ (cmode # "TRUNCATE" /\ ck.logN <= ck.pre)
         THEN DoSync /\ UNCHANGED wlock
         ELSE IF wlock = "none"
                THEN DoSyncWith([snap |-> TRUE, off |-> 0, gen |-> hdrGen, clr |-> FALSE, prevC |-> 0]) /\ UNCHANGED wlock
                ELSE UNCHANGED <<mem, l0, wlock>>      \* busy: error, no snapshot
  /\ pc' = "idle"
  /\ UNCHANGED <<dbf, dbfN, wal, hdrGen, idxGen, mx, bf, sz, rd, txn, nextVer, nextGen, nextSt, up, rN, acked, downs, cmode, ck>>
  /\ UNCHANGED <<cvers, spv>>

---- \* lifecycle
LsOpenSameObject ==
  /\ ~up /\ up' = TRUE /\ rd' = AcquireRead
  /\ mem' = IF FixF1 THEN [toEnd |-> FALSE, lastOff |-> 0] ELSE mem
  /\ UNCHANGED <<dbf, dbfN, wal, hdrGen, idxGen, mx, bf, sz, wlock, txn, nextVer, nextGen, nextSt, l0, rN, acked, downs, pc, cmode, ck>>
  /\ UNCHANGED <<cvers, spv>>

LsOpenNewProcess ==
  /\ ~up /\ up' = TRUE /\ rd' = AcquireRead
  /\ mem' = [toEnd |-> FALSE, lastOff |-> 0]
  /\ UNCHANGED <<dbf, dbfN, wal, hdrGen, idxGen, mx, bf, sz, wlock, txn, nextVer, nextGen, nextSt, l0, rN, acked, downs, pc, cmode, ck>>
  /\ UNCHANGED <<cvers, spv>>

LsClose ==
  /\ up /\ EnsureWAL /\ downs < MaxDown /\ pc = "idle" /\ wlock = "none"
  /\ ~SyncFails(Verify)
  /\ DoSync
  /\ rN' = IF rN < Len(l0') THEN Len(l0') ELSE rN
  /\ up' = FALSE /\ rd' = -1 /\ downs' = downs + 1
  /\ acked' = TRUE
  /\ UNCHANGED <<dbf, dbfN, wal, hdrGen, idxGen, mx, bf, sz, wlock, txn, nextVer, nextGen, nextSt, pc, cmode, ck>>
  /\ UNCHANGED <<cvers, spv>>

LsCrash ==
  /\ up /\ downs < MaxDown
  /\ up' = FALSE /\ rd' = -1 /\ downs' = downs + 1
  /\ wlock' = IF wlock = "ls" THEN "none" ELSE wlock
  /\ pc' = "idle"
  /\ acked' = FALSE
  /\ UNCHANGED <<dbf, dbfN, wal, hdrGen, idxGen, mx, bf, sz, txn, nextVer, nextGen, nextSt, mem, l0, rN, cmode, ck>>
  /\ UNCHANGED <<cvers, spv>>

\* Q1: the long-running read transaction is begun with the context of the call that happens to (re)acquire it (init at the
\* first sync, or the re-acquisition after a checkpoint).  When that call came from a request handler (Store.SyncDB from
\* the control socket: context.WithTimeout + defer cancel) the context is cancelled as soon as the call returns and
\* database/sql rolls the transaction back: the read mark is gone while the DB object still believes it holds it.
LsCtxCancelled ==
  /\ ReqCtx /\ ~FixQ1 /\ up /\ pc = "idle" /\ rd # -1
  /\ rd' = -1
  /\ UNCHANGED <<dbf, dbfN, wal, hdrGen, idxGen, mx, bf, sz, wlock, txn, nextVer, nextGen, nextSt, up, mem, l0, rN, acked, downs, pc, cmode, ck>>
  /\ UNCHANGED <<cvers, spv>>

---- \* history (ghost) variables and the named steps of Next
CursorGen == IF Len(l0) = 0 THEN NoGen ELSE l0[Len(l0)].gen
CursorEnd == IF Len(l0) = 0 THEN 0 ELSE l0[Len(l0)].off + l0[Len(l0)].n
\* committed frames exist that no level-0 file covers
Unsynced == mx > 0 /\ hdrGen = idxGen /\ (IF hdrGen = CursorGen THEN mx > CursorEnd ELSE TRUE)
ValidLen == IF hdrGen = NoGen THEN 0 ELSE ValidRun(wal, 1, hdrGen, 0)

Hist(kind) ==
  LET destroyed == (hdrGen' # hdrGen \/ (wal' = <<>> /\ wal # <<>>)) /\ Unsynced
      newFile   == Len(l0') > Len(l0)
  IN /\ lostM' = IF newFile THEN FALSE ELSE (lostM \/ destroyed)
     /\ sameSince' = IF newFile THEN FALSE ELSE (sameSince \/ (kind = "same" /\ lostM))
     /\ hz' = hz
          \* F1: stale syncedToWALEnd on a reopened DB object makes a foreign truncation look like litestream's own
          \cup (IF (newFile \/ acked') /\ lostM /\ sameSince /\ Len(wal) < CursorEnd THEN {"F1"} ELSE {})
          \* F2: the WAL was restarted and the new generation is still shorter than the old cursor
          \cup (IF (newFile \/ acked') /\ lostM /\ hdrGen # NoGen /\ hdrGen # CursorGen /\ ValidLen < CursorEnd THEN {"F2"} ELSE {})
          \* G1: a checkpoint failed after its PRAGMA had already destroyed frames that were never copied
          \cup (IF kind = "chkerr" /\ (lostM \/ destroyed) THEN {"G1"} ELSE {})

AppMay == ~AtomicChk \/ pc = "idle"
AppWrite(p)     == AppMay /\ p \in 2..sz /\ AppCommit([pgs |-> <<p>>, n |-> sz]) /\ Hist("app")
AppWrite2(p, q) == AppMay /\ p \in 2..sz /\ q \in 2..sz /\ p < q /\ AppCommit([pgs |-> <<p, q>>, n |-> sz]) /\ Hist("app")
AppGrow         == AppMay /\ sz < MaxPg /\ AppCommit([pgs |-> <<sz + 1>>, n |-> sz + 1]) /\ Hist("app")
AppGrowWrite    == AppMay /\ sz < MaxPg /\ AppCommit([pgs |-> <<2, sz + 1>>, n |-> sz + 1]) /\ Hist("app")
AppShrink       == AppMay /\ sz > 2 /\ AppCommit([pgs |-> <<2>>, n |-> sz - 1]) /\ Hist("app")
AppBeginSpill(p) == AppMay /\ AppSpill(p) /\ Hist("app")
AppCommitTx(p)  == AppMay /\ AppSpillCommit(p) /\ Hist("app")
AppRollbackTx   == AppMay /\ AppRollback /\ Hist("app")
AppCkpt(m)      == AppMay /\ AppCheckpoint(m) /\ Hist("app")
Bump            == LsBump /\ Hist("ls")
Sync            == LsSync /\ Hist("ls")
SyncAndWait     == LsSyncAndWait /\ Hist("ls")
CkStart(m)      == ChkStart(m) /\ Hist("ls")
CkBarrier       == ChkBarrier /\ Hist(IF pc' = "idle" THEN "chkerr" ELSE "ls")
CkRelease       == ChkRelease /\ Hist("ls")
CkPragma        == ChkPragma /\ Hist("ls")
CkCtxCancel     == ChkCtxCancel /\ Hist("chkerr")
CkUnbarrier     == ChkUnbarrier /\ Hist("ls")
CkBump          == ChkBump /\ Hist(IF pc' = "idle" THEN "chkerr" ELSE "ls")
CkFinish        == ChkFinish /\ Hist(IF hdrGen # ck.hdr /\ cmode # "PASSIVE" /\ ~(cmode # "TRUNCATE" /\ ck.logN <= ck.pre) /\ wlock # "none" THEN "chkerr" ELSE "ls")
OpenSame        == LsOpenSameObject /\ Hist("same")
OpenNew         == LsOpenNewProcess /\ Hist("new")
Close           == LsClose /\ Hist("ls")
Crash           == WithCrash /\ LsCrash /\ Hist("ls")
CtxCancel       == LsCtxCancelled /\ Hist("ls")

Next ==
  \/ \E p \in Pages : AppWrite(p)
  \/ \E p \in Pages : \E q \in Pages : AppWrite2(p, q)
  \/ AppGrow \/ AppGrowWrite \/ AppShrink
  \/ \E p \in Pages : AppBeginSpill(p)
  \/ \E p \in Pages : AppCommitTx(p)
  \/ AppRollbackTx
  \/ \E m \in AppModes : AppCkpt(m)
  \/ Bump \/ Sync \/ SyncAndWait
  \/ \E m \in Modes : CkStart(m)
  \/ CkBarrier \/ CkRelease \/ CkPragma \/ CkCtxCancel \/ CkUnbarrier \/ CkBump \/ CkFinish
  \/ OpenSame \/ OpenNew \/ Close \/ Crash \/ CtxCancel

Spec == Init /\ [][Next]_vars

------------------------------------------------------------------------
ApplyLtx(st, f) ==
  [n |-> f.commit,
   pg |-> [p \in Pages |-> IF p > f.commit THEN Absent
                            ELSE IF f.pages[p] # Absent THEN f.pages[p] ELSE st.pg[p]]]

Restored ==
  LET F[i \in 0..rN] ==
        IF i = 0 THEN [n |-> 0, pg |-> EmptyPages] ELSE ApplyLtx(F[i-1], l0[i])
  IN F[rN]

C01raw == acked => /\ Restored.n = Logical.n
                /\ \A p \in Pages \ {SeqPg} : Restored.pg[p] = Logical.pg[p]
\* the as-is design is checked modulo the known findings: any violation whose history has none of their shapes is new
C01 == C01raw \/ hz # {}
NoUncommitted == \A i \in 1..Len(l0) : \A p \in Pages : l0[i].pages[p] \in cvers \cup {Absent}
Decodable == acked => \A p \in Pages : p <= Restored.n => Restored.pg[p] # Absent
=============================================================================

SPECIFICATION Spec
CONSTANTS
  Part = "proto"
  B = 3
  MaxRetries = 3
  MaxFaults = 5
  AllowMissing = TRUE
  ReaderVariant = "asis"
  F = 3
  PB = 2
  ProtoVariant = "sentinel"
  X1Fixed = TRUE
  Collisions = TRUE
INVARIANTS P_ErrorClean P_OkCorrect P_OkMeansNoPre P_NoPartial P_PreUntouched P_NoPanic P_RenameSynced P_DetectableIsError
CHECK_DEADLOCK FALSE

------------------------------ MODULE LockPage ------------------------------
(***************************************************************************)
(* The lock-byte page (the page at the 1 GiB offset) through litestream's   *)
(* page loops, over small page numbers: LockPg is a constant.               *)
(*   SnapPages   writeLTXFromDB   db.go:2288-2333: pages 1..commit, skip    *)
(*               the lock page, WAL version if present else the db file     *)
(*   IncPages    writeLTXFromWAL  db.go:2335-2392: WAL pages + growth fill  *)
(*               prevCommit+1..commit from the db file, skip the lock page  *)
(*   Compose     ltx.Compactor    latest page wins, trim above final size   *)
(*   Decode      DecodeDatabaseTo every page 1..commit except the lock page *)
(*               must be present; the lock page is written empty            *)
(* SQLite itself never stores data on the lock page, so the source's lock   *)
(* page is "empty" (version 0) whenever it lies inside the file.            *)
(* TLC enumerates every (prevCommit, commit, WAL page set) as initial state *)
(* and checks the invariants for a snapshot file, an incremental file on    *)
(* top of it, and their compaction.                                         *)
(***************************************************************************)
EXTENDS Integers, FiniteSets, TLC
CONSTANTS MaxPg, LockPg

Pages == 1..MaxPg
Absent == -1
Empty == 0
VARIABLES c0, c1, walPgs      \* size at the snapshot, size at the incremental sync, pages with frames in the WAL since
vars == <<c0, c1, walPgs>>

\* source page images: version 1 at the snapshot; pages in walPgs have version 2 afterwards; the lock page is empty
Src0(p) == IF p > c0 THEN Absent ELSE IF p = LockPg THEN Empty ELSE 1
Src1(p) == IF p > c1 THEN Absent ELSE IF p = LockPg THEN Empty ELSE IF p \in walPgs \/ p > c0 THEN 2 ELSE 1

Init == /\ c0 \in 1..MaxPg /\ c1 \in 1..MaxPg
        /\ walPgs \in SUBSET ((1..c1) \ {LockPg})      \* SQLite never writes a frame for the lock page
        /\ (c1 > c0 => TRUE)
Next == UNCHANGED vars
Spec == Init /\ [][Next]_vars

SnapPages == [p \in Pages |-> IF p <= c0 /\ p # LockPg THEN Src0(p) ELSE Absent]
IncPages  == [p \in Pages |->
                IF p = LockPg \/ p > c1 THEN Absent
                ELSE IF p \in walPgs THEN 2
                ELSE IF p > c0 THEN Src1(p)          \* growth fill from the database file
                ELSE Absent]
Compose(a, b, commit) == [p \in Pages |-> IF p > commit THEN Absent ELSE IF b[p] # Absent THEN b[p] ELSE a[p]]
Decodable(f, commit) == \A p \in 1..commit : p # LockPg => f[p] # Absent
Restore(f, commit) == [p \in Pages |-> IF p > commit THEN Absent ELSE IF p = LockPg THEN Empty ELSE f[p]]

L1 == Compose(SnapPages, IncPages, c1)
NoLockPageInAnyFile == SnapPages[LockPg] = Absent /\ IncPages[LockPg] = Absent /\ L1[LockPg] = Absent
SnapshotRestores == Decodable(SnapPages, c0) /\ \A p \in Pages : Restore(SnapPages, c0)[p] = Src0(p)
ChainRestores == Decodable(L1, c1) /\ \A p \in Pages : Restore(L1, c1)[p] = Src1(p)
====

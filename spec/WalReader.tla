------------------------------ MODULE WalReader ------------------------------
(***************************************************************************)
(* C09 - only frames SQLite itself treats as committed are ever replicated *)
(*                                                                         *)
(* Function-shaped module (DESIGN 5.5): the declarative statement of what  *)
(* SQLite recovers from a WAL file (Recovered) next to a transcription of  *)
(* wal_reader.go AS IT IS (NewReader / NewReaderAt / ReadFrame / PageMapAt)*)
(* TLC enumerates every abstract WAL up to a bound as an initial state and *)
(* checks transcription |= declarative statement.                          *)
(*                                                                         *)
(* Abstract WAL  w = [hdr, frames]                                         *)
(*   hdr    "ok" | "short" | "magic" | "cksum" | "version"                 *)
(*          = the FIRST test that fails in readHeader (wal_reader.go:94);  *)
(*          SQLite's walIndexRecover applies the tests in the same order   *)
(*   frames sequence of [pg, commit, saltOK, chainOK]                      *)
(*          pg      page number (0 = the value SQLite rejects)             *)
(*          commit  0, or the database size in pages of a commit frame     *)
(*          saltOK  frame salts = header salts                             *)
(*          chainOK stored checksum = checksum(stored checksum of the      *)
(*                  previous frame (header for frame 1), frame hdr[0:8],   *)
(*                  page), in the header's byte order                      *)
(*   A torn tail (partial last frame) is the same as its absence for both  *)
(*   SQLite and the reader (short read => stop); the byte level of it is   *)
(*   exercised by the materialiser (harness/cmd/walreader).                *)
(*   The checksum arithmetic itself is not modelled; the byte meaning of   *)
(*   chainOK is fixed by the materialiser and checked by the SQLite oracle.*)
(* A frame offset is represented by the frame index (offset = 32 + (i-1) * *)
(* frameSize), "end" by the number of frames before it.                    *)
(***************************************************************************)
EXTENDS Integers, Sequences, FiniteSets, TLC

CONSTANTS MaxFrames,   \* bound on the number of frames
          NPages,      \* page numbers 1..NPages, database sizes 1..NPages
          PgMin,       \* 1; 0 adds the page number SQLite treats as an invalid frame
          BothBad,     \* TRUE: also frames failing the salt AND the chain test
          MaxBad,      \* at most this many frames failing a test per WAL (bounds the enumeration only)
          NParts, Part \* shard of the input space checked by this TLC process

VARIABLE wal

Max(S) == CHOOSE x \in S : \A y \in S : y <= x
EmptyMap == [x \in {} |-> 0]
Restrict(f, S) == [x \in S |-> f[x]]
Ran(f) == {f[x] : x \in DOMAIN f}

HdrClasses == {"ok", "short", "magic", "cksum", "version"}
FrameDesc == {f \in [pg : PgMin..NPages, commit : 0..NPages, saltOK : BOOLEAN, chainOK : BOOLEAN] :
                 BothBad \/ f.saltOK \/ f.chainOK}
-----------------------------------------------------------------------------
(***************************************************************************)
(* Declarative: what SQLite recovers (wal.c walIndexRecover/walDecodeFrame;*)
(* file-format doc 4.1-4.3): frames are valid up to the first one whose    *)
(* salts differ from the header, whose page number is 0 or whose checksum  *)
(* does not continue the chain; the WAL ends at the last commit frame of   *)
(* that prefix; a page is read from its last frame at or before that;      *)
(* pages above the committed size do not exist.                            *)
(***************************************************************************)
FrameValid(f) == f.saltOK /\ f.pg # 0 /\ f.chainOK

ValidPrefix(w) ==
  IF w.hdr # "ok" THEN 0
  ELSE Max({n \in 0..Len(w.frames) : \A i \in 1..n : FrameValid(w.frames[i])})

LastCommit(w) == Max({0} \cup {i \in 1..ValidPrefix(w) : w.frames[i].commit # 0})      \* mxFrame

DbSize(w) == IF LastCommit(w) = 0 THEN 0 ELSE w.frames[LastCommit(w)].commit           \* nPage

Recovered(w) ==
  LET mx == LastCommit(w)
      sz == DbSize(w)
      pgs == {p \in {w.frames[i].pg : i \in 1..mx} : p >= 1 /\ p <= sz}
  IN [pages  |-> [p \in pgs |-> Max({i \in 1..mx : w.frames[i].pg = p})],
      commit |-> sz,
      mx     |-> mx]

\* Shape of every WAL SQLite itself writes (and of every prefix / stale-tail / torn variant of one): a commit frame is
\* a page of the database it commits, and a database never grows over a page without writing it (the page is
\* allocated, hence dirty, in the growing transaction).  Needed only where a result depends on what an EARLIER sync
\* already shipped (chunked reading) or on the reader's "nothing new" return value.
WellFormed(w) ==
  LET mx == LastCommit(w) IN
  \A i \in 1..mx : w.frames[i].commit # 0 =>
     /\ w.frames[i].pg <= w.frames[i].commit
     /\ \A j \in (i+1)..mx : w.frames[j].commit # 0 =>
           \A p \in (w.frames[i].commit + 1)..w.frames[j].commit :
              \E k \in (i+1)..j : w.frames[k].pg = p

\* the longest prefix passing the salt and cumulative-checksum tests alone, and its last commit frame
SaltChainPrefix(w) ==
  IF w.hdr # "ok" THEN 0
  ELSE Max({n \in 0..Len(w.frames) : \A i \in 1..n : w.frames[i].saltOK /\ w.frames[i].chainOK})
SaltChainLastCommit(w) == Max({0} \cup {i \in 1..SaltChainPrefix(w) : w.frames[i].commit # 0})

\* Hazard signatures of known findings (known_findings.json).  Both need bytes SQLite never writes (a checksum-valid
\* frame with page number 0; a commit frame whose page lies above the size it commits).
\*   PgnoZero            SQLite ends the WAL at a frame with page number 0 (walDecodeFrame); wal_reader.go has no
\*                       such test and goes on (hazard = such a frame at or before a commit frame the reader accepts).
\*   CommitWithoutPages  every committed page lies above the committed size: the reader returns (empty map, commit 0),
\*                       i.e. "nothing to replicate" (wal_reader.go:250), and the new database size is lost.
H_PgnoZero(w) == \E i \in 1..SaltChainLastCommit(w) : w.frames[i].pg = 0
H_CommitWithoutPages(w) == Recovered(w).commit > 0 /\ DOMAIN Recovered(w).pages = {}
Hazard(w) == H_PgnoZero(w) \/ H_CommitWithoutPages(w)
-----------------------------------------------------------------------------
(***************************************************************************)
(* Transcription of wal_reader.go.                                         *)
(* Reader state r = [frameN, ck]: ck = i means "the running checksum       *)
(* equals the checksum stored in frame i" (0 = in the header), -1 garbage. *)
(***************************************************************************)
\* readHeader, wal_reader.go:94-131 (tests in this order: short :97, magic :102-109, checksum :113-117, version :120)
NewReader(w) ==
  CASE w.hdr = "short"   -> [err |-> "EOF"]
    [] w.hdr = "magic"   -> [err |-> "error"]
    [] w.hdr = "cksum"   -> [err |-> "EOF"]
    [] w.hdr = "version" -> [err |-> "error"]
    [] OTHER             -> [err |-> "", frameN |-> 0, ck |-> 0]

\* readFrame, wal_reader.go:141-198
ReadFrame(w, r, verify) ==
  LET i == r.frameN + 1 IN
  IF i > Len(w.frames) THEN [err |-> "EOF", r |-> r]                                   \* short read :160,:167
  ELSE LET f == w.frames[i] IN
       IF ~f.saltOK THEN [err |-> "EOF", r |-> r]                                      \* :171-175
       ELSE IF verify /\ ~(r.ck = i - 1 /\ f.chainOK)
            THEN [err |-> "EOF", r |-> [r EXCEPT !.ck = -1]]                           \* :181-187 (state already overwritten)
            ELSE [err |-> "", r |-> [err |-> "", frameN |-> i, ck |-> i],              \* :189,:195 (no test of pgno)
                  pg |-> f.pg, commit |-> f.commit]

\* NewWALReaderWithOffset, wal_reader.go:45-79; k = number of frames before the offset (k >= 1); the salts handed in
\* are those of the header (db.go:1706 takes them from the previous LTX file of the same WAL generation).
\* db.go:2058-2065: on PrevFrameMismatchError fall back to the beginning of the WAL.
NewReaderAt(w, k) ==
  LET h == NewReader(w) IN
  IF h.err # "" THEN [err |-> "error"]                                                  \* :56
  ELSE LET x == ReadFrame(w, [err |-> "", frameN |-> k - 1, ck |-> -1], FALSE) IN       \* :70-71
       IF x.err # "" THEN [err |-> "prevframe"] ELSE x.r
OpenAt(w, k) ==
  IF k = 0 THEN NewReader(w)
  ELSE LET r == NewReaderAt(w, k) IN IF r.err = "prevframe" THEN NewReader(w) ELSE r

\* pageMap loop, wal_reader.go:213-240.  L = maxBytes in frames (0 = unlimited).
RECURSIVE Loop(_, _, _, _, _, _, _)
Loop(w, r, m, tx, commit, start, L) ==
  LET x == ReadFrame(w, r, TRUE) IN
  IF x.err # "" THEN [m |-> m, commit |-> commit, limited |-> FALSE]                   \* :215-216 break
  ELSE LET tx2 == (x.pg :> x.r.frameN) @@ tx IN                                        \* :224
       IF x.commit # 0
       THEN LET m2 == tx2 @@ m IN                                                      \* :227-231
            IF L > 0 /\ x.r.frameN - start >= L                                        \* :234 only at commit frames
            THEN [m |-> m2, commit |-> x.commit, limited |-> TRUE]
            ELSE Loop(w, x.r, m2, EmptyMap, x.commit, start, L)
       ELSE Loop(w, x.r, m, tx2, commit, start, L)

\* pageMap, wal_reader.go:207-269, from a reader positioned after k frames
PageMapFrom(w, r, L) ==
  IF r.err # "" THEN [res |-> r.err, m |-> EmptyMap, end |-> 0, commit |-> 0, limited |-> FALSE]
  ELSE LET c  == Loop(w, r, EmptyMap, EmptyMap, 0, r.frameN, L)
           m3 == Restrict(c.m, {p \in DOMAIN c.m : ~(p > c.commit)})                   \* :243-247
       IN IF DOMAIN m3 = {}
          THEN [res |-> "ok", m |-> EmptyMap, end |-> 0, commit |-> 0, limited |-> c.limited]   \* :250-252
          ELSE [res |-> "ok", m |-> m3, end |-> Max(Ran(m3)), commit |-> c.commit, limited |-> c.limited]  \* :255-264

PageMapT(w) == PageMapFrom(w, NewReader(w), 0)                                         \* WALReader.PageMap

\* db.go:1222-1235 + 2080-2095 + 1705: sync in chunks of at most L frames; a chunk that finds nothing ends the loop
\* and leaves the offset where it was; otherwise the next chunk starts at maxOffset.  acc = what has been shipped.
Ship(acc, c) == [m |-> c.m @@ acc.m, commit |-> c.commit]
Shipped0 == [m |-> EmptyMap, commit |-> 0]
Final(acc) == [m |-> Restrict(acc.m, {p \in DOMAIN acc.m : p <= acc.commit}), commit |-> acc.commit]
RECURSIVE Chain(_, _, _, _)
Chain(w, k, L, acc) ==
  LET c == PageMapFrom(w, OpenAt(w, k), L) IN
  IF c.res # "ok" \/ c.end = 0 THEN acc
  ELSE IF c.limited THEN Chain(w, c.end, L, Ship(acc, c)) ELSE Ship(acc, c)

Prefix(w, j) == [w EXCEPT !.frames = SubSeq(w.frames, 1, j)]
\* the WAL had j frames at the first sync, all of them at the second
Grow(w, j) ==
  LET a == PageMapFrom(Prefix(w, j), NewReader(Prefix(w, j)), 0)
      k == IF a.res = "ok" THEN a.end ELSE 0
      b == PageMapFrom(w, OpenAt(w, k), 0)
      acc1 == IF a.res = "ok" /\ a.end # 0 THEN Ship(Shipped0, a) ELSE Shipped0
  IN IF b.res = "ok" /\ b.end # 0 THEN Ship(acc1, b) ELSE acc1
-----------------------------------------------------------------------------
\* Properties (R1: checked on every enumerated WAL)
Shipped(c) == [m |-> c.m, commit |-> c.commit]

\* the one-shot page map is exactly what SQLite recovers: the same pages from the same frames, the same size
StrictOneShotIsRecoveredP(w, one, rec) ==
  /\ one.m = rec.pages
  /\ one.commit = rec.commit
  /\ (one.res # "ok" => w.hdr # "ok")
OneShotIsRecoveredP(w, one, rec) == ~Hazard(w) => StrictOneShotIsRecoveredP(w, one, rec)
\* on SQLite-shaped WALs maxOffset is the end of the last commit frame
CommitExactP(w, one, rec) == (WellFormed(w) /\ ~Hazard(w)) => (one.commit = rec.commit /\ one.end = rec.mx)
\* nothing from a frame that fails the salt/checksum test, follows such a frame or follows the last commit
NothingFromInvalidP(w, m) == LET lc == SaltChainLastCommit(w) IN \A p \in DOMAIN m : m[p] <= lc
NoPageAboveCommitP(one) == \A p \in DOMAIN one.m : p <= one.commit
\* chunked reading composes, for every limit, along the chain of offsets the reader itself produces, and a resumed
\* reader never accepts a frame SQLite would not
ChunksComposeP(w, one) ==
  LET wf == WellFormed(w) /\ ~Hazard(w) IN
  \A L \in 1..Len(w.frames) :
     LET a == Chain(w, 0, L, Shipped0) IN
     /\ wf => Final(a) = Shipped(one)
     /\ NothingFromInvalidP(w, a.m)
\* two syncs with the WAL growing in between compose
GrowthComposesP(w, one) ==
  LET wf == WellFormed(w) /\ ~Hazard(w) IN
  \A j \in 0..Len(w.frames) :
     LET a == Grow(w, j) IN
     /\ wf => Final(a) = Shipped(one)
     /\ NothingFromInvalidP(w, a.m)

One == PageMapT(wal)
Rec == Recovered(wal)
OneShotIsRecovered == OneShotIsRecoveredP(wal, One, Rec)
StrictOneShotIsRecovered == StrictOneShotIsRecoveredP(wal, One, Rec)   \* expected to fail exactly on Hazard
HazardIsReal == Hazard(wal) => ~StrictOneShotIsRecoveredP(wal, One, Rec)   \* the signatures do not mask more than the deviation
CommitExact        == CommitExactP(wal, One, Rec)
NothingFromInvalid == NothingFromInvalidP(wal, One.m)
NoPageAboveCommit  == NoPageAboveCommitP(One)
ChunksCompose      == ChunksComposeP(wal, One)
GrowthComposes     == GrowthComposesP(wal, One)
-----------------------------------------------------------------------------
\* dense index of a frame descriptor in 0..Cardinality(FrameDesc)-1
Cls(f) == IF f.saltOK /\ f.chainOK THEN 0 ELSE IF f.chainOK THEN 1 ELSE IF f.saltOK THEN 2 ELSE 3
Idx(f) == (Cls(f) * (NPages + 1) + f.commit) * (NPages + 1 - PgMin) + (f.pg - PgMin)
NFD == Cardinality(FrameDesc)
\* Shard = function of the first two frames.  Shard 0 additionally takes the WALs with fewer than two frames and the
\* header classes other than "ok" (they make the frames irrelevant: enumerated with up to 2 frames only).
GoodD == {f \in FrameDesc : f.saltOK /\ f.chainOK}
BadD  == FrameDesc \ GoodD
NBad(f) == IF f \in BadD THEN 1 ELSE 0
Init ==
  \/ /\ Part = 0
     /\ \E h \in HdrClasses : \E n \in 0..(IF MaxFrames < 2 THEN MaxFrames ELSE 2) : \E fs \in [1..n -> FrameDesc] :
          /\ (h = "ok" => n < 2)
          /\ wal = [hdr |-> h, frames |-> fs]
  \/ \E f1 \in FrameDesc : \E f2 \in FrameDesc :
       /\ (Idx(f1) * NFD + Idx(f2)) % NParts = Part
       /\ NBad(f1) + NBad(f2) <= MaxBad
       /\ \E n \in 2..MaxFrames : \E Bs \in SUBSET (3..n) :
            /\ Cardinality(Bs) + NBad(f1) + NBad(f2) <= MaxBad
            /\ \E bad \in [Bs -> BadD] : \E good \in [(3..n) \ Bs -> GoodD] :
                 wal = [hdr |-> "ok", frames |-> [i \in 1..n |-> IF i = 1 THEN f1 ELSE IF i = 2 THEN f2
                                                                 ELSE IF i \in Bs THEN bad[i] ELSE good[i]]]
Next == UNCHANGED wal
Spec == Init /\ [][Next]_wal
=============================================================================

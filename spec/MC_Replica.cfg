SPECIFICATION Spec
CONSTANTS NSync=3 MaxClock=3 RetentionEnabled=TRUE
INVARIANTS Restorable SnapshotKept L0Run LevelContig
CHECK_DEADLOCK FALSE

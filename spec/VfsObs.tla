------------------------------ MODULE VfsObs ------------------------------
(***************************************************************************)
(* The judge for C18: the property evaluated on what the REAL VFSFile       *)
(* served (harness/cmd/vfsdrv).  Nothing of Vfs.tla's transition relation   *)
(* is assumed: every value is read from the recorded trace.                 *)
(* Log lines: [t, i, op, arg, res, obs, opened, locked, tt, pos, max1,      *)
(*   prevPos, prevMax1, view, openI, openPos, plan, size, sizeRem, pg,      *)
(*   refOK, refErr, refN, ref, commits, remote, new, readErr]               *)
(*   pg[p]  = id of the page the VFS served for page p (page 1 with bytes   *)
(*            18-19, 24-27 masked); 0 = "page not found", -1 = read error   *)
(*   ref[p] = id of page p of the real Replica.Restore at TXID = view (or   *)
(*            at the time-travel timestamp), masked the same way            *)
(* A false invariant prints <<"VERDICT", name, l, t, i>>; the name carries  *)
(* the shapes of the known findings that the history up to l matches        *)
(* (suffix _V1 _V2 _V3 _V4), so known findings are identified by shape.     *)
(***************************************************************************)
EXTENDS Integers, Sequences, FiniteSets, TLC, Json

Log == ndJsonDeserialize("vfs_trace.ndjson")

VARIABLE l
Init == l = 1
Next == l < Len(Log) /\ l' = l + 1
Spec == Init /\ [][Next]_l

cur == Log[l]
Judged == cur.obs /\ cur.refOK
Polled == cur.op \in {"Open", "Poll", "TT", "TTReset"} /\ cur.res = "ok"

\* Every page of the restored database is served with the restored content.  The kinds of violation are told apart
\* (the table in Vfs.tla / c18.py says which known finding may explain which kind):
\*   ServedMissing  the VFS has no index entry for the page ("page not found")
\*   ServedStale    it serves other bytes than the restore (or a short read)
\*   Available      right after a successful open / poll a page cannot be fetched (its file is gone)
\*   SizeBig/Small  FileSize # commit x page size (not judged while a reader pins an older view: FileSize counts
\*                  pending pages)
ServedMissing_ == Judged => \A p \in 1..cur.refN : p <= Len(cur.pg) => cur.pg[p] # 0
ServedStale_ == Judged => \A p \in 1..cur.refN : p <= Len(cur.pg) /\ (cur.pg[p] = cur.ref[p] \/ cur.pg[p] \in {0, -1})
Available_ == (Judged /\ Polled /\ ~cur.locked) => \A p \in 1..cur.refN : p > Len(cur.pg) \/ cur.pg[p] # -1
SizeBig_ == (Judged /\ ~cur.locked) => (cur.size <= cur.refN /\ cur.sizeRem = 0)
SizeSmall_ == (Judged /\ ~cur.locked) => cur.size >= cur.refN
\* a time-travel view (SetTargetTime) is the timestamp restore for that time
TimeTravelView_ == (Judged /\ cur.op = "TT" /\ cur.res = "ok") =>
  (cur.size = cur.refN /\ \A p \in 1..cur.refN : p <= Len(cur.pg) /\ cur.pg[p] = cur.ref[p])

\* ---- shapes of the known findings, over the observed history of this trace
EvAt(i) == Log[l - (cur.i - i)]                       \* event i of the current trace (events of a trace are contiguous)
CommitOf(k) == IF k >= 1 /\ k <= Len(cur.commits) THEN cur.commits[k] ELSE 0
\* V1: the database shrank between the TXID the index was built at and the TXID the VFS reports
HzV1_ == \E k \in (cur.openPos + 1)..cur.pos : k >= 2 /\ CommitOf(k) < CommitOf(k - 1)
\* V2: the index was built (Open / time travel) from a plan with a file whose commit exceeds the final commit
HzV2_ == Len(cur.plan) > 0 /\ \E j \in 1..Len(cur.plan) : CommitOf(cur.plan[j][3]) > CommitOf(cur.plan[Len(cur.plan)][3])
\* V3: one poll since the index was built consumed a level-1 file and a level-0 file newer than it
L0Set(e) == {e.remote[j][2] : j \in {x \in 1..Len(e.remote) : e.remote[x][1] = 0}}
L1Idx(e) == {x \in 1..Len(e.remote) : e.remote[x][1] = 1}
R0Max(e) == CHOOSE m \in e.prevPos..(e.prevPos + Len(e.remote)) :
              (\A j \in (e.prevPos + 1)..m : j \in L0Set(e)) /\ (m + 1) \notin L0Set(e)
MixAt(e) == e.op = "Poll" /\ e.opened /\ e.res = "ok" /\
            \E x \in L1Idx(e) : e.remote[x][2] > e.prevMax1 /\ R0Max(e) > e.remote[x][3]
HzV3_ == \E i \in (cur.openI + 1)..cur.i : MixAt(EvAt(i))
\* V4: the index was built from a plan without a level-1 file (level-1 cursor seeded from the position)
HzV4_ == Len(cur.plan) > 0 /\ \A j \in 1..Len(cur.plan) : cur.plan[j][1] # 1

Shape == (IF HzV1_ THEN "_V1" ELSE "") \o (IF HzV2_ THEN "_V2" ELSE "") \o
         (IF HzV3_ THEN "_V3" ELSE "") \o (IF HzV4_ THEN "_V4" ELSE "")
-----------------------------------------------------------------------------
V(name, ok) == ok \/ PrintT(<<"VERDICT", name \o Shape, l, cur.t, cur.i>>)
ServedMissing == V("ServedMissing", ServedMissing_)
ServedStale == V("ServedStale", ServedStale_)
Available == V("Available", Available_)
SizeBig == V("SizeBig", SizeBig_)
SizeSmall == V("SizeSmall", SizeSmall_)
TimeTravelView == V("TimeTravelView", TimeTravelView_)
====

SPECIFICATION Spec
CONSTANTS NSync=5 MaxFaults=4
INVARIANTS L0Gapless AckStored Restorable
CHECK_DEADLOCK FALSE

SPECIFICATION Spec
CONSTANTS
  MaxPg = 4
  MaxTx = 8
  MaxL1 = 3
  FixV1 = FALSE
  FixV2 = FALSE
  FixV3 = FALSE
  FixV4 = FALSE
  WithLock = TRUE
  WithRet = TRUE
  WithSnap = TRUE
  WithTT = TRUE

CHECK_DEADLOCK FALSE

---------------------------- MODULE RestoreObs ----------------------------
(***************************************************************************)
(* The judge for C10: the property evaluated on what the REAL              *)
(* Replica.Restore did (harness/cmd/restorefault), one log line per        *)
(* restore of a replica with one corruption / one read-fault schedule:     *)
(*   [t, i, rep, kind, file, off, mask, integ, pre, nf, cls,               *)
(*    res \in {"ok","error","panic"}, errc, msg, outExists, sideLeft,      *)
(*    tmpExists,                                                           *)
(*    out, ref (page ids), preSame, outDuring,                             *)
(*    opens = <<  <<plan file, offset asked, bytes that stream delivered,  *)
(*    killed by an injected fault>> ... >> in call order,                  *)
(*    exp, detectable, mustErr, ms]                                        *)
(* Nothing of Restore.tla is assumed: every value is read from the log.    *)
(***************************************************************************)
EXTENDS Integers, Sequences, FiniteSets, TLC, Json

Log == ndJsonDeserialize("restore_obs.ndjson")

VARIABLE l
Init == l = 1
Next == l < Len(Log) /\ l' = l + 1
Spec == Init /\ [][Next]_l

cur == Log[l]
Returned == cur.res \in {"ok", "error"}

\* a crash is not an error report (finding X1 lives here)
NoPanic_ == cur.res # "panic"

\* never success with different content: success => the output exists and equals the reference page by page.
\* (cur.detectable is FALSE only for an input whose every integrity tag is valid and no SQLite check was asked for.)
NoSilentWrong_ == (cur.res = "ok" /\ cur.detectable) => (cur.outExists /\ cur.out = cur.ref)

\* a missing plan file / no restorable plan / an existing output path can only end in an error
MustFail_ == (Returned /\ cur.mustErr) => cur.res = "error"

\* no file at the output path after an error (this includes: a failed integrity check removes the output)
\* and no <output>-wal / <output>-shm left beside it (sideLeft)
NoFileAfterError_ == (cur.res = "error" /\ ~cur.pre) => (~cur.outExists /\ ~cur.sideLeft)

\* restore never overwrites an existing output path
PreexistingUntouched_ == (Returned /\ cur.pre) => (cur.res = "error" /\ cur.outExists /\ cur.preSame)

\* nothing appears at the output path while plan files are still being read (no partial file is ever exposed there)
NoOutputBeforeComplete_ == ~cur.outDuring

\* transparent retry delivers exactly the original bytes: a stream of a plan file that replaces one killed by an
\* injected fault is opened at the first byte the earlier streams of that file have not delivered (no duplicate, no
\* skipped byte on resume).  opens[j] = <<file, offset, delivered, faulted>>.
PrevOpens(o, j) == {i \in 1..(j - 1) : o[i][1] = o[j][1]}
MaxOf(S) == CHOOSE x \in S : \A y \in S : y <= x
ResumeExact_ ==
  LET o == cur.opens IN
  \A j \in 1..Len(o) :
    LET P == PrevOpens(o, j) IN
    (P # {}) =>
      LET i == MaxOf(P) IN (o[i][4] = 1) => (o[j][2] = o[i][2] + o[i][3])
-----------------------------------------------------------------------------
V(name, ok) == ok \/ PrintT(<<"VERDICT", name, l, cur.t, cur.i>>)
NoPanic == V("NoPanic", NoPanic_)
NoSilentWrong == V("NoSilentWrong", NoSilentWrong_)
MustFail == V("MustFail", MustFail_)
NoFileAfterError == V("NoFileAfterError", NoFileAfterError_)
PreexistingUntouched == V("PreexistingUntouched", PreexistingUntouched_)
NoOutputBeforeComplete == V("NoOutputBeforeComplete", NoOutputBeforeComplete_)
ResumeExact == V("ResumeExact", ResumeExact_)
=============================================================================

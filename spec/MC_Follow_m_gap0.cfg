SPECIFICATION SpecF
CONSTANTS NSync=3 MaxClock=1 RetentionEnabled=TRUE Fine=FALSE Variant="m_gap0" Fixes={}
INVARIANTS NeverAhead NoSkip SidecarAfterApply Converges NoStallH ResumeAcceptedH ResumeAfterKillH
CHECK_DEADLOCK FALSE

SPECIFICATION Spec
CONSTANTS
  Part = "proto"
  B = 3
  MaxRetries = 3
  MaxFaults = 5
  AllowMissing = TRUE
  ReaderVariant = "asis"
  F = 3
  PB = 2
  ProtoVariant = "asis"
  X1Fixed = FALSE
  Collisions = TRUE
INVARIANTS P_NoPanic
CHECK_DEADLOCK FALSE

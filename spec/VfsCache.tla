------------------------------ MODULE VfsCache ------------------------------
(***************************************************************************)
(* The page cache of the VFS read replica (vfs.go) next to its page index   *)
(* and pending index: who invalidates what, and when.                       *)
(*                                                                         *)
(* Vfs.tla decides that the INDEX describes the restore of the reported     *)
(* TXID; pages are served through an LRU cache in front of the index        *)
(* (ReadAt vfs.go:1474/1539), so what is served is right only if a cached   *)
(* page is always the one the index points to.  This module abstracts the   *)
(* index to "the version of page p it points to":                           *)
(*   idx[p]    version the main index points to                             *)
(*   pend[p]   version parked in the pending index (None = no entry)        *)
(*   lock      a reader holds the shared lock (polls park their updates)    *)
(*   cache[p]  version held by the cache (None = not cached)                *)
(*   rd[p]     a ReadAt of page p that has looked its element up and has    *)
(*             not added its data to the cache yet (None = none in flight)  *)
(* Actions are the code's critical sections:                                *)
(*   PollApply(S)   pollReplicaClient vfs.go:2563-2604 for updated pages S  *)
(*   PollReplace(S) the same with replaceIndex                              *)
(*   Lock, Unlock   vfs.go:2242-2287 (merge or replace + invalidation)      *)
(*   ReadHit(p) / ReadLookup(p) / ReadFill(p)   ReadAt                      *)
(* Variant = "asis" is the code; "dropAtPoll" is the seeded change C18b     *)
(* (invalidate when the update is polled, also when it is only parked, and  *)
(* not at unlock); "noRecheck" is the code before the repair of finding V5  *)
(* (ReadAt cached what it had fetched without looking at the index again).  *)
(* Both are kept as negative controls.                                      *)
(* UnlockedReads = FALSE: pages are read under the shared lock only; TRUE   *)
(* also lets a ReadAt run with no lock held next to a poll (SQLite reads    *)
(* the header page like that when it opens the file).                       *)
(***************************************************************************)
EXTENDS Integers, FiniteSets, TLC
CONSTANTS MaxPg, MaxVer, Variant, UnlockedReads
Pages == 1..MaxPg
None == 0
VARIABLES idx, pend, pendRepl, lock, cache, rd, ver, lockView
vars == <<idx, pend, pendRepl, lock, cache, rd, ver, lockView>>

Init == /\ idx = [p \in Pages |-> 1] /\ pend = [p \in Pages |-> None] /\ pendRepl = FALSE /\ lock = FALSE
        /\ cache = [p \in Pages |-> None] /\ rd = [p \in Pages |-> None] /\ ver = 1
        /\ lockView = [p \in Pages |-> None]

\* a poll found new versions of the pages in S (one new version number per poll)
PollApply(S) ==
  /\ S # {} /\ ver < MaxVer /\ ver' = ver + 1
  /\ IF lock
       THEN /\ pend' = [p \in Pages |-> IF p \in S THEN ver + 1 ELSE pend[p]]
            /\ cache' = IF Variant = "dropAtPoll" THEN [p \in Pages |-> IF p \in S THEN None ELSE cache[p]] ELSE cache
            /\ UNCHANGED <<idx, pendRepl>>
       ELSE /\ idx' = [p \in Pages |-> IF p \in S THEN ver + 1 ELSE idx[p]]
            /\ cache' = [p \in Pages |-> IF p \in S THEN None ELSE cache[p]]         \* vfs.go:2600
            /\ pendRepl' = FALSE /\ UNCHANGED pend
  /\ UNCHANGED <<lock, rd, lockView>>

\* replaceIndex: the polled files describe the whole database (every page gets the new version)
PollReplace ==
  /\ ver < MaxVer /\ ver' = ver + 1
  /\ IF lock
       THEN /\ pend' = [p \in Pages |-> ver + 1] /\ pendRepl' = TRUE
            /\ cache' = IF Variant = "dropAtPoll" THEN [p \in Pages |-> None] ELSE cache
            /\ UNCHANGED idx
       ELSE /\ idx' = [p \in Pages |-> ver + 1] /\ pendRepl' = FALSE
            /\ cache' = [p \in Pages |-> None] /\ UNCHANGED pend
  /\ UNCHANGED <<lock, rd, lockView>>

Lock == /\ ~lock /\ lock' = TRUE /\ lockView' = idx
        /\ UNCHANGED <<idx, pend, pendRepl, cache, rd, ver>>

\* (the connection that holds the lock is the one that reads: it unlocks after its reads have returned)
Unlock ==
  /\ lock /\ (~UnlockedReads => \A p \in Pages : rd[p] = None)
  /\ lock' = FALSE /\ lockView' = [p \in Pages |-> None]
  /\ idx' = [p \in Pages |-> IF pend[p] # None THEN pend[p] ELSE idx[p]]
  /\ cache' = IF Variant = "dropAtPoll" THEN cache
              ELSE IF pendRepl THEN [p \in Pages |-> None]                          \* vfs.go:2274
              ELSE [p \in Pages |-> IF pend[p] # None THEN None ELSE cache[p]]      \* vfs.go:2280
  /\ pend' = [p \in Pages |-> None] /\ pendRepl' = FALSE
  /\ UNCHANGED <<rd, ver>>

MayRead == lock \/ UnlockedReads
\* ReadAt, cache hit: served from the cache
ReadHit(p) == MayRead /\ cache[p] # None /\ UNCHANGED vars
\* ReadAt, cache miss: the element is looked up under f.mu ...
ReadLookup(p) == /\ MayRead /\ cache[p] = None /\ rd[p] = None
                 /\ rd' = [rd EXCEPT ![p] = idx[p]]
                 /\ UNCHANGED <<idx, pend, pendRepl, lock, cache, ver, lockView>>
\* ... the page is fetched with no lock held, and added to the cache
\* (only if the index still points at the element that was fetched: vfs.go ReadAt, repair of V5)
ReadFill(p) == /\ rd[p] # None
               /\ cache' = IF Variant = "noRecheck" \/ idx[p] = rd[p] THEN [cache EXCEPT ![p] = rd[p]] ELSE cache
               /\ rd' = [rd EXCEPT ![p] = None]
               /\ UNCHANGED <<idx, pend, pendRepl, lock, ver, lockView>>

Next == \/ \E S \in SUBSET Pages : PollApply(S)
        \/ PollReplace \/ Lock \/ Unlock
        \/ \E p \in Pages : ReadLookup(p) \/ ReadFill(p)
Spec == Init /\ [][Next]_vars

\* what a ReadAt of page p returns now
Served(p) == IF cache[p] # None THEN cache[p] ELSE idx[p]
\* C18 (cache clause): with no read in flight, every page is served in the version the index points to
CacheCoherent == \A p \in Pages : (rd[p] = None /\ cache[p] # None) => cache[p] = idx[p]
\* a reader under the shared lock keeps the view it locked
ReaderViewStable == lock => \A p \in Pages : Served(p) = lockView[p] \/ rd[p] # None
====

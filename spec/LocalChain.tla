------------------------------ MODULE LocalChain ------------------------------
(***************************************************************************)
(* Reconciliation of litestream's LOCAL level-0 chain with the chain on the *)
(* REPLICA (db.go newSyncExecutor / checkDatabaseBehindReplica / Pos cache, *)
(* replica.go syncOnce), abstracted to what matters for C04: every level-0  *)
(* file is [id, parent] - `parent` is the file it was computed on top of    *)
(* (verify() proves continuity against the newest local file only).         *)
(*   loc      local files by TXID (a sequence; Len = local position)        *)
(*   rem      files on the replica by TXID                                  *)
(*   cache    cached local position (0 = invalid: recomputed from `loc`)    *)
(*   last     highest TXID a sync of this process has seen (db.lastTXID)    *)
(*   up       litestream is running; inited: init() has run in this process *)
(*   acked    the last step was an acknowledged sync                        *)
(*   snap     the newest level-9 snapshot on the replica: [max, id] = the   *)
(*            state of file `id`, advertised as covering TXIDs 1..max       *)
(* Actions: Start (init: compares with the replica once), Stop, Sync (one   *)
(* new file on top of the file at the position), Upload (syncOnce: files    *)
(* above the replica position), Ack (sync + upload), LocalLoss (the newest  *)
(* k local files vanish, while running or while down), Reset (the whole     *)
(* local state vanishes: ResetLocalState / auto-recover), Invalidate (the   *)
(* cached position is dropped: level-0 retention, re-enable), Snapshot      *)
(* (DB.Snapshot: a level-9 file for the local position).                    *)
(* Variant: "asis" = the code now; "zeroOnly" = before the repair of S2      *)
(* (re-check only at position zero); "initOnly" = before the repair of F3   *)
(* (re-check only in init); "snapAhead" = before the repair of S3 (a        *)
(* snapshot may be written ahead of the level-0 uploads).  The last three   *)
(* are negative controls.                                                   *)
(***************************************************************************)
EXTENDS Integers, Sequences, TLC
CONSTANTS MaxTx, MaxId, Variant

VARIABLES loc, rem, cache, last, up, inited, acked, nextId, snap
vars == <<loc, rem, cache, last, up, inited, acked, nextId, snap>>

Init == /\ loc = <<>> /\ rem = <<>> /\ cache = 0 /\ last = 0 /\ up = FALSE /\ inited = FALSE /\ acked = FALSE /\ nextId = 1 /\ snap = [max |-> 0, id |-> 0]

\* DB.Pos(): the cached value, or the newest file found on disk
Pos == IF cache # 0 THEN cache ELSE Len(loc)
\* checkDatabaseBehindReplica: a local position behind the replica's -> drop the local files, fetch the replica's newest file
Behind(l) == IF Len(l) < Len(rem) THEN rem ELSE l
\* the file a sync adds: fresh content on top of whatever local file the position points at (a snapshot when there is none)
NewFile(l) == [id |-> nextId, parent |-> IF Len(l) = 0 THEN 0 ELSE l[Len(l)].id]

Start == /\ ~up /\ up' = TRUE /\ inited' = FALSE /\ cache' = 0 /\ last' = 0 /\ acked' = FALSE
         /\ UNCHANGED <<loc, rem, nextId, snap>>
Stop  == /\ up /\ up' = FALSE /\ acked' = FALSE /\ UNCHANGED <<loc, rem, cache, last, inited, nextId, snap>>

\* newSyncExecutor (+ init on the first sync of the process) followed by verify/sync
\* a cached position that points at a vanished file makes verify() fail loudly: no step
SyncStep(ack) ==
  /\ up /\ Len(loc) < MaxTx /\ nextId <= MaxId
  /\ Pos <= Len(loc)
  /\ LET cut == SubSeq(loc, 1, Pos)                                   \* files above the position are overwritten
         recheck == \/ ~inited                                          \* init()
                    \/ Variant \in {"asis", "snapAhead"} /\ (Pos = 0 \/ Pos < last)
                    \/ Variant = "zeroOnly" /\ Pos = 0
         base == IF recheck THEN Behind(cut) ELSE cut
         new  == Append(base, NewFile(base))
     IN /\ loc' = new /\ cache' = Len(new) /\ last' = Len(new) /\ inited' = TRUE /\ nextId' = nextId + 1
        /\ rem' = IF ack /\ Len(new) > Len(rem) THEN rem \o SubSeq(new, Len(rem) + 1, Len(new)) ELSE rem
        /\ acked' = ack
  /\ UNCHANGED <<up, snap>>
Sync == SyncStep(FALSE)
Ack  == SyncStep(TRUE)

LocalLoss(k) == /\ k \in 1..Len(loc) /\ loc' = SubSeq(loc, 1, Len(loc) - k) /\ acked' = FALSE
                /\ UNCHANGED <<rem, cache, last, up, inited, nextId, snap>>
Reset == /\ up /\ loc' = <<>> /\ cache' = 0 /\ acked' = FALSE /\ UNCHANGED <<rem, last, up, inited, nextId, snap>>
Invalidate == /\ up /\ cache # 0 /\ cache' = 0 /\ acked' = FALSE /\ UNCHANGED <<loc, rem, last, up, inited, nextId, snap>>
\* DB.Snapshot: a level-9 file with the state of the file at the local position; as the code is now the level-0 files up to that
\* position are uploaded first
Snapshot == /\ up /\ inited /\ Pos >= 1 /\ Pos <= Len(loc)
            /\ snap' = [max |-> Pos, id |-> loc[Pos].id]
            /\ rem' = IF Variant # "snapAhead" /\ Pos > Len(rem) THEN rem \o SubSeq(loc, Len(rem) + 1, Pos) ELSE rem
            /\ acked' = FALSE /\ UNCHANGED <<loc, cache, last, up, inited, nextId>>

Next == Start \/ Stop \/ Sync \/ Ack \/ Reset \/ Invalidate \/ Snapshot \/ \E k \in 1..MaxTx : LocalLoss(k)
Spec == Init /\ [][Next]_vars

\* C04: the replica is ONE chain (every file was computed on top of the file before it, or is a snapshot) ...
OneChain == \A i \in 2..Len(rem) : rem[i].parent = rem[i-1].id \/ rem[i].parent = 0
\* ... and an acknowledged sync means the replica ends with the file that sync produced
AckMeansStored == acked => (Len(rem) = Len(loc) /\ rem[Len(rem)].id = loc[Len(loc)].id)
\* ... and a restore of the latest state (newest snapshot, then the level-0 files above it) returns that file's state
RestoredId == IF Len(rem) > snap.max THEN rem[Len(rem)].id ELSE snap.id
AckMeansRestorable == acked => RestoredId = loc[Len(loc)].id
\* a snapshot is the state of the replica's own file at the position it advertises
SnapshotOnChain == snap.max > 0 => (snap.max <= Len(rem) /\ rem[snap.max].id = snap.id)
====

------------------------------ MODULE Trace_Concurrency ------------------------------
(***************************************************************************)
(* Trace validation for Concurrency.tla: the hook events recorded from REAL *)
(* goroutines running Store.SyncDB / DisableDB / EnableDB / DB.Snapshot     *)
(* against one DB (Par blocks of harness/core/par.go: one line per          *)
(* scheduling step, written while every goroutine is parked at a hook) must *)
(* be a behaviour of the model.  Each hook is the linearisation point of    *)
(* one model action; actions without a hook are silent steps TLC may take   *)
(* between two lines; the observed IsOpen() flag is bound on every line.    *)
(* A log the model cannot follow is a DIVERGENCE (reported, not a verdict): *)
(* the runner reads the high-water mark of l.                               *)
(*   line = [t, p, kind, hook, open, bind]   kind: reset | at | done | other *)
(*   bind = the IsOpen() flag could be sampled at that line                 *)
(***************************************************************************)
EXTENDS Concurrency, Sequences, Json

Log == ndJsonDeserialize("conc_trace.ndjson")
VARIABLE l
tvars == <<vars, l>>
cur == Log[l]
SyncP == {"syncdb", "syncdb2"}

TInit == Init /\ l = 1 /\ TLCSet(1, 0)

\* actions that have no hook of their own
Silent(p) ==
  \/ (p \in SyncP /\ ~opened /\ SyncCheck(p))          \* ErrDatabaseNotOpen: returns before any hook
  \/ SyncInit(p) \/ SyncCopyEnd(p) \/ SyncChkReacq(p) \/ SyncUnlock(p)
  \/ (SyncChk(p) /\ pc'[p] = "s_unlock")              \* no checkpoint needed / TryLock failed
  \/ (p = "disable" /\ ~opened /\ CloseCheck(p)) \/ CloseRelease(p) \/ CloseUnlock(p)
  \/ EnableCheck(p) \/ EnableOpen(p)
  \/ SnapDone(p)
  \/ CompCheck(p) \/ CompDone(p)
SilentStep == /\ l <= Len(Log) /\ cur.kind # "reset"
              /\ \E p \in Procs : Silent(p) /\ hz' = hz \cup (IF pc[p] = "s_lock" /\ ~opened THEN {"Z1"} ELSE {})
                                 /\ (pc[p] \in {"s_init", "s_chk_reacq", "s_unlock"} \/ UNCHANGED rtxBy)
                                 /\ (p = "compact" \/ UNCHANGED inComp)
                                 /\ (pc[p] \in {"s_init", "e_open"} \/ UNCHANGED raced)
              /\ UNCHANGED l

Hooked(p, h) ==
  CASE h = "store.syncdb.checked"  -> p \in SyncP /\ opened /\ SyncCheck(p)
    [] h = "exec.acquired"         -> IF p = "snap" THEN SnapLock(p) ELSE SyncLock(p)
    [] h = "sync.chk-rlock"        -> IF p = "disable" THEN CloseSync(p) ELSE SyncCopyBegin(p)
    [] h = "chk.copied"            -> SyncChk(p) /\ pc'[p] = "s_chk_rel"
    [] h = "chk.read-released"     -> SyncChkRelease(p)
    [] h = "store.disable.checked" -> p = "disable" /\ opened /\ CloseCheck(p)
    [] h = "close.locked"          -> CloseLock(p)
    [] h = "snapshot.pos"          -> SnapPos(p)
    [] OTHER                       -> UNCHANGED vars      \* hooks between two model steps (chk.sealed, close.synced, replica.pre-upload, ...)

Consume ==
  /\ l <= Len(Log) /\ l' = l + 1
  /\ CASE cur.kind = "reset" -> /\ pc' = [p \in Procs |-> "start"] /\ execSem' = "free" /\ chkR' = 0 /\ chkW' = FALSE
                                /\ opened' = TRUE /\ inited' = TRUE /\ rtx' = TRUE /\ streaming' = FALSE /\ done' = {}
                                /\ hz' = {} /\ rtxBy' = "boot" /\ inComp' = FALSE /\ raced' = FALSE
       [] cur.kind = "at"    -> /\ cur.p \in Procs /\ Hooked(cur.p, cur.hook)
                                /\ hz' = hz \cup (IF pc[cur.p] = "s_lock" /\ ~opened THEN {"Z1"} ELSE {})
                                /\ (pc[cur.p] \in {"s_init", "s_chk_reacq", "s_unlock"} \/ UNCHANGED rtxBy)
                                /\ UNCHANGED <<inComp, raced>>
                                /\ (cur.bind => opened' = cur.open)
       [] cur.kind = "done"  -> /\ cur.p \in Procs /\ pc[cur.p] = "end" /\ (cur.bind => opened = cur.open) /\ UNCHANGED vars
       [] OTHER              -> UNCHANGED vars

TNext == Consume \/ SilentStep
TSpec == TInit /\ [][TNext]_tvars

Post == PrintT(<<"HWM", TLCGet(1), Len(Log)>>)
\* the runner reads the furthest line reached from TLC's output
Mark == TLCSet(1, IF TLCGet(1) < l THEN l ELSE TLCGet(1)) /\ (l <= Len(Log) \/ PrintT(<<"ACCEPTED", Len(Log)>>))
====

SPECIFICATION Spec
CONSTANTS MaxPg=5 InitN=3 MaxVer=14 MaxFrames=9 MaxTx=12 MaxGen=7 MaxDown=1 FixF1=TRUE FixF2=TRUE FixG1=TRUE ReqCtx=TRUE FixQ1=TRUE FixQ2=TRUE FixM2=TRUE
  Modes={"PASSIVE","RESTART","TRUNCATE"} AppModes={"PASSIVE","RESTART","TRUNCATE"} AtomicChk=TRUE WithCrash=FALSE
CHECK_DEADLOCK FALSE

SPECIFICATION Spec
CONSTANTS
  MaxTx = 2
  Size = 2
  MaxCrash = 1
  KillOn = FALSE
  PowerOn = TRUE
  WritebackOn = TRUE
  MetaLossOn = TRUE
  NoTmp = {}
  NoFsync = {"local", "replica"}
  NoDirSync = {"baseline"}
INVARIANTS TypeOK NoPartialFinalName AckedRestorable DurableNoPartialFinalName R3_SupersededBeforeUnlink
CHECK_DEADLOCK FALSE

SPECIFICATION Spec
CONSTANTS MaxPg=7 LockPg=3
INVARIANTS NoLockPageInAnyFile SnapshotRestores ChainRestores
CHECK_DEADLOCK FALSE

--------------------------- MODULE RestoreV3Plan ---------------------------
(***************************************************************************)
(* C19 - pure operators shared by RestoreV3.tla (exhaustive model) and      *)
(* RestoreV3Obs.tla (judge of outcomes recorded from the real code).        *)
(*                                                                          *)
(* A legacy (0.3.x) replica is a LISTING:                                   *)
(*   snaps : set of [gen, idx, ts, st]             <gen>/snapshots/<idx>    *)
(*   segs  : set of [gen, idx, off, size, ts, st]  <gen>/wal/<idx>_<off>    *)
(* gen  = rank of the generation name (GenerationsV3 sorts by name)         *)
(* size = DEcompressed length (what io.Copy returns in appendWALSegmentV3)  *)
(* ts   = mtime (CreatedAt) as an integer tick; T = 0 means "no timestamp"  *)
(* st   = number of the source state the database is in when WAL <idx> is   *)
(*        applied up to the end of this segment (for a snapshot: the state  *)
(*        the snapshot was taken in).  Only compared, never computed with.  *)
(* A current-format replica is abstracted to the timestamps the arbitration *)
(* reads: ltx = [snaps : set of ts (level-9 files), files : set of ts].     *)
(* Assumption: snapshot timestamps are pairwise distinct.                   *)
(***************************************************************************)
EXTENDS Integers, Sequences, FiniteSets, SequencesExt, TLC

NoT   == 0
NoSeg == [gen |-> 0, idx |-> 0, off |-> 0, size |-> 0, ts |-> 0, st |-> 0]

RECURSIVE SumSizes(_)
SumSizes(S) == IF S = {} THEN 0 ELSE LET x == CHOOSE y \in S : TRUE IN x.size + SumSizes(S \ {x})
MaxOf(S) == CHOOSE x \in S : \A y \in S : y <= x

-----------------------------------------------------------------------------
(* TRANSCRIPTION of the code as it is (replica.go @ pinned commit)          *)

SnapLess(a, b) == a.ts < b.ts                     \* sortSnapshotsV3ByCreatedAt replica.go:1180
SegLess(a, b)  == a.idx < b.idx \/ (a.idx = b.idx /\ a.off < b.off)   \* file/replica_client.go:348

\* findBestSnapshotV3 replica.go:1193 ; result = <<>> (nil) or <<snapshot>>
RECURSIVE FindBack(_, _, _)
FindBack(s, i, T) == IF i = 0 THEN <<>>
                     ELSE IF ~(s[i].ts > T) THEN <<s[i]>>           \* !CreatedAt.After(timestamp)
                     ELSE FindBack(s, i - 1, T)
FindBestSnapshotV3(snaps, T) ==
  LET s == SetToSortSeq(snaps, SnapLess) IN
  IF Len(s) = 0 THEN <<>> ELSE IF T = NoT THEN <<s[Len(s)]>> ELSE FindBack(s, Len(s), T)

\* filterWALSegmentsV3 replica.go:1209
FilterWALSegmentsV3(s, snapIdx, T) ==
  SelectSeq(s, LAMBDA g : ~(g.idx < snapIdx) /\ ~(T # NoT /\ g.ts > T))

\* the loop of applyWALSegmentsV3 replica.go:1276-1303.  files = the reconstructed WAL files, each the sequence of
\* segments appended to it.  fixU1 = the candidate repair (segment must belong to the index being assembled).
RECURSIVE Walk(_, _, _, _, _, _)
Walk(s, k, expected, offset, files, fixU1) ==
  IF k > Len(s) THEN [err |-> FALSE, why |-> "", files |-> files]
  ELSE LET g == s[k] IN
    IF g.off = 0
      THEN IF g.idx # expected                                                          \* :1284
             THEN [err |-> TRUE, why |-> "index", files |-> files]
             ELSE Walk(s, k + 1, expected + 1, g.size, Append(files, <<g>>), fixU1)
    ELSE IF g.off # offset                                                              \* :1293
      THEN [err |-> TRUE, why |-> "segment", files |-> files]
    ELSE IF fixU1 /\ g.idx # expected - 1
      THEN [err |-> TRUE, why |-> "segment", files |-> files]
    ELSE IF Len(files) = 0                   \* f = nil: unreachable (offset = 0 while no file is open)
      THEN [err |-> TRUE, why |-> "nilfile", files |-> files]
    ELSE Walk(s, k + 1, expected, offset + g.size, [files EXCEPT ![Len(files)] = Append(@, g)], fixU1)

\* what SQLite makes of a reconstructed WAL file (checkpointV3): the frames that carry the salts of the file's
\* header, i.e. the leading segments of the file's own index; appended foreign segments are ignored.
RECURSIVE OwnPrefixLast(_, _)
OwnPrefixLast(f, k) == IF k < Len(f) /\ f[k + 1].idx = f[1].idx THEN OwnPrefixLast(f, k + 1) ELSE f[k]
StateAfter(sn, files) == IF Len(files) = 0 THEN sn.st ELSE OwnPrefixLast(files[Len(files)], 1).st

\* RestoreV3 replica.go:1067 ; outcome [err, why, st]
PlanV3(snaps, segs, T, fixU1) ==
  LET b == FindBestSnapshotV3(snaps, T) IN
  IF b = <<>> THEN [err |-> TRUE, why |-> "nosnapshot", st |-> -1]
  ELSE LET sn == b[1]
           listing == SetToSortSeq({x \in segs : x.gen = sn.gen}, SegLess)       \* WALSegmentsV3(snapshot.Generation)
           w == Walk(FilterWALSegmentsV3(listing, sn.idx, T), 1, sn.idx, 0, <<>>, fixU1)
       IN IF w.err THEN [err |-> TRUE, why |-> w.why, st |-> -1]
          ELSE [err |-> FALSE, why |-> "", st |-> StateAfter(sn, w.files)]

\* shouldUseV3Restore replica.go:1400 (TimeBoundsV3 :1458, TimeBounds :538, findBestLTXSnapshotForTimestamp :1497)
UseV3(snaps, segs, ltx, T) ==
  LET v3ts   == {x.ts : x \in snaps} \cup {x.ts : x \in segs}
      v3Upd  == IF v3ts = {} THEN 0 ELSE MaxOf(v3ts)
      ltxUpd == IF ltx.files = {} THEN 0 ELSE MaxOf(ltx.files)
  IN IF v3Upd = 0 THEN FALSE
     ELSE IF ltxUpd = 0 THEN TRUE
     ELSE IF T # NoT
       THEN LET v == FindBestSnapshotV3(snaps, T)
                l == {x \in ltx.snaps : x < T}                                      \* CreatedAt.Before(timestamp)
            IN v # <<>> /\ (l = {} \/ v[1].ts > MaxOf(l))                            \* :1437
       ELSE v3Upd > ltxUpd                                                           \* :1445

-----------------------------------------------------------------------------
(* DECLARATIVE statement of C19                                             *)

Elig(x, T)        == T = NoT \/ x.ts <= T                       \* "not newer than the requested time"
EligSnaps(snaps, T) == {s \in snaps : Elig(s, T)}
HasSnap(snaps, T) == EligSnaps(snaps, T) # {}
BestSnap(snaps, T) == CHOOSE s \in EligSnaps(snaps, T) : \A o \in EligSnaps(snaps, T) : o.ts <= s.ts   \* newest eligible
\* the WAL segments a restore from that snapshot consists of
EligSegs(snaps, segs, T) == LET b == BestSnap(snaps, T) IN
                            {x \in segs : x.gen = b.gen /\ x.idx >= b.idx /\ Elig(x, T)}
\* the listing itself shows that something is missing
GapIn(E, i0) ==
  \/ \E x \in E : ~\E y \in E : y.idx = x.idx /\ y.off = 0                        \* an index without its first segment
  \/ \E x \in E : x.off > 0 /\ ~\E y \in E : y.idx = x.idx /\ y.off + y.size = x.off   \* hole inside an index
  \/ \E x \in E : x.idx > i0 /\ ~\E y \in E : y.idx = x.idx - 1                   \* index gap
Gap(snaps, segs, T) == GapIn(EligSegs(snaps, segs, T), BestSnap(snaps, T).idx)
LastSeg(E) == CHOOSE x \in E : \A y \in E : ~SegLess(x, y)
Expected(snaps, segs, T) == LET E == EligSegs(snaps, segs, T) IN
                            IF E = {} THEN BestSnap(snaps, T).st ELSE LastSeg(E).st

\* res = [err, st] : outcome of a legacy restore
NoSnapshotIsError(snaps, segs, T, res) == ~HasSnap(snaps, T) => res.err
GapIsError(snaps, segs, T, res) == (HasSnap(snaps, T) /\ Gap(snaps, segs, T)) => res.err
RightState(snaps, segs, T, res) == (HasSnap(snaps, T) /\ ~Gap(snaps, segs, T))
                                      => (~res.err /\ res.st = Expected(snaps, segs, T))

\* Input family of finding U1: the removed segment rm is the first segment of an index and the next surviving
\* segment of that index starts at the byte length of the previous index.
IsU1(segs, rm) ==
  /\ rm.gen # 0 /\ rm.off = 0 /\ rm.idx > 0
  /\ LET surv == {x \in segs : x.gen = rm.gen /\ x.idx = rm.idx}
         prev == {x \in segs : x.gen = rm.gen /\ x.idx = rm.idx - 1}
     IN /\ surv # {} /\ prev # {}
        /\ (CHOOSE x \in surv : \A y \in surv : x.off <= y.off).off = SumSizes(prev)

\* A removal no listing can reveal: the removed segment was the last one of its index and later indices follow
\* among the segments of the restore.  No implementation can report it; no claim is made about the state then.
HiddenMidLoss(snaps, segs, T, rm) ==
  /\ rm.gen # 0 /\ HasSnap(snaps, T)
  /\ LET b == BestSnap(snaps, T) E == EligSegs(snaps, segs, T) IN
     /\ rm.gen = b.gen /\ rm.idx >= b.idx /\ Elig(rm, T)
     /\ ~GapIn(E, b.idx)
     /\ \E x \in E : x.idx > rm.idx

\* Format arbitration: "the one holding the more recent eligible backup is used".  An LTX file is eligible for T
\* when it is older than T (the current-format restore's own convention, CalcRestorePlan).  Judged only where the
\* two readings of "more recent backup" (newest eligible snapshot / newest eligible file) agree.
LtxElig(S, T) == {x \in S : T = NoT \/ x < T}
V3New(snaps, segs, T)  == LET s == {x.ts : x \in {y \in snaps \cup segs : Elig(y, T)}} IN IF s = {} THEN 0 ELSE MaxOf(s)
V3SnapTs(snaps, T)     == IF HasSnap(snaps, T) THEN BestSnap(snaps, T).ts ELSE 0
LtxNew(ltx, T)         == IF LtxElig(ltx.files, T) = {} THEN 0 ELSE MaxOf(LtxElig(ltx.files, T))
LtxSnapTs(ltx, T)      == IF LtxElig(ltx.snaps, T) = {} THEN 0 ELSE MaxOf(LtxElig(ltx.snaps, T))
ClearV3(snaps, segs, ltx, T)  == /\ HasSnap(snaps, T)
                                 /\ V3SnapTs(snaps, T) > LtxSnapTs(ltx, T) /\ V3New(snaps, segs, T) > LtxNew(ltx, T)
ClearLtx(snaps, segs, ltx, T) == /\ LtxSnapTs(ltx, T) > 0
                                 /\ LtxSnapTs(ltx, T) > V3SnapTs(snaps, T) /\ LtxNew(ltx, T) > V3New(snaps, segs, T)
\* used \in {"v3", "ltx", "?"}
ArbitrationClear(snaps, segs, ltx, T, used) ==
  /\ ClearV3(snaps, segs, ltx, T)  => used # "ltx"
  /\ ClearLtx(snaps, segs, ltx, T) => used # "v3"
\* the strict reading (newest eligible FILE of either format decides); evaluated and reported, not a verdict
ArbitrationNewestFile(snaps, segs, ltx, T, used) ==
  /\ (HasSnap(snaps, T) /\ V3New(snaps, segs, T) > LtxNew(ltx, T)) => used # "ltx"
  /\ (LtxNew(ltx, T) > V3New(snaps, segs, T)) => used # "v3"
=============================================================================

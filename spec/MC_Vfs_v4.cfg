SPECIFICATION Spec
CONSTANTS
  MaxPg = 3
  MaxTx = 4
  MaxL1 = 2
  FixV1 = TRUE
  FixV2 = TRUE
  FixV3 = TRUE
  FixV4 = FALSE
  WithLock = FALSE
  WithRet = TRUE
  WithSnap = FALSE
  WithTT = FALSE
INVARIANTS C18 GStall
CHECK_DEADLOCK FALSE

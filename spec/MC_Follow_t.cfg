SPECIFICATION SpecF
CONSTANTS NSync=3 MaxClock=2 RetentionEnabled=TRUE Fine=TRUE Variant="asis" Fixes={}
INVARIANTS NeverAhead NoSkip SidecarAfterApply Converges NoStallH ResumeAcceptedH ResumeAfterKillH
PROPERTY SidecarMonotone
CHECK_DEADLOCK FALSE

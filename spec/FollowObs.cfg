SPECIFICATION Spec
INVARIANTS SidecarMonotone NoSkip NeverAhead ResumeAccepted ResumeAccepted_W1 ResumeAfterKill_W3 RestartFresh NoStall NoStall_W2 Converges SidecarPublish ApplyDurableBeforePublish
CHECK_DEADLOCK FALSE

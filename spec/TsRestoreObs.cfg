\* judge of real timestamp restores (tsrestore_obs.ndjson in the working directory)
SPECIFICATION Spec
INVARIANTS IsRecordedState NothingFromAfterT MonotoneInT PreciseWithL0 BeforeFirstFails
CHECK_DEADLOCK FALSE

SPECIFICATION Spec
CONSTANTS
  Part = "reader"
  B = 3
  MaxRetries = 3
  MaxFaults = 5
  AllowMissing = FALSE
  ReaderVariant = "asis"
  F = 1
  PB = 1
  ProtoVariant = "asis"
  X1Fixed = TRUE
  Collisions = FALSE
INVARIANTS R_Prefix R_OffsetIsDelivered R_StreamAtOffset R_ResumeExact R_Outcome R_ErrorOnlyBeyondBudget R_BackoffLaw R_RetryBound
CHECK_DEADLOCK FALSE

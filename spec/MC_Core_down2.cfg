SPECIFICATION Spec
CONSTANTS MaxPg=3 InitN=2 MaxVer=3 MaxFrames=4 MaxTx=5 MaxGen=4 MaxDown=2 FixF1=TRUE FixF2=TRUE FixG1=TRUE ReqCtx=FALSE FixQ1=TRUE FixQ2=TRUE FixM2=TRUE
  Modes={"PASSIVE","TRUNCATE"} AppModes={"PASSIVE","RESTART","TRUNCATE"} AtomicChk=FALSE WithCrash=TRUE
INVARIANTS C01raw Decodable NoUncommitted
VIEW view
CHECK_DEADLOCK FALSE

SPECIFICATION Spec
CONSTANTS MaxPg=3 InitN=2 MaxVer=3 MaxFrames=4 MaxTx=5 MaxGen=4 MaxDown=2 FixF1=FALSE FixF2=FALSE FixG1=FALSE
  Modes={"PASSIVE","TRUNCATE"} AppModes={"PASSIVE","RESTART","TRUNCATE"} AtomicChk=FALSE WithCrash=TRUE
INVARIANTS C01 Decodable NoUncommitted
VIEW view
CHECK_DEADLOCK FALSE

SPECIFICATION Spec
CONSTANTS MaxPg=3 InitN=2 MaxVer=4 MaxFrames=4 MaxTx=5 MaxGen=4 MaxDown=1 FixF1=TRUE FixF2=TRUE FixG1=TRUE ReqCtx=FALSE FixQ1=TRUE FixQ2=TRUE FixM2=TRUE
  Modes={"PASSIVE","RESTART","TRUNCATE"} AppModes={"PASSIVE","RESTART","TRUNCATE"} AtomicChk=FALSE WithCrash=TRUE
INVARIANTS C01raw Decodable NoUncommitted
VIEW view
CHECK_DEADLOCK FALSE

----------------------------- MODULE FsProtocol -----------------------------
(***************************************************************************)
(* C03 / C11 design model: a file system with a VOLATILE view (what a       *)
(* process sees: page cache) and a DURABLE view (what survives a power      *)
(* failure), the system calls of litestream's five publish protocols as     *)
(* actions, and three kinds of environment events:                          *)
(*   Kill       the process dies, its memory is lost, the file system keeps *)
(*              everything (C03)                                            *)
(*   PowerFail  the process dies and the volatile view reverts to the       *)
(*              durable one (C11)                                           *)
(*   Restart    a new process: removeTmpFiles on the meta directory         *)
(*              (db.go:792, litestream.go:170), positions recomputed from   *)
(*              directory listings (db.go:579 MaxLTX, replica.go:274)       *)
(*                                                                          *)
(* Publish protocols (code as it is; each step can be dropped per protocol  *)
(* through NoTmp / NoFsync / NoDirSync to model the code or a mutant):      *)
(*   "local"    db.go:2112-2259    openat(.tmp,O_CREAT|O_TRUNC) write* fsync *)
(*                                 close rename fsync(dir)                   *)
(*   "replica"  file/replica_client.go:163-236  same (+ utimensat)          *)
(*   "restore"  replica.go:727-771 same                                     *)
(*   "sidecar"  replica.go:1723-1753 same                                   *)
(*   "baseline" db.go:1631-1668    create copy fsync close rename  -- and   *)
(*                                 NO fsync(dir): finding D1                 *)
(*                                                                          *)
(* A file is <<tree, level, min, max>>; an inode has a volatile length w    *)
(* and a durable length s (chunks, complete = Size). One inode per logical  *)
(* file (a name is never published twice: positions are listing-driven).    *)
(* The kernel may write back data and directories at any time (WritebackX):  *)
(* that is what makes R1 necessary. POSIX-minimal: nothing else is ordered. *)
(***************************************************************************)
EXTENDS Integers, Sequences, FiniteSets, TLC

CONSTANTS MaxTx,       \* TXIDs 1..MaxTx
          Size,        \* chunks per file
          MaxCrash,    \* bound on Kill + PowerFail events
          KillOn, PowerOn, WritebackOn, MetaLossOn,   \* BOOLEAN switches
          NoTmp, NoFsync, NoDirSync                   \* sets of protocols with that step dropped

Proto == {"local", "replica", "restore", "sidecar", "baseline"}
ASSUME NoTmp \subseteq Proto /\ NoFsync \subseteq Proto /\ NoDirSync \subseteq Proto

TX == 1..MaxTx
L0m(n) == <<"meta", 0, n, n>>
L0r(n) == <<"rep", 0, n, n>>
L1(a, b) == <<"rep", 1, a, b>>
L9(k) == <<"rep", 9, 1, k>>
Out == <<"out", 0, 0, 0>>
Side == <<"side", 0, 0, 0>>
LtxFiles == {L0m(n) : n \in TX} \cup {L0r(n) : n \in TX} \cup {L1(a, b) : a \in TX, b \in TX} \cup {L9(k) : k \in TX}
Files == {f \in LtxFiles : f[3] <= f[4]} \cup {Out, Side}
RepFiles == {f \in Files : f[1] = "rep"}
Dir(f) == IF f[1] \in {"out", "side"} THEN <<"outdir", 0>> ELSE <<f[1], f[2]>>
Dirs == {Dir(f) : f \in Files}
NoFile == <<"none", 0, 0, 0>>

VARIABLES vT, vF,      \* volatile directory entries: <name>.tmp / final name present
          dT, dF,      \* durable directory entries
          w, s,        \* per inode: volatile / durable length
          up,          \* a litestream process is running
          op, todo,    \* current operation and its remaining steps
          cur, curP, pc, \* publish in progress: file, protocol, next system call
          opRen,       \* <<file, protocol>> renamed to a final name by the current operation
          acked,       \* highest TXID whose sync reported success (Mark(sync, ok))
          crashes, metaLost,
          r2bad, r3bad \* ghost: rule violations at Mark(op, ok) / at Unlink
vars == <<vT, vF, dT, dF, w, s, up, op, todo, cur, curP, pc, opRen, acked, crashes, metaLost, r2bad, r3bad>>
fs == <<vT, vF, dT, dF, w, s>>
proc == <<up, op, todo, cur, curP, pc, opRen>>

Max(S) == IF S = {} THEN 0 ELSE CHOOSE x \in S : \A y \in S : y <= x
lp == Max({n \in TX : vF[L0m(n)]})                       \* local position (db.go:579)
rp == Max({n \in TX : vF[L0r(n)]})                       \* replica position (replica.go:274)
maxL1 == Max({f[4] : f \in {g \in RepFiles : g[2] = 1 /\ vF[g]}})
snaps == {k \in TX : vF[L9(k)]}

CompleteV(f) == vF[f] /\ w[f] = Size
RECURSIVE Reach(_)
Reach(t) == IF t = 0 THEN TRUE ELSE \E f \in RepFiles : CompleteV(f) /\ f[4] = t /\ Reach(f[3] - 1)
Restorable(n) == \E t \in n..MaxTx : Reach(t)

\* g supersedes f: a higher level covering its range, a snapshot reaching at least as far, or (for a local file) its copy on the replica
Supersedes(g, f) == /\ g # f /\ g[1] = "rep"
                    /\ \/ g[2] > f[2] /\ g[2] < 9 /\ g[3] <= f[3] /\ g[4] >= f[4]
                       \/ g[2] = 9 /\ g[4] >= f[4]
                       \/ f[1] = "meta" /\ g[2] = f[2] /\ g[3] = f[3] /\ g[4] = f[4]
DurablyThere(g) == vF[g] /\ dF[g] /\ s[g] = Size /\ w[g] = Size

Init == /\ vT = [f \in Files |-> FALSE] /\ vF = [f \in Files |-> FALSE]
        /\ dT = [f \in Files |-> FALSE] /\ dF = [f \in Files |-> FALSE]
        /\ w = [f \in Files |-> 0] /\ s = [f \in Files |-> 0]
        /\ up = TRUE /\ op = "none" /\ todo = <<>> /\ cur = NoFile /\ curP = "none" /\ pc = "idle" /\ opRen = {}
        /\ acked = 0 /\ crashes = 0 /\ metaLost = FALSE /\ r2bad = {} /\ r3bad = {}

Idle == up /\ op = "none"
Begin(o, steps) == /\ op' = o /\ todo' = steps /\ opRen' = {}
                   /\ UNCHANGED <<fs, up, cur, curP, pc, acked, crashes, metaLost, r2bad, r3bad>>
Pub(f, p) == <<"pub", f, p>>
Unl(f) == <<"unlink", f, "none">>
SetToSeq(S) == LET RECURSIVE F(_) F(X) == IF X = {} THEN <<>> ELSE LET x == CHOOSE y \in X : \A z \in X : y[2][4] <= z[2][4] IN <<x>> \o F(X \ {x}) IN F(S)

\* DB.Sync + Replica.Sync (SyncAndWait). init (db.go:1120) first consults the replica: local position behind it => fetch the baseline.
BeginSync ==
  /\ Idle
  /\ IF lp < rp THEN Begin("sync", <<Pub(L0m(rp), "baseline")>>)
     ELSE /\ rp < MaxTx
          /\ Begin("sync", (IF lp = rp THEN <<Pub(L0m(lp + 1), "local")>> ELSE <<>>) \o <<Pub(L0r(rp + 1), "replica")>>)
BeginCompact ==        \* Compact(1): L0 files above the newest L1 file into one L1 file (compactor.go)
  /\ Idle /\ maxL1 < rp /\ \A n \in (maxL1 + 1)..rp : CompleteV(L0r(n))
  /\ Begin("compact", <<Pub(L1(maxL1 + 1, rp), "replica")>>)
BeginSnapshot ==
  /\ Idle /\ rp >= 1 /\ ~vF[L9(rp)] /\ Reach(rp)
  /\ Begin("snapshot", <<Pub(L9(rp), "replica")>>)
BeginL0Retention ==    \* db.go:3058: L0 files already compacted into L1 (as LISTED), never the newest; replica first, then local
  /\ Idle
  /\ LET del == {n \in TX : n < rp /\ n <= maxL1 /\ vF[L0r(n)]} IN
       /\ del # {}
       /\ Begin("l0retention", SetToSeq({Unl(L0r(n)) : n \in del}) \o SetToSeq({Unl(L0m(n)) : n \in {m \in del : vF[L0m(m)]}}))
BeginSnapRetention ==  \* db.go:2992 + cascade (store.go): all snapshots but the newest, then L1 files below the floor
  /\ Idle /\ Cardinality(snaps) >= 2
  /\ LET keep == Max(snaps)
         old == snaps \ {keep}
         floor == Max(old) IN
       Begin("snapretention", SetToSeq({Unl(L9(k)) : k \in old})
                               \o SetToSeq({Unl(f) : f \in {g \in RepFiles : g[2] = 1 /\ vF[g] /\ g[4] < floor}}))
BeginRestore ==        \* Replica.Restore to a final output path, then the sidecar
  /\ Idle /\ rp >= 1 /\ ~vF[Out] /\ Reach(rp)
  /\ Begin("restore", <<Pub(Out, "restore"), Pub(Side, "sidecar")>>)

\* next step of the current operation
StepNext ==
  /\ up /\ op # "none" /\ pc = "idle" /\ todo # <<>>
  /\ LET st == Head(todo) IN
       /\ todo' = Tail(todo)
       /\ IF st[1] = "pub"
            THEN /\ cur' = st[2] /\ curP' = st[3] /\ pc' = "create"
                 /\ UNCHANGED <<fs, r3bad>>
            ELSE /\ vF' = [vF EXCEPT ![st[2]] = FALSE]          \* Unlink(final name)
                 /\ r3bad' = IF vF[st[2]] /\ ~\E g \in Files : Supersedes(g, st[2]) /\ DurablyThere(g)
                               THEN r3bad \cup {st[2]} ELSE r3bad
                 /\ UNCHANGED <<vT, dT, dF, w, s, cur, curP, pc>>
  /\ UNCHANGED <<up, op, opRen, acked, crashes, metaLost, r2bad>>

Create ==   \* openat(name, O_CREAT|O_TRUNC)
  /\ up /\ pc = "create"
  /\ IF curP \in NoTmp THEN vF' = [vF EXCEPT ![cur] = TRUE] /\ UNCHANGED vT
                       ELSE vT' = [vT EXCEPT ![cur] = TRUE] /\ UNCHANGED vF
  /\ w' = [w EXCEPT ![cur] = 0] /\ s' = [s EXCEPT ![cur] = 0]
  /\ pc' = "write"
  /\ UNCHANGED <<dT, dF, up, op, todo, cur, curP, opRen, acked, crashes, metaLost, r2bad, r3bad>>
Write ==    \* write / copy_file_range
  /\ up /\ pc = "write"
  /\ w' = [w EXCEPT ![cur] = @ + 1]
  /\ pc' = IF w[cur] + 1 = Size THEN "fsync" ELSE "write"
  /\ UNCHANGED <<vT, vF, dT, dF, s, up, op, todo, cur, curP, opRen, acked, crashes, metaLost, r2bad, r3bad>>
Fsync ==    \* fsync(fd); close
  /\ up /\ pc = "fsync"
  /\ s' = IF curP \in NoFsync THEN s ELSE [s EXCEPT ![cur] = w[cur]]
  /\ pc' = "rename"
  /\ UNCHANGED <<vT, vF, dT, dF, w, up, op, todo, cur, curP, opRen, acked, crashes, metaLost, r2bad, r3bad>>
Rename ==   \* rename(name.tmp, name)
  /\ up /\ pc = "rename"
  /\ IF curP \in NoTmp THEN UNCHANGED <<vT, vF>>
     ELSE vT' = [vT EXCEPT ![cur] = FALSE] /\ vF' = [vF EXCEPT ![cur] = TRUE]
  /\ opRen' = opRen \cup {<<cur, curP>>}
  /\ pc' = "dirsync"
  /\ UNCHANGED <<dT, dF, w, s, up, op, todo, cur, curP, acked, crashes, metaLost, r2bad, r3bad>>
FlushDirTo(d) == /\ dT' = [f \in Files |-> IF Dir(f) = d THEN vT[f] ELSE dT[f]]
                 /\ dF' = [f \in Files |-> IF Dir(f) = d THEN vF[f] ELSE dF[f]]
DirSync ==  \* internal.FsyncDir(dir)
  /\ up /\ pc = "dirsync"
  /\ IF curP \in NoDirSync THEN UNCHANGED <<dT, dF>> ELSE FlushDirTo(Dir(cur))
  /\ pc' = "idle" /\ cur' = NoFile /\ curP' = "none"
  /\ UNCHANGED <<vT, vF, w, s, up, op, todo, opRen, acked, crashes, metaLost, r2bad, r3bad>>

\* the operation reports success: Mark(op, ok)
MarkOk ==
  /\ up /\ op # "none" /\ pc = "idle" /\ todo = <<>>
  /\ r2bad' = r2bad \cup {<<op, x[1], x[2]>> : x \in {y \in opRen : ~dF[y[1]]}}
  /\ acked' = IF op = "sync" THEN Max({acked, rp}) ELSE acked
  /\ op' = "none" /\ opRen' = {}
  /\ UNCHANGED <<fs, up, todo, cur, curP, pc, crashes, metaLost, r3bad>>

\* ---------------------------------------------------------------- environment
ProcDies == /\ up' = FALSE /\ op' = "none" /\ todo' = <<>> /\ cur' = NoFile /\ curP' = "none" /\ pc' = "idle" /\ opRen' = {}
            /\ crashes' = crashes + 1
Kill == /\ KillOn /\ up /\ crashes < MaxCrash /\ ProcDies
        /\ UNCHANGED <<fs, acked, metaLost, r2bad, r3bad>>
PowerFail == /\ PowerOn /\ crashes < MaxCrash /\ ProcDies
             /\ vT' = dT /\ vF' = dF /\ w' = s
             /\ UNCHANGED <<dT, dF, s, acked, metaLost, r2bad, r3bad>>
Restart == /\ ~up /\ up' = TRUE
           /\ vT' = [f \in Files |-> IF f[1] = "meta" THEN FALSE ELSE vT[f]]     \* removeTmpFiles(db.metaPath)
           /\ UNCHANGED <<vF, dT, dF, w, s, op, todo, cur, curP, pc, opRen, acked, crashes, metaLost, r2bad, r3bad>>
MetaLoss == /\ MetaLossOn /\ ~up /\ ~metaLost /\ metaLost' = TRUE
            /\ vT' = [f \in Files |-> IF f[1] = "meta" THEN FALSE ELSE vT[f]]
            /\ vF' = [f \in Files |-> IF f[1] = "meta" THEN FALSE ELSE vF[f]]
            /\ dT' = [f \in Files |-> IF f[1] = "meta" THEN FALSE ELSE dT[f]]
            /\ dF' = [f \in Files |-> IF f[1] = "meta" THEN FALSE ELSE dF[f]]
            /\ UNCHANGED <<w, s, proc, acked, crashes, r2bad, r3bad>>
CleanStop == /\ MetaLossOn /\ Idle /\ ~metaLost /\ up' = FALSE      \* clean shutdown (so that the meta directory can be lost)
             /\ UNCHANGED <<fs, op, todo, cur, curP, pc, opRen, acked, crashes, metaLost, r2bad, r3bad>>
WritebackData(f) == /\ WritebackOn /\ s[f] < w[f] /\ (vT[f] \/ vF[f])
                    /\ \E k \in (s[f] + 1)..w[f] : s' = [s EXCEPT ![f] = k]
                    /\ UNCHANGED <<vT, vF, dT, dF, w, proc, acked, crashes, metaLost, r2bad, r3bad>>
WritebackDir(d) == /\ WritebackOn /\ \E f \in Files : Dir(f) = d /\ (dT[f] # vT[f] \/ dF[f] # vF[f])
                   /\ FlushDirTo(d)
                   /\ UNCHANGED <<vT, vF, w, s, proc, acked, crashes, metaLost, r2bad, r3bad>>

Next == \/ BeginSync \/ BeginCompact \/ BeginSnapshot \/ BeginL0Retention \/ BeginSnapRetention \/ BeginRestore
        \/ StepNext \/ Create \/ Write \/ Fsync \/ Rename \/ DirSync \/ MarkOk
        \/ Kill \/ PowerFail \/ Restart \/ MetaLoss \/ CleanStop
        \/ \E f \in Files : WritebackData(f)
        \/ \E d \in Dirs : WritebackDir(d)
Spec == Init /\ [][Next]_vars

-----------------------------------------------------------------------------
TypeOK == /\ w \in [Files -> 0..Size] /\ s \in [Files -> 0..Size] /\ acked \in 0..MaxTx /\ crashes \in 0..MaxCrash
          /\ \A f \in Files : s[f] <= w[f]

\* C03: at no instant is a half-written file visible under a final name (holds in every state, so also after Kill;
\* after PowerFail the volatile view IS the durable one, so it then says: R1 made the published content durable)
NoPartialFinalName == \A f \in Files : vF[f] => w[f] = Size
\* C11/R1 stated on the durable view directly
DurableNoPartialFinalName == \A f \in Files : dF[f] => s[f] = Size
\* C03 (after Kill) / C11 (after PowerFail): every acknowledged sync is still restorable from the replica
AckedRestorable == acked > 0 => Restorable(acked)
\* C11/R2: when an operation reports success, every name it published has a durable directory entry
R2_DirFlushedBeforeOk == r2bad = {}
\* as-is code: the only operation that reports success without it is the sync that fetched the baseline (finding D1)
R2_ExceptD1 == \A x \in r2bad : x[3] = "baseline"
\* C11/R3: a published file is unlinked only after a superseding file is durable
R3_SupersededBeforeUnlink == r3bad = {}
=============================================================================

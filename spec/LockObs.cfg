SPECIFICATION Spec
INVARIANTS C17_OperationsSucceed C17_NoLockPageInFiles C17_FullFilesComplete C17_RestoreExact
CHECK_DEADLOCK FALSE

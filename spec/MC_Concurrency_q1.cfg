SPECIFICATION Spec
CONSTANTS FixZ1=TRUE FixQ1=FALSE FixR=TRUE Procs={"syncdb","syncdb2","disable","snap","enable"}
INVARIANTS ReadLockWhileOpen
CHECK_DEADLOCK FALSE

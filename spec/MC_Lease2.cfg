SPECIFICATION Spec
CONSTANTS
  Clients = {"a", "b"}
  TTL = 2
  MaxNow = 5
  MaxOps = 3
  MaxTag = 6
INVARIANTS Mutex StaleCannot GenIncreases TypeOK
PROPERTIES AcquireOnlyAfterExpiry
VIEW view
CHECK_DEADLOCK FALSE

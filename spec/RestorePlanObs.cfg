\* judge of real CalcRestorePlan outputs (restoreplan_obs.ndjson in the working directory)
SPECIFICATION Spec
CONSTANTS
  Levels = {0, 1, 2, 3, 4, 5, 6, 7, 8, 9}
  Groups = 64
INVARIANTS Sound CompleteTx CompleteLatest GapReported FurthestLatest TsExcluded TsMonotone TsPrecise Binding TsFurthest
CHECK_DEADLOCK FALSE

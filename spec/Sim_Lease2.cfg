SPECIFICATION Spec
CONSTANTS
  Clients = {"a", "b"}
  TTL = 2
  MaxNow = 12
  MaxOps = 8
  MaxTag = 30
INVARIANTS Mutex StaleCannot GenIncreases
CHECK_DEADLOCK FALSE

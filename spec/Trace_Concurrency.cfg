SPECIFICATION TSpec
CONSTANTS FixZ1=TRUE FixQ1=TRUE FixR=TRUE Procs={"syncdb","syncdb2","disable","snap","enable","compact"}
CONSTRAINT Mark
CHECK_DEADLOCK FALSE
POSTCONDITION Post

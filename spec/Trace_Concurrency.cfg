SPECIFICATION TSpec
CONSTANTS FixZ1=TRUE FixQ1=TRUE Procs={"syncdb","syncdb2","disable","snap","enable"}
CONSTRAINT Mark
CHECK_DEADLOCK FALSE
POSTCONDITION Post

SPECIFICATION Spec
CONSTANTS FixZ1=TRUE Procs={"syncdb","syncdb2","disable","snap","enable"}
INVARIANTS LocksFree NoDeadlock NoLeakAfterClose
CHECK_DEADLOCK FALSE

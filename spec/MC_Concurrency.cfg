SPECIFICATION Spec
CONSTANTS FixZ1=TRUE FixQ1=TRUE FixR=TRUE Procs={"syncdb","syncdb2","disable","snap","enable","compact"}
INVARIANTS LocksFree NoDeadlock NoLeakAfterClose ReadLockWhileOpen NoDataRace
CHECK_DEADLOCK FALSE

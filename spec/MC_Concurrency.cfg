SPECIFICATION Spec
CONSTANTS FixZ1=TRUE FixQ1=TRUE Procs={"syncdb","syncdb2","disable","snap","enable"}
INVARIANTS LocksFree NoDeadlock NoLeakAfterClose ReadLockWhileOpen
CHECK_DEADLOCK FALSE

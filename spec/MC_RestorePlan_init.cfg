\* the literal form: every file set is an INITIAL state, 16 shards = 16 single-worker TLC processes (Fanout = FALSE).
\* Small bound; cross-checks the fanned-out enumeration (same number of file sets).
SPECIFICATION Spec
CONSTANTS
  N = 3
  Levels = {0, 1, 2, 9}
  MaxFiles = 3
  MaxTs = 2
  Part = 0
  Parts = 16
  Fanout = FALSE
INVARIANTS Sound CompleteTx CompleteLatest GapReported FurthestLatest TsExcluded TsFurthest TsMonotone ErrKinds
CHECK_DEADLOCK FALSE

SPECIFICATION Spec
INVARIANTS NoPartialFinalName AckedStillRestorable SourceIntact ResumesWithoutRepair NextAckRestoresSource
CHECK_DEADLOCK FALSE

------------------------------ MODULE KillObs ------------------------------
(***************************************************************************)
(* The judge for C03: the property evaluated on what was OBSERVED after the *)
(* real litestream process (harness/cmd/scen under harness/cmd/killsup) was *)
(* killed immediately before its i-th file-system-mutating system call.     *)
(* One log line per kill point:                                             *)
(*   t, i, scen         scenario index, kill index, scenario name           *)
(*   sys                the system call that was about to be issued         *)
(*   ledger             fingerprints of the committed application states in *)
(*                      commit order (written by the child before the kill) *)
(*   ack                index in ledger of the last acknowledged state (0 = *)
(*                      nothing acknowledged before the kill)               *)
(*   nFinal, nBad       files under a final *.ltx name (meta dir + replica) *)
(*                      / how many of them do not decode completely         *)
(*   outExists, outInteg, outFp     restore output path                     *)
(*   sideExists, sideOK             TXID sidecar                            *)
(*   restOK, restInteg, restFp      Restore(latest) from the post-kill      *)
(*                                  replica by a fresh process              *)
(*   srcFp, srcInteg                the source database as a reader sees it *)
(*   reRestore          "none" | "ok" | error: the interrupted restore run  *)
(*                      again on the same output path                       *)
(*   resOpen, resWrite, resSync, resAck   litestream started again as a new *)
(*                      process: Open, one application write, SyncAndWait   *)
(*   resRestOK, resRestInteg, resRestFp, resSrcFp   restore after that ack  *)
(* Nothing of FsProtocol.tla's transition relation is assumed here.         *)
(***************************************************************************)
EXTENDS Integers, Sequences, FiniteSets, TLC, Json

Log == ndJsonDeserialize("kill_trace.ndjson")

VARIABLE l
Init == l = 1
Next == l < Len(Log) /\ l' = l + 1
Spec == Init /\ [][Next]_l

cur == Log[l]

\* fp is the fingerprint of a committed state at or after ledger index k (or of the source as it is now:
\* a commit whose ledger line the child had no time to write)
AtOrAfter(fp, k) == (\E j \in k..Len(cur.ledger) : cur.ledger[j] = fp) \/ fp = cur.srcFp

\* At no instant is a half-written file visible under a final LTX file name, the restore output path or the sidecar
NoPartialFinalName_ ==
  /\ cur.nBad = 0
  /\ cur.outExists => (cur.outInteg = "ok" /\ AtOrAfter(cur.outFp, 1))
  /\ cur.sideExists => cur.sideOK

\* every sync acknowledged before the kill is still restorable (and nothing older than it comes back)
AckedStillRestorable_ ==
  cur.ack > 0 => (cur.restOK /\ cur.restInteg = "ok" /\ AtOrAfter(cur.restFp, cur.ack))

\* the source database survived the kill of the process that was checkpointing / bookkeeping in it
SourceIntact_ == cur.srcInteg = "ok"

\* replication resumes without manual intervention
ResumesWithoutRepair_ ==
  /\ cur.resOpen = "ok" /\ cur.resWrite = "ok" /\ cur.resSync = "ok" /\ cur.resAck
  /\ cur.reRestore \in {"none", "ok"}

\* the next acknowledged sync restores exactly the source (C01 after the restart)
NextAckRestoresSource_ ==
  cur.resAck => (cur.resRestOK /\ cur.resRestInteg = "ok" /\ cur.resRestFp = cur.resSrcFp)
-----------------------------------------------------------------------------
V(name, ok) == ok \/ PrintT(<<"VERDICT", name, l, cur.t, cur.i>>)
NoPartialFinalName == V("NoPartialFinalName", NoPartialFinalName_)
AckedStillRestorable == V("AckedStillRestorable", AckedStillRestorable_)
SourceIntact == V("SourceIntact", SourceIntact_)
ResumesWithoutRepair == V("ResumesWithoutRepair", ResumesWithoutRepair_)
NextAckRestoresSource == V("NextAckRestoresSource", NextAckRestoresSource_)
=============================================================================

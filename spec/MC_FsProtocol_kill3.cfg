SPECIFICATION Spec
CONSTANTS
  MaxTx = 3
  Size = 2
  MaxCrash = 1
  KillOn = TRUE
  PowerOn = FALSE
  WritebackOn = FALSE
  MetaLossOn = TRUE
  NoTmp = {}
  NoFsync = {}
  NoDirSync = {"baseline"}
INVARIANTS TypeOK NoPartialFinalName AckedRestorable
CHECK_DEADLOCK FALSE

------------------------------ MODULE Trace_CoreSync ------------------------------
(***************************************************************************)
(* Binding of Core.tla to the code: Core.tla's OWN operators Verify and     *)
(* SyncResult (the model of db.go verify()/sync()) are instantiated on the  *)
(* state OBSERVED just before a real litestream call (physical WAL slot by  *)
(* slot, database file, newest local level-0 file, syncedToWALEnd) and      *)
(* their prediction is compared with the level-0 file the real code wrote:  *)
(* WAL offset and length in frames, generation, committed size, page set    *)
(* and page images.  A mismatch is a DIVERGENCE (reported, not a verdict).  *)
(***************************************************************************)
EXTENDS Integers, Sequences, FiniteSets, TLC, Json

Log == ndJsonDeserialize("core_trace.ndjson")
VARIABLE l
NP == 64
cur == Log[l]
pre == cur.pre

ObsWal == [i \in 1..Len(pre.wal) |->
             [pg |-> pre.wal[i][1], ver |-> pre.wal[i][2], commit |-> pre.wal[i][3], gen |-> pre.wal[i][4],
              st |-> IF i <= pre.valid THEN i ELSE -1]]
ObsDbf == [p \in 1..NP |-> IF p <= Len(pre.dbf) THEN pre.dbf[p] ELSE -1]
PageOf(f, p) == LET ks == {k \in DOMAIN f.pgs : f.pgs[k] = p} IN IF ks = {} THEN -1 ELSE f.ids[CHOOSE k \in ks : TRUE]
ObsL0 == IF pre.lastOK
           THEN <<[off |-> pre.last.off, n |-> pre.last.len, gen |-> pre.last.salt1, commit |-> pre.last.commit,
                   pages |-> [p \in 1..NP |-> PageOf(pre.last, p)], snap |-> pre.last.full]>>
           ELSE <<>>

C == INSTANCE Core WITH
       MaxPg <- NP, InitN <- 0, MaxVer <- 0, MaxFrames <- 0, MaxTx <- 0, MaxGen <- 0, MaxDown <- 0,
       FixF1 <- TRUE, FixF2 <- TRUE, FixG1 <- TRUE, ReqCtx <- FALSE, FixQ1 <- TRUE, FixQ2 <- TRUE, FixM2 <- TRUE, Modes <- {}, AppModes <- {}, AtomicChk <- TRUE, WithCrash <- FALSE,
       dbf <- ObsDbf, dbfN <- Len(pre.dbf), wal <- ObsWal, hdrGen <- pre.hdr, idxGen <- pre.hdr, mx <- 0, bf <- 0, sz <- 0,
       rd <- 0, wlock <- "none", txn <- 0, nextVer <- 0, nextGen <- 0, nextSt <- 0, up <- TRUE,
       mem <- [toEnd |-> pre.toEnd, lastOff |-> 0], l0 <- ObsL0, rN <- 0, acked <- FALSE, downs <- 0,
       pc <- "idle", cmode <- "PASSIVE", ck <- [hdr |-> 0, logN |-> 0], cvers <- {}, spv <- 0,
       lostM <- FALSE, sameSince <- FALSE, hz <- {}

Init == l = 1
Next == l < Len(Log) /\ l' = l + 1
Spec == Init /\ [][Next]_l

Created == SelectSeq(cur.newl0, LAMBDA f : ~f.fetched)
\* conformance is claimed for single verify+sync calls: unchunked, WAL present, database small enough for the instance
Applies == /\ cur.op \in {"LsSync", "LsSyncAndWait", "LsClose"} /\ pre.has /\ cur.res = "ok"
           /\ cur.cfg.maxBytes = 0 /\ pre.hdr # 0 /\ Len(pre.dbf) <= NP - 8
           \* (Core.tla does not model the baseline fetch of checkDatabaseBehindReplica: local state gone, replica not empty)
           /\ (pre.lastOK \/ (l > 1 /\ Log[l - 1].rpos = 0))
           /\ \A i \in DOMAIN pre.wal : pre.wal[i][1] <= NP

Predicted == C!SyncResult(C!Verify)
SameFile(f, r) ==
  /\ f.off = r.off /\ f.len = r.n /\ f.salt1 = r.gen /\ f.commit = r.commit
  /\ \A p \in 1..NP : PageOf(f, p) = r.pages[p]

Conforms ==
  Applies =>
    LET r == Predicted IN
    IF r.skip THEN Len(Created) = 0
    ELSE r.err \/ (Len(Created) >= 1 /\ SameFile(Created[1], r.ltx))

Branch == IF ~Applies THEN "n/a" ELSE LET v == C!Verify r == Predicted IN
          IF r.skip THEN "skip" ELSE IF v.snap THEN "snapshot" ELSE IF v.off = 0 THEN "incremental-from-header" ELSE "incremental"

Report == /\ (Conforms \/ PrintT(<<"DIVERGE", l, cur.t, cur.i>>))
          /\ (~Applies \/ PrintT(<<"BRANCH", Branch, l, cur.t, cur.i>>))
====

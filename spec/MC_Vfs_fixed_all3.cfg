SPECIFICATION Spec
CONSTANTS
  MaxPg = 3
  MaxTx = 3
  MaxL1 = 2
  FixV1 = TRUE
  FixV2 = TRUE
  FixV3 = TRUE
  FixV4 = TRUE
  WithLock = TRUE
  WithRet = TRUE
  WithSnap = TRUE
  WithTT = TRUE
INVARIANTS GMissing GStale GSizeBig GSizeSmall GAvail GStall TimeTravelOK C18
CHECK_DEADLOCK FALSE

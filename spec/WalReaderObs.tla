------------------------------ MODULE WalReaderObs ------------------------------
(***************************************************************************)
(* The judge for C09.  One log line = one byte string (a real SQLite WAL   *)
(* or a mutant of one) with three independent results recorded by          *)
(* harness/cmd/walreader:                                                  *)
(*   ls     what the real litestream.WALReader returned (PageMap): pages   *)
(*          <<pgno, frame index of the returned offset, content id of the  *)
(*          bytes at that offset>>, commit, end (= maxOffset in frames)    *)
(*   sq     what real SQLite recovered from the same bytes: the database   *)
(*          file after open + wal_checkpoint(TRUNCATE), as content ids     *)
(*   frames the abstract descriptor <<pg, commit, saltOK, chainOK, content *)
(*          id>> assigned by the harness' own decoder; hdr = header class  *)
(*   base   the database file before the WAL is applied (content ids);     *)
(*          content id 0 = the all-zero page                               *)
(*   grow   two syncs with the WAL growing from j frames to all of them    *)
(*          (a = PageMap of the prefix, b = resumed reader at a's          *)
(*          maxOffset); chunks = Sync loop with a byte limit (needs the    *)
(*          verif export, else empty)                                      *)
(* VERDICT  = the property, evaluated on what the real code returned.      *)
(* DIVERGENCE = binding: real output # transcription (WalReader.tla), or   *)
(*          SQLite # Recovered(descriptor) (my decoder / model is wrong).  *)
(***************************************************************************)
EXTENDS Integers, Sequences, FiniteSets, TLC, Json

Log == ndJsonDeserialize("walreader.ndjson")

VARIABLE l
Init == l = 1
Next == l < Len(Log) /\ l' = l + 1
Spec == Init /\ [][Next]_l
cur == Log[l]

WR == INSTANCE WalReader WITH MaxFrames <- 0, NPages <- 0, PgMin <- 0, BothBad <- TRUE, MaxBad <- 0, NParts <- 1, Part <- 0, wal <- 0

NF == Len(cur.frames)
D == [hdr |-> cur.hdr,
      frames |-> [i \in 1..NF |-> [pg |-> cur.frames[i][1], commit |-> cur.frames[i][2],
                                   saltOK |-> cur.frames[i][3] = 1, chainOK |-> cur.frames[i][4] = 1]]]
Cid(i) == cur.frames[i][5]

\* what a result of the real reader ships: pgno -> frame index; nothing on eof / error / panic
Pgs(x) == {x.pages[k][1] : k \in DOMAIN x.pages}
Ent(x, p) == x.pages[CHOOSE k \in DOMAIN x.pages : x.pages[k][1] = p]
MapOf(x) == [p \in Pgs(x) |-> Ent(x, p)[2]]
Shipped(x) == [m |-> MapOf(x), commit |-> x.commit]
Something(x) == x.res = "ok" /\ x.end # 0

SaltChainPrefix == WR!SaltChainPrefix(D)
SaltChainLastCommit == WR!SaltChainLastCommit(D)

\* the database a replica holds after shipping ls on top of base
LsSize == IF cur.ls.res = "ok" /\ cur.ls.commit > 0 THEN cur.ls.commit ELSE Len(cur.base)
LsPage(p) == IF p \in Pgs(cur.ls) THEN Ent(cur.ls, p)[3] ELSE IF p <= Len(cur.base) THEN cur.base[p] ELSE 0

\* WellFormed ranges over page numbers between commit sizes: only evaluated when they are small
Small == \A i \in 1..NF : D.frames[i].commit < 1000 /\ D.frames[i].pg < 1000
WF == Small /\ WR!WellFormed(D) /\ ~WR!Hazard(D)
-----------------------------------------------------------------------------
\* Hazard signatures of known findings (WalReader.tla, known_findings.json): the verdict is split so that a listed
\* finding is reported as such and everything else stays a violation.
H_PgnoZero == WR!H_PgnoZero(D)
H_CommitWithoutPages == ~H_PgnoZero /\ WR!H_CommitWithoutPages(D)

\* litestream = SQLite: the replica is byte-for-byte the database SQLite recovers (size and every page)
EqualsSqlite_ ==
  cur.sq.res = "ok" =>
     /\ LsSize = Len(cur.sq.db)
     /\ \A p \in 1..Len(cur.sq.db) : LsPage(p) = cur.sq.db[p]
\* nothing from a frame failing the salt / checksum test, following one, or following the last commit frame
NothingFromInvalid_ == \A k \in DOMAIN cur.ls.pages : cur.ls.pages[k][2] <= SaltChainLastCommit
ChunkPagesValid(x) == \A k \in DOMAIN x.pages : x.pages[k][2] <= SaltChainLastCommit
\* no page beyond the committed size
NoPageAboveCommit_ == \A k \in DOMAIN cur.ls.pages : cur.ls.pages[k][1] <= cur.ls.commit
\* the returned offset of a page is a frame of that page
OffsetIsFrameOfPage_ ==
  /\ cur.ls.res \in {"ok", "eof", "error"}
  /\ \A k \in DOMAIN cur.ls.pages : LET e == cur.ls.pages[k] IN e[2] \in 1..NF /\ cur.frames[e[2]][1] = e[1] /\ Cid(e[2]) = e[3]
\* two syncs with the WAL growing in between ship what one sync ships
GrowAcc(g) ==
  LET a1 == IF Something(g.a) THEN WR!Ship(WR!Shipped0, Shipped(g.a)) ELSE WR!Shipped0
  IN IF Something(g.b) THEN WR!Ship(a1, Shipped(g.b)) ELSE a1
OneShot == IF Something(cur.ls) THEN Shipped(cur.ls) ELSE WR!Shipped0
GrowthComposes_ ==
  \A k \in DOMAIN cur.grow :
     /\ ChunkPagesValid(cur.grow[k].b)
     /\ WF => WR!Final(GrowAcc(cur.grow[k])) = WR!Final(OneShot)
\* the Sync loop with a byte limit ships what one unlimited sync ships
RECURSIVE ChunkAcc(_, _, _)
ChunkAcc(parts, k, acc) ==
  IF k > Len(parts) THEN acc
  ELSE ChunkAcc(parts, k + 1, IF Something(parts[k]) THEN WR!Ship(acc, Shipped(parts[k])) ELSE acc)
ChunksCompose_ ==
  \A c \in DOMAIN cur.chunks :
     /\ \A k \in DOMAIN cur.chunks[c].parts : ChunkPagesValid(cur.chunks[c].parts[k])
     /\ WF => WR!Final(ChunkAcc(cur.chunks[c].parts, 1, WR!Shipped0)) = WR!Final(OneShot)
-----------------------------------------------------------------------------
\* Binding
T == WR!PageMapT(D)
LsRes == IF cur.ls.res = "eof" THEN "EOF" ELSE cur.ls.res
TranscriptionMatches_ ==
    /\ LsRes = T.res
    /\ MapOf(cur.ls) = T.m /\ cur.ls.commit = T.commit /\ cur.ls.end = T.end
ModelMatchesSqlite_ ==
  cur.sq.res = "ok" =>
     LET r == WR!Recovered(D)
         size == IF r.commit > 0 THEN r.commit ELSE Len(cur.base)
     IN /\ size = Len(cur.sq.db)
        /\ \A p \in 1..Len(cur.sq.db) :
             cur.sq.db[p] = (IF p \in DOMAIN r.pages THEN Cid(r.pages[p]) ELSE IF p <= Len(cur.base) THEN cur.base[p] ELSE 0)
FrameSize == cur.ps + 24
CeilDiv(a, b) == (a + b - 1) \div b
GrowTranscriptionMatches_ ==
  \A k \in DOMAIN cur.grow : WR!Final(GrowAcc(cur.grow[k])) = WR!Final(WR!Grow(D, cur.grow[k].j))
ChunkTranscriptionMatches_ ==
  \A c \in DOMAIN cur.chunks :
     WR!Final(ChunkAcc(cur.chunks[c].parts, 1, WR!Shipped0)) = WR!Final(WR!Chain(D, 0, CeilDiv(cur.chunks[c].l, FrameSize), WR!Shipped0))
-----------------------------------------------------------------------------
V(name, ok) == ok \/ PrintT(<<"VERDICT", name, l, cur.t, cur.i>>)
B(name, ok) == ok \/ PrintT(<<"DIVERGENCE", name, l, cur.t, cur.i>>)
EqualsSqlite           == V("EqualsSqlite", H_PgnoZero \/ H_CommitWithoutPages \/ EqualsSqlite_)
K_PgnoZero_EqualsSqlite == V("K_PgnoZero_EqualsSqlite", ~H_PgnoZero \/ EqualsSqlite_)
K_CommitWithoutPages_EqualsSqlite == V("K_CommitWithoutPages_EqualsSqlite", ~H_CommitWithoutPages \/ EqualsSqlite_)
NothingFromInvalid     == V("NothingFromInvalid", NothingFromInvalid_)
NoPageAboveCommit      == V("NoPageAboveCommit", NoPageAboveCommit_)
OffsetIsFrameOfPage    == V("OffsetIsFrameOfPage", OffsetIsFrameOfPage_)
GrowthComposes         == V("GrowthComposes", GrowthComposes_)
ChunksCompose          == V("ChunksCompose", ChunksCompose_)
TranscriptionMatches      == B("TranscriptionMatches", TranscriptionMatches_)
ModelMatchesSqlite        == B("ModelMatchesSqlite", ModelMatchesSqlite_)
GrowTranscriptionMatches  == B("GrowTranscriptionMatches", GrowTranscriptionMatches_)
ChunkTranscriptionMatches == B("ChunkTranscriptionMatches", ChunkTranscriptionMatches_)
=============================================================================

SPECIFICATION Spec
CONSTANTS
  MaxPg = 3
  MaxTx = 3
  MaxL1 = 2
  FixV1 = FALSE
  FixV2 = FALSE
  FixV3 = FALSE
  FixV4 = FALSE
  WithLock = TRUE
  WithRet = TRUE
  WithSnap = FALSE
  WithTT = FALSE
INVARIANTS GMissing GStale GSizeBig GSizeSmall GAvail GStall TimeTravelOK
CHECK_DEADLOCK FALSE

------------------------------ MODULE Faults ------------------------------
(***************************************************************************)
(* Upload loop (replica.go:164-234) and compaction (compactor.go:104-192)    *)
(* under transient storage faults: every call is ok / fails before taking    *)
(* effect / fails after taking effect; listings may fail.  C05: L0Gapless,   *)
(* AckStored, Restorable.                                                    *)
(***************************************************************************)
EXTENDS Integers, Sequences, FiniteSets, SequencesExt, TLC

CONSTANTS NSync, MaxFaults

N == NSync
Levels == {0, 1, 2, 9}
P == INSTANCE RestorePlan WITH Levels <- Levels
None == P!None

VARIABLES remote, pos, rpos, cache, faults, acked, running
vars == <<remote, pos, rpos, cache, faults, acked, running>>

F0(n) == [lvl |-> 0, min |-> n, max |-> n, ts |-> 0]
MaxAt(l) == LET s == {f \in remote : f.lvl = l} IN IF s = {} THEN None ELSE CHOOSE f \in s : \A g \in s : g.max <= f.max

Init == remote = {} /\ pos = 0 /\ rpos = 0 /\ cache = [l \in {1, 2} |-> None] /\ faults = 0 /\ acked = 0 /\ running = FALSE

LocalSync == /\ pos < NSync /\ pos' = pos + 1 /\ UNCHANGED <<remote, rpos, cache, faults, acked, running>>

\* Replica.syncOnce: begin; calcPos if unknown; upload loop; success => acknowledgement
RBegin == /\ ~running /\ pos > 0 /\ running' = TRUE /\ UNCHANGED <<remote, pos, rpos, cache, faults, acked>>
RCalcPos(outcome) ==
  /\ running /\ rpos = 0
  /\ IF outcome = "ok"
       THEN /\ rpos' = MaxAt(0).max
            /\ (rpos' = 0 => running' = running)        \* empty replica: position stays zero, loop starts at 1
            /\ UNCHANGED <<faults, running>>
       ELSE /\ faults < MaxFaults /\ faults' = faults + 1 /\ rpos' = 0 /\ running' = FALSE
  /\ UNCHANGED <<remote, pos, cache, acked>>
\* the position may legitimately be zero on an empty replica; model "known" by a flag-free trick: uploads use rpos+1
RUpload(outcome) ==
  /\ running /\ rpos < pos
  /\ (rpos = 0 => MaxAt(0) = None)                      \* position zero only trusted if the listing was empty (else RCalcPos first)
  /\ CASE outcome = "ok"        -> /\ remote' = remote \cup {F0(rpos + 1)} /\ rpos' = rpos + 1 /\ UNCHANGED <<faults, running>>
       [] outcome = "failBefore" -> /\ faults < MaxFaults /\ faults' = faults + 1
                                    /\ rpos' = 0 /\ running' = FALSE /\ UNCHANGED remote
       [] outcome = "failAfter"  -> /\ faults < MaxFaults /\ faults' = faults + 1
                                    /\ remote' = remote \cup {F0(rpos + 1)} /\ rpos' = 0 /\ running' = FALSE
  /\ UNCHANGED <<pos, cache, acked>>
REnd == /\ running /\ rpos >= pos /\ (rpos # 0 \/ pos = 0)
        /\ running' = FALSE /\ acked' = pos
        /\ UNCHANGED <<remote, pos, rpos, cache, faults>>

Compact(d, outcome) ==
  /\ d \in {1, 2}
  /\ LET prev == IF cache[d] # None THEN cache[d] ELSE MaxAt(d)
         seek == prev.max + 1
         src  == SelectSeq(P!LevelSeq(remote, d - 1), LAMBDA f : f.min >= seek)
     IN /\ Len(src) > 0
        /\ \A i \in 2..Len(src) : src[i].min <= src[i-1].max + 1 /\ src[i].max > src[i-1].max
        /\ LET nf == [lvl |-> d, min |-> src[1].min, max |-> src[Len(src)].max, ts |-> 0] IN
           CASE outcome = "ok"        -> remote' = remote \cup {nf} /\ cache' = [cache EXCEPT ![d] = nf] /\ UNCHANGED faults
             [] outcome = "failBefore" -> faults < MaxFaults /\ faults' = faults + 1 /\ UNCHANGED <<remote, cache>>
             [] outcome = "failAfter"  -> faults < MaxFaults /\ faults' = faults + 1 /\ remote' = remote \cup {nf} /\ UNCHANGED cache
  /\ UNCHANGED <<pos, rpos, acked, running>>

Outcomes == {"ok", "failBefore", "failAfter"}
Next == \/ LocalSync \/ RBegin \/ REnd
        \/ \E o \in {"ok", "err"} : RCalcPos(o)
        \/ \E o \in Outcomes : RUpload(o)
        \/ \E d \in {1, 2} : \E o \in Outcomes : Compact(d, o)
Spec == Init /\ [][Next]_vars

L0 == {f.min : f \in {g \in remote : g.lvl = 0}}
L0Gapless == \A n \in L0 : \A m \in 1..n : m \in L0
AckStored == \A n \in 1..acked : n \in L0
Restorable == L0 # {} => LET r == P!Planner(remote, 0, 0) IN
                 r.err = "none" /\ r.plan[Len(r.plan)].max = (CHOOSE m \in L0 : \A x \in L0 : x <= m)
=============================================================================
------------------------------- MODULE Follow -------------------------------
(***************************************************************************)
(* C16 (model side): a follow-mode restore next to the replica of            *)
(* Replica.tla (file sets under sync / compaction / snapshot / retention,    *)
(* planner = RestorePlan.tla).                                               *)
(*                                                                           *)
(* The follower is the code AS IT IS, over TXID ranges:                      *)
(*   PollFiles, ResumeCheck = FollowAlg.tla (applyNewLTXFiles with           *)
(*                    fillFollowGap; the crash-recovery branch of Restore)   *)
(*   FApply / FPub  = applyLTXFile (replica.go:956: page writes, fsync,      *)
(*                    truncate, fsync) and WriteTXIDFile (replica.go:1730:   *)
(*                    tmp, fsync, rename), one step each when Fine = TRUE,   *)
(*                    with FKill enabled between any two steps.              *)
(* Disk state of the follower: fx (output database exists), [lo, hi] = every *)
(* page of the database has the version of some state in lo..hi (lo = hi: the*)
(* database IS state lo), fbad (a file was applied that does not connect),   *)
(* side (TXID in the -txid sidecar, 0 = none).                               *)
(*                                                                           *)
(* Applying a file [a,b] completely to a database in [lo,hi] with a <= lo+1  *)
(* gives [b, max(hi,b)]: every page changed in a..b gets its b-version, every*)
(* other page keeps a version that is also its version in b or later.        *)
(*                                                                           *)
(* Variant: "asis" | "m_pubfirst" (sidecar before apply) | "m_gap" (gap test *)
(* off by one in fillFollowGap; "m_gap0": off by one the other way): the     *)
(* seeded mutants of tools/checks/c16.py.  Fixes: the repaired findings (W1: *)
(* resume validated against the replica's newest TXID; W2: gaps bridged from *)
(* level 9 as a last resort; W3: first sidecar published before the restored *)
(* database is renamed into place).                                          *)
(***************************************************************************)
EXTENDS Replica, FollowAlg

CONSTANTS Fine

VARIABLES fp,      \* "off" | "run"
          fx, lo, hi, fbad, side,
          ft,      \* lastTXID of the running process (replica.go:814)
          pc,      \* "idle" | "apply" | "pub" | "mv" (W3 repaired: sidecar published, restored database not yet renamed)
          todo,    \* files the current poll still has to apply
          cur,     \* currentTXID of the poll
          step     \* apply: 0 not begun, 1 pages written, 2 synced, 3 truncated; pub: 0 nothing, 1 tmp written + synced
fvars == <<fp, fx, lo, hi, fbad, side, ft, pc, todo, cur, step>>
allvars == <<vars, fvars>>

LatestF == P!Planner(remote, 0, 0)
-----------------------------------------------------------------------------
(* ---------------- the follower process ---------------- *)

Off == /\ fp' = "off" /\ ft' = 0 /\ pc' = "idle" /\ todo' = <<>> /\ cur' = 0 /\ step' = 0

InitF == /\ Init
         /\ fp = "off" /\ fx = FALSE /\ lo = 0 /\ hi = 0 /\ fbad = FALSE /\ side = 0
         /\ ft = 0 /\ pc = "idle" /\ todo = <<>> /\ cur = 0 /\ step = 0

\* fresh restore (output must not exist): plan, decode into .tmp, fsync; rename, then the first sidecar
\* (W3 repaired: the first sidecar, then the rename)                                   replica.go:689-805
FStart ==
  /\ fp = "off" /\ ~fx /\ pos > 0 /\ LatestF.err = "none"
  /\ LET m == Last(LatestF.plan).max IN
     /\ fp' = "run" /\ ft' = m /\ cur' = m /\ todo' = <<>> /\ step' = 0
     /\ IF ~Fine THEN fx' = TRUE /\ lo' = m /\ hi' = m /\ pc' = "idle" /\ side' = m
        ELSE IF "W3" \in Fixes THEN fx' = FALSE /\ lo' = lo /\ hi' = hi /\ pc' = "pub" /\ side' = side
        ELSE fx' = TRUE /\ lo' = m /\ hi' = m /\ pc' = "pub" /\ side' = side
  /\ UNCHANGED <<vars, fbad>>

\* W3 repaired: the rename of the restored database after its sidecar
FMove ==
  /\ fp = "run" /\ pc = "mv"
  /\ fx' = TRUE /\ lo' = ft /\ hi' = ft /\ pc' = "idle"
  /\ UNCHANGED <<vars, fp, fbad, side, ft, todo, cur, step>>

FResume ==
  /\ fp = "off" /\ fx /\ ResumeCheck(remote, side) = "ok"
  /\ fp' = "run" /\ ft' = side /\ pc' = "idle" /\ todo' = <<>> /\ cur' = 0 /\ step' = 0
  /\ UNCHANGED <<vars, fx, lo, hi, fbad, side>>

ChainOK(fs, from) == /\ Len(fs) > 0 => fs[1].min <= from + 1
                     /\ \A i \in 2..Len(fs) : fs[i].min <= fs[i-1].max + 1

\* a poll that applies something (a poll that finds nothing changes nothing)
FPoll ==
  /\ fp = "run" /\ pc = "idle"
  /\ LET r == PollFiles(remote, ft) IN
     /\ Len(r.fs) > 0
     /\ IF Fine
          THEN /\ pc' = "apply" /\ todo' = r.fs /\ cur' = ft /\ step' = 0
               /\ UNCHANGED <<lo, hi, fbad, side, ft>>
          ELSE /\ fbad' = (fbad \/ ~ChainOK(r.fs, lo))
               /\ lo' = r.cur /\ hi' = Max2(hi, r.cur) /\ side' = r.cur /\ ft' = r.cur
               /\ UNCHANGED <<pc, todo, cur, step>>
  /\ UNCHANGED <<vars, fp, fx>>

\* applyLTXFile, one system-call class per step                                       replica.go:956-1010
FApply ==
  /\ fp = "run" /\ pc = "apply" /\ Len(todo) > 0
  /\ LET f == Head(todo) IN
     IF step = 0 /\ f \notin remote
       THEN \* listed but deleted meanwhile: OpenLTXFile fails, the poll is abandoned without a sidecar   replica.go:921, 856
            /\ pc' = "idle" /\ todo' = <<>> /\ cur' = 0 /\ step' = 0
            /\ UNCHANGED <<lo, hi, fbad, side, ft>>
       ELSE CASE step = 0 ->                                          \* page writes begin
                   /\ step' = 1 /\ lo' = Min2(lo, f.max) /\ hi' = Max2(hi, f.max)
                   /\ fbad' = (fbad \/ f.min > lo + 1)
                   /\ side' = IF Variant = "m_pubfirst" THEN f.max ELSE side
                   /\ UNCHANGED <<pc, todo, cur, ft>>
              [] step \in {1, 2} ->                                   \* fsync (1 -> 2), truncate (2 -> 3)
                   /\ step' = step + 1
                   /\ UNCHANGED <<lo, hi, fbad, side, pc, todo, cur, ft>>
              [] step = 3 ->                                          \* last fsync returned: the file is applied
                   /\ lo' = f.max /\ cur' = f.max /\ todo' = Tail(todo) /\ step' = 0
                   /\ pc' = IF Len(todo) = 1 THEN "pub" ELSE "apply"
                   /\ UNCHANGED <<hi, fbad, side, ft>>
  /\ UNCHANGED <<vars, fp, fx>>

\* WriteTXIDFile: tmp + fsync, rename                                                 replica.go:861, 1730
FPub ==
  /\ fp = "run" /\ pc = "pub"
  /\ IF step = 0 THEN /\ step' = 1 /\ UNCHANGED <<side, ft, pc, cur>>
     ELSE /\ side' = Max2(cur, IF Variant = "m_pubfirst" THEN side ELSE 0) /\ ft' = cur /\ cur' = 0 /\ step' = 0
          /\ pc' = IF fx THEN "idle" ELSE "mv"
  /\ UNCHANGED <<vars, fp, fx, lo, hi, fbad, todo>>

\* SIGKILL (or a clean stop when idle): the process is gone, the files stay
FKill == /\ fp = "run" /\ Off /\ UNCHANGED <<vars, fx, lo, hi, fbad, side>>

PTick == Tick /\ UNCHANGED fvars
PSync == Sync /\ UNCHANGED fvars
PSnapshot == Snapshot /\ UNCHANGED fvars
PCompact(d) == Compact(d) /\ UNCHANGED fvars
PSnapRet(c) == SnapRetention(c) /\ UNCHANGED fvars
PL0Ret(t) == L0Retention(t) /\ UNCHANGED fvars

NextF == \/ PTick \/ PSync \/ PSnapshot
         \/ \E d \in {1, 2} : PCompact(d)
         \/ \E c \in 1..(MaxClock + 1) : PSnapRet(c)
         \/ \E t \in 0..MaxClock : PL0Ret(t)
         \/ FStart \/ FResume \/ FPoll \/ FApply \/ FPub \/ FMove \/ FKill
SpecF == InitF /\ [][NextF]_allvars

-----------------------------------------------------------------------------
(* ---------------- C16 ---------------- *)

\* the follower is never ahead of the replica
NeverAhead == ft <= pos /\ side <= pos /\ hi <= pos

\* every applied file begins at <= current + 1 and extends it; files are applied in TXID order
NoSkip == /\ ~fbad
          /\ (pc = "apply" /\ Len(todo) > 0) =>
                /\ todo[1].min <= cur + 1 /\ todo[1].max > cur
                /\ \A i \in 2..Len(todo) : todo[i].min <= todo[i-1].max + 1 /\ todo[i].max > todo[i-1].max

\* the sidecar names a TXID only after the database holds it ("written atomically after apply")
SidecarAfterApply == fx => side <= lo

\* across polls and restarts the sidecar never goes back
SidecarMonotone == [][side' >= side]_allvars

\* a follower that has reached the replica's newest TXID holds exactly that state
Converges == (fp = "run" /\ pc = "idle" /\ pos > 0 /\ ft = pos) => (lo = pos /\ hi = pos /\ ~fbad)

\* whenever an ordinary restore of the newest TXID is possible, a poll makes progress; with NeverAhead this means that
\* repeated polls on a replica that stopped changing reach the newest TXID
NoStall == (fp = "run" /\ pc = "idle" /\ ft < pos /\ LatestF.err = "none") => PollFiles(remote, ft).cur > ft

\* a stopped / killed follower whose sidecar TXID is on the replica's chain can resume
ResumeAccepted == (fp = "off" /\ fx /\ side > 0) => ResumeCheck(remote, side) = "ok"

\* a kill leaves the output resumable (the database never exists without a sidecar)
ResumeAfterKill == (fp = "off" /\ fx) => side > 0

\* ---- known findings as hazard predicates (DESIGN section 8)
NewestSnap == LET s == LevelSeq(9) IN IF Len(s) = 0 THEN None ELSE s[Len(s)]
\* W1: the sidecar TXID is ahead of the newest snapshot (the normal situation of a follower)
HzW1 == fx /\ side > 0 /\ NewestSnap # None /\ side > NewestSnap.max
\* W2: nothing below the snapshot level connects to the follower's position, a snapshot does
HzW2 == /\ fp = "run" /\ ~\E f \in remote : f.lvl < 9 /\ f.min <= ft + 1 /\ f.max > ft
        /\ \E f \in remote : f.lvl = 9 /\ f.max > ft
\* W3: killed between the rename of the restored database and the first sidecar
HzW3 == fx /\ side = 0
hz == {h \in {"W1", "W2", "W3"} : (h = "W1" /\ HzW1) \/ (h = "W2" /\ HzW2) \/ (h = "W3" /\ HzW3)}

NoStallH == NoStall \/ "W2" \in hz
ResumeAcceptedH == ResumeAccepted \/ "W1" \in hz
ResumeAfterKillH == ResumeAfterKill \/ "W3" \in hz
=============================================================================

SPECIFICATION Spec
INVARIANTS Mutex ExpiryIsNowPlusTTL AcquireOnlyAfterExpiry GenIncreases StaleCannot HandedOutIsStored RefusedAcquireChangesNothing
CHECK_DEADLOCK FALSE

SPECIFICATION Spec
CONSTANTS Variant="asis"
INVARIANTS Polls Resume
CHECK_DEADLOCK FALSE

SPECIFICATION Spec
CONSTANTS Variant="asis" Fixes={}
INVARIANTS Polls Resume
CHECK_DEADLOCK FALSE

SPECIFICATION Spec
CONSTANTS
  MaxGen = 1
  MaxIdx = 2
  MaxSeg = 2
  MaxSnap = 2
  Sizes = {1}
  LtxMode = 1
  FixU1 = FALSE
  Parts = 1
  Part = 0
INVARIANTS InvNoSnapshotIsError InvGapIsErrorModU1 InvRightState InvArbitrationClear InvCompleteHasNoGap InvU1Outcome
CHECK_DEADLOCK FALSE

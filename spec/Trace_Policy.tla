------------------------------ MODULE Trace_Policy ------------------------------
(***************************************************************************)
(* Binding of Policy.tla to the code: Policy.tla's OWN operator SyncOutcome *)
(* (the model of db.go syncLocked + checkpointIfNeeded) is instantiated on  *)
(* the state OBSERVED just before a real DB.Sync -- committed frames of the *)
(* live WAL generation, lastSyncedWALOffset and syncedSinceCheckpoint read  *)
(* through the verif hook, the configured thresholds -- and its prediction  *)
(* (frames left in the WAL, level-0 files created) is compared with what    *)
(* the real code did.  A mismatch is a DIVERGENCE (reported, not a verdict).*)
(***************************************************************************)
EXTENDS Integers, Sequences, FiniteSets, TLC, Json

Log == ndJsonDeserialize("core_trace.ndjson")
VARIABLE l
cur == Log[l]
pre == cur.pre

ObsInterval == IF cur.cfg.intervalMs = 0 THEN "off" ELSE IF cur.cfg.intervalMs <= 1 THEN "elapsed" ELSE "notyet"
P == INSTANCE Policy WITH
       MinPgs <- {}, TruncPgs <- {}, Intervals <- {}, MaxW <- 0, MaxIdle <- 0,
       cfg <- [minPg |-> cur.cfg.minPg, truncPg |-> cur.cfg.truncPg, interval |-> ObsInterval],
       w <- pre.valid, synced <- pre.synced, since <- pre.since,
       idle <- FALSE, nidle <- 0, made <- 0, lastFiles <- 0

Init == l = 1
Next == l < Len(Log) /\ l' = l + 1
Spec == Init /\ [][Next]_l

Created == SelectSeq(cur.newl0, LAMBDA f : ~f.fetched)
\* conformance is claimed for one unchunked DB.Sync of a database whose WAL is fully committed, with nothing pinned open,
\* the synced offset on a frame boundary of the live generation (steady state: the previous litestream call was a sync too)
Applies == /\ cur.op = "LsSync" /\ cur.res = "ok" /\ pre.has /\ cur.cfg.maxBytes = 0
           /\ ~cur.inTx /\ ~cur.reader /\ ~cur.bg
           /\ pre.hdr # 0 /\ pre.valid >= 1 /\ pre.synced >= 0 /\ pre.synced <= pre.valid
           /\ pre.valid = Len(pre.wal) \/ pre.wal[pre.valid + 1][4] # pre.hdr     \* no uncommitted / torn tail of this generation
           /\ pre.lastOK
           /\ l > 1 /\ Log[l - 1].t = cur.t /\ Log[l - 1].op \in {"LsSync", "AppWrite", "AppWrite2", "AppGrow"}

Predicted == P!SyncOutcome
Conforms == Applies => LET o == Predicted IN cur.wal.valid = o.w /\ Len(Created) = o.files

Branch == IF ~Applies THEN "n/a" ELSE LET o == Predicted IN
          IF ~o.ckpt THEN (IF o.files = 0 THEN "idle" ELSE "copy")
          ELSE IF pre.valid > pre.synced THEN (IF o.files = 3 THEN "copy+passive+truncate" ELSE "copy+checkpoint")
          ELSE (IF o.files = 2 THEN "passive+truncate" ELSE "checkpoint")

Report == /\ (Conforms \/ PrintT(<<"DIVERGE", l, cur.t, cur.i, Predicted.w, Predicted.files>>))
          /\ (~Applies \/ PrintT(<<"BRANCH", Branch, l, cur.t, cur.i>>))
====

SPECIFICATION Spec
CONSTANTS NSync=3 MaxClock=3 RetentionEnabled=FALSE
INVARIANTS Restorable SnapshotKept L0Run LevelContig
CHECK_DEADLOCK FALSE

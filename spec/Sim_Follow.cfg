SPECIFICATION SpecF
CONSTANTS NSync=6 MaxClock=4 RetentionEnabled=TRUE Fine=FALSE Variant="asis" Fixes={}
CHECK_DEADLOCK FALSE

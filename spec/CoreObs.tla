------------------------------ MODULE CoreObs ------------------------------
(***************************************************************************)
(* The judge for C01, C02, C04, C13, C14: the properties, evaluated by TLC  *)
(* on states OBSERVED from the real SQLite + the real litestream            *)
(* (harness/core, harness/cmd/core).  Every value below is read from the    *)
(* recorded trace; nothing of the model's transition relation is assumed.   *)
(*                                                                         *)
(* One log line per executed schedule step:                                 *)
(*   t, i      trace id, step index ("Reset" = first line of a trace)       *)
(*   op, arg, n, res, ack      operation, arguments, result class, and      *)
(*             whether the call acknowledged replication (SyncAndWait = nil *)
(*             or Close = nil)                                              *)
(*   src       the source as SQLite itself sees it: page ids of a           *)
(*             checkpointed copy of (db, -wal)  [n, pg]                     *)
(*   app       id of the application-visible content (schema+rows minus     *)
(*             _litestream_* tables); ctl = same for the control run        *)
(*   seqPg, seq, lockN, integ, journal                                      *)
(*   wal       physical WAL: [exists, gen, slots, valid, commit, ...]       *)
(*   lpos,rpos highest level-0 TXID locally / on the replica                *)
(*   newl0     level-0 files that appeared locally in this step (decoded)   *)
(*   remote, local   file listings <<lvl, min, max>>                        *)
(*   rest      outcome of the real Replica.Restore at an acknowledgement    *)
(*   audit     at the end: the real Restore(TXID = n) for every listed n    *)
(***************************************************************************)
EXTENDS Integers, Sequences, FiniteSets, TLC, Json

Log == ndJsonDeserialize("core_trace.ndjson")

VARIABLES l,        \* current log line
          lost,     \* committed WAL frames litestream had not copied were destroyed (restart/truncate/delete)
          reset,    \* the database file was replaced by another version
          floor,    \* highest TXID on the replica when lost/reset became true
          idleN,    \* number of consecutive idle syncs (no application step in between) so far
          idleNew,  \* level-0 files created by the idle syncs after the second one
          t0,       \* log line of the current trace's Reset
          ep0,      \* log line at which the current local epoch began (Reset, or the last reset / loss of the state directory)
          lastAck,  \* log line of the last acknowledgement in this trace (t0 if none)
          retained, \* a retention pass has run in this trace
          pendLoss, \* an in-flight litestream checkpoint has destroyed committed frames that no level-0 file covers (yet)
          sameSince,\* the same DB object was reopened while `lost`
          hz        \* shapes of known findings (known_findings.json "signature") seen so far in this trace
vars == <<l, lost, reset, floor, idleN, idleNew, t0, ep0, lastAck, retained, pendLoss, sameSince, hz>>

cur  == Log[l]
prev == Log[l - 1]
IsStep == cur.op # "Reset"

IsApp(e) == e.op \in {"AppWrite", "AppWrite2", "AppGrow", "AppGrowWrite", "AppShrink", "AppDelete", "AppReclaim", "AppVacuum", "AppDDL", "AppBegin", "AppSpill",
                      "AppCommit", "AppRollback", "AppCheckpoint", "AppHoldWrite", "AppJoin", "AppClose", "AppOpen", "ReaderOpen", "ReaderClose", "ParApp"}
IsLs(e)  == e.op \in {"LocalLoss", "ParStep", "ParEnd", "LsOpen", "LsSync", "LsReplicaSync", "LsSyncAndWait", "LsCheckpoint", "LsClose", "LsReset",
                      "Snapshot", "Compact", "CkStart", "CkStep", "CkCancel"}
\* a litestream checkpoint, either as one call (LsCheckpoint) or step by step (CkStart, CkStep: res = "at" while parked at a hook)
IsChk(e) == e.op \in {"LsCheckpoint", "CkStart", "CkStep"}
ChkFailed(e) == IsChk(e) /\ e.res \notin {"ok", "skip", "at"}
IsSync(e) == e.op \in {"LsSync", "LsSyncAndWait"}
IsRetention(e) == e.op \in {"SnapRetention", "L0Retention", "RetByTXID", "Compact", "L0RetentionAbs", "SnapRetentionAbs"}

\* level-0 files litestream CREATED in a step (a baseline fetched from the replica by checkDatabaseBehindReplica is a copy, not a creation)
Created(e) == SelectSeq(e.newl0, LAMBDA f : ~f.fetched)
ToSet(sq) == {sq[i] : i \in DOMAIN sq}
RemSeen == UNION {ToSet(Log[k].newrem) : k \in t0..l}              \* every replica file ever observed in this trace
Pairs(f) == {<<f.pgs[i], f.ids[i]>> : i \in DOMAIN f.pgs}
PgSet(f) == {f.pgs[i] : i \in DOMAIN f.pgs}
L0Known(n) == \E f \in RemSeen : f.lvl = 0 /\ f.min = n /\ f.max = n /\ f.err = "none"
L0At(n) == CHOOSE f \in RemSeen : f.lvl = 0 /\ f.min = n /\ f.max = n /\ f.err = "none"
\* the last level-0 file litestream has locally before line k of the same trace: its WAL cursor [gen, end]
RECURSIVE CursorAt(_)
CursorAt(k) ==
  IF k < 1 \/ Log[k].op = "Reset" THEN [gen |-> 0, end |-> 0]
  \* local state gone: what litestream will work from is the replica's newest level-0 file (it re-fetches it)
  ELSE IF Log[k].op \in {"LsReset", "MetaLost"} /\ Log[k].res = "ok" /\ Len(Log[k].newl0) = 0
         THEN IF Log[k].rpos > 0 /\ L0Known(Log[k].rpos)
                THEN LET f == L0At(Log[k].rpos) IN [gen |-> f.gen, end |-> f.off + f.len]
                ELSE [gen |-> 0, end |-> 0]
  ELSE IF Len(Log[k].newl0) > 0
         THEN LET f == Log[k].newl0[Len(Log[k].newl0)] IN [gen |-> f.gen, end |-> f.off + f.len]
         ELSE CursorAt(k - 1)

\* committed frames exist in the WAL (as of line k) that no level-0 file covers
Unsynced(k) ==
  LET w == Log[k].wal  c == CursorAt(k) IN
  /\ w.exists /\ w.commit > 0
  /\ IF w.gen = c.gen THEN w.commit > c.end ELSE TRUE


Init == l = 1 /\ lost = FALSE /\ reset = FALSE /\ floor = 0 /\ idleN = 0 /\ idleNew = 0 /\ t0 = 1 /\ ep0 = 1 /\ lastAck = 1 /\ retained = FALSE /\ pendLoss = FALSE /\ sameSince = FALSE /\ hz = {}

Next ==
  /\ l < Len(Log) /\ l' = l + 1
  /\ LET e == Log[l + 1]  p == Log[l] IN
     IF e.op = "Reset" THEN lost' = FALSE /\ reset' = FALSE /\ floor' = 0 /\ idleN' = 0 /\ idleNew' = 0 /\ t0' = l + 1 /\ ep0' = l + 1 /\ lastAck' = l + 1 /\ retained' = FALSE /\ pendLoss' = FALSE /\ sameSince' = FALSE /\ hz' = {}
     ELSE
       LET genChanged == e.wal.gen # p.wal.gen \/ ~e.wal.exists
           chkLoss   == IsChk(e) /\ genChanged /\ Unsynced(l)        \* litestream's own PRAGMA removed frames it had not copied
           \* ... which is only a loss if that checkpoint then fails before its boundary snapshot (G1)
           byChk     == ChkFailed(e) /\ (pendLoss \/ chkLoss)
           \* the local state went away together with level-0 files that were never uploaded AND at least one of them copied
           \* from a WAL generation that has since been replaced: those frames exist nowhere any more.  (If every such file
           \* copied from the live generation, the frames are still in the WAL and continuity remains provable.)
           \* level-0 files of the current local epoch that never reached the replica, and the WAL generations they copied from
           localOnlyGens == {f.gen : f \in {g \in UNION {ToSet(Log[j].newl0) : j \in ep0..l} : ~g.fetched /\ g.min > p.rpos}}
           resetLoss == /\ e.op \in {"LsReset", "MetaLost"} /\ e.res = "ok" /\ p.lpos > p.rpos /\ p.rpos > 0
                        /\ \E g \in localOnlyGens : (~e.wal.exists \/ g # e.wal.gen)
           destroyed == (IsApp(e) /\ e.res # "skip" /\ genChanged /\ Unsynced(l)) \/ byChk \/ resetLoss
           \* the database file itself was replaced by another version: whatever the WAL looks like, the old chain is void.
           \* (A lost/reset local state directory alone is NOT in this class: litestream re-fetches its last file from the
           \* replica and may legitimately prove continuity against an untouched WAL.)
           stateLost == e.op \in {"ReplaceDb", "RestoreAll"} /\ e.res = "ok"
           \* the flags stay up on the line where the first new file appears (it is judged there) and fall afterwards
           lost0     == IF Len(Created(p)) > 0 THEN FALSE ELSE lost
           reset0    == IF Len(Created(p)) > 0 THEN FALSE ELSE reset
           c         == CursorAt(l)
       IN /\ lost'  = (lost0 \/ destroyed)
          /\ reset' = (reset0 \/ stateLost)
          /\ floor' = IF (destroyed \/ stateLost) /\ ~lost0 /\ ~reset0 THEN p.rpos ELSE floor
          /\ t0' = t0
          /\ ep0' = IF e.op \in {"LsReset", "MetaLost", "RestoreAll"} /\ e.res = "ok" THEN l + 1 ELSE ep0
          /\ lastAck' = IF e.ack THEN l + 1 ELSE lastAck
          /\ retained' = (retained \/ (e.op \in {"SnapRetention", "L0Retention", "RetByTXID", "L0RetentionAbs", "SnapRetentionAbs"} /\ e.res # "skip"))
          /\ pendLoss' = IF IsChk(e) THEN (IF e.res = "at" THEN (pendLoss \/ chkLoss) ELSE FALSE) ELSE pendLoss
          /\ sameSince' = IF Len(Created(e)) > 0 THEN FALSE
                           ELSE (IF Len(Created(p)) > 0 THEN FALSE ELSE sameSince) \/ (e.op = "LsOpen" /\ e.arg = "same" /\ e.res = "ok" /\ lost0)
          /\ hz' = hz
               \* F1: stale syncedToWALEnd on a reopened DB object makes a foreign truncation look like litestream's own
               \cup (IF (Len(Created(e)) > 0 \/ e.ack) /\ lost0 /\ sameSince /\ p.wal.slots < c.end THEN {"F1"} ELSE {})
               \* F2: the WAL was restarted and the new generation is still shorter than the old cursor
               \cup (IF (Len(Created(e)) > 0 \/ e.ack) /\ lost0 /\ p.wal.exists
                        /\ LET cc == IF Len(e.newl0) > 0 /\ e.newl0[1].fetched
                                       THEN [gen |-> e.newl0[1].gen, end |-> e.newl0[1].off + e.newl0[1].len] ELSE c
                           IN p.wal.gen # cc.gen /\ p.wal.valid < cc.end
                     THEN {"F2"} ELSE {})
               \* G1: a litestream checkpoint failed after its PRAGMA had destroyed frames that were never copied
               \cup (IF byChk THEN {"G1"} ELSE {})
               \* Z1: a sync/checkpoint acquired the executor of a DB that was no longer open (check-then-act in Store.SyncDB / DB.Sync)
               \cup (IF e.op = "ParStep" /\ ((e.res = "exec.acquired" /\ ~e.open) \/ e.res = "exec.acquired|closed") THEN {"Z1"} ELSE {})
               \* S2: local level-0 files vanished / were truncated while litestream was running
               \cup (IF e.op = "LocalLoss" /\ e.res = "ok" /\ p.up THEN {"S2"} ELSE {})
               \* F3: local state reset on a running DB (what auto-recover does)
               \cup (IF e.op = "LsReset" /\ e.res = "ok" /\ p.up THEN {"F3"} ELSE {})
          /\ idleN' = IF IsSync(e) /\ e.res = "ok" THEN idleN + 1 ELSE IF IsApp(e) /\ e.res # "skip" THEN 0 ELSE idleN
          /\ idleNew' = IF IsApp(e) /\ e.res # "skip" THEN 0
                        ELSE IF IsSync(e) /\ idleN >= 2 THEN idleNew + Len(e.newl0) ELSE idleNew
Spec == Init /\ [][Next]_vars

-----------------------------------------------------------------------------
SameExcept(a, b, pgx) == a.n = b.n /\ \A p \in 1..a.n : p = pgx \/ a.pg[p] = b.pg[p]

(* C01: an acknowledged sync restores to exactly the source (litestream's own counter row excepted) *)
C01_RestoreEqualsSource_ ==
  (IsStep /\ cur.ack) =>
     /\ cur.rest.ok
     /\ SameExcept(cur.rest.state, cur.src, cur.seqPg)
     /\ cur.rest.app = cur.app
     /\ cur.rest.seq <= cur.seq
C01_RestoreIntegrity_ == (IsStep /\ cur.ack /\ cur.rest.ok) => cur.rest.integ = "ok"

(* C04: no success while the replica has silently stopped advancing *)
C04_AckMeansReplicaAtLocalPos_ == (IsStep /\ cur.ack) => (cur.lpos > 0 /\ cur.rpos = cur.lpos)
(* C04: after continuity was lost the first new level-0 file is a full snapshot above everything on the replica *)
C04_ResnapshotAfterLoss_ ==
  (IsStep /\ (lost \/ reset) /\ Len(Created(cur)) > 0) =>
     LET f == Created(cur)[1] IN f.full /\ f.min > floor

(* C02: every TXID restores to one committed state; order preserved; level 0 gapless from 1 *)
Ledger(t) == {k \in 1..Len(Log) : Log[k].t = t /\ Log[k].op # "Audit"}
\* (a ParApp line is an application transaction committed inside a Par block: only its application-visible content is recorded)
Matches(a, t, from) == {k \in Ledger(t) : k >= from /\ (Log[k].op = "ParApp" \/ SameExcept(a.state, Log[k].src, Log[k].seqPg)) /\ a.app = Log[k].app}
RECURSIVE MonoOK(_, _, _, _)
MonoOK(au, j, t, from) ==
  IF j > Len(au) THEN TRUE
  ELSE IF ~au[j].ok THEN MonoOK(au, j + 1, t, from)      \* not reachable (only tolerated after retention, see below)
  ELSE LET m == Matches(au[j], t, from) IN
       /\ m # {}
       /\ MonoOK(au, j + 1, t, CHOOSE k \in m : \A k2 \in m : k <= k2)
\* (after a retention pass a listed TXID may legitimately be unreachable: its lower files are gone)
C02_EveryTxidIsACommittedState_ ==
  (Len(cur.audit) > 0) => /\ (~retained => \A j \in 1..Len(cur.audit) : cur.audit[j].ok)
                          /\ MonoOK(cur.audit, 1, cur.t, 1)
L0Of(files) == {files[j][3] : j \in {k \in 1..Len(files) : files[k][1] = 0}}
C02_Level0Gapless_ ==
  IsStep => /\ \A j \in 1..Len(cur.remote) : cur.remote[j][1] = 0 => cur.remote[j][2] = cur.remote[j][3]
            /\ L0Of(cur.remote) = 1..cur.rpos
C02_NoUncommittedPages_ ==   \* a level-0 file written while an application transaction is open has no page of it
  TRUE

(* C13: WAL bounded after a successful sync; an idle database falls silent *)
Thresh(c) == LET tp == IF c.truncPg = 0 THEN 121359 ELSE c.truncPg IN IF c.minPg < tp THEN c.minPg ELSE tp
C13_WalBoundedAfterSync_ ==
  (IsStep /\ IsSync(cur) /\ cur.res = "ok" /\ ~cur.inTx /\ ~cur.reader)
     => cur.wal.valid < Thresh(cur.cfg) + 1
C13_IdleSilence_ == idleNew = 0

(* C14: litestream never alters the application's data *)
\* (not judged while a background application writer is committing concurrently with the step: cur.bg)
C14_LitestreamStepKeepsAppData_ == (IsStep /\ ~IsApp(cur) /\ ~cur.bg /\ cur.op \notin {"ReplaceDb", "RestoreAll"}) => cur.app = prev.app
C14_SameAsControlRun_ == (IsStep /\ cur.ctl # -1 /\ ~cur.bg) => cur.app = cur.ctl
C14_BookkeepingOnly_ == IsStep => (cur.lockN \in {0, -1} /\ cur.integ = "ok" /\ (cur.seqPg # 0 => cur.journal = "wal"))

-----------------------------------------------------------------------------
(* Replica layer: C05 (storage faults), C06 (compaction), C07 (retention).  Files are what the recorder decoded from *)
(* the replica directory (newrem: files that appeared or changed in a step).                                          *)
RECURSIVE ComposeRange(_, _)
ComposeRange(a, b) == IF a > b THEN {}
                      ELSE LET base == ComposeRange(a, b - 1)  f == L0At(b)
                           IN {p \in base : p[1] \notin PgSet(f) /\ p[1] <= f.commit} \cup Pairs(f)
FilesAt(files, lvl) == {files[j] : j \in {k \in 1..Len(files) : files[k][1] = lvl}}
HasSnap(e) == FilesAt(e.remote, 9) # {}

\* C06: a compacted file covering a..b = the level-0 files a..b applied in order (pages, size, newest input's time)
C06_CompactedEqualsInputs_ ==
  IsStep => \A f \in ToSet(cur.newrem) :
     (f.lvl \in 1..9 /\ f.err = "none" /\ \A n \in f.min..f.max : L0Known(n)) =>
        /\ Pairs(f) = ComposeRange(f.min, f.max)
        /\ f.commit = L0At(f.max).commit
        /\ (f.lvl \in 1..8 => f.ts = L0At(f.max).ts)
C06_NoCorruptFile_ == IsStep => \A f \in ToSet(cur.newrem) : f.err = "none"
\* C06: files within a level are contiguous and non-overlapping; each compaction starts where the previous one ended
\* (claimed for histories without retention passes and without storage faults)
C06_LevelsContiguous_ ==
  (IsStep /\ ~retained /\ ~cur.cfg.faults) =>
     \A lvl \in 1..8 : LET fs == FilesAt(cur.remote, lvl) IN
        /\ \A f \in fs : (f[2] = 1 \/ \E g \in fs : g[3] + 1 = f[2])
        /\ \A f \in fs : \A g \in fs : (f # g) => (f[3] < g[2] \/ g[3] < f[2])

\* the restored database is one of the recorded committed states, not older than the last acknowledged one
RestoredIsCommitted(e, from) ==
  \E k \in from..l : Log[k].op # "Audit" /\ (Log[k].op = "ParApp" \/ SameExcept(e.rest.state, Log[k].src, Log[k].seqPg)) /\ e.rest.app = Log[k].app
\* C07: retention never deletes what the latest restore needs
C07_LatestStillRestorable_ ==
  (IsStep /\ IsRetention(cur) /\ cur.rest.done) => (cur.rest.ok /\ RestoredIsCommitted(cur, lastAck))
C07_SnapshotKept_ == (IsStep /\ HasSnap(prev)) => HasSnap(cur)
C07_Level0OneRun_ ==
  IsStep => LET ids == L0Of(cur.remote) IN ids = {} \/ \A a \in ids : \A b \in a..cur.rpos : b \in ids

\* C05: transient storage failures never leave gaps or false acknowledgements
NoFaultIn(e) == e.faultsLeft = 0 /\ \A i \in DOMAIN e.calls : e.calls[i] \notin {"FAULT:list", "FAULT:open", "FAULT:openmid",
                    "FAULT:write-before", "FAULT:write-partial", "FAULT:write-after", "FAULT:delete-before", "FAULT:delete-after"}
C05_Level0Gapless_ == C07_Level0OneRun_
C05_AckMeansStored_ == (IsStep /\ cur.ack) => (cur.lpos > 0 /\ cur.rpos = cur.lpos /\ cur.rest.ok
                                                /\ SameExcept(cur.rest.state, cur.src, cur.seqPg) /\ cur.rest.app = cur.app)
C05_AlwaysRestorable_ == (IsStep /\ cur.rest.done /\ Len(cur.remote) > 0) => (cur.rest.ok /\ RestoredIsCommitted(cur, t0))
\* once failures stop the replica catches up: the second of two consecutive fault-free SyncAndWait calls succeeds
C05_CatchesUp_ ==
  (IsStep /\ cur.op = "LsSyncAndWait" /\ prev.op = "LsSyncAndWait" /\ NoFaultIn(cur) /\ NoFaultIn(prev)
          /\ prev.faultsLeft = 0 /\ cur.res # "skip") => cur.ack

-----------------------------------------------------------------------------
(* C12: concurrent daemon operations (Par blocks: real goroutines interleaved at the verif hooks as a schedule says). *)
(* ParStep lines are mid-operation states; the clauses are judged when every call has returned (ParEnd and later).     *)
Quiescent == IsStep /\ cur.op # "ParStep"
C12_AllCallsReturn_ == (IsStep /\ cur.op = "ParEnd") => cur.res = "ok"
\* closing always completes and leaves the source free of litestream's read lock and open handles
C12_NoLeakAfterClose_ == (Quiescent /\ ~cur.open) => (~cur.hasRead /\ ~cur.handles)
\* no leaked lock: once every call has returned, the executor semaphore and the checkpoint lock are free
C12_NoLeakedLock_ == Quiescent => (cur.execFree /\ cur.chkFree)
\* registering the same path concurrently yields exactly one managed instance
C12_SingleInstance_ == (IsStep /\ cur.op = "ParEnd") => cur.ndbs <= 1
\* the probe: with litestream closed and no application reader, the application's TRUNCATE checkpoint is not blocked
C12_SourceNotPinned_ ==
  (IsStep /\ cur.op = "AppCheckpoint" /\ cur.arg = "TRUNCATE" /\ ~prev.open /\ ~cur.reader /\ ~cur.inTx) => cur.res # "busy"

-----------------------------------------------------------------------------
\* A false invariant is reported as a VERDICT line and evaluation continues; the shapes of known findings present in
\* the trace are printed with it (HAZARD lines) so that the runner can tell a listed finding from a new violation.
V(name, ok) == ok \/ (/\ PrintT(<<"VERDICT", name, l, cur.t, cur.i>>)
                      /\ \A h \in hz : PrintT(<<"HAZARD", h, l, cur.t, cur.i>>))

\* Conformance with Concurrency.tla (ReadLockWhileOpen), not a property clause: with no call in flight an open, initialised
\* DB holds a LIVE read transaction.  A false value is printed as a NOTE line (reported in the evidence, never a verdict).
N(name, ok) == ok \/ PrintT(<<"NOTE", name, l, cur.t, cur.i>>)
\* a step-by-step checkpoint is parked at a hook (it holds the executor and may have released the read transaction)
RECURSIVE GateInFlight(_)
GateInFlight(k) ==
  IF k < 1 \/ Log[k].op = "Reset" THEN FALSE
  ELSE IF Log[k].op \in {"CkStart", "CkStep"} THEN Log[k].res = "at"
  ELSE IF Log[k].op \in {"LsOpen", "LsSync", "LsReplicaSync", "LsSyncAndWait", "LsCheckpoint", "LsClose", "Snapshot", "Compact"} THEN FALSE
  ELSE GateInFlight(k - 1)
N_ReadLockWhileOpen == N("ReadLockWhileOpen", (Quiescent /\ cur.op \notin {"Reset", "Audit", "ParApp"} /\ cur.res # "at" /\ cur.op \notin {"CkStart", "CkStep", "CkCancel"} /\ ~GateInFlight(l)
                                                  /\ cur.open /\ cur.handles /\ cur.up /\ cur.execFree) => cur.hasRead)

C06_CompactedEqualsInputs == V("C06_CompactedEqualsInputs", C06_CompactedEqualsInputs_)
C06_NoCorruptFile == V("C06_NoCorruptFile", C06_NoCorruptFile_)
C06_LevelsContiguous == V("C06_LevelsContiguous", C06_LevelsContiguous_)
C07_LatestStillRestorable == V("C07_LatestStillRestorable", C07_LatestStillRestorable_)
C07_SnapshotKept == V("C07_SnapshotKept", C07_SnapshotKept_)
C07_Level0OneRun == V("C07_Level0OneRun", C07_Level0OneRun_)
C05_Level0Gapless == V("C05_Level0Gapless", C05_Level0Gapless_)
C05_AckMeansStored == V("C05_AckMeansStored", C05_AckMeansStored_)
C05_AlwaysRestorable == V("C05_AlwaysRestorable", C05_AlwaysRestorable_)
C05_CatchesUp == V("C05_CatchesUp", C05_CatchesUp_)
C12_AllCallsReturn == V("C12_AllCallsReturn", C12_AllCallsReturn_)
C12_NoLeakAfterClose == V("C12_NoLeakAfterClose", C12_NoLeakAfterClose_)
C12_SingleInstance == V("C12_SingleInstance", C12_SingleInstance_)
C12_NoLeakedLock == V("C12_NoLeakedLock", C12_NoLeakedLock_)
C12_SourceNotPinned == V("C12_SourceNotPinned", C12_SourceNotPinned_)
C01_RestoreEqualsSource == V("C01_RestoreEqualsSource", C01_RestoreEqualsSource_)
C01_RestoreIntegrity == V("C01_RestoreIntegrity", C01_RestoreIntegrity_)
C04_AckMeansReplicaAtLocalPos == V("C04_AckMeansReplicaAtLocalPos", C04_AckMeansReplicaAtLocalPos_)
C04_ResnapshotAfterLoss == V("C04_ResnapshotAfterLoss", C04_ResnapshotAfterLoss_)
C02_EveryTxidIsACommittedState == V("C02_EveryTxidIsACommittedState", C02_EveryTxidIsACommittedState_)
C02_Level0Gapless == V("C02_Level0Gapless", C02_Level0Gapless_)
C13_WalBoundedAfterSync == V("C13_WalBoundedAfterSync", C13_WalBoundedAfterSync_)
C13_IdleSilence == V("C13_IdleSilence", C13_IdleSilence_)
C14_LitestreamStepKeepsAppData == V("C14_LitestreamStepKeepsAppData", C14_LitestreamStepKeepsAppData_)
C14_SameAsControlRun == V("C14_SameAsControlRun", C14_SameAsControlRun_)
C14_BookkeepingOnly == V("C14_BookkeepingOnly", C14_BookkeepingOnly_)
====

SPECIFICATION Spec
CONSTANTS
  Clients = {"a", "b", "c"}
  TTL = 2
  MaxNow = 4
  MaxOps = 2
  MaxTag = 6
INVARIANTS Mutex StaleCannot GenIncreases TypeOK
PROPERTIES AcquireOnlyAfterExpiry
VIEW view
CHECK_DEADLOCK FALSE

----------------------------- MODULE FollowAlg -----------------------------
(***************************************************************************)
(* C16: the function-shaped part of follow mode AS THE CODE IS, over TXID    *)
(* ranges (constant module: used by Follow.tla as the follower's algorithm   *)
(* and by Trace_Follow.tla to bind every observed poll / resume decision of  *)
(* the real code to this transcription).                                     *)
(*   PollFiles(files, after) = applyNewLTXFiles (replica.go:875) with        *)
(*        fillFollowGap (replica.go:1014): the files one poll applies, in    *)
(*        order, and the TXID it ends at;                                    *)
(*   ResumeCheck(files, sidecar) = the crash-recovery branch of Restore      *)
(*        (replica.go:627-665).                                              *)
(* A file is [lvl, min, max, ts].                                            *)
(***************************************************************************)
EXTENDS Integers, Sequences, FiniteSets, SequencesExt, TLC

CONSTANTS Variant,   \* "asis" | "m_pubfirst" | "m_gap" | "m_gap0": the code, or one of the seeded mutants of tools/checks/c16.py
          Fixes      \* subset of {"W1", "W2", "W3"}: findings repaired in the tree under test (tools/checks/c16.py sets it
                     \* to the findings of DESIGN section 8 that are no longer listed as known)

PA == INSTANCE RestorePlan WITH Levels <- {0, 1, 2, 9}

Max2(a, b) == IF a > b THEN a ELSE b
Min2(a, b) == IF a < b THEN a ELSE b
MaxTX(files) == IF files = {} THEN 0 ELSE (CHOOSE f \in files : \A g \in files : g.max <= f.max).max

-----------------------------------------------------------------------------
(* ---------------- transcription: one poll ---------------- *)

GapTest(mn, c) == IF Variant = "m_gap" THEN mn > c + 2                              \* replica.go:1037
                  ELSE IF Variant = "m_gap0" THEN mn > c ELSE mn > c + 1

\* the `for itr.Next()` loop of one level in fillFollowGap                          replica.go:1033-1058
RECURSIVE FillLevel(_, _, _, _, _)
FillLevel(s, i, c, gapMin, acc) ==
  IF i > Len(s) THEN [cur |-> c, fs |-> acc, done |-> FALSE]
  ELSE IF GapTest(s[i].min, c) THEN [cur |-> c, fs |-> acc, done |-> FALSE]         \* break
  ELSE IF s[i].max <= c THEN FillLevel(s, i + 1, c, gapMin, acc)                    \* already covered
  ELSE IF s[i].max + 1 >= gapMin THEN [cur |-> s[i].max, fs |-> Append(acc, s[i]), done |-> TRUE]   \* bridged past the gap
  ELSE FillLevel(s, i + 1, s[i].max, gapMin, Append(acc, s[i]))

\* levels 1..8; the snapshot level is never consulted                               replica.go:1017
\* (repair of W2: the snapshot level is the last resort)
FillLevels == IF "W2" \in Fixes THEN <<1, 2, 3, 4, 5, 6, 7, 8, 9>> ELSE <<1, 2, 3, 4, 5, 6, 7, 8>>
RECURSIVE FillFrom(_, _, _, _)
FillFrom(files, k, after, gapMin) ==
  IF k > Len(FillLevels) THEN [cur |-> after, fs |-> <<>>]
  ELSE LET r == FillLevel(PA!LevelSeq(files, FillLevels[k]), 1, after, gapMin, <<>>) IN
       IF r.done \/ r.cur > after THEN [cur |-> r.cur, fs |-> r.fs]                 \* replica.go:1056, 1068
       ELSE FillFrom(files, k + 1, after, gapMin)
Fill(files, after, gapMin) == FillFrom(files, 1, after, gapMin)

\* the level-0 loop of applyNewLTXFiles                                              replica.go:895-928
RECURSIVE WalkL0(_, _, _, _, _)
WalkL0(files, s, i, c, acc) ==
  IF i > Len(s) THEN [cur |-> c, fs |-> acc]
  ELSE LET info == s[i] IN
       IF info.min > c + 1                                                          \* :900
         THEN LET b == Fill(files, c, info.min)
                  acc2 == acc \o b.fs
              IN IF info.max <= b.cur THEN WalkL0(files, s, i + 1, b.cur, acc2)     \* :908
                 ELSE IF info.min > b.cur + 1 THEN [cur |-> b.cur, fs |-> acc2]     \* :911 wait for the next poll
                 ELSE WalkL0(files, s, i + 1, info.max, Append(acc2, info))         \* :921
       ELSE IF info.max <= c THEN WalkL0(files, s, i + 1, c, acc)                   \* :917
       ELSE WalkL0(files, s, i + 1, info.max, Append(acc, info))

PollFiles(files, after) ==
  LET s == SelectSeq(PA!LevelSeq(files, 0), LAMBDA f : f.min >= after + 1) IN        \* seek: replica.go:879, file/replica_client.go:117
  IF Len(s) = 0 THEN Fill(files, after, after + 1)                                  \* :937
  ELSE WalkL0(files, s, 1, after, <<>>)

\* crash recovery: database exists                                                   replica.go:627-665
ResumeCheck(files, sd) ==
  IF sd = 0 THEN "nosidecar"                                                        \* :633
  ELSE LET s == PA!LevelSeq(files, 9)
           ls == s[Len(s)]                                                          \* last item of the iterator = newest snapshot
       IN IF Len(s) > 0 /\ ls.min > sd THEN "behind"                                \* :655
          ELSE IF "W1" \in Fixes                                                    \* repair of W1: ahead of the replica at every level
                 THEN (IF sd > MaxTX(files) THEN "ahead" ELSE "ok")
          ELSE IF Len(s) > 0 /\ sd > ls.max THEN "ahead"                            \* :658
          ELSE "ok"
=============================================================================

------------------------------ MODULE Trace_Lease ------------------------------
(***************************************************************************)
(* Conformance: a trace recorded from the real s3.Leaser must be a          *)
(* behaviour of Lease.tla.  Every event names the spec action and carries   *)
(* the observed post-state; the action of Lease.tla must produce exactly    *)
(* that state.  The spec is deterministic given the events, so a line that  *)
(* cannot be matched shows up as a TLC deadlock at that line.               *)
(***************************************************************************)
EXTENDS Lease, Sequences, Json

Log == ndJsonDeserialize("lease_trace.ndjson")
VARIABLE l
tvars == <<vars, l>>

TraceInit == Init /\ l = 1

Reset == /\ obj' = NoObj /\ now' = 0 /\ nextTag' = 1
         /\ pc'   = [c \in Clients |-> "idle"]
         /\ seen' = [c \in Clients |-> NoObj]
         /\ pend' = [c \in Clients |-> NoPend]
         /\ held' = [c \in Clients |-> NoHeld]
         /\ ops'  = [c \in Clients |-> 0]
         /\ hist' = {}
         /\ last' = NoLast

\* the request the real code issued / the condition it attached, per action
ReqOK(e) ==
  CASE e.ev = "AcqRead"    -> e.req = "GET"
    [] e.ev = "AcqDecide"  -> e.req = (IF pc'[e.c] = "acqPut" THEN "PUT" ELSE "none")
    [] e.ev = "AcqPut"     -> e.req = "PUT" /\ e.cond = (IF seen[e.c].exists THEN "ifmatch" ELSE "ifnonematch")
    [] e.ev = "RenewBegin" -> e.req = "PUT"
    [] e.ev = "RenewPut"   -> e.req = "PUT" /\ e.cond = "ifmatch"
    [] e.ev = "Release"    -> e.req = "DELETE" /\ e.cond = "ifmatch"
    [] OTHER -> TRUE

PostOK(e) ==
  /\ obj' = e.obj /\ now' = e.now
  /\ \A c \in Clients : held'[c] = e.held[c]
  /\ e.res # "none" => last'.res = e.res /\ last'.c = e.c
  /\ e.res = "none" => last' = last

TraceNext ==
  \/ /\ l < Len(Log) /\ l' = l + 1
     /\ LET e == Log[l + 1] IN
        /\ \/ e.ev = "Reset" /\ Reset
           \/ e.ev = "Skip" /\ UNCHANGED vars      \* a schedule hint that did not apply: nothing happened
           \/ e.ev = "Tick" /\ Tick
           \/ e.ev = "AcqRead" /\ AcqRead(e.c)
           \/ e.ev = "AcqDecide" /\ AcqDecide(e.c)
           \/ e.ev = "AcqPut" /\ AcqPut(e.c)
           \/ e.ev = "RenewBegin" /\ RenewBegin(e.c)
           \/ e.ev = "RenewPut" /\ RenewPut(e.c)
           \/ e.ev = "Release" /\ Release(e.c)
        /\ e.ev # "Reset" => (PostOK(e) /\ ReqOK(e))
  \/ l = Len(Log) /\ UNCHANGED tvars      \* whole log consumed: stutter (anything else is a deadlock = divergence)

TraceSpec == TraceInit /\ [][TraceNext]_tvars
====

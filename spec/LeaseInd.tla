------------------------------ MODULE LeaseInd ------------------------------
(***************************************************************************)
(* Inductive-invariant argument for C20 (Mutex, StaleCannot) over          *)
(* behaviours of ANY length: the lease protocol of Lease.tla (same actions, *)
(* same granularity: every storage request and every reading of the clock   *)
(* is a step), typed for Apalache.  Checked as                              *)
(*   Init => IndInv                      (--init=Init    --length=0)        *)
(*   IndInv /\ Next => IndInv'           (--init=IndInit --length=1)        *)
(*   IndInv => Mutex /\ StaleCannot      (--init=IndInit --length=0)        *)
(* The operation budget (ops) and the history variables of Lease.tla are    *)
(* dropped: they only bound or observe the TLC runs.  The generation number *)
(* is dropped too: it plays no part in Mutex / StaleCannot (GenIncreases is *)
(* checked by TLC on Lease.tla).                                            *)
(***************************************************************************)
EXTENDS Integers, FiniteSets
CONSTANTS
  \* @type: Set(Str);
  Clients,
  \* @type: Int;
  TTL,
  \* @type: Int;
  MaxNow,
  \* @type: Int;
  MaxTag,
  \* "asis" = s3/leaser.go; "noExpiryTest" = a takeover that skips the expiry test (negative control: the induction must fail)
  \* @type: Str;
  Variant

VARIABLES
  \* @type: {exists: Bool, exp: Int, owner: Str, tag: Int};
  obj,
  \* @type: Int;
  now,
  \* @type: Int;
  nextTag,
  \* @type: Str -> Str;
  pc,
  \* @type: Str -> {exists: Bool, exp: Int, owner: Str, tag: Int};
  seen,
  \* @type: Str -> {exp: Int};
  pend,
  \* @type: Str -> {has: Bool, exp: Int, tag: Int};
  held

CInit == /\ Clients = {"a", "b", "c"} /\ TTL = 3 /\ MaxNow = 12 /\ MaxTag = 12 /\ Variant = "asis"
CInitBad == /\ Clients = {"a", "b", "c"} /\ TTL = 3 /\ MaxNow = 12 /\ MaxTag = 12 /\ Variant = "noExpiryTest"

NoTag == 0
NoObj  == [exists |-> FALSE, exp |-> 0, owner |-> "none", tag |-> NoTag]
NoHeld == [has |-> FALSE, exp |-> 0, tag |-> NoTag]
NoPend == [exp |-> 0]

Init == /\ obj = NoObj /\ now = 0 /\ nextTag = 1
        /\ pc   = [c \in Clients |-> "idle"]
        /\ seen = [c \in Clients |-> NoObj]
        /\ pend = [c \in Clients |-> NoPend]
        /\ held = [c \in Clients |-> NoHeld]

Tick == /\ now < MaxNow /\ now' = now + 1
        /\ UNCHANGED <<obj, nextTag, pc, seen, pend, held>>

AcqRead(c) ==
  /\ pc[c] = "idle"
  /\ seen' = [seen EXCEPT ![c] = obj]
  /\ pc' = [pc EXCEPT ![c] = "acqDecide"]
  /\ UNCHANGED <<obj, now, nextTag, pend, held>>

AcqDecide(c) ==
  /\ pc[c] = "acqDecide"
  /\ IF Variant = "asis" /\ seen[c].exists /\ ~(now > seen[c].exp)
       THEN /\ pc' = [pc EXCEPT ![c] = "idle"]
            /\ UNCHANGED pend
       ELSE /\ pc' = [pc EXCEPT ![c] = "acqPut"]
            /\ pend' = [pend EXCEPT ![c] = [exp |-> now + TTL]]
  /\ UNCHANGED <<obj, now, nextTag, seen, held>>

AcqPut(c) ==
  /\ pc[c] = "acqPut" /\ nextTag <= MaxTag
  /\ LET ok == IF seen[c].exists THEN obj.exists /\ obj.tag = seen[c].tag ELSE ~obj.exists
     IN IF ok
          THEN /\ obj' = [exists |-> TRUE, exp |-> pend[c].exp, owner |-> c, tag |-> nextTag]
               /\ held' = [held EXCEPT ![c] = [has |-> TRUE, exp |-> pend[c].exp, tag |-> nextTag]]
               /\ nextTag' = nextTag + 1
          ELSE UNCHANGED <<obj, held, nextTag>>
  /\ pc' = [pc EXCEPT ![c] = "idle"]
  /\ UNCHANGED <<now, seen, pend>>

RenewBegin(c) ==
  /\ pc[c] = "idle" /\ held[c].has
  /\ pend' = [pend EXCEPT ![c] = [exp |-> now + TTL]]
  /\ pc' = [pc EXCEPT ![c] = "renewPut"]
  /\ UNCHANGED <<obj, now, nextTag, seen, held>>

RenewPut(c) ==
  /\ pc[c] = "renewPut" /\ nextTag <= MaxTag
  /\ IF obj.exists /\ obj.tag = held[c].tag
       THEN /\ obj' = [exists |-> TRUE, exp |-> pend[c].exp, owner |-> c, tag |-> nextTag]
            /\ held' = [held EXCEPT ![c] = [has |-> TRUE, exp |-> pend[c].exp, tag |-> nextTag]]
            /\ nextTag' = nextTag + 1
       ELSE /\ held' = [held EXCEPT ![c] = NoHeld]
            /\ UNCHANGED <<obj, nextTag>>
  /\ pc' = [pc EXCEPT ![c] = "idle"]
  /\ UNCHANGED <<now, seen, pend>>

Release(c) ==
  /\ pc[c] = "idle" /\ held[c].has
  /\ IF obj.exists /\ obj.tag = held[c].tag THEN obj' = NoObj ELSE UNCHANGED obj
  /\ held' = [held EXCEPT ![c] = NoHeld]
  /\ UNCHANGED <<now, nextTag, pc, seen, pend>>

Next == \/ Tick
        \/ \E c \in Clients : AcqRead(c) \/ AcqDecide(c) \/ AcqPut(c) \/ RenewBegin(c) \/ RenewPut(c) \/ Release(c)

-----------------------------------------------------------------------------
Valid(c) == held[c].has /\ now <= held[c].exp
Mutex == \A a \in Clients : \A b \in Clients : (Valid(a) /\ Valid(b)) => a = b
StaleCannot == \A c \in Clients : (held[c].has /\ obj.exists /\ obj.owner # c) => held[c].tag # obj.tag
Safety == Mutex /\ StaleCannot

Exps == 0..(MaxNow + TTL)
Tags == 0..(MaxTag + 1)
Objs == [exists : BOOLEAN, exp : Exps, owner : Clients \cup {"none"}, tag : Tags]
TypeOK ==
  /\ obj \in Objs /\ now \in 0..MaxNow /\ nextTag \in 1..(MaxTag + 1)
  /\ pc \in [Clients -> {"idle", "acqDecide", "acqPut", "renewPut"}]
  /\ seen \in [Clients -> Objs]
  /\ pend \in [Clients -> [exp : Exps]]
  /\ held \in [Clients -> [has : BOOLEAN, exp : Exps, tag : Tags]]

\* the stored record and every copy of it that carries the same ETag are the same record
\* @type: ({exists: Bool, exp: Int, owner: Str, tag: Int}) => Bool;
SameTagSameRecord(r) == (r.exists /\ obj.exists /\ r.tag = obj.tag) => (r.exp = obj.exp /\ r.owner = obj.owner)
IndInv ==
  /\ TypeOK
  /\ obj.exists => (obj.tag >= 1 /\ obj.tag < nextTag /\ obj.owner \in Clients)
  /\ ~obj.exists => obj = NoObj
  /\ \A c \in Clients :
       /\ seen[c].exists => (seen[c].tag >= 1 /\ seen[c].tag < nextTag)
       /\ SameTagSameRecord(seen[c])
       /\ held[c].has => (held[c].tag >= 1 /\ held[c].tag < nextTag)
       \* a lease handle is either the stored record itself, or a record that was replaced / removed - and that only
       \* happens to an expired record (takeover) or by its own holder (renew, release)
       /\ held[c].has => \/ (obj.exists /\ obj.tag = held[c].tag /\ obj.exp = held[c].exp /\ obj.owner = c)
                         \/ now > held[c].exp
       /\ (held[c].has /\ obj.exists /\ obj.tag = held[c].tag) => obj.owner = c
       \* a takeover that has passed its expiry test holds on to an expired record
       /\ (pc[c] = "acqPut" /\ seen[c].exists) => now > seen[c].exp
       /\ (pc[c] = "renewPut") => held[c].has
  /\ \A a \in Clients : \A b \in Clients : (a # b /\ held[a].has /\ held[b].has) => held[a].tag # held[b].tag

IndInit == IndInv
====

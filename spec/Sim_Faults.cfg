SPECIFICATION Spec
CONSTANTS NSync=7 MaxFaults=5
CHECK_DEADLOCK FALSE

SPECIFICATION SpecF
CONSTANTS NSync=3 MaxClock=1 RetentionEnabled=TRUE Fine=FALSE Variant="asis" Fixes={}
INVARIANTS ResumeAccepted
CHECK_DEADLOCK FALSE

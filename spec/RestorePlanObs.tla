--------------------------- MODULE RestorePlanObs ---------------------------
(***************************************************************************)
(* The judge for C08 (and the function-level clauses of C15): the           *)
(* declarative spec of RestorePlan.tla evaluated on the outputs of the REAL *)
(* litestream.CalcRestorePlan recorded by harness/cmd/restoreplan.          *)
(* One log line = one file set with a list of requests and the real result  *)
(* of each, as small integers (the driver's -obs output):                   *)
(*   <<id, <<file..>>, <<req..>>, <<<<err, file..>>..>>>>                    *)
(*   file = ((lvl*100+min)*100+max)*100+ts,  req = tx*100+T,                *)
(*   err = 0 none | 1 gap | 2 notfound | 3 both | 4 other                   *)
(* Verdict  = real output |= declarative spec  (VERDICT lines).             *)
(* Binding  = real output = Planner(files, tx, T), the transcription        *)
(*            (DIVERGENCE lines; reported, never a verdict).                *)
(***************************************************************************)
EXTENDS RestorePlan, Json

\* CONSTANT Levels (of RestorePlan): 0..9 = the transcription creates the cursors 8..0 as the code does

Log == ndJsonDeserialize("restoreplan_obs.ndjson")

CONSTANT Groups       \* fan-out: root state -> Groups group states -> the log lines of each group, so that the
                      \* workers of ONE TLC process judge the lines in parallel (a worker expands one group)

\* l = 0: root; l = -g: group g; l = k > 0: log line k.  mm memoises, for line l, the decoded inputs, the REAL results,
\* the reach set of every request (declarative) and the transcription's results (binding) - all functions of Log[l]
VARIABLES l, mm
ToFile(c) == File(c \div 1000000, (c \div 10000) % 100, (c \div 100) % 100, c % 100)
ErrName(e) == <<"none", "gap", "notfound", "both", "other">>[e + 1]
LId(k) == Log[k][1]
\* (bound variables of \E are evaluated once; LET definitions would be re-evaluated at every use)
Memo(k, v) ==
  \E c \in {Log[k]} : \E fs \in {{ToFile(c[2][i]) : i \in DOMAIN c[2]}} : \E seqs \in {SeqsOf(fs)} :
  \E rq \in {[j \in DOMAIN c[3] |-> <<c[3][j] \div 100, c[3][j] % 100>>]} :
    v = [id    |-> c[1],
         files |-> fs,
         reqs  |-> rq,
         real  |-> [j \in DOMAIN rq |->
                      [err |-> ErrName(c[4][j][1]), plan |-> [i \in 1..(Len(c[4][j]) - 1) |-> ToFile(c[4][j][i + 1])]]],
         reach |-> [j \in DOMAIN rq |-> ReachSet(fs, rq[j][1], rq[j][2])],
         model |-> [j \in DOMAIN rq |-> PlannerS(seqs, rq[j][1], rq[j][2])]]
Init == l = 0 /\ mm = <<>>
Next == \/ l = 0 /\ \E g \in 1..Groups : l' = -g /\ mm' = <<>>
        \/ l < 0 /\ \E k \in {k \in 1..Len(Log) : (k % Groups) + 1 = -l} : l' = k /\ Memo(k, mm')
Spec == Init /\ [][Next]_<<l, mm>>

IsLine == l > 0
Files == mm.files
J == IF IsLine THEN DOMAIN mm.reqs ELSE {}      \* root / group states: nothing to judge
Tx(j) == mm.reqs[j][1]
Ts(j) == mm.reqs[j][2]
Real(j) == mm.real[j]          \* the REAL result of request j
R(j) == mm.reach[j]
Ok(j) == Real(j).err = "none"

\* A false clause is reported as a VERDICT line (name, log line, case id, request index) and evaluation continues.
V(name, j, ok) == ok \/ PrintT(<<"VERDICT", name, l, mm.id, j>>)

-----------------------------------------------------------------------------
\* C08 -- one clause of the statement each
\* starts at TXID 1, contiguous and extending, ends exactly at the target, no file created at/after T, only listed files
Sound          == \A j \in J : V("Sound", j, SoundP(Files, Tx(j), Ts(j), Real(j)))
\* a valid chain to the target exists => a plan, not an error
CompleteTx     == \A j \in J : V("CompleteTx", j, CompleteTxP(Tx(j), Ts(j), Real(j), R(j)))
\* latest / timestamp request and some valid chain exists => a plan (or, latest only, a justified gap error)
CompleteLatest == \A j \in J : V("CompleteLatest", j, CompleteLatestP(Files, Tx(j), Ts(j), Real(j), R(j)))
\* latest: a gap is reported instead of silently stopping before files beyond it
GapReported    == \A j \in J : V("GapReported", j, GapReportedP(Files, Tx(j), Ts(j), Real(j)))
\* latest: the plan reaches the furthest reachable TXID
FurthestLatest == \A j \in J : V("FurthestLatest", j, FurthestLatestP(Tx(j), Ts(j), Real(j), R(j)))

-----------------------------------------------------------------------------
\* C15, function level
\* the plan never contains a file with createdAt >= T
TsExcluded == \A j \in J : V("TsExcluded", j, Ok(j) => TsExcludedP(Ts(j), Real(j).plan))
\* a later T never yields an earlier state (or an error where the earlier T gave a plan)
TsMonotone == \A j \in J : \A k \in J :
                 V("TsMonotone", k, (Tx(j) = 0 /\ Tx(k) = 0 /\ Ts(j) # 0 /\ Ts(j) <= Ts(k))
                                     => MonoP(Real(j), Real(k)))
\* file sets shaped like a real replica: every level-0 file i..i up to the newest TXID is present, level-0 times
\* do not decrease, and every file carries at least the time of its newest transaction (compaction: newest input;
\* snapshot: when taken).  Then time(m) is defined and the statement reads literally:
MaxTx == MaxOf({f.max : f \in Files})
L0(m) == {f \in Files : f.lvl = 0 /\ f.min = m /\ f.max = m}
Time(m) == (CHOOSE f \in L0(m) : TRUE).ts
Realistic == /\ \A m \in 1..MaxTx : L0(m) # {}
             /\ \A m \in 2..MaxTx : Time(m - 1) <= Time(m)
             /\ \A f \in Files : f.ts >= Time(f.max)
LastBefore(T) == MaxOf({m \in 1..MaxTx : Time(m) < T})
\* all level-0 files present => the result is precisely the last transaction replicated before T; T <= time(1) => error
TsPrecise == \A j \in J : V("TsPrecise", j,
                 (Tx(j) = 0 /\ Ts(j) # 0 /\ Realistic) =>
                    IF LastBefore(Ts(j)) = 0 THEN ~Ok(j)
                    ELSE Ok(j) /\ End(Real(j)) = LastBefore(Ts(j)))

-----------------------------------------------------------------------------
\* binding: the transcription predicts the real output exactly (error class and the very files of the plan)
Binding == \A j \in J :
   \/ mm.model[j] = Real(j)
   \/ PrintT(<<"DIVERGENCE", l, mm.id, j>>)
\* binding-level only: timestamp requests also reach the furthest TXID over the files created before T
TsFurthest == \A j \in J :
   \/ FurthestTsP(Tx(j), Ts(j), Real(j), R(j)) \/ ~SoundP(Files, Tx(j), Ts(j), Real(j))
   \/ PrintT(<<"NOTE", "TsFurthest", l, mm.id, j>>)
=============================================================================

---------------------------- MODULE TsRestoreObs ----------------------------
(***************************************************************************)
(* The judge for C15 on REAL replicas: harness/cmd/tsrestore builds a       *)
(* replica from a real history (SQLite writes, db.Sync, Replica.Sync,       *)
(* snapshots, compactions, retention), records the replication time of      *)
(* every TXID and the source state at that TXID, then runs the real         *)
(* Replica.Restore(Timestamp = T) for T at / 1 ms around / between the      *)
(* recorded times and maps each output to the recorded state it equals.     *)
(* One log line = one history:                                              *)
(*   [h, kind, times: <<ms of TXID 1, 2, ..>>, l0all, files, q: <<<<T, r>>..>>, errs, note] *)
(*   r = n >= 1: output = state of TXID n;  0: Restore failed;  -1: output  *)
(*   equals no recorded state.  note # "": the driver could not follow the  *)
(*   history (desync) - not judged.                                         *)
(* Nothing of the model is assumed: every value is an observation.          *)
(***************************************************************************)
EXTENDS Integers, Sequences, FiniteSets, TLC, Json

Log == ndJsonDeserialize("tsrestore_obs.ndjson")

VARIABLE l
Init == l = 1
Next == l < Len(Log) /\ l' = l + 1
Spec == Init /\ [][Next]_l

cur == Log[l]
Judged == cur.note = ""
K == Len(cur.times)
Time(n) == cur.times[n]
Q == DOMAIN cur.q
T(i) == cur.q[i][1]
Res(i) == cur.q[i][2]
MaxOf(S) == IF S = {} THEN 0 ELSE CHOOSE m \in S : \A x \in S : x <= m
LastBefore(t) == MaxOf({n \in 1..K : Time(n) < t})

V(name, i, ok) == ok \/ PrintT(<<"VERDICT", name, l, cur.h, i>>)

\* the output is the database exactly as of ONE replicated transaction (or the restore failed)
IsRecordedState == Judged => \A i \in Q : V("IsRecordedState", i, Res(i) # -1 /\ Res(i) <= K)
\* ... whose replication time is before T: never a transaction replicated at or after T
NothingFromAfterT == Judged => \A i \in Q : V("NothingFromAfterT", i, (Res(i) >= 1 /\ Res(i) <= K) => Time(Res(i)) < T(i))
\* a later T never yields an earlier state
MonotoneInT == Judged => \A i \in Q : \A j \in Q :
                 V("MonotoneInT", j, (T(i) <= T(j) /\ Res(i) >= 1 /\ Res(j) >= 1) => Res(i) <= Res(j))
\* all level-0 files still present => precisely the last transaction replicated before T
PreciseWithL0 == (Judged /\ cur.l0all) => \A i \in Q : V("PreciseWithL0", i, Res(i) = LastBefore(T(i)))
\* a T before (or at) the first backup fails instead of returning newer data
BeforeFirstFails == Judged => \A i \in Q : V("BeforeFirstFails", i, T(i) <= Time(1) => Res(i) = 0)
=============================================================================

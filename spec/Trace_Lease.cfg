SPECIFICATION TraceSpec
CONSTANTS
  Clients = {"a", "b", "c"}
  TTL = 2
  MaxNow = 100000
  MaxOps = 100000
  MaxTag = 100000
INVARIANTS Mutex StaleCannot GenIncreases
CHECK_DEADLOCK TRUE

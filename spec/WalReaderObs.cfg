SPECIFICATION Spec
INVARIANTS EqualsSqlite K_PgnoZero_EqualsSqlite K_CommitWithoutPages_EqualsSqlite NothingFromInvalid NoPageAboveCommit OffsetIsFrameOfPage GrowthComposes ChunksCompose TranscriptionMatches ModelMatchesSqlite GrowTranscriptionMatches ChunkTranscriptionMatches
CHECK_DEADLOCK FALSE

SPECIFICATION SpecF
CONSTANTS NSync=3 MaxClock=1 RetentionEnabled=TRUE Fine=TRUE Variant="asis" Fixes={"W1","W2","W3"}
INVARIANTS NeverAhead NoSkip SidecarAfterApply Converges NoStall ResumeAccepted ResumeAfterKill
PROPERTY SidecarMonotone
CHECK_DEADLOCK FALSE

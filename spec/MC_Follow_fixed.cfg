SPECIFICATION SpecF
CONSTANTS NSync=3 MaxClock=1 RetentionEnabled=TRUE Fine=TRUE Variant="fixed"
INVARIANTS NeverAhead NoSkip SidecarAfterApply Converges NoStall ResumeAccepted ResumeAfterKill
PROPERTY SidecarMonotone
CHECK_DEADLOCK FALSE

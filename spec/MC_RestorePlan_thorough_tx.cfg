\* C08 thorough, target-TXID / latest requests (+ T in {1,2}): TXIDs 1..5, <= 4 files, one file timestamp.
\* The runner rewrites `Part = 0` for every shard 0..Parts-1 (one TLC process each; Fanout: several workers per process).
SPECIFICATION Spec
CONSTANTS
  N = 5
  Levels = {0, 1, 2, 9}
  MaxFiles = 4
  MaxTs = 1
  Part = 0
  Parts = 2
  Fanout = TRUE
  TsOnly = FALSE
INVARIANTS Sound CompleteTx CompleteLatest GapReported FurthestLatest TsExcluded TsFurthest TsMonotone ErrKinds
CHECK_DEADLOCK FALSE

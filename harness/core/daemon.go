package core

// Daemon mode: the real Store with every monitor running on short intervals (DB.monitor, Replica.monitor, one compaction
// monitor per level, the snapshot monitor with retention, the level-0 retention monitor) next to a live application
// writer.  Nothing is gated: the goroutines are the daemon's own.  Only facts that are sound to observe next to running
// monitors are recorded: the application-visible content read through the application's own connection after each of its
// transactions (the ledger), the replica listing, the outcome of Store.SyncDB(wait) acknowledgements, and - after
// Store.Close has returned - an audit of every TXID left on the replica.  DaemonObs.tla is the judge.

import (
	"context"
	"encoding/json"
	"fmt"
	"os"
	"strings"
	"time"

	"github.com/benbjohnson/litestream"
)

// DaemonCfg holds the monitor intervals in milliseconds.
type DaemonCfg struct {
	MonMs      int `json:"monMs"`      // DB.MonitorInterval
	SyncMs     int `json:"syncMs"`     // Replica.SyncInterval
	L1Ms       int `json:"l1Ms"`       // level intervals
	L2Ms       int `json:"l2Ms"`
	SnapMs     int `json:"snapMs"`     // Store.SnapshotInterval
	SnapRetMs  int `json:"snapRetMs"`  // Store.SnapshotRetention
	L0RetMs    int `json:"l0RetMs"`    // Store.L0Retention
	L0CheckMs  int `json:"l0CheckMs"`  // Store.L0RetentionCheckInterval
	ShutdownMs int `json:"shutdownMs"` // shutdown sync timeout
	ValidateMs int `json:"validateMs"` // Store.ValidationInterval (0 = off)
	AutoRecover bool `json:"autoRecover"` // Replica.AutoRecoverEnabled: the monitor resets the local state when a local LTX file is missing / corrupt
	AppAutoCkpt int `json:"appAutoCkpt"` // PRAGMA wal_autocheckpoint of the application's connection (0 = off, as in the other drivers)
}

func ms(n int) time.Duration { return time.Duration(n) * time.Millisecond }

func (r *Runner) daemonStart(d DaemonCfg) string {
	if r.lsUp {
		return "skip"
	}
	db := r.newLS()
	db.MonitorInterval = ms(d.MonMs)
	db.ShutdownSyncTimeout = ms(d.ShutdownMs)
	db.ShutdownSyncInterval = 20 * time.Millisecond
	db.Replica.MonitorEnabled = true
	db.Replica.SyncInterval = ms(d.SyncMs)
	db.Replica.AutoRecoverEnabled = d.AutoRecover
	levels := litestream.CompactionLevels{{Level: 0}, {Level: 1, Interval: ms(d.L1Ms)}, {Level: 2, Interval: ms(d.L2Ms)}}
	st := litestream.NewStore([]*litestream.DB{db}, levels)
	st.Logger = discard
	st.SnapshotInterval = ms(d.SnapMs)
	st.SnapshotRetention = ms(d.SnapRetMs)
	st.SetL0Retention(ms(d.L0RetMs))
	st.L0RetentionCheckInterval = ms(d.L0CheckMs)
	st.ShutdownSyncTimeout = ms(d.ShutdownMs)
	st.ShutdownSyncInterval = 20 * time.Millisecond
	st.ValidationInterval = ms(d.ValidateMs)
	st.CompactionMonitorEnabled = true
	db.SetLogger(discard)
	if err := st.Open(r.ctx); err != nil {
		return errClass(err)
	}
	r.ls, r.store, r.lsUp = db, st, true
	return "ok"
}

// daemonStop closes the Store under a watchdog: a Close that never returns is a result ("hang"), not a hung driver.
func (r *Runner) daemonStop() (res string, clean bool) {
	st, ok := r.store.(*litestream.Store)
	if !r.lsUp || !ok {
		return "skip", false
	}
	// a clean shutdown acknowledges everything - if the DB is initialised: an enabled DB whose first sync has not happened yet
	// has nothing open and Close has nothing to flush (same rule as LsClose in the sequential driver)
	inited := r.ls != nil && r.ls.SQLDB() != nil && r.ls.IsOpen()
	ch := make(chan error, 1)
	go func() {
		ctx, cancel := context.WithTimeout(r.ctx, 20*time.Second)
		defer cancel()
		ch <- st.Close(ctx)
	}()
	select {
	case err := <-ch:
		r.lsUp = false
		return errClass(err), err == nil && inited
	case <-time.After(90 * time.Second):
		return "hang", false
	}
}

// RunDaemonCase executes a daemon-mode case: schedule steps are DaemonStart, application operations, Sleep, SyncWait,
// DaemonStop, AuditNow, RestoreCheck, Validate, AppCheckpoint.
func RunDaemonCase(c Case, baseDir string, d DaemonCfg) (evs []Event) {
	dict := NewDict()
	dir := fmt.Sprintf("%s/case-%d-daemon", baseDir, c.ID)
	os.RemoveAll(dir)
	r := &Runner{c: c, dir: dir, dbPath: dir + "/db", repDir: dir + "/replica", tmp: dir + "/tmp", dict: dict,
		seenL0: map[string]bool{}, seenRem: map[string]bool{}, ctx: context.Background()}
	defer func() {
		if p := recover(); p != nil {
			ev := blank(c, len(evs))
			ev.Op, ev.Res = "Panic", fmt.Sprintf("panic:%v", p)
			evs = append(evs, ev)
		}
		if r.lsUp {
			r.daemonStop()
		}
		r.closeApp()
		if os.Getenv("VERIF_KEEP") == "" { // debugging aid: keep the database, the local state and the replica
			os.RemoveAll(r.dir)
		}
	}()
	// control run (no litestream at all): application-visible content after every step of the same application history
	var ctl []int
	if c.Cfg.Control {
		cr := &Runner{c: c, dir: dir + "-ctl", dbPath: dir + "-ctl/db", repDir: dir + "-ctl/replica", tmp: dir + "-ctl/tmp", dict: dict,
			seenL0: map[string]bool{}, seenRem: map[string]bool{}, ctx: context.Background()}
		os.RemoveAll(cr.dir)
		if err := cr.setup(); err == nil {
			cr.conn.ExecContext(cr.ctx, fmt.Sprintf("PRAGMA wal_autocheckpoint=%d", d.AppAutoCkpt))
			for _, st := range c.Sched {
				if op := argStr(st, 0, ""); strings.HasPrefix(op, "App") || strings.HasPrefix(op, "Reader") {
					cr.Step(st, true)
				}
				app, _, _, _, err := AppContent(cr.app, dict)
				if err != nil {
					app = -1
				}
				ctl = append(ctl, app)
			}
		}
		cr.closeApp()
		os.RemoveAll(cr.dir)
	}
	ev := blank(c, 0)
	ev.Op = "Reset"
	if err := r.setup(); err != nil {
		ev.Res = "setup:" + err.Error()
		return append(evs, ev)
	}
	r.conn.ExecContext(r.ctx, fmt.Sprintf("PRAGMA wal_autocheckpoint=%d", d.AppAutoCkpt))
	r.daemonObserve(&ev)
	evs = append(evs, ev)
	same := true // the application history of this run is still the one of the control run (no operation refused as busy)
	for i, st := range c.Sched {
		ev := blank(c, i+1)
		ev.Op, ev.Arg, ev.N = argStr(st, 0, ""), argStr(st, 1, ""), argInt(st, 1, 0)
		switch ev.Op {
		case "DaemonStart":
			ev.Res = r.daemonStart(d)
		case "DaemonStop":
			ev.Res, ev.Ack = r.daemonStop()
		case "Sleep":
			time.Sleep(ms(ev.N))
		case "SyncWait": // the daemon's own acknowledged sync (Store.SyncDB with wait)
			if sto, ok := r.store.(*litestream.Store); ok && r.lsUp {
				ctx, cancel := context.WithTimeout(r.ctx, 15*time.Second)
				_, err := sto.SyncDB(ctx, r.dbPath, true)
				timedOut := ctx.Err() != nil
				cancel()
				ev.Res, ev.Ack = errClass(err), err == nil
				if err != nil && timedOut {
					ev.Res = "timeout" // the machine was too slow for the 15 s budget: inconclusive, never judged
				}
			} else {
				ev.Res = "skip"
			}
		case "Validate": // litestream's own replica validator (Store.Validate), after the daemon has stopped
			if sto, ok := r.store.(*litestream.Store); ok {
				vr, err := sto.Validate(r.ctx)
				switch {
				case err != nil:
					ev.Res = errClass(err)
				case vr != nil && !vr.Valid:
					b, _ := json.Marshal(vr.Errors)
					ev.Res = "invalid:" + string(b)
					if len(ev.Res) > 300 {
						ev.Res = ev.Res[:300]
					}
				}
			} else {
				ev.Res = "skip"
			}
		case "AuditNow":
			ev.Audit = r.audit()
		case "RestoreCheck":
			ev.Rest = r.Restore(0, time.Time{})
		default:
			if ev.Op == "LocalLoss" { // local level-0 files vanish / rot under the running daemon (disk trouble): newest | all | corrupt
				ev.Res = r.localLoss(ev.Arg)
				break
			}
			if ev.Op == "StDisable" || ev.Op == "StEnable" { // the daemon's own enable / disable of the database, monitors running
				if sto, ok := r.store.(*litestream.Store); ok && r.lsUp {
					ctx, cancel := context.WithTimeout(r.ctx, 20*time.Second)
					if ev.Op == "StDisable" {
						ev.Res = errClass(sto.DisableDB(ctx, r.dbPath))
					} else {
						ev.Res = errClass(sto.EnableDB(ctx, r.dbPath))
					}
					cancel()
				} else {
					ev.Res = "skip"
				}
				break
			}
			if !strings.HasPrefix(ev.Op, "App") && !strings.HasPrefix(ev.Op, "Reader") && ev.Op != "Fault" && ev.Op != "ClearFaults" {
				ev.Res = "skip"
				break
			}
			ev.Res, _ = r.Step(st, false)
		}
		if ev.Ack {
			ev.Rest = r.Restore(0, time.Time{})
		}
		r.daemonObserve(&ev)
		if strings.HasPrefix(ev.Op, "App") && ev.Op != "AppCheckpoint" && ev.Res != "ok" && ev.Res != "skip" {
			same = false
		}
		if same && i < len(ctl) {
			ev.Ctl = ctl[i]
		}
		evs = append(evs, ev)
	}
	return evs
}

// daemonObserve records what can be read soundly while monitors run.
func (r *Runner) daemonObserve(ev *Event) {
	ev.Up, ev.AppUp, ev.InTx, ev.Reader = r.lsUp, r.conn != nil, r.inTx, r.reader != nil
	ev.Bg = r.lsUp
	if r.app != nil {
		app, seqPg, seq, lockN, err := AppContent(r.app, r.dict)
		if err == nil {
			ev.App, ev.SeqPg, ev.Seq, ev.LockN = app, seqPg, seq, lockN
			if os.Getenv("VERIF_ROWSIG") != "" {
				ev.Arg += "|" + RowSig(r.app)
			}
		} else {
			ev.App, ev.Integ = -1, "observe:"+errClass(err)
		}
	}
	ev.Remote = listLTX(r.repDir + "/ltx")
	ev.RPos = maxTx(ev.Remote, 0)
	if r.fc != nil {
		ev.FaultsLeft = r.fc.left()
	}
	if !r.lsUp {
		ev.Local = listLTX(r.metaLTXDir())
		ev.LPos = maxTx(ev.Local, 0)
		ev.Wal = ObserveWAL(r.dbPath+"-wal", r.c.Cfg.PageSize, r.dict)
		if r.ls != nil {
			ev.HasRead, ev.Open, ev.Handles = r.lifecycleFlags()
			ev.ExecFree, ev.ChkFree = r.ls.VerifLocksFree()
		}
	}
}

// localLoss damages litestream's local level-0 staging directory while the daemon runs.
func (r *Runner) localLoss(mode string) string {
	dir := r.metaLTXDir() + "/0"
	ents, err := os.ReadDir(dir)
	if err != nil || len(ents) == 0 {
		return "skip"
	}
	var names []string
	for _, e := range ents {
		if strings.HasSuffix(e.Name(), ".ltx") {
			names = append(names, e.Name())
		}
	}
	if len(names) == 0 {
		return "skip"
	}
	newest := names[len(names)-1] // ReadDir sorts by name = by TXID
	switch mode {
	case "all":
		for _, n := range names {
			os.Remove(dir + "/" + n)
		}
	case "corrupt":
		if fi, err := os.Stat(dir + "/" + newest); err == nil && fi.Size() > 8 {
			os.Truncate(dir+"/"+newest, fi.Size()/2)
		}
	default:
		os.Remove(dir + "/" + newest)
	}
	return "ok"
}

package core

// Exported accessors for drivers that run the schedule interpreter in their own process layout (cmd/scen: the
// syscall-level checks C03/C11 need a runner that neither wipes its directory nor records the heavy Event).

import (
	"context"
	"database/sql"
	"encoding/hex"
	"fmt"
	"os"
	"path/filepath"

	"github.com/benbjohnson/litestream"
)

// NewRunner creates a runner on dir (db = dir/db, replica = dir/replica, scratch = tmp). Nothing is removed.
func NewRunner(c Case, dir, tmp string) *Runner {
	return &Runner{c: c, dir: dir, dbPath: filepath.Join(dir, "db"), repDir: filepath.Join(dir, "replica"),
		tmp: tmp, dict: NewDict(), seenL0: map[string]bool{}, seenRem: map[string]bool{}, ctx: context.Background()}
}

// Setup creates the database (schema + initial rows) and leaves the application connection open.
func (r *Runner) Setup() error { return r.setup() }

// OpenApp opens the application connection on an existing database.
func (r *Runner) OpenApp() error {
	os.MkdirAll(r.tmp, 0o755)
	return r.openApp()
}
func (r *Runner) CloseApp()            { r.closeApp() }
func (r *Runner) LS() *litestream.DB   { return r.ls }
func (r *Runner) LsUp() bool           { return r.lsUp }
func (r *Runner) DBPath() string       { return r.dbPath }
func (r *Runner) ReplicaDir() string   { return r.repDir }
func (r *Runner) MetaLTXDir() string   { return r.metaLTXDir() }
func (r *Runner) AppDB() *sql.DB       { return r.app }
func (r *Runner) SetWriteCounter(n int) { r.wcount = n }

// SetNextRow tells the interpreter which row id AppGrow uses next (resume on an existing database).
func (r *Runner) SetNextRow() error {
	var n sql.NullInt64
	if err := r.conn.QueryRowContext(r.ctx, "SELECT max(id) FROM t").Scan(&n); err != nil {
		return err
	}
	r.nextRow = int(n.Int64) + 1
	return nil
}

// AppFingerprint is AppContent's hash (schema + rows of every table except litestream's own) as a hex string,
// comparable across processes.
func AppFingerprint(db *sql.DB) (string, error) {
	d := NewDict()
	if _, _, _, _, err := AppContent(db, d); err != nil {
		return "", err
	}
	for k := range d.pages {
		return hex.EncodeToString(k[:8]), nil
	}
	return "", fmt.Errorf("no content hash")
}

// FileFingerprint fingerprints what a reader of (path, path-wal) sees, on a copy (the original is not opened by
// SQLite, so nothing is checkpointed or recovered in place). integ is PRAGMA integrity_check of the copy.
func FileFingerprint(path, tmpDir string) (fp, integ string, err error) {
	tmp, err := os.MkdirTemp(tmpDir, "fp")
	if err != nil {
		return "", "", err
	}
	defer os.RemoveAll(tmp)
	cp := filepath.Join(tmp, "db")
	if err = copyFile(path, cp); err != nil {
		return "", "", err
	}
	if _, e := os.Stat(path + "-wal"); e == nil {
		if err = copyFile(path+"-wal", cp+"-wal"); err != nil {
			return "", "", err
		}
	}
	db, err := sql.Open("sqlite", "file:"+cp+"?_pragma=busy_timeout(1000)")
	if err != nil {
		return "", "", err
	}
	defer db.Close()
	db.SetMaxOpenConns(1)
	if e := db.QueryRow(`PRAGMA integrity_check`).Scan(&integ); e != nil {
		return "", "error:" + e.Error(), nil
	}
	fp, err = AppFingerprint(db)
	return fp, integ, err
}

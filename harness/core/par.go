//go:build verif

package core

import (
	"bytes"
	"context"
	"fmt"
	"runtime"
	"strconv"
	"sync"
	"sync/atomic"
	"time"

	"github.com/benbjohnson/litestream"
)

// Par: a block of daemon operations executed as real goroutines against one Store, interleaved EXACTLY as a schedule
// says (C12).  Every registered goroutine parks at every verif hook it reaches (store.*.checked, exec.acquired,
// exec.new, sync.chk-rlock, chk.*, close.*, snapshot.pos, replica.pre-upload); one schedule step "advance p" releases
// process p until its next hook or until its call returns.  A process that is blocked on a real lock simply does not
// arrive; the step times out and the schedule goes on (real blocking is honoured, nothing is simulated).

var parActive atomic.Int32
var parProcs sync.Map // goroutine id -> *parProc

type parProc struct {
	name    string
	op      []any
	arrived chan string
	release chan struct{}
	done    chan string
	at      string // current gate ("" = not parked)
	started bool
	ended   bool
	res     string
	free    atomic.Bool
	onFree  func(proc, ev string)
}

func goid() uint64 {
	var buf [64]byte
	n := runtime.Stack(buf[:], false)
	f := bytes.Fields(buf[:n])
	if len(f) < 2 {
		return 0
	}
	id, _ := strconv.ParseUint(string(f[1]), 10, 64)
	return id
}

func parLookup() *parProc {
	if v, ok := parProcs.Load(goid()); ok {
		return v.(*parProc)
	}
	return nil
}

func (p *parProc) park(ev string) {
	// exec.new fires under db.mu (newSyncExecutor): parking there would block the recorder's own accessors
	if ev == "exec.new" {
		return
	}
	if p.free.Load() {
		if p.onFree != nil {
			p.onFree(p.name, ev)
		}
		return
	}
	p.arrived <- ev
	<-p.release
}

type parSpec struct {
	Procs map[string][]any `json:"procs"`
	Order []string         `json:"order"`
}

func (r *Runner) ensureStore() *litestream.Store {
	if r.store == nil {
		levels := litestream.CompactionLevels{{Level: 0}, {Level: 1, Interval: time.Second}, {Level: 2, Interval: time.Minute}}
		st := litestream.NewStore([]*litestream.DB{r.ls}, levels)
		st.Logger = discard
		st.CompactionMonitorEnabled = false
		st.ShutdownSyncTimeout = 0
		r.ls.SetLogger(discard)
		r.ls.ShutdownSyncTimeout = 0
		r.store = st
	}
	return r.store.(*litestream.Store)
}

// runProc executes one daemon operation (in its own goroutine).
func (r *Runner) runProc(p *parProc) string {
	ctx, cancel := context.WithTimeout(r.ctx, 15*time.Second)
	defer cancel()
	st := r.ensureStore()
	op := argStr(p.op, 0, "")
	switch op {
	case "syncdb":
		_, err := st.SyncDB(ctx, r.dbPath, false)
		return errClass(err)
	case "syncwait":
		_, err := st.SyncDB(ctx, r.dbPath, true)
		return errClass(err)
	case "disable":
		return errClass(st.DisableDB(ctx, r.dbPath))
	case "enable":
		return errClass(st.EnableDB(ctx, r.dbPath))
	case "register":
		db := r.newLS()
		err := st.RegisterDB(db)
		return errClass(err)
	case "unregister":
		return errClass(st.UnregisterDB(ctx, r.dbPath))
	case "snapshot":
		_, err := r.ls.Snapshot(ctx)
		return errClass(err)
	case "checkpoint":
		return errClass(r.ls.Checkpoint(ctx, argStr(p.op, 1, "PASSIVE")))
	case "compact":
		_, err := r.ls.Compact(ctx, argInt(p.op, 1, 1))
		if err == litestream.ErrNoCompaction {
			return "nocompaction"
		}
		return errClass(err)
	case "replicasync":
		return errClass(r.ls.Replica.Sync(ctx))
	case "status":
		_, err := r.ls.SyncStatus(ctx)
		return errClass(err)
	case "l0retention":
		return errClass(r.ls.EnforceL0RetentionByTime(ctx))
	case "dbsync":
		return errClass(r.ls.Sync(ctx))
	case "dbclose":
		return errClass(r.ls.Close(ctx))
	case "appwrite", "appgrow", "appcheckpoint": // the application connection is one session: its statements are serialised
		r.appMu.Lock()
		defer r.appMu.Unlock()
		var res string
		switch op {
		case "appwrite":
			res, _ = r.Step([]any{"AppWrite", argInt(p.op, 1, 1)}, false)
		case "appgrow":
			res, _ = r.Step([]any{"AppGrow", 1}, false)
		default:
			res, _ = r.Step([]any{"AppCheckpoint", argStr(p.op, 1, "PASSIVE")}, false)
		}
		// the committed state joins the ledger here, still under appMu: commit order = ledger order
		if app, _, _, _, err := AppContent(r.app, r.dict); err == nil {
			r.freeLogMu.Lock()
			r.appLog = append(r.appLog, app)
			r.freeLogMu.Unlock()
		}
		return res
	}
	return "skip"
}

// runPar executes a Par block; emit is called after every schedule step with (process, what happened).
func (r *Runner) runPar(spec parSpec, emit func(proc, what, res string)) {
	procs := map[string]*parProc{}
	for name, op := range spec.Procs {
		procs[name] = &parProc{name: name, op: op, arrived: make(chan string), release: make(chan struct{}), done: make(chan string, 1),
			onFree: func(proc, ev string) {
				open := "|open"
				if ev == "exec.acquired" && r.ls != nil && !r.ls.IsOpen() {
					open = "|closed"
				}
				r.freeLogMu.Lock()
				r.freeLog = append(r.freeLog, [3]string{proc, ev, open})
				r.freeLogMu.Unlock()
			}}
	}
	r.ensureStore() // before any goroutine starts
	parActive.Add(1)
	defer parActive.Add(-1)
	const wait = 60 * time.Millisecond
	var ids sync.Map
	start := func(p *parProc) {
		p.started = true
		ready := make(chan struct{})
		go func() {
			id := goid()
			parProcs.Store(id, p)
			ids.Store(p.name, id)
			close(ready)
			res := r.runProc(p)
			parProcs.Delete(id)
			p.done <- res
		}()
		<-ready
	}
	await := func(p *parProc, d time.Duration) (string, string) {
		select {
		case ev := <-p.arrived:
			p.at = ev
			return "at", ev
		case res := <-p.done:
			p.ended, p.res, p.at = true, res, ""
			return "done", res
		case <-time.After(d):
			return "blocked", ""
		}
	}
	for _, name := range spec.Order {
		p := procs[name]
		if p == nil || p.ended {
			emit(name, "skip", "skip")
			continue
		}
		if !p.started {
			start(p)
		} else if p.at != "" {
			p.at = ""
			p.release <- struct{}{}
		}
		what, res := await(p, wait)
		// other processes may have been unblocked by this step: collect their arrivals without releasing them
		emit(name, what, res)
		for _, q := range procs {
			if q != p && q.started && !q.ended && q.at == "" {
				if w, rs := await(q, time.Millisecond); w != "blocked" {
					emit(q.name, w, rs) // q was unblocked by this step and reached its next hook (or returned)
				}
			}
		}
	}
	// schedule exhausted: let everything run to completion (hooks reached from now on are logged, not parked at)
	hung := []string{}
	for _, p := range procs {
		p.free.Store(true)
	}
	for _, p := range procs {
		if !p.started {
			start(p)
		} else if p.at != "" {
			p.at = ""
			p.release <- struct{}{}
		}
	}
	deadline := time.After(25 * time.Second)
	left := 0
	for _, p := range procs {
		if !p.ended {
			left++
		}
	}
	for left > 0 {
		progressed := false
		for _, p := range procs {
			if p.ended {
				continue
			}
			select {
			case <-p.arrived: // reached a hook just before `free` was seen: release it
				p.release <- struct{}{}
				progressed = true
			case res := <-p.done:
				p.ended, p.res = true, res
				left--
				progressed = true
			default:
			}
		}
		if !progressed {
			select {
			case <-deadline:
				for _, p := range procs {
					if !p.ended {
						hung = append(hung, p.name)
						p.ended = true
					}
				}
				left = 0
			case <-time.After(2 * time.Millisecond):
			}
		}
	}
	r.freeLogMu.Lock()
	fl := r.freeLog
	r.freeLog = nil
	r.freeLogMu.Unlock()
	for _, e := range fl {
		emit(e[0], "free", e[1]+e[2])
	}
	res := "ok"
	if len(hung) > 0 {
		res = fmt.Sprintf("hung:%v", hung)
	}
	emit("*", "end", res)
}

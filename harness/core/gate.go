//go:build verif

package core

import (
	"context"
	"sync"
	"time"

	"github.com/benbjohnson/litestream"
)

// Gates: the verif hooks inside checkpointWithExecutor / execCheckpoint block on a per-database gate while a
// schedule runs a litestream checkpoint step by step, so that application statements can be placed between the
// sub-steps of ONE checkpoint exactly as a behaviour of Core.tla says (no thread timing involved).

type gateCtl struct {
	mu      sync.Mutex
	active  bool
	syncGate string // the gated call is a plain DB.Sync: the one hook to park at (sync.pagemap / sync.verified), "" for a checkpoint
	arrived chan string
	release chan struct{}
}

var gates sync.Map // db path -> *gateCtl

var stopAt = map[string]bool{"chk.copied": true, "chk.pre-exec": true, "chk.read-released": true,
	"chk.post-exec": true, "chk.pre-bump": true, "chk.bumped": true}

func init() {
	litestream.VerifSetHook(func(ev string, args ...any) {
		if parActive.Load() > 0 {
			if pp := parLookup(); pp != nil {
				pp.park(ev)
				return
			}
		}
		if len(args) == 0 || (!stopAt[ev] && ev != "sync.pagemap" && ev != "sync.verified") {
			return
		}
		path, ok := args[0].(string)
		if !ok {
			return
		}
		v, ok := gates.Load(path)
		if !ok {
			return
		}
		g := v.(*gateCtl)
		g.mu.Lock()
		act := g.active && ((g.syncGate == "" && stopAt[ev]) || g.syncGate == ev)
		g.mu.Unlock()
		if !act {
			return
		}
		g.arrived <- ev
		<-g.release
	})
}

type gatedCall struct {
	g      *gateCtl
	done   chan error
	at     string
	cancel context.CancelFunc // cancels the context the checkpoint was called with (CkCancel: a request that timed out mid-way)
}

func (r *Runner) gateStart(mode string) string {
	sg := map[string]string{"SYNC": "sync.pagemap", "SYNC0": "sync.verified"}[mode]
	g := &gateCtl{active: true, syncGate: sg, arrived: make(chan string), release: make(chan struct{})}
	gates.Store(r.dbPath, g)
	ctx, cancel := context.WithCancel(r.ctx)
	c := &gatedCall{g: g, done: make(chan error, 1), cancel: cancel}
	r.gated = c
	ls := r.ls
	go func() {
		if sg != "" { // a plain sync parked between building its page map and reading the page data (SyStart / CkStep)
			c.done <- ls.Sync(ctx)
			return
		}
		c.done <- ls.Checkpoint(ctx, mode)
	}()
	return r.gateWait()
}

func (r *Runner) gateWait() string {
	c := r.gated.(*gatedCall)
	select {
	case ev := <-c.g.arrived:
		c.at = ev
		return "at"
	case err := <-c.done:
		gates.Delete(r.dbPath)
		r.gated = nil
		return errClass(err)
	case <-time.After(20 * time.Second):
		return "err:gate timeout"
	}
}

func (r *Runner) gateStep() string {
	if r.gated == nil {
		return "skip"
	}
	c := r.gated.(*gatedCall)
	c.g.release <- struct{}{}
	return r.gateWait()
}

// gateCancel cancels the context of the in-flight checkpoint while it is parked at a hook.
func (r *Runner) gateCancel() string {
	if r.gated == nil {
		return "skip"
	}
	r.gated.(*gatedCall).cancel()
	return "ok"
}

// gateFinish lets an in-flight gated checkpoint run to completion.
func (r *Runner) gateFinish() {
	if r.gated == nil {
		return
	}
	c := r.gated.(*gatedCall)
	c.g.mu.Lock()
	c.g.active = false
	c.g.mu.Unlock()
	select {
	case c.g.release <- struct{}{}:
	default:
	}
	select {
	case <-c.done:
	case <-time.After(20 * time.Second):
	}
	gates.Delete(r.dbPath)
	r.gated = nil
}

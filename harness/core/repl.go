package core

import (
	"context"
	"errors"
	"fmt"
	"io"
	"log/slog"
	"os"
	"path/filepath"
	"sort"
	"sync"
	"time"

	"github.com/benbjohnson/litestream"
	"github.com/superfly/ltx"
)

// faultClient wraps the real replica client of the DB under test. Armed faults are consumed by matching calls:
//
//	list           LTXFiles returns an error
//	open           OpenLTXFile returns an error
//	openmid        OpenLTXFile succeeds, the stream fails after half of the bytes
//	write-before   WriteLTXFile fails before anything is stored (nothing of the body consumed)
//	write-partial  WriteLTXFile consumes part of the body, stores nothing, fails
//	write-after    WriteLTXFile stores the file and THEN reports an error (ambiguous failure)
//	delete-before  DeleteLTXFiles fails, nothing deleted
//	delete-after   DeleteLTXFiles deletes and then reports an error
type faultClient struct {
	litestream.ReplicaClient
	mu    sync.Mutex
	armed map[string]int
	calls []string
}

var errInjected = errors.New("injected storage fault")

func (c *faultClient) take(kinds ...string) string {
	c.mu.Lock()
	defer c.mu.Unlock()
	for _, k := range kinds {
		if c.armed[k] > 0 {
			c.armed[k]--
			c.calls = append(c.calls, "FAULT:"+k)
			return k
		}
	}
	return ""
}

func (c *faultClient) note(s string) {
	c.mu.Lock()
	c.calls = append(c.calls, s)
	c.mu.Unlock()
}

func (c *faultClient) left() int {
	c.mu.Lock()
	defer c.mu.Unlock()
	n := 0
	for _, v := range c.armed {
		n += v
	}
	return n
}

func (c *faultClient) LTXFiles(ctx context.Context, level int, seek ltx.TXID, useMetadata bool) (ltx.FileIterator, error) {
	if c.take("list") != "" {
		return nil, errInjected
	}
	return c.ReplicaClient.LTXFiles(ctx, level, seek, useMetadata)
}

type midReader struct {
	rc   io.ReadCloser
	left int64
}

func (m *midReader) Read(p []byte) (int, error) {
	if m.left <= 0 {
		return 0, errInjected
	}
	if int64(len(p)) > m.left {
		p = p[:m.left]
	}
	n, err := m.rc.Read(p)
	m.left -= int64(n)
	return n, err
}
func (m *midReader) Close() error { return m.rc.Close() }

func (c *faultClient) OpenLTXFile(ctx context.Context, level int, minTXID, maxTXID ltx.TXID, offset, size int64) (io.ReadCloser, error) {
	switch c.take("open", "openmid") {
	case "open":
		return nil, errInjected
	case "openmid":
		rc, err := c.ReplicaClient.OpenLTXFile(ctx, level, minTXID, maxTXID, offset, size)
		if err != nil {
			return nil, err
		}
		return &midReader{rc: rc, left: 150}, nil
	}
	return c.ReplicaClient.OpenLTXFile(ctx, level, minTXID, maxTXID, offset, size)
}

func (c *faultClient) WriteLTXFile(ctx context.Context, level int, minTXID, maxTXID ltx.TXID, r io.Reader) (*ltx.FileInfo, error) {
	switch c.take("write-before", "write-partial", "write-after") {
	case "write-before":
		return nil, errInjected
	case "write-partial":
		io.CopyN(io.Discard, r, 120)
		return nil, errInjected
	case "write-after":
		if _, err := c.ReplicaClient.WriteLTXFile(ctx, level, minTXID, maxTXID, r); err != nil {
			return nil, err
		}
		return nil, errInjected
	}
	c.note(fmt.Sprintf("write:%d:%d-%d", level, minTXID, maxTXID))
	return c.ReplicaClient.WriteLTXFile(ctx, level, minTXID, maxTXID, r)
}

func (c *faultClient) DeleteLTXFiles(ctx context.Context, a []*ltx.FileInfo) error {
	switch c.take("delete-before", "delete-after") {
	case "delete-before":
		return errInjected
	case "delete-after":
		if err := c.ReplicaClient.DeleteLTXFiles(ctx, a); err != nil {
			return err
		}
		return errInjected
	}
	return c.ReplicaClient.DeleteLTXFiles(ctx, a)
}

func (c *faultClient) SetLogger(l *slog.Logger) { c.ReplicaClient.SetLogger(l) }

// ---------------------------------------------------------------------------------------------

type remFile struct {
	lvl      int
	min, max uint64
	name     string
	mtime    time.Time
	size     int64
}

func (r *Runner) listRemote() []remFile {
	var out []remFile
	for lvl := 0; lvl <= 9; lvl++ {
		dir := filepath.Join(r.repDir, "ltx", fmt.Sprint(lvl))
		ents, err := os.ReadDir(dir)
		if err != nil {
			continue
		}
		for _, e := range ents {
			var a, b uint64
			if n, _ := fmt.Sscanf(e.Name(), "%016x-%016x.ltx", &a, &b); n != 2 || filepath.Ext(e.Name()) != ".ltx" {
				continue
			}
			fi, err := e.Info()
			if err != nil {
				continue
			}
			out = append(out, remFile{lvl: lvl, min: a, max: b, name: filepath.Join(dir, e.Name()), mtime: fi.ModTime(), size: fi.Size()})
		}
	}
	sort.Slice(out, func(i, j int) bool {
		if out[i].lvl != out[j].lvl {
			return out[i].lvl < out[j].lvl
		}
		if out[i].min != out[j].min {
			return out[i].min < out[j].min
		}
		return out[i].max < out[j].max
	})
	return out
}

// observeRemote decodes replica files that are new (or changed) since the previous step.
func (r *Runner) observeRemote(ev *Event) {
	ev.NewRem = []LtxObs{}
	for _, f := range r.listRemote() {
		key := fmt.Sprintf("%s/%d/%d", f.name, f.size, f.mtime.UnixNano())
		if r.seenRem[key] {
			continue
		}
		r.seenRem[key] = true
		fh, err := os.Open(f.name)
		if err != nil {
			continue
		}
		o := DecodeLTX(fh, f.lvl, r.c.Cfg.PageSize, r.dict)
		fh.Close()
		o.TS = r.rel(f.mtime.UnixMilli()) // what the file replica reports as CreatedAt (ms, relative)
		ev.NewRem = append(ev.NewRem, o)
	}
}

// replStep interprets the replica-level operations (compaction is in run.go).
func (r *Runner) replStep(op string, st []any) (string, bool, bool) {
	ctx := r.ctx
	switch op {
	case "Fault": // arm n faults of a kind
		if r.fc == nil {
			return "skip", false, true
		}
		r.fc.mu.Lock()
		r.fc.armed[argStr(st, 1, "")] += argInt(st, 2, 1)
		r.fc.mu.Unlock()
		return "ok", false, true
	case "ClearFaults":
		if r.fc != nil {
			r.fc.mu.Lock()
			r.fc.armed = map[string]int{}
			r.fc.mu.Unlock()
		}
		return "ok", false, true
	case "SnapRetention": // cut-off placed just after the k-th snapshot's time (k = 0: before all of them)
		if !r.lsUp {
			return "skip", false, true
		}
		var snaps []remFile
		for _, f := range r.listRemote() {
			if f.lvl == 9 {
				snaps = append(snaps, f)
			}
		}
		k := argInt(st, 1, 0)
		cut := time.Unix(0, 0)
		if k > 0 && len(snaps) > 0 {
			if k > len(snaps) {
				k = len(snaps)
			}
			cut = snaps[k-1].mtime.Add(time.Millisecond)
		}
		r.lastCut = cut.UnixMilli()
		if cut.UnixNano()%1e6 != 0 {
			r.lastCut++ // files with ms-resolution times strictly below `cut` <=> ts < ceil(cut in ms)
		}
		floor, err := r.ls.EnforceSnapshotRetention(ctx, cut)
		if err != nil {
			return errClass(err), false, true
		}
		// Store.EnforceSnapshotRetention: cascade below the oldest kept snapshot on every level above 0
		for lvl := 1; lvl <= r.maxLevel(); lvl++ {
			if err := r.ls.EnforceRetentionByTXID(ctx, lvl, floor); err != nil {
				return errClass(err), false, true
			}
		}
		return "ok", false, true
	case "L0Retention": // threshold placed just after the k-th level-0 file's time
		if !r.lsUp {
			return "skip", false, true
		}
		var l0 []remFile
		for _, f := range r.listRemote() {
			if f.lvl == 0 {
				l0 = append(l0, f)
			}
		}
		k := argInt(st, 1, 0)
		if len(l0) == 0 {
			return "skip", false, true
		}
		if k > len(l0) {
			k = len(l0)
		}
		var thr time.Time
		if k == 0 {
			thr = l0[0].mtime.Add(-time.Millisecond)
		} else {
			thr = l0[k-1].mtime.Add(time.Millisecond / 2)
		}
		d := time.Since(thr)
		if d <= 0 {
			d = time.Nanosecond
		}
		r.ls.L0Retention = d
		r.lastCut = thr.UnixMilli()
		err := r.ls.EnforceL0RetentionByTime(ctx)
		return errClass(err), false, true
	case "AgeFile": // place the age of the k-th replica file of a level: "old" (2 h ago) or "fresh" (now)
		lvl, k := argInt(st, 1, 0), argInt(st, 2, 1)
		var fs []remFile
		for _, f := range r.listRemote() {
			if f.lvl == lvl {
				fs = append(fs, f)
			}
		}
		if len(fs) == 0 {
			return "skip", false, true
		}
		if k < 1 {
			k = 1
		}
		if k > len(fs) {
			k = len(fs)
		}
		t := time.Now()
		if argStr(st, 3, "old") == "old" {
			t = t.Add(-2 * time.Hour)
		}
		// keep the recorder from taking the re-dated file for a new one
		f := fs[k-1]
		delete(r.seenRem, fmt.Sprintf("%s/%d/%d", f.name, f.size, f.mtime.UnixNano()))
		err := os.Chtimes(f.name, t, t)
		r.seenRem[fmt.Sprintf("%s/%d/%d", f.name, f.size, t.UnixNano())] = true
		return errClass(err), false, true
	case "L0RetentionAbs": // level-0 retention with a fixed window of one hour (ages as placed by AgeFile)
		if !r.lsUp {
			return "skip", false, true
		}
		r.ls.L0Retention = time.Hour
		return errClass(r.ls.EnforceL0RetentionByTime(ctx)), false, true
	case "SnapRetentionAbs": // snapshot retention with a cut-off one hour ago + cascade
		if !r.lsUp {
			return "skip", false, true
		}
		floor, err := r.ls.EnforceSnapshotRetention(ctx, time.Now().Add(-time.Hour))
		if err != nil {
			return errClass(err), false, true
		}
		for lvl := 1; lvl <= r.maxLevel(); lvl++ {
			if err := r.ls.EnforceRetentionByTXID(ctx, lvl, floor); err != nil {
				return errClass(err), false, true
			}
		}
		return "ok", false, true
	case "RetByTXID": // EnforceRetentionByTXID(level, floor) with floor = max TXID of the k-th oldest snapshot on the replica
		// (the only kind of floor the daemon ever passes: everything below it is covered by that snapshot)
		if !r.lsUp {
			return "skip", false, true
		}
		var snaps []remFile
		for _, f := range r.listRemote() {
			if f.lvl == 9 {
				snaps = append(snaps, f)
			}
		}
		if len(snaps) == 0 {
			return "skip", false, true
		}
		k := argInt(st, 2, 1)
		if k < 1 {
			k = 1
		}
		if k > len(snaps) {
			k = len(snaps)
		}
		err := r.ls.EnforceRetentionByTXID(ctx, argInt(st, 1, 1), ltx.TXID(snaps[k-1].max))
		return errClass(err), false, true
	case "RestoreCheck": // restore the latest state (judged against the ledger)
		return "ok", false, true
	case "AuditNow":
		return "ok", false, true
	}
	return "", false, false
}

func (r *Runner) maxLevel() int {
	if r.c.Cfg.Levels > 0 {
		return r.c.Cfg.Levels
	}
	return 2
}

// Package core holds the recorder (projection of the real SQLite / litestream state into the vocabulary of the
// TLA+ specification) and the schedule interpreter shared by the drivers of C01-C07, C13-C15.
package core

import (
	"sync"
	"hash/crc32"
	"context"
	"crypto/sha256"
	"database/sql"
	"encoding/binary"
	"fmt"
	"io"
	"os"
	"path/filepath"
	"sort"
	"strings"

	"github.com/superfly/ltx"
	_ "modernc.org/sqlite"
)

// Dict assigns small integers to page images / WAL generations by first appearance.
type Dict struct {
	mu    sync.Mutex
	pages map[[32]byte]int
	gens  map[[2]uint32]int
}

func NewDict() *Dict { return &Dict{pages: map[[32]byte]int{}, gens: map[[2]uint32]int{}} }

func (d *Dict) Page(b []byte) int {
	h := sha256.Sum256(b)
	d.mu.Lock()
	defer d.mu.Unlock()
	if v, ok := d.pages[h]; ok {
		return v
	}
	v := len(d.pages) + 1
	d.pages[h] = v
	return v
}

func (d *Dict) Gen(s1, s2 uint32) int {
	k := [2]uint32{s1, s2}
	d.mu.Lock()
	defer d.mu.Unlock()
	if v, ok := d.gens[k]; ok {
		return v
	}
	v := len(d.gens) + 1
	d.gens[k] = v
	return v
}

// DBState is a database image: Pg[i] is the id of page i+1.
type DBState struct {
	N  int   `json:"n"`
	Pg []int `json:"pg"`
}

func ReadPages(path string, ps int, d *Dict) (DBState, error) {
	b, err := os.ReadFile(path)
	if err != nil {
		return DBState{Pg: []int{}}, err
	}
	st := DBState{Pg: []int{}}
	for off := 0; off+ps <= len(b); off += ps {
		st.Pg = append(st.Pg, d.Page(b[off:off+ps]))
	}
	st.N = len(st.Pg)
	return st, nil
}

// WalObs is the physical state of the -wal file as an independent decoder sees it.
type WalObs struct {
	Exists bool `json:"exists"`
	Gen    int  `json:"gen"`    // id of the header salts (0 = no file / short header)
	Salt1  int64 `json:"salt1"` // header salt-1 (to judge "incremented by one")
	Slots  int  `json:"slots"`  // physical frame slots in the file
	Valid  int  `json:"valid"`  // leading frames that pass salt + cumulative checksum
	Commit int  `json:"commit"` // index (1-based) of the last commit frame within the valid prefix
	CommitSize int `json:"commitSize"` // database size in pages recorded by that commit frame (0 = none)
	Size   int64 `json:"size"`
}

func ObserveWAL(path string, ps int, d *Dict) WalObs {
	var o WalObs
	b, err := os.ReadFile(path)
	if err != nil {
		return o
	}
	o.Exists = true
	o.Size = int64(len(b))
	if len(b) < 32 {
		return o
	}
	magic := binary.BigEndian.Uint32(b[0:])
	var bo binary.ByteOrder = binary.LittleEndian
	if magic == 0x377f0683 {
		bo = binary.BigEndian
	}
	s1, s2 := binary.BigEndian.Uint32(b[16:]), binary.BigEndian.Uint32(b[20:])
	o.Gen = d.Gen(s1, s2)
	o.Salt1 = int64(s1)
	ck := func(c0, c1 uint32, x []byte) (uint32, uint32) {
		for i := 0; i+8 <= len(x); i += 8 {
			c0 += bo.Uint32(x[i:]) + c1
			c1 += bo.Uint32(x[i+4:]) + c0
		}
		return c0, c1
	}
	c0, c1 := ck(0, 0, b[:24])
	if c0 != binary.BigEndian.Uint32(b[24:]) || c1 != binary.BigEndian.Uint32(b[28:]) {
		return o
	}
	chain := true
	for off := 32; off+24+ps <= len(b); off += 24 + ps {
		o.Slots++
		if !chain {
			continue
		}
		h := b[off : off+24]
		fs1, fs2 := binary.BigEndian.Uint32(h[8:]), binary.BigEndian.Uint32(h[12:])
		if fs1 != s1 || fs2 != s2 {
			chain = false
			continue
		}
		n0, n1 := ck(c0, c1, h[:8])
		n0, n1 = ck(n0, n1, b[off+24:off+24+ps])
		if n0 != binary.BigEndian.Uint32(h[16:]) || n1 != binary.BigEndian.Uint32(h[20:]) {
			chain = false
			continue
		}
		c0, c1 = n0, n1
		o.Valid++
		if c := binary.BigEndian.Uint32(h[4:]); c != 0 {
			o.Commit = o.Valid
			o.CommitSize = int(c)
		}
	}
	return o
}

func copyFile(src, dst string) error {
	in, err := os.Open(src)
	if err != nil {
		return err
	}
	defer in.Close()
	out, err := os.Create(dst)
	if err != nil {
		return err
	}
	if _, err := io.Copy(out, in); err != nil {
		out.Close()
		return err
	}
	return out.Close()
}

// Logical is what a reader of (db, -wal) sees, derived WITHOUT the decoder above: the two files are copied,
// the copy is opened by SQLite itself (no -shm, so SQLite runs its own recovery) and checkpointed.
type Logical struct {
	State   DBState `json:"state"`
	App     int     `json:"app"`     // id of the application-visible content (schema + rows, minus _litestream_* tables)
	SeqPg   int     `json:"seqPg"`   // root page of _litestream_seq (0 = table absent)
	Seq     int     `json:"seq"`     // its counter (-1 = no row)
	LockN   int     `json:"lockN"`   // rows in _litestream_lock (-1 = table absent)
	Integ   string  `json:"integ"`   // PRAGMA integrity_check of the copy
	Journal string  `json:"journal"` // journal mode recorded in the file header ("wal" when bytes 18,19 = 2)
	Err     string  `json:"err"`
}

func ObserveLogical(dbPath string, ps int, d *Dict, tmpDir string) Logical {
	var l Logical
	l.State.Pg = []int{}
	l.Seq, l.LockN = -1, -1
	l.Err = "none"
	l.Integ = "none"
	l.Journal = "none"
	tmp, err := os.MkdirTemp(tmpDir, "logical")
	if err != nil {
		l.Err = err.Error()
		return l
	}
	defer os.RemoveAll(tmp)
	cp := filepath.Join(tmp, "db")
	if err := copyFile(dbPath, cp); err != nil {
		l.Err = "nodb"
		return l
	}
	if _, err := os.Stat(dbPath + "-wal"); err == nil {
		if err := copyFile(dbPath+"-wal", cp+"-wal"); err != nil {
			l.Err = err.Error()
			return l
		}
	}
	if hb, err := os.ReadFile(cp); err == nil && len(hb) >= 20 {
		if hb[18] == 2 && hb[19] == 2 {
			l.Journal = "wal"
		} else {
			l.Journal = "other"
		}
	}
	db, err := sql.Open("sqlite", "file:"+cp+"?_pragma=busy_timeout(1000)")
	if err != nil {
		l.Err = err.Error()
		return l
	}
	db.SetMaxOpenConns(1)
	fail := func(e error) Logical { db.Close(); l.Err = e.Error(); return l }
	var a, b, c int
	if err := db.QueryRow(`PRAGMA wal_checkpoint(TRUNCATE)`).Scan(&a, &b, &c); err != nil {
		return fail(err)
	}
	l.App, l.SeqPg, l.Seq, l.LockN, err = AppContent(db, d)
	if err != nil {
		return fail(err)
	}
	var integ string
	if err := db.QueryRow(`PRAGMA integrity_check`).Scan(&integ); err != nil {
		return fail(err)
	}
	l.Integ = integ
	db.Close()
	st, err := ReadPages(cp, ps, d)
	if err != nil {
		l.Err = err.Error()
		return l
	}
	l.State = st
	return l
}

// AppContent hashes everything the application can read: schema and rows of every table except litestream's own.
func AppContent(db *sql.DB, d *Dict) (app, seqPg, seq, lockN int, err error) {
	seq, lockN = -1, -1
	h := sha256.New()
	rows, err := db.Query(`SELECT type, name, tbl_name, rootpage, coalesce(sql,'') FROM sqlite_master ORDER BY name, type`)
	if err != nil {
		return
	}
	var tables []string
	for rows.Next() {
		var typ, name, tbl, sqls string
		var root int
		if err = rows.Scan(&typ, &name, &tbl, &root, &sqls); err != nil {
			rows.Close()
			return
		}
		if strings.HasPrefix(tbl, "_litestream_") {
			if name == "_litestream_seq" {
				seqPg = root
			}
			continue
		}
		fmt.Fprintf(h, "S|%s|%s|%s|%s\n", typ, name, tbl, sqls)
		if typ == "table" && !strings.HasPrefix(name, "sqlite_") {
			tables = append(tables, name)
		}
	}
	rows.Close()
	sort.Strings(tables)
	for _, t := range tables {
		var r *sql.Rows
		r, err = db.Query(`SELECT * FROM "` + t + `" ORDER BY rowid`)
		if err != nil {
			// WITHOUT ROWID tables
			r, err = db.Query(`SELECT * FROM "` + t + `" ORDER BY 1`)
			if err != nil {
				return
			}
		}
		cols, _ := r.Columns()
		vals := make([]any, len(cols))
		ptrs := make([]any, len(cols))
		for i := range vals {
			ptrs[i] = &vals[i]
		}
		for r.Next() {
			if err = r.Scan(ptrs...); err != nil {
				r.Close()
				return
			}
			fmt.Fprintf(h, "R|%s", t)
			for _, v := range vals {
				switch x := v.(type) {
				case []byte:
					hh := sha256.Sum256(x)
					fmt.Fprintf(h, "|b%x", hh[:8])
				default:
					fmt.Fprintf(h, "|%v", x)
				}
			}
			fmt.Fprintln(h)
		}
		r.Close()
	}
	var sum [32]byte
	copy(sum[:], h.Sum(nil))
	// application content ids share the page dictionary's id space via a tagged hash
	app = d.Page(append([]byte("APP"), sum[:]...))
	if seqPg != 0 {
		if e := db.QueryRow(`SELECT seq FROM _litestream_seq WHERE id = 1`).Scan(&seq); e != nil {
			seq = -1
		}
		if e := db.QueryRow(`SELECT count(*) FROM _litestream_lock`).Scan(&lockN); e != nil {
			lockN = -1
		}
	}
	return
}

// LtxObs describes one LTX file as decoded by the ltx package.
type LtxObs struct {
	Level  int   `json:"lvl"`
	Min    int   `json:"min"`
	Max    int   `json:"max"`
	Commit int   `json:"commit"`
	Off    int   `json:"off"`  // WAL offset in frames (-1 when not frame aligned)
	Len    int   `json:"len"`  // WAL size in frames
	Gen    int   `json:"gen"`  // id of the WAL salts in the header
	Pgs    []int `json:"pgs"`  // page numbers contained
	Ids    []int `json:"ids"`  // page ids, parallel to Pgs
	Full   bool  `json:"full"` // contains every page 1..commit except the lock page
	TS     int64 `json:"ts"`   // header timestamp (ms)
	Salt1  int64 `json:"salt1"`  // WAL salt-1 recorded in the header (generation arithmetic: a restart adds one)
	Fetched bool `json:"fetched"` // byte-identical copy of a file that was already on the replica before this step (baseline fetch)
	Err    string `json:"err"`
}

func DecodeLTX(r io.Reader, level int, ps int, d *Dict) LtxObs {
	o := LtxObs{Level: level, Pgs: []int{}, Ids: []int{}, Err: "none"}
	dec := ltx.NewDecoder(r)
	if err := dec.DecodeHeader(); err != nil {
		o.Err = "header:" + err.Error()
		return o
	}
	h := dec.Header()
	o.Min, o.Max, o.Commit, o.TS = int(h.MinTXID), int(h.MaxTXID), int(h.Commit), h.Timestamp
	fs := int64(h.PageSize) + 24
	o.Off, o.Len = -1, -1
	if h.WALOffset >= 32 && (h.WALOffset-32)%fs == 0 {
		o.Off = int((h.WALOffset - 32) / fs)
	} else if h.WALOffset == 0 {
		o.Off = 0
	}
	if h.WALSize%fs == 0 {
		o.Len = int(h.WALSize / fs)
	}
	if h.WALSalt1 != 0 || h.WALSalt2 != 0 {
		o.Gen = d.Gen(h.WALSalt1, h.WALSalt2)
	}
	o.Salt1 = int64(h.WALSalt1)
	buf := make([]byte, h.PageSize)
	have := map[uint32]bool{}
	for {
		var ph ltx.PageHeader
		if err := dec.DecodePage(&ph, buf); err == io.EOF {
			break
		} else if err != nil {
			o.Err = "page:" + err.Error()
			return o
		}
		o.Pgs = append(o.Pgs, int(ph.Pgno))
		o.Ids = append(o.Ids, d.Page(buf))
		have[ph.Pgno] = true
	}
	if err := dec.Close(); err != nil {
		o.Err = "close:" + err.Error()
	}
	lock := ltx.LockPgno(h.PageSize)
	o.Full = true
	for p := uint32(1); p <= h.Commit; p++ {
		if p != lock && !have[p] {
			o.Full = false
			break
		}
	}
	_ = ps
	return o
}

// Restored is the outcome of the real Replica.Restore.
type Restored struct {
	Done  bool    `json:"done"` // restore was attempted at this step
	OK    bool    `json:"ok"`
	Err   string  `json:"err"`
	State DBState `json:"state"`
	App   int     `json:"app"`
	Seq   int     `json:"seq"`
	LockN int     `json:"lockN"`
	Integ string  `json:"integ"`
	Sig   string  `json:"sig"`
}

func NoRestore() Restored {
	return Restored{State: DBState{Pg: []int{}}, Err: "none", Integ: "none", Seq: -1, LockN: -1}
}

// InspectDBFile opens a plain database file (no WAL expected) read-only-ish via a copy and reports content + integrity.
func InspectDBFile(path string, ps int, d *Dict, tmpDir string) (st DBState, app, seq, lockN int, integ string, err error) {
	st, err = ReadPages(path, ps, d)
	if err != nil {
		return
	}
	tmp, e := os.MkdirTemp(tmpDir, "inspect")
	if e != nil {
		err = e
		return
	}
	defer os.RemoveAll(tmp)
	cp := filepath.Join(tmp, "db")
	if err = copyFile(path, cp); err != nil {
		return
	}
	db, e := sql.Open("sqlite", "file:"+cp+"?_pragma=busy_timeout(1000)")
	if e != nil {
		err = e
		return
	}
	defer db.Close()
	db.SetMaxOpenConns(1)
	if e := db.QueryRowContext(context.Background(), `PRAGMA integrity_check`).Scan(&integ); e != nil {
		integ = "error:" + e.Error()
		return
	}
	app, _, seq, lockN, err = AppContent(db, d)
	return
}


// RowSig is a debugging aid: "id:crc32(v)" for every row of t.
func RowSig(db *sql.DB) string {
	rows, err := db.Query("SELECT id, v FROM t ORDER BY id")
	if err != nil {
		return "err:" + err.Error()
	}
	defer rows.Close()
	var sb strings.Builder
	for rows.Next() {
		var id int
		var v []byte
		if err := rows.Scan(&id, &v); err != nil {
			return sb.String() + " err:" + err.Error()
		}
		fmt.Fprintf(&sb, "%d:%08x ", id, crc32.ChecksumIEEE(v))
	}
	return sb.String()
}

func RowSigFile(path string) string {
	db, err := sql.Open("sqlite", "file:"+path+"?mode=ro")
	if err != nil {
		return "err:" + err.Error()
	}
	defer db.Close()
	return RowSig(db)
}

// PreState is everything litestream's verify()/sync() read, observed just before a litestream call: the physical WAL
// slot by slot, the database file, the last local level-0 file and the in-memory flag. Trace_CoreSync.tla feeds it to
// Core.tla's own operators (Verify, SyncResult) and compares their prediction with the file the real code wrote.
type PreState struct {
	Has    bool    `json:"has"`
	Wal    [][]int `json:"wal"`   // per slot: pg, page id, commit, salt-1 of the frame
	Valid  int     `json:"valid"` // checksum-valid prefix of the header's generation
	Hdr    int     `json:"hdr"`   // salt-1 of the WAL header (0 = no WAL)
	Dbf    []int   `json:"dbf"`   // page ids of the database file
	ToEnd  bool    `json:"toEnd"` // syncState.syncedToWALEnd
	LastOK bool    `json:"lastOK"`
	Last   LtxObs  `json:"last"` // newest local level-0 file
	Pos    int     `json:"pos"`
	Synced int     `json:"synced"` // syncState.lastSyncedWALOffset in frames (0 = nothing synced, -1 = not on a frame boundary)
	Since  bool    `json:"since"`  // syncState.syncedSinceCheckpoint
}

func EmptyPre() PreState {
	return PreState{Wal: [][]int{}, Dbf: []int{}, Last: LtxObs{Pgs: []int{}, Ids: []int{}, Err: "none"}}
}

func ObservePre(dbPath, metaL0 string, ps int, d *Dict) PreState {
	p := EmptyPre()
	p.Has = true
	if b, err := os.ReadFile(dbPath + "-wal"); err == nil && len(b) >= 32 {
		p.Hdr = int(binary.BigEndian.Uint32(b[16:]))
		for off := 32; off+24+ps <= len(b); off += 24 + ps {
			h := b[off : off+24]
			p.Wal = append(p.Wal, []int{int(binary.BigEndian.Uint32(h[0:])), d.Page(b[off+24 : off+24+ps]),
				int(binary.BigEndian.Uint32(h[4:])), int(binary.BigEndian.Uint32(h[8:]))})
		}
	}
	p.Valid = ObserveWAL(dbPath+"-wal", ps, d).Valid
	if st, err := ReadPages(dbPath, ps, d); err == nil {
		p.Dbf = st.Pg
	}
	ents, _ := os.ReadDir(metaL0)
	best := ""
	for _, e := range ents {
		if strings.HasSuffix(e.Name(), ".ltx") && e.Name() > best {
			best = e.Name()
		}
	}
	if best != "" {
		if fh, err := os.Open(filepath.Join(metaL0, best)); err == nil {
			p.Last = DecodeLTX(fh, 0, ps, d)
			p.Last.TS = 0 // not used by the binding; absolute ms would overflow TLC's 32-bit integers
			fh.Close()
			p.LastOK = p.Last.Err == "none"
			p.Pos = p.Last.Max
		}
	}
	return p
}

package core

import (
	"context"
	"database/sql"
	"encoding/binary"
	"encoding/json"
	"errors"
	"fmt"
	"io"
	"log/slog"
	"math/rand"
	"os"
	"path/filepath"
	"sort"
	"strings"
	"sync"
	"time"

	"github.com/benbjohnson/litestream"
	"github.com/benbjohnson/litestream/file"
	"github.com/superfly/ltx"
)

// Config of one case: SQLite settings and litestream's checkpoint policy.
type Config struct {
	PageSize   int    `json:"pageSize"`
	AutoVacuum string `json:"autoVacuum"` // none | full | incremental
	Rows       int    `json:"rows"`       // initial rows (one page each)
	MinPg      int    `json:"minPg"`      // MinCheckpointPageN
	TruncPg    int    `json:"truncPg"`    // TruncatePageN (0 = default)
	IntervalMs int    `json:"intervalMs"` // CheckpointInterval (0 = disabled)
	MaxBytes   int    `json:"maxBytes"`   // MaxSyncWALBytes
	Seed       int    `json:"seed"`
	Control    bool   `json:"control"` // also run the schedule without litestream (C14)
	Audit      bool   `json:"audit"`   // restore every TXID at the end (C02)
	InitCkpt   bool   `json:"initCkpt"` // checkpoint(TRUNCATE) after the initial load, so the WAL starts empty
	Levels     int    `json:"levels"`   // highest compaction level below the snapshot level (default 2)
	NoRetention bool  `json:"noRetention"` // RetentionEnabled = false (deletion delegated to the storage provider)
	Faults     bool   `json:"faults"`   // wrap the replica client in the fault injector
	Full       bool   `json:"full"`     // record the full pre-state before litestream calls (Trace_CoreSync.tla)
	RestoreEach bool  `json:"restoreEach"` // restore the latest state after every litestream/replica step (C05-C07)
	ReqCtx     bool   `json:"reqCtx"`   // every litestream call runs under its own context, cancelled when the call returns (as request handlers do)
	Daemon     DaemonCfg `json:"daemon"`   // monMs > 0: daemon mode (daemon.go) - the real Store with its monitors running
}

type Case struct {
	ID    int     `json:"id"`
	Cfg   Config  `json:"cfg"`
	Sched [][]any `json:"sched"`
}

// Event is one line of the trace. Every event has every field (TLA+ records of one shape).
type Event struct {
	T      int       `json:"t"`
	I      int       `json:"i"`
	Op     string    `json:"op"`
	Arg    string    `json:"arg"`
	N      int       `json:"n"`
	Res    string    `json:"res"`
	Ack    bool      `json:"ack"`
	Up     bool      `json:"up"`
	AppUp  bool      `json:"appUp"`
	InTx   bool      `json:"inTx"`
	Reader bool      `json:"reader"`
	Src    DBState   `json:"src"`
	App    int       `json:"app"`
	SeqPg  int       `json:"seqPg"`
	Seq    int       `json:"seq"`
	LockN  int       `json:"lockN"`
	Integ  string    `json:"integ"`
	Jrnl   string    `json:"journal"`
	Wal    WalObs    `json:"wal"`
	LPos   int       `json:"lpos"`
	RPos   int       `json:"rpos"`
	NewL0  []LtxObs  `json:"newl0"`
	Remote [][]int   `json:"remote"`
	Local  [][]int   `json:"local"`
	Rest   Restored  `json:"rest"`
	Ctl    int       `json:"ctl"`
	Cfg    Config    `json:"cfg"`
	Audit  []AuditTx `json:"audit"`
	NewRem []LtxObs  `json:"newrem"`
	FaultsLeft int   `json:"faultsLeft"`
	Calls  []string  `json:"calls"`
	HasRead bool     `json:"hasRead"` // litestream's long read transaction is held
	Open    bool     `json:"open"`    // DB.IsOpen()
	Handles bool     `json:"handles"` // the DB holds an open SQL handle
	NDBs    int      `json:"ndbs"`    // databases managed by the Store
	ExecFree bool    `json:"execFree"` // executor semaphore free (sampled only while no call is in flight)
	ChkFree  bool    `json:"chkFree"`  // checkpoint lock free (same)
	Cut      int64   `json:"cut"`      // cut-off (ms) a retention step used, 0 otherwise
	FlagsStale bool  `json:"flagsStale"` // hasRead / open / handles could not be sampled at this line (values of the previous line)
	Bg       bool    `json:"bg"`       // a background application writer (AppHoldWrite) was in flight during this step
	Pre     PreState `json:"pre"`
}

type AuditTx struct {
	Lvl   int     `json:"lvl"`
	TXID  int     `json:"txid"`
	OK    bool    `json:"ok"`
	Err   string  `json:"err"`
	State DBState `json:"state"`
	App   int     `json:"app"`
	Integ string  `json:"integ"` // PRAGMA integrity_check of the restored database
	Sig   string  `json:"sig"`   // debugging aid (VERIF_ROWSIG): id:crc of every row of t
}

type Runner struct {
	c       Case
	dir     string
	dbPath  string
	repDir  string
	tmp     string
	dict    *Dict
	rnd     *rand.Rand
	wcount  int
	app     *sql.DB
	conn    *sql.Conn
	inTx    bool
	reader  *sql.Conn
	ls      *litestream.DB
	lsUp    bool
	seenL0  map[string]bool
	prevRem map[string]bool
	gated   any // in-flight step-by-step checkpoint (gate.go)
	seenRem map[string]bool
	fc      *faultClient
	lastFlags [3]bool
	flagsStale bool // the last lifecycleFlags() call timed out (a parked goroutine holds db.mu): the values are the previous ones
	lastCut   int64
	baseMs    int64 // times are logged in ms relative to this instant (TLC integers are 32 bit)
	holdDone  chan struct{}
	appMu     sync.Mutex
	appLog    []int // application-visible content after each application transaction committed inside a Par block (under appMu)
	freeLogMu sync.Mutex
	freeLog   [][3]string // hooks reached after a Par block's schedule was exhausted (proc, event, open?)
	store   any // *litestream.Store once a Par block or a Store-level operation needs one
	nextRow int
	ctx     context.Context
	Hooks   func(r *Runner, ls *litestream.DB) // optional: lets a driver configure a freshly created litestream.DB
}

var discard = func() *slog.Logger {
	if os.Getenv("VERIF_LS_LOG") != "" { // debugging aid: litestream's own log on stderr
		return slog.New(slog.NewTextHandler(os.Stderr, &slog.HandlerOptions{Level: slog.LevelDebug}))
	}
	return slog.New(slog.NewTextHandler(io.Discard, nil))
}()

func (r *Runner) payload(n int) []byte {
	r.wcount++
	b := make([]byte, n)
	src := rand.New(rand.NewSource(int64(r.c.Cfg.Seed)*1000003 + int64(r.wcount)))
	src.Read(b)
	binary.BigEndian.PutUint32(b, uint32(r.wcount))
	return b
}

func (r *Runner) rowBytes() int { return r.c.Cfg.PageSize * 6 / 10 }

func (r *Runner) openApp() error {
	db, err := sql.Open("sqlite", "file:"+r.dbPath+"?_pragma=busy_timeout(5)&_pragma=wal_autocheckpoint(0)")
	if err != nil {
		return err
	}
	db.SetMaxOpenConns(4)
	conn, err := db.Conn(r.ctx)
	if err != nil {
		db.Close()
		return err
	}
	r.app, r.conn = db, conn
	return nil
}

func (r *Runner) closeApp() {
	if r.holdDone != nil {
		<-r.holdDone
		r.holdDone = nil
	}
	if r.reader != nil {
		r.reader.ExecContext(r.ctx, "ROLLBACK")
		r.reader.Close()
		r.reader = nil
	}
	if r.conn != nil {
		if r.inTx {
			r.conn.ExecContext(r.ctx, "ROLLBACK")
			r.inTx = false
		}
		r.conn.Close()
		r.conn = nil
	}
	if r.app != nil {
		r.app.Close()
		r.app = nil
	}
}

func (r *Runner) rel(ms int64) int64 {
	if ms <= r.baseMs {
		return 0
	}
	return ms - r.baseMs
}

func (r *Runner) setup() error {
	r.baseMs = time.Now().UnixMilli() - 1000
	os.MkdirAll(r.dir, 0o755)
	os.MkdirAll(r.tmp, 0o755)
	if err := r.openApp(); err != nil {
		return err
	}
	cfg := r.c.Cfg
	av := map[string]int{"none": 0, "full": 1, "incremental": 2}[cfg.AutoVacuum]
	stmts := []string{
		fmt.Sprintf("PRAGMA page_size = %d", cfg.PageSize),
		fmt.Sprintf("PRAGMA auto_vacuum = %d", av),
		"PRAGMA journal_mode = wal",
		"CREATE TABLE t (id INTEGER PRIMARY KEY, v BLOB)",
	}
	for _, s := range stmts {
		if _, err := r.conn.ExecContext(r.ctx, s); err != nil {
			return fmt.Errorf("%s: %w", s, err)
		}
	}
	for i := 1; i <= cfg.Rows; i++ {
		if _, err := r.conn.ExecContext(r.ctx, "INSERT INTO t (id, v) VALUES (?, ?)", i, r.payload(r.rowBytes())); err != nil {
			return err
		}
	}
	r.nextRow = cfg.Rows + 1
	if cfg.InitCkpt {
		var a, b, c int
		if err := r.conn.QueryRowContext(r.ctx, "PRAGMA wal_checkpoint(TRUNCATE)").Scan(&a, &b, &c); err != nil {
			return err
		}
	}
	return nil
}

func errClass(err error) string {
	if err == nil {
		return "ok"
	}
	s := err.Error()
	switch {
	case strings.Contains(s, "SQLITE_BUSY") || strings.Contains(s, "database is locked") || strings.Contains(s, "database table is locked"):
		return "busy"
	}
	if len(s) > 160 {
		s = s[:160]
	}
	return "err:" + s
}

func (r *Runner) newLS() *litestream.DB {
	cfg := r.c.Cfg
	db := litestream.NewDB(r.dbPath)
	db.Logger = discard
	db.MonitorInterval = 0
	db.ShutdownSyncTimeout = 0
	db.BusyTimeout = 50 * time.Millisecond
	if cfg.MinPg > 0 {
		db.MinCheckpointPageN = cfg.MinPg
	}
	db.TruncatePageN = cfg.TruncPg
	db.CheckpointInterval = time.Duration(cfg.IntervalMs) * time.Millisecond
	db.MaxSyncWALBytes = int64(cfg.MaxBytes)
	client := file.NewReplicaClient(r.repDir)
	client.SetLogger(discard)
	var rc litestream.ReplicaClient = client
	if cfg.Faults {
		if r.fc == nil {
			r.fc = &faultClient{armed: map[string]int{}}
		}
		r.fc.ReplicaClient = client
		rc = r.fc
	}
	db.RetentionEnabled = !cfg.NoRetention
	db.Replica = litestream.NewReplicaWithClient(db, rc)
	db.Replica.MonitorEnabled = false
	if r.Hooks != nil {
		r.Hooks(r, db)
	}
	return db
}

func argInt(st []any, k int, def int) int {
	if len(st) > k {
		switch v := st[k].(type) {
		case float64:
			return int(v)
		case int:
			return v
		}
	}
	return def
}

func argStr(st []any, k int, def string) string {
	if len(st) > k {
		if s, ok := st[k].(string); ok {
			return s
		}
	}
	return def
}

// Step interprets one schedule step. It returns (result class, acknowledged?).
func (r *Runner) Step(st []any, noLS bool) (res string, ack bool) {
	op := argStr(st, 0, "")
	ctx := r.ctx
	if r.c.Cfg.ReqCtx && (op == "LsSync" || op == "LsSyncAndWait" || op == "LsCheckpoint" || op == "LsReplicaSync" || op == "Snapshot" || op == "Compact") {
		var cancel context.CancelFunc
		ctx, cancel = context.WithCancel(r.ctx)
		defer func() {
			cancel()
			time.Sleep(3 * time.Millisecond) // database/sql reacts to the cancellation in a goroutine of its own
		}()
	}
	isLS := strings.HasPrefix(op, "Ls") || strings.HasPrefix(op, "Ck") || op == "Fault" || op == "ClearFaults" || op == "SnapRetention" ||
		op == "L0Retention" || op == "RetByTXID" || op == "LocalLoss" || op == "AgeFile" || op == "L0RetentionAbs" || op == "SnapRetentionAbs" || op == "RestoreCheck" || op == "AuditNow" || op == "MetaLost" || op == "Snapshot" || op == "Compact" ||
		strings.HasPrefix(op, "Ret") || op == "ReplaceDb" || op == "SaveCopy" || op == "SaveAll" || op == "RestoreAll"
	if noLS && isLS && op != "ReplaceDb" && op != "SaveCopy" && op != "SaveAll" && op != "RestoreAll" {
		return "skip", false
	}
	needApp := strings.HasPrefix(op, "App") || strings.HasPrefix(op, "Reader")
	if needApp && op != "AppOpen" && r.conn == nil {
		return "skip", false
	}
	if r.gated != nil && (strings.HasPrefix(op, "Ls") || op == "Snapshot" || op == "Compact") {
		r.gateFinish() // the executor is held by the in-flight checkpoint: let it finish first
	}
	if res, ack, ok := r.replStep(op, st); ok {
		return res, ack
	}
	switch op {
	// ---------------------------------------------------------------- application
	case "AppWrite": // rewrite one row = one page
		id := argInt(st, 1, 1)
		_, err := r.conn.ExecContext(ctx, "UPDATE t SET v = ? WHERE id = ?", r.payload(r.rowBytes()), id)
		return errClass(err), false
	case "AppWrite2":
		a, b := argInt(st, 1, 1), argInt(st, 2, 2)
		if r.inTx {
			return "skip", false
		}
		if _, err := r.conn.ExecContext(ctx, "BEGIN IMMEDIATE"); err != nil {
			return errClass(err), false
		}
		_, e1 := r.conn.ExecContext(ctx, "UPDATE t SET v = ? WHERE id = ?", r.payload(r.rowBytes()), a)
		_, e2 := r.conn.ExecContext(ctx, "UPDATE t SET v = ? WHERE id = ?", r.payload(r.rowBytes()), b)
		if e1 != nil || e2 != nil {
			r.conn.ExecContext(ctx, "ROLLBACK")
			return errClass(errors.Join(e1, e2)), false
		}
		_, err := r.conn.ExecContext(ctx, "COMMIT")
		return errClass(err), false
	case "AppGrow": // append k rows (k pages) in one transaction
		k := argInt(st, 1, 1)
		if r.inTx {
			return "skip", false
		}
		if _, err := r.conn.ExecContext(ctx, "BEGIN IMMEDIATE"); err != nil {
			return errClass(err), false
		}
		for j := 0; j < k; j++ {
			if _, err := r.conn.ExecContext(ctx, "INSERT INTO t (id, v) VALUES (?, ?)", r.nextRow, r.payload(r.rowBytes())); err != nil {
				r.conn.ExecContext(ctx, "ROLLBACK")
				return errClass(err), false
			}
			r.nextRow++
		}
		_, err := r.conn.ExecContext(ctx, "COMMIT")
		return errClass(err), false
	case "AppGrowWrite": // one transaction that rewrites row 1 and appends a row
		if r.inTx {
			return "skip", false
		}
		if _, err := r.conn.ExecContext(ctx, "BEGIN IMMEDIATE"); err != nil {
			return errClass(err), false
		}
		_, e1 := r.conn.ExecContext(ctx, "UPDATE t SET v = ? WHERE id = 1", r.payload(r.rowBytes()))
		_, e2 := r.conn.ExecContext(ctx, "INSERT INTO t (id, v) VALUES (?, ?)", r.nextRow, r.payload(r.rowBytes()))
		if e1 != nil || e2 != nil {
			r.conn.ExecContext(ctx, "ROLLBACK")
			return errClass(errors.Join(e1, e2)), false
		}
		r.nextRow++
		_, err := r.conn.ExecContext(ctx, "COMMIT")
		return errClass(err), false
	case "AppDelete": // delete the last k rows (first half of AppShrink)
		k := argInt(st, 1, 1)
		if r.inTx {
			return "skip", false
		}
		_, err := r.conn.ExecContext(ctx, "DELETE FROM t WHERE id IN (SELECT id FROM t ORDER BY id DESC LIMIT ?)", k)
		return errClass(err), false
	case "AppReclaim": // give freed pages back to the file system (second half of AppShrink)
		if r.inTx {
			return "skip", false
		}
		var err error
		switch r.c.Cfg.AutoVacuum {
		case "incremental":
			_, err = r.conn.ExecContext(ctx, "PRAGMA incremental_vacuum")
		case "none":
			_, err = r.conn.ExecContext(ctx, "VACUUM")
		}
		return errClass(err), false
	case "AppVacuum":
		if r.inTx {
			return "skip", false
		}
		_, err := r.conn.ExecContext(ctx, "VACUUM")
		return errClass(err), false
	case "AppDDL":
		if r.inTx {
			return "skip", false
		}
		k := argInt(st, 1, 0)
		var q string
		switch k % 4 {
		case 0:
			q = fmt.Sprintf("CREATE TABLE IF NOT EXISTS u%d (a INTEGER PRIMARY KEY, b TEXT)", k/4)
		case 1:
			q = fmt.Sprintf("CREATE INDEX IF NOT EXISTS ix%d ON t (length(v), id)", k/4)
		case 2:
			q = fmt.Sprintf("DROP INDEX IF EXISTS ix%d", k/4)
		case 3:
			q = fmt.Sprintf("DROP TABLE IF EXISTS u%d", k/4)
		}
		_, err := r.conn.ExecContext(ctx, q)
		return errClass(err), false
	case "AppBegin": // open a transaction whose frames spill into the WAL without a commit marker
		if r.inTx {
			return "skip", false
		}
		if _, err := r.conn.ExecContext(ctx, "PRAGMA cache_size = 1"); err != nil {
			return errClass(err), false
		}
		if _, err := r.conn.ExecContext(ctx, "BEGIN IMMEDIATE"); err != nil {
			return errClass(err), false
		}
		r.inTx = true
		return "ok", false
	case "AppSpill": // k updates inside the open transaction
		if !r.inTx {
			return "skip", false
		}
		k := argInt(st, 1, 3)
		for j := 0; j < k; j++ {
			id := 1 + (argInt(st, 2, 0)+j)%max(1, r.nextRow-1)
			if _, err := r.conn.ExecContext(ctx, "UPDATE t SET v = ? WHERE id = ?", r.payload(r.rowBytes()), id); err != nil {
				return errClass(err), false
			}
		}
		return "ok", false
	case "AppCommit", "AppRollback":
		if !r.inTx {
			return "skip", false
		}
		q := "COMMIT"
		if op == "AppRollback" {
			q = "ROLLBACK"
		}
		_, err := r.conn.ExecContext(ctx, q)
		if err == nil || op == "AppRollback" {
			r.inTx = false
		}
		return errClass(err), false
	case "AppHoldWrite": // a second application connection holds the write lock for n ms in the background (then commits a row)
		if r.app == nil || r.holdDone != nil {
			return "skip", false
		}
		c2, err := r.app.Conn(ctx)
		if err != nil {
			return errClass(err), false
		}
		if _, err := c2.ExecContext(ctx, "BEGIN IMMEDIATE"); err != nil {
			c2.Close()
			return errClass(err), false
		}
		if _, err := c2.ExecContext(ctx, "UPDATE t SET v = ? WHERE id = ?", r.payload(r.rowBytes()), 1); err != nil {
			c2.ExecContext(ctx, "ROLLBACK")
			c2.Close()
			return errClass(err), false
		}
		done := make(chan struct{})
		r.holdDone = done
		ms := argInt(st, 1, 75)
		go func() {
			time.Sleep(time.Duration(ms) * time.Millisecond)
			c2.ExecContext(context.Background(), "COMMIT")
			c2.Close()
			close(done)
		}()
		return "ok", false
	case "AppJoin": // wait for the background writer
		if r.holdDone == nil {
			return "skip", false
		}
		<-r.holdDone
		r.holdDone = nil
		return "ok", false
	case "AppCheckpoint":
		if r.inTx {
			return "skip", false
		}
		mode := argStr(st, 1, "PASSIVE")
		var a, b, c int
		err := r.conn.QueryRowContext(ctx, "PRAGMA wal_checkpoint("+mode+")").Scan(&a, &b, &c)
		if err != nil {
			return errClass(err), false
		}
		if a != 0 {
			return "busy", false
		}
		return "ok", false
	case "AppClose": // close every application connection (the last one checkpoints and removes the WAL)
		r.closeApp()
		return "ok", false
	case "AppOpen":
		if r.conn != nil {
			return "skip", false
		}
		return errClass(r.openApp()), false
	case "ReaderOpen": // long application reader pins the WAL
		if r.reader != nil || r.app == nil {
			return "skip", false
		}
		c, err := r.app.Conn(ctx)
		if err != nil {
			return errClass(err), false
		}
		if _, err := c.ExecContext(ctx, "BEGIN"); err != nil {
			c.Close()
			return errClass(err), false
		}
		var n int
		if err := c.QueryRowContext(ctx, "SELECT count(*) FROM t").Scan(&n); err != nil {
			c.Close()
			return errClass(err), false
		}
		r.reader = c
		return "ok", false
	case "ReaderClose":
		if r.reader == nil {
			return "skip", false
		}
		r.reader.ExecContext(ctx, "ROLLBACK")
		r.reader.Close()
		r.reader = nil
		return "ok", false

	// ---------------------------------------------------------------- litestream
	case "LsOpen":
		if r.lsUp {
			return "skip", false
		}
		kind := argStr(st, 1, "new")
		if kind == "new" || r.ls == nil {
			r.ls = r.newLS()
		}
		err := r.ls.Open()
		if err == nil {
			r.lsUp = true
		}
		return errClass(err), false
	case "LsSync":
		if !r.lsUp {
			return "skip", false
		}
		return errClass(r.ls.Sync(ctx)), false
	case "LsReplicaSync":
		if !r.lsUp {
			return "skip", false
		}
		return errClass(r.ls.Replica.Sync(ctx)), false
	case "LsSyncAndWait":
		if !r.lsUp {
			return "skip", false
		}
		err := r.ls.SyncAndWait(ctx)
		return errClass(err), err == nil
	case "LsCheckpoint":
		if !r.lsUp {
			return "skip", false
		}
		return errClass(r.ls.Checkpoint(ctx, argStr(st, 1, "PASSIVE"))), false
	case "CkStart": // litestream checkpoint executed step by step (parked at the verif hooks)
		if !r.lsUp || r.gated != nil {
			return "skip", false
		}
		return r.gateStart(argStr(st, 1, "PASSIVE")), false
	case "CkStep": // let the parked checkpoint run to its next hook (or to completion)
		return r.gateStep(), false
	case "CkCancel": // the context the parked checkpoint was called with is cancelled (its request timed out)
		return r.gateCancel(), false
	case "LocalLoss": // local level-0 files vanish / rot while litestream is up or down: newest | all | corrupt
		return r.localLoss(argStr(st, 1, "newest")), false
	case "LsClose":
		if !r.lsUp {
			return "skip", false
		}
		r.gateFinish()
		inited := r.ls.SQLDB() != nil
		err := r.ls.Close(ctx)
		r.lsUp = false
		// a clean shutdown that returns without error acknowledges everything (if the DB was ever initialised)
		return errClass(err), err == nil && inited
	case "LsReset":
		if r.ls == nil {
			return "skip", false
		}
		return errClass(r.ls.ResetLocalState(ctx)), false
	case "MetaLost": // the local state directory disappears while litestream is down
		if r.lsUp {
			return "skip", false
		}
		meta := filepath.Join(filepath.Dir(r.dbPath), "."+filepath.Base(r.dbPath)+litestream.MetaDirSuffix)
		err := os.RemoveAll(meta)
		r.seenL0 = map[string]bool{}
		return errClass(err), false
	case "SaveCopy": // remember the current database (checkpointed) for a later ReplaceDb
		l := filepath.Join(r.tmp, "saved.db")
		os.Remove(l)
		if r.lsUp || r.conn == nil || r.inTx {
			return "skip", false
		}
		if _, err := r.conn.ExecContext(ctx, "VACUUM INTO ?", l); err != nil {
			return errClass(err), false
		}
		return "ok", false
	case "ReplaceDb": // the database file is replaced by another version while litestream is down
		l := filepath.Join(r.tmp, "saved.db")
		if _, err := os.Stat(l); err != nil || r.lsUp {
			return "skip", false
		}
		r.closeApp()
		os.Remove(r.dbPath + "-wal")
		os.Remove(r.dbPath + "-shm")
		if err := copyFile(l, r.dbPath); err != nil {
			return errClass(err), false
		}
		if err := r.openApp(); err != nil {
			return errClass(err), false
		}
		_, err := r.conn.ExecContext(ctx, "PRAGMA journal_mode = wal")
		return errClass(err), false
	case "SaveAll": // remember database, WAL and litestream's state directory (a snapshot of the whole directory)
		if r.lsUp || r.inTx {
			return "skip", false
		}
		dst := filepath.Join(r.tmp, "savedall")
		os.RemoveAll(dst)
		if err := copyTree(filepath.Dir(r.dbPath), dst, filepath.Base(r.dbPath)); err != nil {
			return errClass(err), false
		}
		return "ok", false
	case "RestoreAll": // the whole directory (database + WAL + state directory) is rolled back to the saved copy
		src := filepath.Join(r.tmp, "savedall")
		if _, err := os.Stat(src); err != nil || r.lsUp {
			return "skip", false
		}
		r.closeApp()
		base := filepath.Base(r.dbPath)
		for _, n := range []string{base, base + "-wal", base + "-shm", "." + base + litestream.MetaDirSuffix} {
			os.RemoveAll(filepath.Join(filepath.Dir(r.dbPath), n))
		}
		if err := copyTree(src, filepath.Dir(r.dbPath), base); err != nil {
			return errClass(err), false
		}
		r.markLocalSeen() // the files that came back are old ones, not files litestream creates now
		return errClass(r.openApp()), false
	case "Snapshot":
		if !r.lsUp {
			return "skip", false
		}
		_, err := r.ls.Snapshot(ctx)
		return errClass(err), false
	case "Compact":
		if !r.lsUp {
			return "skip", false
		}
		_, err := r.ls.Compact(ctx, argInt(st, 1, 1))
		if errors.Is(err, litestream.ErrNoCompaction) {
			return "nocompaction", false
		}
		return errClass(err), false
	}
	return "skip", false
}

// copyTree copies the database files and the state directory named after `base` from one directory to another.
func copyTree(srcDir, dstDir, base string) error {
	if err := os.MkdirAll(dstDir, 0o755); err != nil {
		return err
	}
	for _, n := range []string{base, base + "-wal"} {
		if _, err := os.Stat(filepath.Join(srcDir, n)); err == nil {
			if err := copyFile(filepath.Join(srcDir, n), filepath.Join(dstDir, n)); err != nil {
				return err
			}
		}
	}
	meta := "." + base + litestream.MetaDirSuffix
	return filepath.Walk(filepath.Join(srcDir, meta), func(p string, fi os.FileInfo, err error) error {
		if err != nil {
			if os.IsNotExist(err) {
				return nil
			}
			return err
		}
		rel, _ := filepath.Rel(srcDir, p)
		if fi.IsDir() {
			return os.MkdirAll(filepath.Join(dstDir, rel), 0o755)
		}
		return copyFile(p, filepath.Join(dstDir, rel))
	})
}

func max(a, b int) int {
	if a > b {
		return a
	}
	return b
}

// markLocalSeen records every local level-0 file as already observed.
func (r *Runner) markLocalSeen() {
	d := filepath.Join(r.metaLTXDir(), "0")
	ents, _ := os.ReadDir(d)
	for _, e := range ents {
		if fi, err := e.Info(); err == nil {
			r.seenL0[fmt.Sprintf("%s/%d/%d", e.Name(), fi.Size(), fi.ModTime().UnixNano())] = true
		}
	}
}

// lifecycleFlags reads DB.IsOpen / read-lock / handle state. While a goroutine is parked at a hook that fires under one
// of litestream's mutexes these accessors would block, so they run with a timeout and fall back to the last known values.
func (r *Runner) lifecycleFlags() (hasRead, open, handles bool) {
	if r.ls == nil {
		return false, false, false
	}
	type fl struct{ a, b, c bool }
	ch := make(chan fl, 1)
	ls := r.ls
	go func() { ch <- fl{ls.VerifHasReadLock(), ls.IsOpen(), ls.SQLDB() != nil} }()
	select {
	case v := <-ch:
		r.lastFlags = [3]bool{v.a, v.b, v.c}
		r.flagsStale = false
	case <-time.After(40 * time.Millisecond):
		r.flagsStale = true
	}
	return r.lastFlags[0], r.lastFlags[1], r.lastFlags[2]
}

func listLTX(dir string) [][]int {
	out := [][]int{}
	for lvl := 0; lvl <= 9; lvl++ {
		ents, err := os.ReadDir(filepath.Join(dir, fmt.Sprint(lvl)))
		if err != nil {
			continue
		}
		for _, e := range ents {
			var a, b uint64
			if n, _ := fmt.Sscanf(e.Name(), "%016x-%016x.ltx", &a, &b); n == 2 && strings.HasSuffix(e.Name(), ".ltx") {
				out = append(out, []int{lvl, int(a), int(b)})
			}
		}
	}
	sort.Slice(out, func(i, j int) bool {
		for k := 0; k < 3; k++ {
			if out[i][k] != out[j][k] {
				return out[i][k] < out[j][k]
			}
		}
		return false
	})
	return out
}

func maxTx(files [][]int, lvl int) int {
	m := 0
	for _, f := range files {
		if f[0] == lvl && f[2] > m {
			m = f[2]
		}
	}
	return m
}

func (r *Runner) metaLTXDir() string {
	return filepath.Join(filepath.Dir(r.dbPath), "."+filepath.Base(r.dbPath)+litestream.MetaDirSuffix, "ltx")
}

func (r *Runner) observe(ev *Event) {
	ps := r.c.Cfg.PageSize
	ev.Up, ev.AppUp, ev.InTx, ev.Reader = r.lsUp, r.conn != nil, r.inTx, r.reader != nil
	l := ObserveLogical(r.dbPath, ps, r.dict, r.tmp)
	ev.Src, ev.App, ev.SeqPg, ev.Seq, ev.LockN, ev.Integ, ev.Jrnl = l.State, l.App, l.SeqPg, l.Seq, l.LockN, l.Integ, l.Journal
	if l.Err != "none" && ev.Res == "ok" {
		ev.Integ = "observe:" + l.Err
	}
	ev.Wal = ObserveWAL(r.dbPath+"-wal", ps, r.dict)
	ev.Remote = listLTX(filepath.Join(r.repDir, "ltx"))
	ev.Local = listLTX(r.metaLTXDir())
	ev.LPos, ev.RPos = maxTx(ev.Local, 0), maxTx(ev.Remote, 0)
	r.observeRemote(ev)
	ev.NewL0 = []LtxObs{}
	for _, f := range ev.Local {
		if f[0] != 0 {
			continue
		}
		name := fmt.Sprintf("%016x-%016x.ltx", f[1], f[2])
		fh, err := os.Open(filepath.Join(r.metaLTXDir(), "0", name))
		if err != nil {
			continue
		}
		key := name
		if fi, err := fh.Stat(); err == nil {
			key = fmt.Sprintf("%s/%d/%d", name, fi.Size(), fi.ModTime().UnixNano())
		}
		if r.seenL0[key] {
			fh.Close()
			continue
		}
		r.seenL0[key] = true
		o := DecodeLTX(fh, 0, ps, r.dict)
		o.TS = r.rel(o.TS)
		fh.Close()
		if r.prevRem[name] {
			a, e1 := os.ReadFile(filepath.Join(r.metaLTXDir(), "0", name))
			b, e2 := os.ReadFile(filepath.Join(r.repDir, "ltx", "0", name))
			o.Fetched = e1 == nil && e2 == nil && string(a) == string(b)
		}
		ev.NewL0 = append(ev.NewL0, o)
	}
	r.prevRem = map[string]bool{}
	for _, f := range ev.Remote {
		if f[0] == 0 {
			r.prevRem[fmt.Sprintf("%016x-%016x.ltx", f[1], f[2])] = true
		}
	}
}

// Restore runs the real Replica.Restore with a fresh client on the replica directory.
func (r *Runner) Restore(txid int, ts time.Time) Restored {
	out := NoRestore()
	out.Done = true
	client := file.NewReplicaClient(r.repDir)
	client.SetLogger(discard)
	rep := litestream.NewReplicaWithClient(nil, client)
	dst := filepath.Join(r.tmp, fmt.Sprintf("restore-%d.db", rand.Int63()))
	defer os.Remove(dst)
	opt := litestream.NewRestoreOptions()
	opt.OutputPath = dst
	opt.TXID = ltx.TXID(txid)
	opt.Timestamp = ts
	if err := rep.Restore(r.ctx, opt); err != nil {
		out.Err = errClass(err)
		return out
	}
	st, app, seq, lockN, integ, err := InspectDBFile(dst, r.c.Cfg.PageSize, r.dict, r.tmp)
	if err != nil {
		out.Err = "inspect:" + err.Error()
		return out
	}
	out.OK, out.State, out.App, out.Seq, out.LockN, out.Integ = true, st, app, seq, lockN, integ
	if os.Getenv("VERIF_ROWSIG") != "" {
		out.Sig = RowSigFile(dst)
	}
	return out
}

func (r *Runner) audit() []AuditTx {
	out := []AuditTx{}
	files := listLTX(filepath.Join(r.repDir, "ltx"))
	seen := map[int]bool{}
	for _, f := range files {
		if seen[f[2]] {
			continue
		}
		seen[f[2]] = true
		rs := r.Restore(f[2], time.Time{})
		out = append(out, AuditTx{Lvl: f[0], TXID: f[2], OK: rs.OK, Err: rs.Err, State: rs.State, App: rs.App, Integ: rs.Integ, Sig: rs.Sig})
	}
	sort.Slice(out, func(i, j int) bool { return out[i].TXID < out[j].TXID })
	return out
}

// RunCase executes one case and returns its events.
func RunCase(c Case, baseDir string, hooks func(r *Runner, ls *litestream.DB)) (evs []Event) {
	if c.Cfg.Daemon.MonMs > 0 {
		return RunDaemonCase(c, baseDir, c.Cfg.Daemon)
	}
	// AppShrink is two application transactions (DELETE, then VACUUM / incremental_vacuum): run it as two steps so
	// that the committed state in between is observed (it is a state litestream may legitimately replicate).
	var sched [][]any
	for _, st := range c.Sched {
		if argStr(st, 0, "") == "AppShrink" {
			sched = append(sched, []any{"AppDelete", argInt(st, 1, 1)}, []any{"AppReclaim"})
		} else {
			sched = append(sched, st)
		}
	}
	c.Sched = sched
	dict := NewDict()
	mk := func(sub string) *Runner {
		dir := filepath.Join(baseDir, fmt.Sprintf("case-%d-%s", c.ID, sub))
		os.RemoveAll(dir)
		return &Runner{c: c, dir: dir, dbPath: filepath.Join(dir, "db"), repDir: filepath.Join(dir, "replica"),
			tmp: filepath.Join(dir, "tmp"), dict: dict, seenL0: map[string]bool{}, seenRem: map[string]bool{}, ctx: context.Background(), Hooks: hooks}
	}
	// control run (no litestream): application-visible content after every step
	var ctl []int
	if c.Cfg.Control {
		r := mk("ctl")
		if err := r.setup(); err == nil {
			for _, st := range c.Sched {
				r.Step(st, true)
				l := ObserveLogical(r.dbPath, c.Cfg.PageSize, r.dict, r.tmp)
				ctl = append(ctl, l.App)
			}
		}
		r.closeApp()
		os.RemoveAll(r.dir)
	}
	r := mk("run")
	defer func() {
		if p := recover(); p != nil {
			ev := blank(c, len(evs))
			ev.Op, ev.Res = "Panic", fmt.Sprintf("panic:%v", p)
			evs = append(evs, ev)
		}
		r.gateFinish()
		if r.lsUp {
			r.ls.Close(context.Background())
		}
		r.closeApp()
		os.RemoveAll(r.dir)
	}()
	ev := blank(c, 0)
	ev.Op = "Reset"
	if err := r.setup(); err != nil {
		ev.Res = "setup:" + err.Error()
		return append(evs, ev)
	}
	r.observe(&ev)
	evs = append(evs, ev)
	stepNo := 0
	for _, st := range c.Sched {
		if argStr(st, 0, "") == "Par" && len(st) > 1 {
			var spec parSpec
			if b, err := json.Marshal(st[1]); err == nil && json.Unmarshal(b, &spec) == nil {
				r.runPar(spec, func(proc, what, res string) {
					// application transactions committed inside the block since the last line: one ledger line each, in commit
					// order, BEFORE this line's observation (everything but `app` is carried over from the previous line)
					r.freeLogMu.Lock()
					apps := r.appLog
					r.appLog = nil
					r.freeLogMu.Unlock()
					for _, a := range apps {
						stepNo++
						pa := evs[len(evs)-1]
						pa.I, pa.Op, pa.Arg, pa.N, pa.Res, pa.Ack, pa.App = stepNo, "ParApp", "", 0, "ok", false, a
						pa.NewL0, pa.NewRem, pa.Rest, pa.Audit, pa.Calls, pa.Pre = []LtxObs{}, []LtxObs{}, NoRestore(), []AuditTx{}, []string{}, EmptyPre()
						evs = append(evs, pa)
					}
					stepNo++
					ev := blank(c, stepNo)
					ev.Op, ev.Arg, ev.Res = "ParStep", proc+":"+what, res
					ev.ExecFree, ev.ChkFree = true, true
					if what == "end" {
						ev.Op = "ParEnd"
						r.lsUp = r.ls != nil && r.ls.IsOpen()
						if r.ls != nil && res == "ok" {
							ev.ExecFree, ev.ChkFree = r.ls.VerifLocksFree()
						}
					}
					r.observe(&ev)
					ev.HasRead, ev.Open, ev.Handles = r.lifecycleFlags()
					ev.FlagsStale = r.flagsStale
					if st := r.store; st != nil {
						ev.NDBs = len(st.(*litestream.Store).DBs())
					}
					evs = append(evs, ev)
				})
			}
			continue
		}
		stepNo++
		i := stepNo - 1
		ev := blank(c, i+1)
		ev.Op = argStr(st, 0, "")
		ev.Arg = argStr(st, 1, "")
		ev.N = argInt(st, 1, 0)
		if c.Cfg.Full && r.lsUp && r.ls != nil && r.ls.SQLDB() != nil && strings.HasPrefix(ev.Op, "Ls") {
			ev.Pre = ObservePre(r.dbPath, filepath.Join(r.metaLTXDir(), "0"), c.Cfg.PageSize, r.dict)
			var off int64
			ev.Pre.ToEnd, off, ev.Pre.Since, _ = r.ls.VerifSyncState()
			if fs := int64(c.Cfg.PageSize + 24); off >= 32 && (off-32)%fs == 0 {
				ev.Pre.Synced = int((off - 32) / fs)
			} else if off != 0 {
				ev.Pre.Synced = -1
			}
		}
		bg0 := r.holdDone != nil
		ev.Res, ev.Ack = r.Step(st, false)
		ev.Bg = bg0 || r.holdDone != nil
		ev.Cut, r.lastCut = r.rel(r.lastCut), 0
		r.observe(&ev)
		isRepl := strings.HasPrefix(ev.Op, "Ls") || ev.Op == "Compact" || ev.Op == "Snapshot" || strings.HasSuffix(ev.Op, "Retention") || strings.HasSuffix(ev.Op, "RetentionAbs") || ev.Op == "RetByTXID"
		if ev.Ack || ev.Op == "RestoreCheck" || (c.Cfg.RestoreEach && isRepl && ev.Res != "skip" && len(ev.Remote) > 0) {
			ev.Rest = r.Restore(0, time.Time{})
		}
		if ev.Op == "AuditNow" {
			ev.Audit = r.audit()
		}
		if r.fc != nil {
			ev.FaultsLeft = r.fc.left()
			r.fc.mu.Lock()
			ev.Calls = append([]string{}, r.fc.calls...)
			r.fc.calls = nil
			r.fc.mu.Unlock()
		}
		if len(ev.NewL0) > 0 || len(ev.NewRem) > 0 {
			time.Sleep(2 * time.Millisecond) // header timestamps have millisecond resolution: keep files distinguishable
		}
		if ctl != nil && i < len(ctl) {
			ev.Ctl = ctl[i]
		}
		ev.HasRead = r.ls != nil && r.ls.VerifHasReadLock()
		ev.Open = r.ls != nil && r.ls.IsOpen()
		ev.Handles = r.ls != nil && r.ls.SQLDB() != nil
		ev.ExecFree, ev.ChkFree = true, true
		if r.ls != nil && r.gated == nil {
			ev.ExecFree, ev.ChkFree = r.ls.VerifLocksFree()
		}
		evs = append(evs, ev)
	}
	if c.Cfg.Audit {
		ev := blank(c, stepNo+1)
		ev.Op = "Audit"
		r.observe(&ev)
		ev.Audit = r.audit()
		evs = append(evs, ev)
	}
	return evs
}

func blank(c Case, i int) Event {
	return Event{T: c.ID, I: i, Res: "ok", Src: DBState{Pg: []int{}}, Integ: "none", Jrnl: "none", NewL0: []LtxObs{},
		Remote: [][]int{}, Local: [][]int{}, Rest: NoRestore(), Ctl: -1, Cfg: c.Cfg, Audit: []AuditTx{}, Seq: -1, LockN: -1,
		NewRem: []LtxObs{}, Calls: []string{}, Pre: EmptyPre(), ExecFree: true, ChkFree: true}
}

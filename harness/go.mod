module verifharness

go 1.25.0

toolchain go1.25.13

require (
	github.com/aws/aws-sdk-go-v2 v1.41.5
	github.com/aws/aws-sdk-go-v2/service/s3 v1.97.3
	github.com/aws/smithy-go v1.24.2
	github.com/benbjohnson/litestream v0.0.0
	github.com/mattn/go-sqlite3 v1.14.19
	github.com/pierrec/lz4/v4 v4.1.23
	github.com/psanford/sqlite3vfs v0.0.0-20260519004904-f9180fa2acc9
	github.com/superfly/ltx v0.5.2
	modernc.org/libc v1.72.0
	modernc.org/sqlite v1.49.1
)

require (
	github.com/aws/aws-sdk-go-v2/aws/protocol/eventstream v1.7.8 // indirect
	github.com/aws/aws-sdk-go-v2/config v1.32.6 // indirect
	github.com/aws/aws-sdk-go-v2/credentials v1.19.6 // indirect
	github.com/aws/aws-sdk-go-v2/feature/ec2/imds v1.18.16 // indirect
	github.com/aws/aws-sdk-go-v2/feature/s3/manager v1.20.18 // indirect
	github.com/aws/aws-sdk-go-v2/internal/configsources v1.4.21 // indirect
	github.com/aws/aws-sdk-go-v2/internal/endpoints/v2 v2.7.21 // indirect
	github.com/aws/aws-sdk-go-v2/internal/ini v1.8.4 // indirect
	github.com/aws/aws-sdk-go-v2/internal/v4a v1.4.22 // indirect
	github.com/aws/aws-sdk-go-v2/service/internal/accept-encoding v1.13.7 // indirect
	github.com/aws/aws-sdk-go-v2/service/internal/checksum v1.9.13 // indirect
	github.com/aws/aws-sdk-go-v2/service/internal/presigned-url v1.13.21 // indirect
	github.com/aws/aws-sdk-go-v2/service/internal/s3shared v1.19.21 // indirect
	github.com/aws/aws-sdk-go-v2/service/signin v1.0.4 // indirect
	github.com/aws/aws-sdk-go-v2/service/sso v1.30.8 // indirect
	github.com/aws/aws-sdk-go-v2/service/ssooidc v1.35.12 // indirect
	github.com/aws/aws-sdk-go-v2/service/sts v1.41.5 // indirect
	github.com/beorn7/perks v1.0.1 // indirect
	github.com/cespare/xxhash/v2 v2.3.0 // indirect
	github.com/dustin/go-humanize v1.0.1 // indirect
	github.com/google/uuid v1.6.0 // indirect
	github.com/hablullah/go-hijri v1.0.2 // indirect
	github.com/hablullah/go-juliandays v1.0.0 // indirect
	github.com/hashicorp/golang-lru/v2 v2.0.7 // indirect
	github.com/jalaali/go-jalaali v0.0.0-20210801064154-80525e88d958 // indirect
	github.com/lmittmann/tint v1.1.3 // indirect
	github.com/markusmobius/go-dateparser v1.2.4 // indirect
	github.com/mattn/go-isatty v0.0.20 // indirect
	github.com/matttproud/golang_protobuf_extensions/v2 v2.0.0 // indirect
	github.com/prometheus/client_golang v1.17.0 // indirect
	github.com/prometheus/client_model v0.5.0 // indirect
	github.com/prometheus/common v0.45.0 // indirect
	github.com/prometheus/procfs v0.12.0 // indirect
	github.com/remyoudompheng/bigfft v0.0.0-20230129092748-24d4a6f8daec // indirect
	golang.org/x/sync v0.21.0 // indirect
	golang.org/x/sys v0.45.0 // indirect
	golang.org/x/text v0.39.0 // indirect
	google.golang.org/protobuf v1.36.11 // indirect
	modernc.org/mathutil v1.7.1 // indirect
	modernc.org/memory v1.11.0 // indirect
)

replace github.com/benbjohnson/litestream => /repo

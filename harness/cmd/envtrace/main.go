// Command envtrace records what REAL SQLite (modernc) does to the database file, the -wal file and the wal-index
// under application transactions, checkpoints of every mode and a long reader - with no litestream at all.
// SqliteWal.tla (the environment half of the specification) must accept these traces: the model's prediction of
// every step (restart-on-write, per-page-latest backfill, busy results, read marks) is compared with the observation.
package main

import (
	"bufio"
	"context"
	"crypto/sha256"
	"database/sql"
	"encoding/binary"
	"encoding/json"
	"flag"
	"fmt"
	"math/rand"
	"os"
	"path/filepath"

	_ "modernc.org/sqlite"
)

type slot struct {
	Pg     int `json:"pg"`
	Ver    int `json:"ver"`
	Commit int `json:"commit"`
	Gen    int `json:"gen"`
}

type obs struct {
	Wal   []slot `json:"wal"`
	Hdr   int    `json:"hdr"`
	Valid int    `json:"valid"`
	Mx    int    `json:"mx"`
	Bf    int    `json:"bf"`
	Marks []int  `json:"marks"`
	Dbf   []int  `json:"dbf"`
}

type event struct {
	T    int    `json:"t"`
	Ev   string `json:"ev"`
	Mode string `json:"mode"`
	Busy int    `json:"busy"`
	Log  int    `json:"log"`
	Ckpt int    `json:"ckpt"`
	Obs  obs    `json:"obs"`
}

type dict struct {
	pages map[[32]byte]int
	gens  map[[2]uint32]int
}

func (d *dict) page(b []byte) int {
	h := sha256.Sum256(b)
	if v, ok := d.pages[h]; ok {
		return v
	}
	d.pages[h] = len(d.pages) + 1
	return d.pages[h]
}
func (d *dict) gen(a, b uint32) int {
	k := [2]uint32{a, b}
	if v, ok := d.gens[k]; ok {
		return v
	}
	d.gens[k] = len(d.gens) + 1
	return d.gens[k]
}

func observe(path string, d *dict, ps int) obs {
	o := obs{Wal: []slot{}, Marks: []int{}, Dbf: []int{}}
	if b, err := os.ReadFile(path + "-wal"); err == nil && len(b) >= 32 {
		var bo binary.ByteOrder = binary.LittleEndian
		if binary.BigEndian.Uint32(b[0:]) == 0x377f0683 {
			bo = binary.BigEndian
		}
		s1, s2 := binary.BigEndian.Uint32(b[16:]), binary.BigEndian.Uint32(b[20:])
		o.Hdr = d.gen(s1, s2)
		ck := func(c0, c1 uint32, x []byte) (uint32, uint32) {
			for i := 0; i+8 <= len(x); i += 8 {
				c0 += bo.Uint32(x[i:]) + c1
				c1 += bo.Uint32(x[i+4:]) + c0
			}
			return c0, c1
		}
		c0, c1 := ck(0, 0, b[:24])
		chain := true
		for off := 32; off+24+ps <= len(b); off += 24 + ps {
			h := b[off : off+24]
			f1, f2 := binary.BigEndian.Uint32(h[8:]), binary.BigEndian.Uint32(h[12:])
			o.Wal = append(o.Wal, slot{Pg: int(binary.BigEndian.Uint32(h[0:])), Commit: int(binary.BigEndian.Uint32(h[4:])),
				Gen: d.gen(f1, f2), Ver: d.page(b[off+24 : off+24+ps])})
			if chain && f1 == s1 && f2 == s2 {
				n0, n1 := ck(c0, c1, h[:8])
				n0, n1 = ck(n0, n1, b[off+24:off+24+ps])
				if n0 == binary.BigEndian.Uint32(h[16:]) && n1 == binary.BigEndian.Uint32(h[20:]) {
					c0, c1 = n0, n1
					o.Valid++
					continue
				}
			}
			chain = false
		}
	}
	if b, err := os.ReadFile(path + "-shm"); err == nil && len(b) >= 136 {
		o.Mx = int(binary.LittleEndian.Uint32(b[16:]))
		o.Bf = int(binary.LittleEndian.Uint32(b[96:]))
		for i := 0; i < 5; i++ {
			o.Marks = append(o.Marks, int(int32(binary.LittleEndian.Uint32(b[100+4*i:]))))
		}
	}
	if b, err := os.ReadFile(path); err == nil {
		for off := 0; off+ps <= len(b); off += ps {
			o.Dbf = append(o.Dbf, d.page(b[off:off+ps]))
		}
	}
	return o
}

func main() {
	seed := flag.Int64("seed", 1, "")
	n := flag.Int("n", 40, "traces")
	steps := flag.Int("steps", 14, "")
	ps := flag.Int("ps", 4096, "page size")
	out := flag.String("out", "", "")
	work := flag.String("work", os.TempDir(), "")
	flag.Parse()
	rnd := rand.New(rand.NewSource(*seed))
	of, _ := os.Create(*out)
	w := bufio.NewWriter(of)
	enc := json.NewEncoder(w)
	ctx := context.Background()
	for t := 0; t < *n; t++ {
		dir, _ := os.MkdirTemp(*work, "env")
		path := filepath.Join(dir, "db")
		d := &dict{pages: map[[32]byte]int{}, gens: map[[2]uint32]int{}}
		db, err := sql.Open("sqlite", "file:"+path+"?_pragma=busy_timeout(0)&_pragma=wal_autocheckpoint(0)")
		if err != nil {
			panic(err)
		}
		db.SetMaxOpenConns(3)
		c, _ := db.Conn(ctx)
		must := func(q string, a ...any) {
			if _, err := c.ExecContext(ctx, q, a...); err != nil {
				panic(fmt.Sprintf("%s: %v", q, err))
			}
		}
		must(fmt.Sprintf("PRAGMA page_size=%d", *ps))
		must("PRAGMA journal_mode=wal")
		must("CREATE TABLE t (id INTEGER PRIMARY KEY, v BLOB)")
		payload := func() []byte { b := make([]byte, *ps*6/10); rnd.Read(b); return b }
		rows := 4
		for i := 1; i <= rows; i++ {
			must("INSERT INTO t VALUES (?, ?)", i, payload())
		}
		var a, b2, c3 int
		c.QueryRowContext(ctx, "PRAGMA wal_checkpoint(TRUNCATE)").Scan(&a, &b2, &c3)
		enc.Encode(event{T: t, Ev: "reset", Mode: "none", Obs: observe(path, d, *ps)})
		var reader *sql.Conn
		for s := 0; s < *steps; s++ {
			x := rnd.Float64()
			switch {
			case x < 0.40:
				k := 1 + rnd.Intn(2)
				tx, _ := c.BeginTx(ctx, nil)
				for j := 0; j < k; j++ {
					tx.ExecContext(ctx, "UPDATE t SET v = ? WHERE id = ?", payload(), 1+rnd.Intn(rows))
				}
				if err := tx.Commit(); err != nil {
					continue
				}
				enc.Encode(event{T: t, Ev: "txn", Mode: "none", Obs: observe(path, d, *ps)})
			case x < 0.50:
				rows++
				must("INSERT INTO t VALUES (?, ?)", rows, payload())
				enc.Encode(event{T: t, Ev: "txn", Mode: "none", Obs: observe(path, d, *ps)})
			case x < 0.85:
				mode := []string{"PASSIVE", "FULL", "RESTART", "TRUNCATE"}[rnd.Intn(4)]
				var busy, lg, ck int
				if err := c.QueryRowContext(ctx, "PRAGMA wal_checkpoint("+mode+")").Scan(&busy, &lg, &ck); err != nil {
					continue
				}
				enc.Encode(event{T: t, Ev: "ckpt", Mode: mode, Busy: busy, Log: lg, Ckpt: ck, Obs: observe(path, d, *ps)})
			default:
				if reader == nil {
					reader, _ = db.Conn(ctx)
					reader.ExecContext(ctx, "BEGIN")
					var cnt int
					reader.QueryRowContext(ctx, "SELECT count(*) FROM t").Scan(&cnt)
					enc.Encode(event{T: t, Ev: "readerOn", Mode: "none", Obs: observe(path, d, *ps)})
				} else {
					reader.ExecContext(ctx, "ROLLBACK")
					reader.Close()
					reader = nil
					enc.Encode(event{T: t, Ev: "readerOff", Mode: "none", Obs: observe(path, d, *ps)})
				}
			}
		}
		if reader != nil {
			reader.ExecContext(ctx, "ROLLBACK")
			reader.Close()
		}
		c.Close()
		db.Close()
		os.RemoveAll(dir)
	}
	w.Flush()
	of.Close()
}

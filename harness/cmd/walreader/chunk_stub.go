//go:build !verif_walchunk

package main

import "math/rand"

// Chunked reading with a byte limit (WALReader.pageMap(ctx, maxBytes)) is unexported in litestream.  Without the
// verif export (see chunk_verif.go) only the publicly reachable part is exercised: resumed readers
// (NewWALReaderWithOffset + PageMap) at the offsets the reader itself returned for a shorter WAL (runGrow).
const chunkExport = false

func runChunks(b []byte, ps, n int, cids *cidmap, r *rand.Rand, all bool) []chunkOut {
	return []chunkOut{}
}

//go:build verif_walchunk

package main

// Enabled with `-tags verif,verif_walchunk` once /repo carries the add-only export (file wal_reader_verif.go):
//
//	//go:build verif
//	package litestream
//	func (r *WALReader) VerifPageMap(ctx context.Context, maxBytes int64) (map[uint32]int64, int64, uint32, bool, error) { return r.pageMap(ctx, maxBytes) }

import (
	"context"
	"math/rand"
)

const chunkExport = true

// runChunks replays db.go's Sync loop (db.go:1222-1235, 2050-2095): chunks of at most maxBytes, every chunk opened
// at the maxOffset the previous one returned, until a chunk is not limited or finds nothing.
func runChunks(b []byte, ps, n int, cids *cidmap, r *rand.Rand, all bool) []chunkOut {
	fs := fhdrSize + ps
	limits := map[int]bool{fs: true, (1 + r.Intn(n)) * fs: true, 1 + r.Intn(n*fs): true}
	if all {
		for L := 1; L <= n; L++ {
			limits[L*fs] = true
		}
		limits[3*fs-1] = true
	}
	res := []chunkOut{}
	for maxBytes := range limits {
		co := chunkOut{L: maxBytes, Parts: []lsOut{}}
		k := 0
		for step := 0; step <= n+1; step++ {
			part := func() (out lsOut) {
				out = lsOut{Pages: [][3]int{}}
				defer func() {
					if rc := recover(); rc != nil {
						out = lsOut{Res: "panic", Pages: [][3]int{}}
					}
				}()
				rd, start, err := openAt(b, k, ps)
				if err != nil {
					out.Res = errClass(err)
					return out
				}
				m, maxOffset, commit, limited, err := rd.VerifPageMap(context.Background(), int64(maxBytes))
				if err != nil {
					out.Res = errClass(err)
					return out
				}
				out = project(b, rd, m, maxOffset, commit, cids)
				out.Start, out.Limited = start, b2i(limited)
				return out
			}()
			co.Parts = append(co.Parts, part)
			if part.Res != "ok" || part.End == 0 || part.Limited == 0 {
				break
			}
			k = part.End
		}
		res = append(res, co)
	}
	// deterministic order
	for i := range res {
		for j := i + 1; j < len(res); j++ {
			if res[j].L < res[i].L {
				res[i], res[j] = res[j], res[i]
			}
		}
	}
	return res
}

// Command walreader materialises WAL descriptors of spec/WalReader.tla as REAL BYTES and ships three results per
// byte string to the TLC judge (spec/WalReaderObs.tla):
//
//	(a) litestream: litestream.NewWALReader + PageMap (and resumed readers, NewWALReaderWithOffset) on the bytes,
//	(b) oracle: real SQLite recovery of the same bytes (db copy + mutant as -wal, no -shm, open with modernc,
//	    PRAGMA wal_checkpoint(TRUNCATE), read the db file back),
//	(c) the abstract descriptor [pg, commit, saltOK, chainOK] per frame assigned by an independent decoder.
//
// Byte strings are derived from a pool of real SQLite WAL files (several page sizes; multi-frame transactions,
// growth, shrinking, a restarted WAL with a stale previous-generation tail, an uncommitted spilled tail) by
// truncation, bit flips, frame duplication / swapping, salt edits, commit-field edits with and without recomputed
// checksum chain, byte-order re-encoding, full recomputation that makes the stale tail checksum-valid, and random
// compositions of those.
//
// Modes:
//
//	-mkpool DIR -tier T                       build the pool (once per run)
//	-pool DIR -n N -seed S -shard k -nshards K -out F   run the cases i with i%K==k, write ndjson
//	-pool DIR ... -dump i -dumpto F           write case i (db+wal, base64) as a replay file
//	-replay F -out F2                         run one stored case
package main

import (
	"bufio"
	"bytes"
	"context"
	"crypto/sha256"
	"database/sql"
	"encoding/base64"
	"encoding/binary"
	"encoding/json"
	"errors"
	"flag"
	"fmt"
	"io"
	"log/slog"
	"math/rand"
	"os"
	"path/filepath"
	"sort"
	"strings"
	"unsafe"

	"github.com/benbjohnson/litestream"
	"modernc.org/libc"
	_ "modernc.org/sqlite"
	sqlite3 "modernc.org/sqlite/lib"
)

const (
	hdrSize  = 32
	fhdrSize = 24
	capInt   = 1 << 30 // projection of 32-bit fields to TLC integers (monotone, identity below 2^30)
)

func capv(v uint32) int {
	if v >= capInt {
		return capInt
	}
	return int(v)
}

// ---------------------------------------------------------------------------------------------------------------
// WAL byte helpers (independent of litestream: own checksum, own parser)

func cksum(be bool, s0, s1 uint32, b []byte) (uint32, uint32) {
	for i := 0; i+8 <= len(b); i += 8 {
		var x0, x1 uint32
		if be {
			x0, x1 = binary.BigEndian.Uint32(b[i:]), binary.BigEndian.Uint32(b[i+4:])
		} else {
			x0, x1 = binary.LittleEndian.Uint32(b[i:]), binary.LittleEndian.Uint32(b[i+4:])
		}
		s0 += x0 + s1
		s1 += x1 + s0
	}
	return s0, s1
}

func be32(b []byte, off int) uint32     { return binary.BigEndian.Uint32(b[off:]) }
func put32(b []byte, off int, v uint32) { binary.BigEndian.PutUint32(b[off:], v) }
func isBE(b []byte) bool                { return be32(b, 0)&1 == 1 }
func nFrames(b []byte, ps int) int {
	if len(b) < hdrSize {
		return 0
	}
	return (len(b) - hdrSize) / (fhdrSize + ps)
}
func fOff(i, ps int) int    { return hdrSize + (i-1)*(fhdrSize+ps) } // 1-based frame index
func clone(b []byte) []byte { return append([]byte(nil), b...) }

func fixHeader(b []byte) {
	s0, s1 := cksum(isBE(b), 0, 0, b[:24])
	put32(b, 24, s0)
	put32(b, 28, s1)
}

// fixChain recomputes the stored checksums of frames from..to, seeding from the stored checksum of frame from-1
// (the header for from==1).  setSalts also copies the header salts into those frames.
func fixChain(b []byte, ps, from, to int, setSalts bool) {
	be := isBE(b)
	var s0, s1 uint32
	if from <= 1 {
		from = 1
		s0, s1 = be32(b, 24), be32(b, 28)
	} else {
		o := fOff(from-1, ps)
		s0, s1 = be32(b, o+16), be32(b, o+20)
	}
	if n := nFrames(b, ps); to > n {
		to = n
	}
	for i := from; i <= to; i++ {
		o := fOff(i, ps)
		if setSalts {
			copy(b[o+8:o+16], b[16:24])
		}
		s0, s1 = cksum(be, s0, s1, b[o:o+8])
		s0, s1 = cksum(be, s0, s1, b[o+fhdrSize:o+fhdrSize+ps])
		put32(b, o+16, s0)
		put32(b, o+20, s1)
	}
}

type fdesc struct {
	pg, commit      uint32
	saltOK, chainOK bool
}

// decode = the binding between bytes and the abstract descriptor (checked against SQLite by the judge).
// Header class = first failing test in SQLite's order (wal.c walIndexRecover): size, magic, checksum, version.
func decode(b []byte, poolPS int) (hdr string, ps int, frames []fdesc) {
	ps = poolPS
	switch {
	case len(b) < hdrSize:
		return "short", ps, nil
	case be32(b, 0)&0xFFFFFFFE != 0x377f0682:
		hdr = "magic"
	default:
		s0, s1 := cksum(isBE(b), 0, 0, b[:24])
		if s0 != be32(b, 24) || s1 != be32(b, 28) {
			hdr = "cksum"
		} else if be32(b, 4) != 3007000 {
			hdr = "version"
		} else {
			hdr = "ok"
			ps = int(be32(b, 8))
		}
	}
	if ps < 8 || ps > 1<<20 || ps%8 != 0 {
		return hdr, ps, nil
	}
	be := isBE(b)
	p0, p1 := be32(b, 24), be32(b, 28)
	for i := 1; i <= nFrames(b, ps); i++ {
		o := fOff(i, ps)
		s0, s1 := cksum(be, p0, p1, b[o:o+8])
		s0, s1 = cksum(be, s0, s1, b[o+fhdrSize:o+fhdrSize+ps])
		p0, p1 = be32(b, o+16), be32(b, o+20)
		frames = append(frames, fdesc{pg: be32(b, o), commit: be32(b, o+4),
			saltOK: bytes.Equal(b[o+8:o+16], b[16:24]), chainOK: s0 == p0 && s1 == p1})
	}
	return hdr, ps, frames
}

// ---------------------------------------------------------------------------------------------------------------
// Pool of real SQLite WAL files

type entry struct {
	Name string
	PS   int
	DB   []byte
	WAL  []byte
}

func txt(tag string, k, n int) string {
	s := fmt.Sprintf("%s-%06d-", tag, k)
	return strings.Repeat(s, n/len(s)+1)[:n]
}

func mkEntry(dir string, ps int, variant string) (entry, error) {
	name := fmt.Sprintf("ps%d%s", ps, variant)
	path := filepath.Join(dir, name+".build.db")
	for _, sfx := range []string{"", "-wal", "-shm"} {
		os.Remove(path + sfx)
	}
	db, err := sql.Open("sqlite", path)
	if err != nil {
		return entry{}, err
	}
	defer db.Close()
	db.SetMaxOpenConns(1)
	ctx := context.Background()
	c, err := db.Conn(ctx)
	if err != nil {
		return entry{}, err
	}
	defer c.Close()
	seq := 0
	ex := func(q string, args ...any) {
		if err != nil {
			return
		}
		if _, e := c.ExecContext(ctx, q, args...); e != nil {
			err = fmt.Errorf("%s: %s: %w", name, q, e)
		}
	}
	val := func(n int) string { seq++; return txt(name, seq, n) }
	row := ps * 2 / 5
	ex(fmt.Sprintf("PRAGMA page_size=%d", ps))
	if variant == "b" {
		ex("PRAGMA auto_vacuum=FULL")
	}
	var mode string
	if err == nil {
		err = c.QueryRowContext(ctx, "PRAGMA journal_mode=wal").Scan(&mode)
	}
	ex("PRAGMA wal_autocheckpoint=0")
	ex("CREATE TABLE t(id INTEGER PRIMARY KEY, v TEXT)")
	ex("CREATE TABLE u(id INTEGER PRIMARY KEY, v TEXT)")
	for i := 1; i <= 8; i++ {
		ex("INSERT INTO t VALUES(?,?)", i, val(row))
	}
	ex("INSERT INTO u VALUES(1,?)", val(row))
	ckpt := func(mode string) {
		if err != nil {
			return
		}
		var a, b, d int
		if e := c.QueryRowContext(ctx, "PRAGMA wal_checkpoint("+mode+")").Scan(&a, &b, &d); e != nil || a != 0 {
			err = fmt.Errorf("%s: checkpoint %s: busy=%d %v", name, mode, a, e)
		}
	}
	switch variant {
	case "a", "b":
		// generation 1: ~10 frames
		ckpt("TRUNCATE")
		ex("UPDATE t SET v=? WHERE id=1", val(row))
		ex("BEGIN")
		ex("UPDATE t SET v=? WHERE id=3", val(row))
		ex("UPDATE t SET v=? WHERE id=5", val(row))
		ex("UPDATE t SET v=? WHERE id=7", val(row))
		ex("COMMIT")
		ex("BEGIN")
		for i := 9; i <= 12; i++ {
			ex("INSERT INTO t VALUES(?,?)", i, val(row))
		}
		ex("COMMIT")
		ex("UPDATE u SET v=? WHERE id=1", val(row))
		ex("UPDATE t SET v=? WHERE id=2", val(row))
		ckpt("RESTART")
		// generation 2: fewer frames, the rest of the file is the stale tail of generation 1
		ex("UPDATE t SET v=? WHERE id=4", val(row))
		ex("BEGIN")
		ex("UPDATE t SET v=? WHERE id=1", val(row))
		ex("UPDATE t SET v=? WHERE id=8", val(row))
		ex("COMMIT")
		if variant == "a" {
			ex("BEGIN")
			ex("INSERT INTO t VALUES(13,?)", val(row))
			ex("INSERT INTO t VALUES(14,?)", val(row))
			ex("COMMIT")
			ex("UPDATE t SET v=? WHERE id=4", val(row))
		} else {
			// grow by several pages, then shrink below them (auto_vacuum truncates at commit)
			ex("BEGIN")
			for i := 13; i <= 17; i++ {
				ex("INSERT INTO u VALUES(?,?)", i, val(row))
			}
			ex("COMMIT")
			ex("DELETE FROM u WHERE id>=13")
		}
	case "c":
		// one generation, no stale tail; ends with frames spilled by a transaction that has not committed
		ckpt("TRUNCATE")
		ex("PRAGMA cache_size=3")
		ex("UPDATE t SET v=? WHERE id=2", val(row))
		ex("BEGIN")
		ex("UPDATE t SET v=? WHERE id=4", val(row))
		ex("INSERT INTO t VALUES(9,?)", val(row))
		ex("INSERT INTO t VALUES(10,?)", val(row))
		ex("COMMIT")
		ex("UPDATE u SET v=? WHERE id=1", val(row))
		ex("BEGIN")
		for i := 1; i <= 8; i++ {
			ex("UPDATE t SET v=? WHERE id=?", val(row), i)
		}
	}
	if err != nil {
		return entry{}, err
	}
	e := entry{Name: name, PS: ps}
	if e.DB, err = os.ReadFile(path); err != nil {
		return e, err
	}
	if e.WAL, err = os.ReadFile(path + "-wal"); err != nil {
		return e, err
	}
	if variant == "c" {
		ex("ROLLBACK")
	}
	c.Close()
	db.Close()
	for _, sfx := range []string{"", "-wal", "-shm"} {
		os.Remove(path + sfx)
	}
	return e, err
}

func mkPool(dir, tier string) error {
	sizes := []int{512, 4096}
	if tier == "thorough" {
		sizes = []int{512, 1024, 4096, 8192, 65536}
	}
	type meta struct {
		Name   string `json:"name"`
		PS     int    `json:"ps"`
		Frames int    `json:"frames"`
		Valid  int    `json:"valid"`
		Uncomm int    `json:"uncommitted_tail"`
		DBPg   int    `json:"db_pages"`
	}
	var metas []meta
	for _, ps := range sizes {
		for _, v := range []string{"a", "b", "c"} {
			e, err := mkEntry(dir, ps, v)
			if err != nil {
				return err
			}
			hdr, _, fr := decode(e.WAL, ps)
			if hdr != "ok" || len(fr) < 4 {
				return fmt.Errorf("pool entry %s: header %s, %d frames", e.Name, hdr, len(fr))
			}
			valid, lastc := 0, 0
			for i, f := range fr {
				if !f.saltOK || !f.chainOK {
					break
				}
				valid = i + 1
				if f.commit != 0 {
					lastc = i + 1
				}
			}
			if err := os.WriteFile(filepath.Join(dir, e.Name+".db"), e.DB, 0o644); err != nil {
				return err
			}
			if err := os.WriteFile(filepath.Join(dir, e.Name+".wal"), e.WAL, 0o644); err != nil {
				return err
			}
			metas = append(metas, meta{e.Name, ps, len(fr), valid, valid - lastc, len(e.DB) / ps})
		}
	}
	js, _ := json.Marshal(metas)
	if err := os.WriteFile(filepath.Join(dir, "pool.json"), js, 0o644); err != nil {
		return err
	}
	fmt.Println(string(js))
	return nil
}

func loadPool(dir string) ([]entry, error) {
	js, err := os.ReadFile(filepath.Join(dir, "pool.json"))
	if err != nil {
		return nil, err
	}
	var metas []struct {
		Name string `json:"name"`
		PS   int    `json:"ps"`
	}
	if err := json.Unmarshal(js, &metas); err != nil {
		return nil, err
	}
	var pool []entry
	for _, m := range metas {
		e := entry{Name: m.Name, PS: m.PS}
		if e.DB, err = os.ReadFile(filepath.Join(dir, m.Name+".db")); err != nil {
			return nil, err
		}
		if e.WAL, err = os.ReadFile(filepath.Join(dir, m.Name+".wal")); err != nil {
			return nil, err
		}
		pool = append(pool, e)
	}
	return pool, nil
}

// ---------------------------------------------------------------------------------------------------------------
// Mutations

type recipe struct {
	pool int
	kind string
	desc string
	mk   func() []byte
}

type mctx struct {
	ps    int
	n     int // complete frames in the original
	valid int // frames of the current generation in the original
}

// recompute modes after an edit of frame i: 0 none, 1 this frame only, 2 chain through the current generation,
// 3 everything to the end of the file including salts (makes the stale tail valid)
func (m mctx) refix(b []byte, i, mode int) {
	switch mode {
	case 1:
		fixChain(b, m.ps, i, i, false)
	case 2:
		to := m.valid
		if i > to {
			to = i
		}
		fixChain(b, m.ps, i, to, false)
	case 3:
		fixChain(b, m.ps, i, nFrames(b, m.ps), true)
	}
}

var modeName = []string{"raw", "self", "chain", "full"}

func opTrunc(b []byte, at int) []byte {
	if at > len(b) {
		at = len(b)
	}
	if at < 0 {
		at = 0
	}
	return clone(b[:at])
}
func opFlip(b []byte, byteOff int, bit uint) []byte {
	c := clone(b)
	if byteOff < len(c) {
		c[byteOff] ^= 1 << (bit % 8)
	}
	return c
}
func (m mctx) opDup(b []byte, src, dst, mode int) []byte {
	c := clone(b)
	fs := fhdrSize + m.ps
	if src <= nFrames(b, m.ps) && dst <= nFrames(b, m.ps) {
		copy(c[fOff(dst, m.ps):fOff(dst, m.ps)+fs], b[fOff(src, m.ps):fOff(src, m.ps)+fs])
		m.refix(c, dst, mode)
	}
	return c
}
func (m mctx) opSwap(b []byte, i, j, mode int) []byte {
	c := clone(b)
	fs := fhdrSize + m.ps
	if i <= nFrames(b, m.ps) && j <= nFrames(b, m.ps) {
		copy(c[fOff(i, m.ps):fOff(i, m.ps)+fs], b[fOff(j, m.ps):fOff(j, m.ps)+fs])
		copy(c[fOff(j, m.ps):fOff(j, m.ps)+fs], b[fOff(i, m.ps):fOff(i, m.ps)+fs])
		if i > j {
			i = j
		}
		m.refix(c, i, mode)
	}
	return c
}
func (m mctx) opField(b []byte, i, fieldOff int, v uint32, mode int) []byte {
	c := clone(b)
	if i <= nFrames(b, m.ps) {
		put32(c, fOff(i, m.ps)+fieldOff, v)
		m.refix(c, i, mode)
	}
	return c
}

// header edit; mode 0 raw, 1 recompute header checksum, 2 + chain of current generation, 3 + everything with salts
func (m mctx) opHdr(b []byte, fieldOff int, v uint32, mode int) []byte {
	c := clone(b)
	if len(c) < hdrSize {
		return c
	}
	put32(c, fieldOff, v)
	if mode >= 1 {
		fixHeader(c)
	}
	if mode == 2 {
		fixChain(c, m.ps, 1, m.valid, true)
	}
	if mode == 3 {
		fixChain(c, m.ps, 1, nFrames(c, m.ps), true)
	}
	return c
}

func recipes(pool []entry, want int, seed int64) []recipe {
	var rs []recipe
	add := func(p int, kind, desc string, mk func() []byte) {
		rs = append(rs, recipe{p, kind, desc, mk})
	}
	ctxs := make([]mctx, len(pool))
	for p := range pool {
		p := p
		e := pool[p]
		w := e.WAL
		ps := e.PS
		fs := fhdrSize + ps
		_, _, fr := decode(w, ps)
		n := len(fr)
		valid := 0
		for i, f := range fr {
			if !f.saltOK || !f.chainOK {
				break
			}
			valid = i + 1
		}
		m := mctx{ps, n, valid}
		ctxs[p] = m
		dbsize := uint32(len(e.DB) / ps)
		add(p, "orig", "unchanged", func() []byte { return clone(w) })
		// truncation at and inside the header and every frame
		for _, at := range []int{0, 1, 16, 31, 32, 33} {
			at := at
			add(p, "trunc", fmt.Sprintf("at %d", at), func() []byte { return opTrunc(w, at) })
		}
		for i := 1; i <= n; i++ {
			for _, d := range []int{1, 23, 24, 24 + ps/2, fs - 1, fs} {
				at := fOff(i, ps) + d
				add(p, "trunc", fmt.Sprintf("frame %d +%d", i, d), func() []byte { return opTrunc(w, at) })
			}
		}
		// bit flips: every header field, every frame-header field, page body
		r := rand.New(rand.NewSource(seed*1000003 + int64(p)))
		for f := 0; f < 8; f++ {
			for _, bit := range []int{0, 1 + r.Intn(31)} {
				off, bt := f*4+3-bit/8, uint(bit%8)
				add(p, "flip-hdr", fmt.Sprintf("hdr field %d bit %d", f, bit), func() []byte { return opFlip(w, off, bt) })
			}
		}
		for i := 1; i <= n; i++ {
			for f := 0; f < 6; f++ {
				for _, bit := range []int{0, 1 + r.Intn(31)} {
					off, bt := fOff(i, ps)+f*4+3-bit/8, uint(bit%8)
					add(p, "flip-fhdr", fmt.Sprintf("frame %d field %d bit %d", i, f, bit), func() []byte { return opFlip(w, off, bt) })
				}
			}
			for _, d := range []int{0, 1 + r.Intn(ps-2), ps - 1} {
				off, bt := fOff(i, ps)+fhdrSize+d, uint(r.Intn(8))
				add(p, "flip-page", fmt.Sprintf("frame %d byte %d", i, d), func() []byte { return opFlip(w, off, bt) })
			}
		}
		// duplication and swapping, raw and with recomputed chains
		for i := 1; i <= n; i++ {
			for j := 1; j <= n; j++ {
				if i == j {
					continue
				}
				for _, mode := range []int{0, 2, 3} {
					i, j, mode := i, j, mode
					add(p, "dup-"+modeName[mode], fmt.Sprintf("%d over %d", i, j), func() []byte { return m.opDup(w, i, j, mode) })
					if i < j {
						add(p, "swap-"+modeName[mode], fmt.Sprintf("%d and %d", i, j), func() []byte { return m.opSwap(w, i, j, mode) })
					}
				}
			}
		}
		// salt edits
		s1, s2 := be32(w, 16), be32(w, 20)
		for _, ed := range []struct {
			off int
			v   uint32
		}{{16, s1 + 1}, {16, s1 - 1}, {20, s2 ^ 0x5a5a5a5a}} {
			for mode := 0; mode <= 3; mode++ {
				ed, mode := ed, mode
				add(p, "salt-hdr-"+modeName[mode], fmt.Sprintf("hdr+%d=%08x", ed.off, ed.v), func() []byte { return m.opHdr(w, ed.off, ed.v, mode) })
			}
		}
		for i := 1; i <= n; i++ {
			for _, ed := range []struct {
				off int
				v   uint32
			}{{8, s1}, {12, s2}, {8, s1 - 1}, {8, s1 + 1}, {12, s2 + 1}} {
				i, ed := i, ed
				add(p, "salt-frame", fmt.Sprintf("frame %d +%d=%08x", i, ed.off, ed.v), func() []byte { return m.opField(w, i, ed.off, ed.v, 0) })
			}
			i := i
			add(p, "salt-frame", fmt.Sprintf("frame %d both salts = header", i), func() []byte {
				c := clone(w)
				copy(c[fOff(i, ps)+8:fOff(i, ps)+16], c[16:24])
				return c
			})
		}
		// commit-field edits, with and without recomputed chain
		for i := 1; i <= n; i++ {
			pg := fr[i-1].pg
			for _, v := range []uint32{0, pg, dbsize, fr[i-1].commit + 1, pg - 1, 1, pg + 1, 0x7fffffff, 0xffffffff} {
				for mode := 0; mode <= 3; mode++ {
					i, v, mode := i, v, mode
					add(p, "commit-"+modeName[mode], fmt.Sprintf("frame %d commit=%d", i, v), func() []byte { return m.opField(w, i, 4, v, mode) })
				}
			}
		}
		// byte-order re-encoding
		other := be32(w, 0) ^ 1
		for mode := 0; mode <= 3; mode++ {
			mode := mode
			add(p, "endian-"+modeName[mode], fmt.Sprintf("magic=%08x", other), func() []byte { return m.opHdr(w, 0, other, mode) })
		}
		// recomputation that makes the stale tail checksum-valid (with / without the salts), from every frame on
		for i := 1; i <= n; i++ {
			i := i
			add(p, "revive-full", fmt.Sprintf("from %d", i), func() []byte { c := clone(w); fixChain(c, ps, i, n, true); return c })
			add(p, "revive-chain", fmt.Sprintf("from %d", i), func() []byte { c := clone(w); fixChain(c, ps, i, n, false); return c })
			add(p, "revive-salts", fmt.Sprintf("from %d", i), func() []byte {
				c := clone(w)
				for k := i; k <= n; k++ {
					copy(c[fOff(k, ps)+8:fOff(k, ps)+16], c[16:24])
				}
				return c
			})
		}
		// header version / sequence with recomputed header checksum
		for _, ed := range []struct {
			off int
			v   uint32
		}{{4, 3007001}, {4, 3006000}, {12, be32(w, 12) + 1}} {
			for mode := 1; mode <= 2; mode++ {
				ed, mode := ed, mode
				add(p, "hdrfield-"+modeName[mode], fmt.Sprintf("hdr+%d=%d", ed.off, ed.v), func() []byte { return m.opHdr(w, ed.off, ed.v, mode) })
			}
		}
		// page-number edits with recomputed chain (beyond the stated quantifier: "any WAL file content")
		for i := 1; i <= n; i++ {
			for _, v := range []uint32{0, fr[i-1].pg + 1, dbsize + 7} {
				for _, mode := range []int{1, 2, 3} {
					i, v, mode := i, v, mode
					add(p, "pgno-"+modeName[mode], fmt.Sprintf("frame %d pgno=%d", i, v), func() []byte { return m.opField(w, i, 0, v, mode) })
				}
			}
		}
	}
	// random compositions of two to four primitive edits, up to the requested number of cases
	nsys := len(rs)
	for k := 0; len(rs) < want; k++ {
		k := k
		p := k % len(pool)
		m := ctxs[p]
		w := pool[p].WAL
		add(p, "compose", fmt.Sprintf("#%d", k), func() []byte {
			r := rand.New(rand.NewSource(seed*7919 + int64(k)*104729 + int64(nsys)))
			b := clone(w)
			nops := 2 + r.Intn(3)
			for o := 0; o < nops; o++ {
				n := nFrames(b, m.ps)
				if n == 0 {
					break
				}
				i, j := 1+r.Intn(n), 1+r.Intn(n)
				mode := r.Intn(4)
				switch r.Intn(10) {
				case 0:
					b = opTrunc(b, fOff(i, m.ps)+[]int{0, 0, 1, 24, m.ps}[r.Intn(5)])
				case 1:
					b = opFlip(b, hdrSize+r.Intn(len(b)-hdrSize), uint(r.Intn(8)))
				case 2:
					b = m.opDup(b, i, j, mode)
				case 3:
					b = m.opSwap(b, i, j, mode)
				case 4:
					o := fOff(i, m.ps)
					v := []uint32{0, be32(b, o), be32(b, o) + 1, be32(b, o+4) + 1, 1, 2, 3, uint32(r.Intn(30))}[r.Intn(8)]
					b = m.opField(b, i, 4, v, mode)
				case 5:
					b = m.opHdr(b, 0, be32(b, 0)^1, 1+r.Intn(3))
				case 6:
					c := clone(b)
					fixChain(c, m.ps, i, n, r.Intn(2) == 0)
					b = c
				case 7:
					b = m.opField(b, i, 8+4*r.Intn(2), []uint32{be32(b, 16), be32(b, 20), be32(b, 16) - 1}[r.Intn(3)], 0)
				case 8:
					b = m.opHdr(b, 16+4*r.Intn(2), r.Uint32(), r.Intn(4))
				case 9:
					b = m.opField(b, i, 0, []uint32{1, 2, 3, uint32(1 + r.Intn(20))}[r.Intn(4)], 1+r.Intn(3))
				}
			}
			return b
		})
	}
	return rs
}

// ---------------------------------------------------------------------------------------------------------------
// (a) litestream

type lsOut struct {
	Res     string   `json:"res"` // ok | eof | error | panic
	Pages   [][3]int `json:"pages"`
	Commit  int      `json:"commit"`
	End     int      `json:"end"` // maxOffset as a number of frames (0 = maxOffset 0)
	Limited int      `json:"limited"`
	Start   int      `json:"start"` // frames before the offset the reader was opened at
}

var logger = slog.New(slog.NewTextHandler(io.Discard, nil))

type cidmap struct {
	m map[[32]byte]int
}

// content id: 0 = the all-zero page (what SQLite reads for a page that is in neither the WAL nor the db file)
func (c *cidmap) id(b []byte) int {
	zero := true
	for _, x := range b {
		if x != 0 {
			zero = false
			break
		}
	}
	if zero {
		return 0
	}
	h := sha256.Sum256(b)
	if v, ok := c.m[h]; ok {
		return v
	}
	v := len(c.m) + 1
	c.m[h] = v
	return v
}

func errClass(err error) string {
	if errors.Is(err, io.EOF) {
		return "eof"
	}
	return "error"
}

// project turns a result of PageMap/pageMap into frame indexes and content ids
func project(b []byte, rd *litestream.WALReader, m map[uint32]int64, maxOffset int64, commit uint32, cids *cidmap) lsOut {
	out := lsOut{Res: "ok", Pages: [][3]int{}, Commit: capv(commit)}
	ps := int64(rd.PageSize())
	fs := ps + fhdrSize
	for pg, off := range m {
		if off < hdrSize || (off-hdrSize)%fs != 0 || off+fs > int64(len(b)) {
			out.Res = "badoffset"
			continue
		}
		out.Pages = append(out.Pages, [3]int{capv(pg), int((off-hdrSize)/fs) + 1, cids.id(b[off+fhdrSize : off+fs])})
	}
	sort.Slice(out.Pages, func(i, j int) bool { return out.Pages[i][0] < out.Pages[j][0] })
	if maxOffset != 0 {
		if (maxOffset-hdrSize)%fs != 0 {
			out.Res = "badoffset"
		}
		out.End = int((maxOffset - hdrSize) / fs)
	}
	return out
}

func runOneShot(b []byte, cids *cidmap) (out lsOut) {
	out = lsOut{Pages: [][3]int{}}
	defer func() {
		if r := recover(); r != nil {
			out = lsOut{Res: "panic", Pages: [][3]int{}}
		}
	}()
	rd, err := litestream.NewWALReader(bytes.NewReader(b), logger)
	if err != nil {
		out.Res = errClass(err)
		return out
	}
	m, maxOffset, commit, err := rd.PageMap(context.Background())
	if err != nil {
		out.Res = errClass(err)
		return out
	}
	return project(b, rd, m, maxOffset, commit, cids)
}

// openAt = db.go:2050-2068: NewWALReader at the start, NewWALReaderWithOffset elsewhere with the salts of the WAL
// header, falling back to the start on PrevFrameMismatchError.  k = frames before the offset.
func openAt(b []byte, k int, ps int) (*litestream.WALReader, int, error) {
	if k == 0 {
		rd, err := litestream.NewWALReader(bytes.NewReader(b), logger)
		return rd, 0, err
	}
	off := int64(hdrSize + k*(fhdrSize+ps))
	var pfm *litestream.PrevFrameMismatchError
	rd, err := litestream.NewWALReaderWithOffset(context.Background(), bytes.NewReader(b), off, be32(b, 16), be32(b, 20), logger)
	if errors.As(err, &pfm) {
		rd, err = litestream.NewWALReader(bytes.NewReader(b), logger)
		return rd, 0, err
	}
	return rd, k, err
}

func runFrom(b []byte, k, ps int, cids *cidmap) (out lsOut) {
	out = lsOut{Pages: [][3]int{}}
	defer func() {
		if r := recover(); r != nil {
			out = lsOut{Res: "panic", Pages: [][3]int{}}
		}
	}()
	rd, start, err := openAt(b, k, ps)
	if err != nil {
		out.Res = errClass(err)
		return out
	}
	m, maxOffset, commit, err := rd.PageMap(context.Background())
	if err != nil {
		out.Res = errClass(err)
		return out
	}
	out = project(b, rd, m, maxOffset, commit, cids)
	out.Start = start
	return out
}

type growOut struct {
	J int   `json:"j"`
	A lsOut `json:"a"`
	B lsOut `json:"b"`
}

// two syncs, the WAL having j complete frames at the first one and all of them at the second
func runGrow(b []byte, j, ps int, cids *cidmap) growOut {
	p := b[:hdrSize+j*(fhdrSize+ps)]
	g := growOut{J: j, A: runOneShot(p, cids)}
	k := 0
	if g.A.Res == "ok" {
		k = g.A.End
	}
	g.B = runFrom(b, k, ps, cids)
	return g
}

type chunkOut struct {
	L     int     `json:"l"`
	Parts []lsOut `json:"parts"`
}

// ---------------------------------------------------------------------------------------------------------------
// (b) oracle: real SQLite recovery

type sqOut struct {
	Res string `json:"res"`
	DB  []int  `json:"db"`
	Err string `json:"err"`
}

func runSQLite(dir string, dbb, wal []byte, ps int, cids *cidmap) sqOut {
	out := sqOut{Res: "ok", DB: []int{}}
	path := filepath.Join(dir, "o.db")
	os.Remove(path + "-shm")
	os.Remove(path + "-journal")
	if err := os.WriteFile(path, dbb, 0o644); err != nil {
		panic(err)
	}
	if err := os.WriteFile(path+"-wal", wal, 0o644); err != nil {
		panic(err)
	}
	fail := func(err error) sqOut {
		out.Res = "error"
		out.Err = err.Error()
		if len(out.Err) > 80 {
			out.Err = out.Err[:80]
		}
		return out
	}
	// The C API directly (not database/sql): sqlite3_wal_checkpoint_v2 does not need a readable schema, so the oracle
	// also answers when the recovered database is inconsistent (commit-field edits).  The first statement only makes
	// the pager open and recover the WAL (pagerOpenWalIfPresent); its own result is irrelevant.
	if rc, msg := capiCheckpoint(path); rc != 0 {
		return fail(fmt.Errorf("rc=%d %s", rc, msg))
	}
	res, err := os.ReadFile(path)
	if err != nil {
		return fail(err)
	}
	if len(res)%ps != 0 {
		return fail(fmt.Errorf("db size %d not a multiple of the page size", len(res)))
	}
	for o := 0; o < len(res); o += ps {
		out.DB = append(out.DB, cids.id(res[o:o+ps]))
	}
	return out
}

var tls = libc.NewTLS()

func capiCheckpoint(path string) (int32, string) {
	cpath, err := libc.CString(path)
	if err != nil {
		panic(err)
	}
	defer libc.Xfree(tls, cpath)
	csql, _ := libc.CString("PRAGMA synchronous=OFF; SELECT count(*) FROM sqlite_master")
	defer libc.Xfree(tls, csql)
	pp := libc.Xmalloc(tls, 16)
	defer libc.Xfree(tls, pp)
	*(*uintptr)(unsafe.Pointer(pp)) = 0
	rc := sqlite3.Xsqlite3_open_v2(tls, cpath, pp, sqlite3.SQLITE_OPEN_READWRITE, 0)
	db := *(*uintptr)(unsafe.Pointer(pp))
	if rc != 0 {
		if db != 0 {
			sqlite3.Xsqlite3_close_v2(tls, db)
		}
		return rc, "open"
	}
	sqlite3.Xsqlite3_exec(tls, db, csql, 0, 0, 0)
	rc = sqlite3.Xsqlite3_wal_checkpoint_v2(tls, db, 0, sqlite3.SQLITE_CHECKPOINT_TRUNCATE, 0, 0)
	msg := ""
	if rc != 0 {
		msg = libc.GoString(sqlite3.Xsqlite3_errmsg(tls, db))
	}
	sqlite3.Xsqlite3_close_v2(tls, db)
	return rc, msg
}

// ---------------------------------------------------------------------------------------------------------------

type rec struct {
	T      int        `json:"t"`
	I      int        `json:"i"`
	Pool   string     `json:"pool"`
	Kind   string     `json:"kind"`
	Desc   string     `json:"desc"`
	PS     int        `json:"ps"`
	Hdr    string     `json:"hdr"`
	Frames [][5]int   `json:"frames"` // pg, commit, saltOK, chainOK, content id
	Base   []int      `json:"base"`
	Ls     lsOut      `json:"ls"`
	Sq     sqOut      `json:"sq"`
	Grow   []growOut  `json:"grow"`
	Chunks []chunkOut `json:"chunks"`
}

func b2i(b bool) int {
	if b {
		return 1
	}
	return 0
}

func runCase(t int, name, kind, desc string, poolPS int, dbb, wal []byte, dir string, r *rand.Rand, ngrow int) rec {
	cids := &cidmap{m: map[[32]byte]int{}}
	out := rec{T: t, Pool: name, Kind: kind, Desc: desc, Frames: [][5]int{}, Base: []int{}, Grow: []growOut{}, Chunks: []chunkOut{}}
	for o := 0; o+poolPS <= len(dbb); o += poolPS {
		out.Base = append(out.Base, cids.id(dbb[o:o+poolPS]))
	}
	hdr, ps, frames := decode(wal, poolPS)
	out.Hdr, out.PS = hdr, ps
	for i, f := range frames {
		o := fOff(i+1, ps)
		out.Frames = append(out.Frames, [5]int{capv(f.pg), capv(f.commit), b2i(f.saltOK), b2i(f.chainOK), cids.id(wal[o+fhdrSize : o+fhdrSize+ps])})
	}
	out.Ls = runOneShot(wal, cids)
	out.Sq = runSQLite(dir, dbb, wal, poolPS, cids)
	if hdr == "ok" && ps == poolPS && len(frames) > 0 {
		js := map[int]bool{}
		if ngrow < 0 {
			for j := 0; j <= len(frames); j++ {
				js[j] = true
			}
		} else {
			for k := 0; k < ngrow; k++ {
				js[r.Intn(len(frames)+1)] = true
			}
		}
		var jl []int
		for j := range js {
			jl = append(jl, j)
		}
		sort.Ints(jl)
		for _, j := range jl {
			out.Grow = append(out.Grow, runGrow(wal, j, ps, cids))
		}
		out.Chunks = runChunks(wal, ps, len(frames), cids, r, ngrow < 0)
	}
	return out
}

type replayFile struct {
	Pool string `json:"pool"`
	Kind string `json:"kind"`
	Desc string `json:"desc"`
	PS   int    `json:"ps"`
	DB   string `json:"db_b64"`
	WAL  string `json:"wal_b64"`
}

func main() {
	var (
		mkpool  = flag.String("mkpool", "", "build the pool into this directory")
		poolDir = flag.String("pool", "", "pool directory")
		tier    = flag.String("tier", "quick", "")
		n       = flag.Int("n", 20000, "number of cases")
		seed    = flag.Int64("seed", 1, "")
		shard   = flag.Int("shard", 0, "")
		nshards = flag.Int("nshards", 1, "")
		outPath = flag.String("out", "", "ndjson output")
		work    = flag.String("work", "", "scratch directory for the oracle")
		dump    = flag.Int("dump", -1, "write this case as a replay file")
		dumpTo  = flag.String("dumpto", "", "")
		replay  = flag.String("replay", "", "replay file")
		ngrow   = flag.Int("ngrow", 2, "growth points per case (-1 = all)")
	)
	flag.Parse()
	if *mkpool != "" {
		if err := mkPool(*mkpool, *tier); err != nil {
			fmt.Fprintln(os.Stderr, "mkpool:", err)
			os.Exit(2)
		}
		return
	}
	die := func(err error) {
		fmt.Fprintln(os.Stderr, "walreader:", err)
		os.Exit(2)
	}
	wdir := *work
	if wdir == "" {
		d, err := os.MkdirTemp("", "walreader-")
		if err != nil {
			die(err)
		}
		defer os.RemoveAll(d)
		wdir = d
	}
	var outw *bufio.Writer
	if *outPath != "" {
		f, err := os.Create(*outPath)
		if err != nil {
			die(err)
		}
		defer f.Close()
		outw = bufio.NewWriterSize(f, 1<<20)
		defer outw.Flush()
	}
	emit := func(r rec) {
		js, err := json.Marshal(r)
		if err != nil {
			die(err)
		}
		outw.Write(js)
		outw.WriteByte('\n')
	}
	if *replay != "" {
		js, err := os.ReadFile(*replay)
		if err != nil {
			die(err)
		}
		var wrap struct {
			Case replayFile `json:"case"`
		}
		if err := json.Unmarshal(js, &wrap); err != nil {
			die(err)
		}
		c := wrap.Case
		dbb, _ := base64.StdEncoding.DecodeString(c.DB)
		wal, _ := base64.StdEncoding.DecodeString(c.WAL)
		emit(runCase(0, c.Pool, c.Kind, c.Desc, c.PS, dbb, wal, wdir, rand.New(rand.NewSource(*seed)), -1))
		fmt.Println(`{"cases":1}`)
		return
	}
	pool, err := loadPool(*poolDir)
	if err != nil {
		die(err)
	}
	rs := recipes(pool, *n, *seed)
	if *dump >= 0 {
		if *dump >= len(rs) {
			die(fmt.Errorf("no case %d", *dump))
		}
		r := rs[*dump]
		e := pool[r.pool]
		js, _ := json.Marshal(replayFile{e.Name, r.kind, r.desc, e.PS, base64.StdEncoding.EncodeToString(e.DB), base64.StdEncoding.EncodeToString(r.mk())})
		if err := os.WriteFile(*dumpTo, js, 0o644); err != nil {
			die(err)
		}
		return
	}
	kinds := map[string]int{}
	cnt := 0
	for i, r := range rs {
		if i%*nshards != *shard {
			continue
		}
		e := pool[r.pool]
		rng := rand.New(rand.NewSource(*seed*31 + int64(i)))
		ng := *ngrow
		if r.kind == "orig" || strings.HasPrefix(r.kind, "revive") || strings.HasPrefix(r.kind, "endian") {
			ng = -1
		}
		emit(runCase(i, e.Name, r.kind, r.desc, e.PS, e.DB, r.mk(), wdir, rng, ng))
		kinds[r.kind]++
		cnt++
	}
	js, _ := json.Marshal(map[string]any{"cases": cnt, "total": len(rs), "kinds": kinds, "chunk_export": chunkExport})
	fmt.Println(string(js))
}

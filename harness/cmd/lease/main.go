// Command lease replays TLC-generated interleavings of Lease.tla against the real s3.Leaser.
//
// Every storage request of every client blocks inside an in-memory S3 (conditional writes, fresh ETag per
// successful write) until the schedule grants it, so an interleaving at the granularity of single
// conditional requests is reproduced exactly.  Model time: the real TTL is TTL hours, one model tick is one
// hour; the fake serves a stored record with expires_at = real now + (exp - now) hours + 30 min, which for
// the leaser is indistinguishable from that much time having passed (no hook needed).
//
// Output: one ndjson line per executed step with the observed state (stored record, clock, the lease each
// client was handed by the real code).
package main

import (
	"bufio"
	"bytes"
	"context"
	"encoding/json"
	"errors"
	"flag"
	"fmt"
	"io"
	"log/slog"
	"os"
	"sync"
	"time"

	"github.com/aws/aws-sdk-go-v2/aws"
	"github.com/aws/aws-sdk-go-v2/service/s3"
	"github.com/aws/smithy-go"
	"github.com/benbjohnson/litestream"
	lss3 "github.com/benbjohnson/litestream/s3"
)

const tick = time.Hour

type objState struct {
	Exists bool   `json:"exists"`
	Gen    int    `json:"gen"`
	Exp    int    `json:"exp"`
	Owner  string `json:"owner"`
	Tag    int    `json:"tag"`
}

type heldState struct {
	Has bool `json:"has"`
	Gen int  `json:"gen"`
	Exp int  `json:"exp"`
	Tag int  `json:"tag"`
}

type event struct {
	T     int                  `json:"t"`
	I     int                  `json:"i"`
	Ev    string               `json:"ev"`
	C     string               `json:"c"`
	Req   string               `json:"req"` // request the real code issued at this step (GET/PUT/DELETE/none)
	Cond  string               `json:"cond"`
	Res   string               `json:"res"` // result of the call when it completed at this step
	Now   int                  `json:"now"`
	Obj   objState             `json:"obj"`
	Held  map[string]heldState `json:"held"`
	ExpOK bool                 `json:"expOK"`
}

// ---------------------------------------------------------------------------------------------

type request struct {
	client string
	kind   string // GET PUT DELETE
	grant  chan string
	done   chan struct{}
}

type fakeS3 struct {
	mu      sync.Mutex
	now     int
	ttl     int
	exists  bool
	body    []byte
	tag     int
	exp     int // model expiry of the stored record
	owner   string
	gen     int
	nextTag int
	tagExp  map[int]int // model expiry by tag
	pendExp map[string]int
	arrive  chan *request
	free    bool // when set, requests are served without gating (used to drain after a desync)
	lastCond map[string]string
}

type view struct {
	f  *fakeS3
	id string
}

func apiErr(code string) error { return &smithy.GenericAPIError{Code: code, Message: code} }

func (f *fakeS3) gate(id, kind string) (*request, string) {
	f.mu.Lock()
	free := f.free
	f.mu.Unlock()
	if free {
		return nil, "go"
	}
	r := &request{client: id, kind: kind, grant: make(chan string, 1), done: make(chan struct{}, 1)}
	f.arrive <- r
	return r, <-r.grant
}

func (v view) GetObject(ctx context.Context, in *s3.GetObjectInput, _ ...func(*s3.Options)) (*s3.GetObjectOutput, error) {
	f := v.f
	r, _ := f.gate(v.id, "GET")
	// phase 1: the read takes effect now
	f.mu.Lock()
	exists, body, tag, exp := f.exists, f.body, f.tag, f.exp
	f.mu.Unlock()
	if r != nil {
		r.done <- struct{}{}
		// phase 2: the response is delivered (and the leaser reads the clock) when the schedule says so
		<-r.grant
	}
	if !exists {
		return nil, apiErr("NoSuchKey")
	}
	var l litestream.Lease
	if err := json.Unmarshal(body, &l); err != nil {
		return nil, err
	}
	f.mu.Lock()
	l.ExpiresAt = time.Now().Add(time.Duration(exp-f.now)*tick + tick/2)
	f.mu.Unlock()
	b, _ := json.Marshal(&l)
	return &s3.GetObjectOutput{Body: io.NopCloser(bytes.NewReader(b)), ETag: aws.String(fmt.Sprintf("\"e%d\"", tag))}, nil
}

func parseTag(s *string) int {
	if s == nil {
		return -1
	}
	var n int
	if _, err := fmt.Sscanf(*s, "\"e%d\"", &n); err != nil {
		return -2
	}
	return n
}

func (v view) PutObject(ctx context.Context, in *s3.PutObjectInput, _ ...func(*s3.Options)) (*s3.PutObjectOutput, error) {
	f := v.f
	b, _ := io.ReadAll(in.Body)
	cond := "none"
	if in.IfNoneMatch != nil {
		cond = "ifnonematch"
	} else if in.IfMatch != nil {
		cond = "ifmatch"
	}
	f.mu.Lock()
	f.lastCond[v.id] = cond
	f.mu.Unlock()
	r, _ := f.gate(v.id, "PUT")
	if r != nil {
		defer func() { r.done <- struct{}{} }()
	}
	f.mu.Lock()
	defer f.mu.Unlock()
	if in.IfNoneMatch != nil && f.exists {
		return nil, apiErr("PreconditionFailed")
	}
	if in.IfMatch != nil && (!f.exists || parseTag(in.IfMatch) != f.tag) {
		return nil, apiErr("PreconditionFailed")
	}
	var l litestream.Lease
	if err := json.Unmarshal(b, &l); err != nil {
		return nil, err
	}
	f.body, f.exists = b, true
	f.tag = f.nextTag
	f.nextTag++
	f.exp = f.pendExp[v.id]
	f.tagExp[f.tag] = f.exp
	f.owner = l.Owner
	f.gen = int(l.Generation)
	return &s3.PutObjectOutput{ETag: aws.String(fmt.Sprintf("\"e%d\"", f.tag))}, nil
}

func (v view) DeleteObject(ctx context.Context, in *s3.DeleteObjectInput, _ ...func(*s3.Options)) (*s3.DeleteObjectOutput, error) {
	f := v.f
	cond := "none"
	if in.IfMatch != nil {
		cond = "ifmatch"
	}
	f.mu.Lock()
	f.lastCond[v.id] = cond
	f.mu.Unlock()
	r, _ := f.gate(v.id, "DELETE")
	if r != nil {
		defer func() { r.done <- struct{}{} }()
	}
	f.mu.Lock()
	defer f.mu.Unlock()
	if !f.exists {
		return nil, apiErr("NoSuchKey")
	}
	if in.IfMatch != nil && parseTag(in.IfMatch) != f.tag {
		return nil, apiErr("PreconditionFailed")
	}
	f.exists, f.body, f.tag, f.exp, f.owner, f.gen = false, nil, 0, 0, "none", 0
	return &s3.DeleteObjectOutput{}, nil
}

// ---------------------------------------------------------------------------------------------

type opResult struct {
	lease *litestream.Lease
	err   error
	t0    time.Time
	t1    time.Time
}

type client struct {
	id      string
	l       *lss3.Leaser
	lease   *litestream.Lease // what the real code handed out last (nil = none)
	running chan opResult      // non-nil while a call is in flight
	op      string
	pending *request
	callT0  time.Time
}

type runner struct {
	f       *fakeS3
	clients map[string]*client
	order   []string
	ttl     int
}

const waitFor = 3 * time.Second

// waitArrival waits until client c either issues its next request or its call returns.
func (r *runner) waitNext(c *client) (*request, *opResult, error) {
	deadline := time.After(waitFor)
	var stash []*request
	defer func() {
		for _, q := range stash { // requests of other clients cannot arrive (one step at a time), but be safe
			go func(q *request) { r.f.arrive <- q }(q)
		}
	}()
	for {
		select {
		case q := <-r.f.arrive:
			if q.client == c.id {
				return q, nil, nil
			}
			stash = append(stash, q)
		case res := <-c.running:
			return nil, &res, nil
		case <-deadline:
			return nil, nil, errors.New("desync: no request and no result")
		}
	}
}

func classify(op string, err error) string {
	switch {
	case err == nil:
		return "ok"
	case errors.Is(err, litestream.ErrLeaseNotHeld):
		return "notheld"
	case errors.Is(err, lss3.ErrLeaseAlreadyReleased):
		return "gone"
	}
	var le *litestream.LeaseExistsError
	if errors.As(err, &le) {
		return "exists"
	}
	return "error:" + err.Error()
}

func (r *runner) snapshot(ev *event) {
	f := r.f
	f.mu.Lock()
	ev.Now = f.now
	ev.Obj = objState{Exists: f.exists, Gen: f.gen, Exp: f.exp, Owner: f.owner, Tag: f.tag}
	if !f.exists {
		ev.Obj = objState{Owner: "none"}
	}
	ev.Held = map[string]heldState{}
	for _, id := range r.order {
		c := r.clients[id]
		if c.lease == nil {
			ev.Held[id] = heldState{}
			continue
		}
		tag := parseTag(&c.lease.ETag)
		ev.Held[id] = heldState{Has: true, Gen: int(c.lease.Generation), Tag: tag, Exp: f.tagExp[tag]}
	}
	f.mu.Unlock()
}

// finish records the completion of a call of client c.
func (r *runner) finish(c *client, res *opResult, ev *event) {
	ev.Res = classify(c.op, res.err)
	ev.ExpOK = true
	switch c.op {
	case "acquire", "renew":
		if res.err == nil && res.lease != nil {
			c.lease = res.lease
			// the real expiry must be (time of the call .. time of return) + TTL
			lo, hi := res.t0.Add(time.Duration(r.ttl)*tick), res.t1.Add(time.Duration(r.ttl)*tick)
			if res.lease.ExpiresAt.Before(lo.Add(-time.Second)) || res.lease.ExpiresAt.After(hi.Add(time.Second)) {
				ev.ExpOK = false
			}
		} else if c.op == "renew" {
			c.lease = nil // the caller drops a lease it could not renew
		}
	case "release":
		c.lease = nil
	}
	c.running = nil
	c.op = ""
}

func (r *runner) start(c *client, op string) {
	ch := make(chan opResult, 1)
	c.running = ch
	c.op = op
	lease := c.lease
	if lease != nil {
		// model time: the handle the caller holds has aged with the model clock (real TTL = TTL hours, one tick = one
		// hour); present it to the real code with the expiry it would have after that much time.
		cp := *lease
		r.f.mu.Lock()
		exp, ok := r.f.tagExp[parseTag(&lease.ETag)]
		now := r.f.now
		r.f.mu.Unlock()
		if ok {
			cp.ExpiresAt = time.Now().Add(time.Duration(exp-now)*tick + tick/2)
		}
		lease = &cp
	}
	go func() {
		var res opResult
		res.t0 = time.Now()
		switch op {
		case "acquire":
			res.lease, res.err = c.l.AcquireLease(context.Background())
		case "renew":
			res.lease, res.err = c.l.RenewLease(context.Background(), lease)
		case "release":
			res.err = c.l.ReleaseLease(context.Background(), lease)
		}
		res.t1 = time.Now()
		ch <- res
	}()
}

// grantAndFollow lets the pending request of c take effect and then waits for what c does next.
func (r *runner) follow(c *client, ev *event) error {
	q, res, err := r.waitNext(c)
	if err != nil {
		return err
	}
	if res != nil {
		r.finish(c, res, ev)
		return nil
	}
	c.pending = q
	return nil
}

// step executes one schedule step.  The schedule is a *hint*: what is logged is what the real code did.
// If client c has a request blocked in the store, the step grants it (whatever the hint says) and the event
// is named after the request actually granted; otherwise the call named by the hint is started.  Hints that
// cannot apply (a put for a client with nothing pending, renew without a lease) are skipped (ev = "Skip").
func (r *runner) step(act string, arg string, ev *event) error {
	f := r.f
	if act == "Tick" {
		f.mu.Lock()
		f.now++
		f.mu.Unlock()
		return nil
	}
	c := r.clients[arg]
	if c == nil {
		return fmt.Errorf("unknown client %q", arg)
	}
	if c.pending != nil {
		q := c.pending
		c.pending = nil
		ev.Req = q.kind
		switch {
		case q.kind == "GET": // read already took effect; deliver the response: the leaser decides now
			ev.Ev = "AcqDecide"
			f.mu.Lock()
			f.pendExp[c.id] = f.now + f.ttl
			f.mu.Unlock()
			q.grant <- "deliver"
			if err := r.follow(c, ev); err != nil {
				return err
			}
			ev.Req = "none"
			if c.pending != nil {
				ev.Req = c.pending.kind
				if c.pending.kind == "GET" {
					return r.readPhase(c)
				}
			}
			return nil
		default: // PUT or DELETE
			if c.op == "renew" {
				ev.Ev = "RenewPut"
			} else if c.op == "release" {
				ev.Ev = "Release"
			} else {
				ev.Ev = "AcqPut"
			}
			f.mu.Lock()
			ev.Cond = f.lastCond[c.id]
			f.mu.Unlock()
			q.grant <- "go"
			<-q.done
			// after a 412 AcquireLease re-reads the record for its error message: informational, not a model step
			for {
				q2, res, err := r.waitNext(c)
				if err != nil {
					return err
				}
				if res != nil {
					r.finish(c, res, ev)
					return nil
				}
				if q2.kind != "GET" {
					c.pending = q2 // a further write: leave it for a later step
					return nil
				}
				q2.grant <- "read"
				<-q2.done
				q2.grant <- "deliver"
			}
		}
	}
	if c.running != nil {
		return errors.New("desync: call in flight without a pending request")
	}
	switch act {
	case "AcqRead":
		ev.Ev = "AcqRead"
		r.start(c, "acquire")
	case "RenewBegin":
		if c.lease == nil {
			ev.Ev = "Skip"
			return nil
		}
		ev.Ev = "RenewBegin"
		f.mu.Lock()
		f.pendExp[c.id] = f.now + f.ttl
		f.mu.Unlock()
		r.start(c, "renew")
	case "Release":
		if c.lease == nil {
			ev.Ev = "Skip"
			return nil
		}
		ev.Ev = "Release"
		r.start(c, "release")
	default:
		ev.Ev = "Skip"
		return nil
	}
	q, res, err := r.waitNext(c)
	if err != nil {
		return err
	}
	if res != nil { // returned without any request
		ev.Req = "none"
		r.finish(c, res, ev)
		return nil
	}
	ev.Req = q.kind
	c.pending = q
	switch {
	case q.kind == "GET":
		return r.readPhase(c)
	case act == "Release" && q.kind == "DELETE": // one model step: the conditional delete
		c.pending = nil
		f.mu.Lock()
		ev.Cond = f.lastCond[c.id]
		f.mu.Unlock()
		q.grant <- "go"
		<-q.done
		return r.follow(c, ev)
	}
	return nil // a PUT stays pending until the schedule grants it
}

// readPhase lets a pending GET take effect (the record is read now); its response stays held back.
func (r *runner) readPhase(c *client) error {
	q := c.pending
	q.grant <- "read"
	<-q.done
	return nil
}

type input struct {
	TTL       int          `json:"ttl"`
	Clients   []string     `json:"clients"`
	Schedules [][][]string `json:"schedules"`
}

func main() {
	in := flag.String("in", "", "schedules json")
	out := flag.String("out", "", "ndjson output")
	flag.Parse()
	b, err := os.ReadFile(*in)
	if err != nil {
		fmt.Fprintln(os.Stderr, err)
		os.Exit(2)
	}
	var inp input
	if err := json.Unmarshal(b, &inp); err != nil {
		fmt.Fprintln(os.Stderr, err)
		os.Exit(2)
	}
	of, err := os.Create(*out)
	if err != nil {
		fmt.Fprintln(os.Stderr, err)
		os.Exit(2)
	}
	w := bufio.NewWriter(of)
	enc := json.NewEncoder(w)
	slog.SetDefault(slog.New(slog.NewTextHandler(io.Discard, nil)))
	desync := 0
	for ti, sched := range inp.Schedules {
		f := &fakeS3{ttl: inp.TTL, nextTag: 1, owner: "none", tagExp: map[int]int{}, pendExp: map[string]int{},
			arrive: make(chan *request, 16), lastCond: map[string]string{}}
		r := &runner{f: f, clients: map[string]*client{}, order: inp.Clients, ttl: inp.TTL}
		for _, id := range inp.Clients {
			l := lss3.NewLeaser()
			l.SetLogger(slog.New(slog.NewTextHandler(io.Discard, nil)))
			l.SetClient(view{f: f, id: id})
			l.Bucket, l.Path, l.Owner = "b", "p", id
			l.TTL = time.Duration(inp.TTL) * tick
			r.clients[id] = &client{id: id, l: l}
		}
		ev := event{T: ti, I: 0, Ev: "Reset", C: "none", Req: "none", Cond: "none", Res: "none", ExpOK: true}
		r.snapshot(&ev)
		enc.Encode(&ev)
		for i, st := range sched {
			ev := event{T: ti, I: i + 1, Ev: st[0], C: "none", Req: "none", Cond: "none", Res: "none", ExpOK: true}
			arg := ""
			if len(st) > 1 {
				arg = st[1]
				ev.C = arg
			}
			err := r.step(st[0], arg, &ev)
			if err != nil {
				ev.Res = "driver:" + err.Error()
				r.snapshot(&ev)
				enc.Encode(&ev)
				desync++
				break
			}
			r.snapshot(&ev)
			enc.Encode(&ev)
		}
		// drain: let every blocked request proceed
		f.mu.Lock()
		f.free = true
		f.mu.Unlock()
		for _, c := range r.clients {
			if c.pending != nil {
				close(c.pending.grant)
			}
		}
	drain:
		for {
			select {
			case q := <-f.arrive:
				close(q.grant)
			case <-time.After(2 * time.Millisecond):
				break drain
			}
		}
	}
	w.Flush()
	of.Close()
	fmt.Printf("{\"schedules\": %d, \"desync\": %d}\n", len(inp.Schedules), desync)
}

// Command core replays schedules (TLC-generated or witness histories) against the real SQLite + the real
// litestream (synchronous mode: no monitors, every operation of the quantifier is an explicit call) and records
// the observed states as ndjson for the TLA+ judges (CoreObs.tla and friends).
package main

import (
	"bufio"
	"encoding/json"
	"flag"
	"fmt"
	"os"
	"sync"

	"verifharness/core"
)

func main() {
	in := flag.String("in", "", "cases json ({\"cases\": [...]})")
	out := flag.String("out", "", "ndjson output")
	work := flag.String("work", "", "scratch directory")
	par := flag.Int("j", 8, "parallel cases")
	flag.Parse()
	b, err := os.ReadFile(*in)
	if err != nil {
		fmt.Fprintln(os.Stderr, err)
		os.Exit(2)
	}
	var inp struct {
		Cases []core.Case `json:"cases"`
	}
	if err := json.Unmarshal(b, &inp); err != nil {
		fmt.Fprintln(os.Stderr, err)
		os.Exit(2)
	}
	results := make([][]core.Event, len(inp.Cases))
	var wg sync.WaitGroup
	sem := make(chan struct{}, *par)
	for i := range inp.Cases {
		wg.Add(1)
		sem <- struct{}{}
		go func(i int) {
			defer wg.Done()
			defer func() { <-sem }()
			results[i] = core.RunCase(inp.Cases[i], *work, nil)
		}(i)
	}
	wg.Wait()
	f, err := os.Create(*out)
	if err != nil {
		fmt.Fprintln(os.Stderr, err)
		os.Exit(2)
	}
	w := bufio.NewWriterSize(f, 1<<20)
	enc := json.NewEncoder(w)
	n := 0
	for _, evs := range results {
		for i := range evs {
			enc.Encode(&evs[i])
			n++
		}
	}
	w.Flush()
	f.Close()
	fmt.Printf("{\"cases\": %d, \"events\": %d}\n", len(inp.Cases), n)
}

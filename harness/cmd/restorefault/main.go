// Command restorefault is the driver of C10 ("restore fails loudly rather than produce a wrong or partial database").
//
//	-mode build  real SQLite + litestream.NewDB + file.NewReplicaClient: histories of writes/syncs, db.Snapshot and
//	             db.Compact(1) so that restore plans contain level-9, level-1 and level-0 files; records for every
//	             replica the plan, the structural offsets of every plan file (header end, page-frame starts, end of
//	             the page block, trailer start), the reference restores (intact replica) and a re-encoded
//	             ("corrupted but decodable", all LTX integrity tags valid) variant of one plan file.
//	-mode run    for every case of the input runs the REAL Replica.Restore with ONE corruption of a COPY of the
//	             replica directory (delete / truncate at o / flip byte o) or with a read-fault schedule injected by a
//	             wrapping litestream.ReplicaClient.  Restores run in CHILD processes (one per batch): a panic inside a
//	             goroutine started by litestream kills the child; the parent attributes the crash to the case that
//	             was started and not finished, records outcome "panic" and observes the files post mortem.
//	-mode child  (internal) runs one batch.
//
// ndjson out, one line per case: descriptor, outcome class, existence of output / .tmp afterwards, page ids of the
// output and of the reference (core.Dict ids, reference pages loaded first so ids agree across processes), the list of
// OpenLTXFile calls [file, offset, bytes delivered by that stream, stream ended by an injected fault] and whether the output path existed while plan
// files were still being read.
package main

import (
	"bufio"
	"bytes"
	"context"
	"database/sql"
	"encoding/json"
	"errors"
	"flag"
	"fmt"
	"io"
	"log/slog"
	"math/rand"
	"os"
	"os/exec"
	"path/filepath"
	"sort"
	"strings"
	"sync"
	"time"

	"github.com/benbjohnson/litestream"
	"github.com/benbjohnson/litestream/file"
	"github.com/superfly/ltx"
	_ "modernc.org/sqlite"

	"verifharness/core"
)

var discard = slog.New(slog.NewTextHandler(io.Discard, &slog.HandlerOptions{Level: slog.LevelError + 4}))

// ---------------------------------------------------------------------------------------------------------------
// meta (written by build, read by run/child and by the python runner)

type planFile struct {
	Level   int     `json:"level"`
	Min     int     `json:"min"`
	Max     int     `json:"max"`
	Size    int64   `json:"size"`
	Rel     string  `json:"rel"`     // path relative to the replica directory
	Frames  []int64 `json:"frames"`  // byte offset of every page frame (page header)
	Pgnos   []int   `json:"pgnos"`   // page numbers, parallel to Frames
	PbEnd   int64   `json:"pbEnd"`   // first byte after the page block (after the zero page header) = start of the page index
	Trailer int64   `json:"trailer"` // start of the 16-byte trailer
}

type delInfo struct {
	File   int  `json:"file"`
	PlanOK bool `json:"planOK"` // a restore plan still exists after the file is deleted from disk
	MaxTX  int  `json:"maxTX"`  // and ends at this TXID
}

// reencInfo: one member of the "corrupted but decodable" family: plan file File re-encoded with the pages Pgnos damaged
// in style Style; header, page index and file checksum of the result are all valid.
type reencInfo struct {
	File        int    `json:"file"`
	Pgnos       []int  `json:"pgnos"`
	Style       string `json:"style"` // garbage | zero | ptr (b-tree header kept, cell pointers wrong) | bthdr (0xFF over the b-tree header)
	Label       string `json:"label"` // which page: p1 | root | leaf | last | two
	Path        string `json:"path"`
	BadQuick    bool   `json:"badQuick"`    // PRAGMA quick_check of the database it restores to does not answer "ok"
	BadFull     bool   `json:"badFull"`     // same for PRAGMA integrity_check
	PragmaFails bool   `json:"pragmaFails"` // the PRAGMA statement itself fails (e.g. "database disk image is malformed")
	Differs     bool   `json:"differs"`     // the restored database differs from the reference at all
	OK          bool   `json:"ok"`
	Note        string `json:"note"`
}

type repMeta struct {
	ID       int               `json:"id"`
	PageSize int               `json:"ps"`
	Seed     int64             `json:"seed"`
	Steps    []string          `json:"steps"`
	Dir      string            `json:"dir"` // replica directory
	Plan     []planFile        `json:"plan"`
	Latest   int               `json:"latest"`
	NPages   int               `json:"npages"`
	Refs     map[string]string `json:"refs"` // txid -> database restored from the intact replica
	Del      []delInfo         `json:"del"`
	Reencs   []reencInfo       `json:"reencs"`
	Anchored bool              `json:"anchored"` // intact restore == source database (page by page)
	PrePath  string            `json:"prePath"`  // content used for pre-existing outputs
}

type meta struct {
	Work     string    `json:"work"`
	Replicas []repMeta `json:"replicas"`
}

type repSpec struct {
	ID    int      `json:"id"`
	PS    int      `json:"ps"`
	Seed  int64    `json:"seed"`
	Steps []string `json:"steps"`
}

// ---------------------------------------------------------------------------------------------------------------
// cases

type fault struct {
	At   int64  `json:"at"`
	Kind string `json:"kind"` // err | eof | open (transient failure of OpenLTXFile) | gone (os.ErrNotExist from then on)
	With bool   `json:"with"` // error returned together with the last bytes (n > 0) instead of after them
}

type tcase struct {
	ID     int     `json:"id"`
	Rep    int     `json:"rep"`
	Kind   string  `json:"kind"` // intact trunc flip delete missing reenc readfault
	Var    int     `json:"var"`  // reenc: index into repMeta.Reencs
	File   int     `json:"file"`
	Off    int64   `json:"off"`
	Mask   int     `json:"mask"`
	Integ  int     `json:"integ"` // 0 none 1 quick 2 full
	Pre    bool    `json:"pre"`   // output path exists before the restore
	Faults []fault `json:"faults"`
	Exp    string  `json:"exp"` // outcome the model predicts: ok | error | any
	Cls    string  `json:"cls"` // offset class (coverage bookkeeping only)
	// Solo: run in a child process of its own.  A flipped top byte of a page's size prefix makes ltx allocate up to
	// 4 GiB (decoder.go:192 make([]byte, dataSize)); harmless in a fresh process (never touched), but the second such
	// allocation in one process re-zeroes gigabytes (measured: 0.15 s for the first, 10-110 s for each later one).
	Solo bool `json:"solo"`
}

type obs struct {
	T          int       `json:"t"`
	I          int       `json:"i"`
	Rep        int       `json:"rep"`
	Kind       string    `json:"kind"`
	Var        int       `json:"var"`
	File       int       `json:"file"`
	Off        int64     `json:"off"`
	Mask       int       `json:"mask"`
	Integ      int       `json:"integ"`
	Pre        bool      `json:"pre"`
	NF         int       `json:"nf"`
	Cls        string    `json:"cls"`
	Res        string    `json:"res"` // ok | error | panic
	Errc       string    `json:"errc"`
	Msg        string    `json:"msg"`
	OutExists  bool      `json:"outExists"`
	SideLeft   bool      `json:"sideLeft"` // <output>-wal or <output>-shm exists afterwards
	TmpExists  bool      `json:"tmpExists"`
	Out        []int     `json:"out"`
	Ref        []int     `json:"ref"`
	PreSame    bool      `json:"preSame"`
	OutDuring  bool      `json:"outDuring"`
	Opens      [][]int64 `json:"opens"`
	Exp        string    `json:"exp"`
	Detectable bool      `json:"detectable"` // FALSE only for the re-encoded input without an integrity check
	MustErr    bool      `json:"mustErr"`    // no valid plan / file reported missing at open: only an error is acceptable
	Ms         int       `json:"ms"`
}

// ---------------------------------------------------------------------------------------------------------------
// wrapping client: logs every OpenLTXFile, injects read faults, watches the output path

type openRec struct {
	file      int
	off       int64
	delivered int64
	faulted   int64 // 1: this stream was ended by an injected fault
}

type obsClient struct {
	litestream.ReplicaClient
	mu        sync.Mutex
	plan      []planFile
	victim    int // plan index the faults apply to (-1 none)
	faults    []fault
	missing   bool
	outPath   string
	watch     bool
	outDuring bool
	opens     []*openRec
	other     map[[3]int]int // files outside the recorded plan (a plan recomputed after a deletion): ids -1, -2, ...
}

func (c *obsClient) planIndex(level int, min, max ltx.TXID) int {
	for i, p := range c.plan {
		if p.Level == level && p.Min == int(min) && p.Max == int(max) {
			return i
		}
	}
	c.mu.Lock()
	defer c.mu.Unlock()
	if c.other == nil {
		c.other = map[[3]int]int{}
	}
	k := [3]int{level, int(min), int(max)}
	if v, ok := c.other[k]; ok {
		return v
	}
	c.other[k] = -1 - len(c.other)
	return c.other[k]
}

func (c *obsClient) checkOut() {
	if !c.watch {
		return
	}
	if _, err := os.Lstat(c.outPath); err == nil {
		c.mu.Lock()
		c.outDuring = true
		c.mu.Unlock()
	}
}

func (c *obsClient) OpenLTXFile(ctx context.Context, level int, minTXID, maxTXID ltx.TXID, offset, size int64) (io.ReadCloser, error) {
	c.checkOut()
	fi := c.planIndex(level, minTXID, maxTXID)
	target := fi >= 0 && fi == c.victim
	if target {
		if c.missing {
			return nil, fmt.Errorf("injected: open ltx file: %w", os.ErrNotExist)
		}
		c.mu.Lock()
		if len(c.faults) > 0 && c.faults[0].Kind == "gone" { // from now on the file does not exist
			c.mu.Unlock()
			return nil, fmt.Errorf("injected: open ltx file: %w", os.ErrNotExist)
		}
		if len(c.faults) > 0 && c.faults[0].Kind == "open" {
			c.faults = c.faults[1:]
			c.mu.Unlock()
			return nil, errors.New("injected transient open failure")
		}
		c.mu.Unlock()
	}
	rc, err := c.ReplicaClient.OpenLTXFile(ctx, level, minTXID, maxTXID, offset, size)
	if err != nil {
		return nil, err
	}
	rec := &openRec{file: fi, off: offset}
	c.mu.Lock()
	c.opens = append(c.opens, rec)
	c.mu.Unlock()
	return &faultReader{rc: rc, c: c, pos: offset, rec: rec, target: target}, nil
}

type faultReader struct {
	rc     io.ReadCloser
	c      *obsClient
	pos    int64
	rec    *openRec
	target bool
	dead   error
}

func (r *faultReader) next() *fault {
	r.c.mu.Lock()
	defer r.c.mu.Unlock()
	if len(r.c.faults) > 0 && r.c.faults[0].Kind != "open" && r.c.faults[0].Kind != "gone" {
		f := r.c.faults[0]
		return &f
	}
	return nil
}

func (r *faultReader) consume() {
	r.c.mu.Lock()
	r.c.faults = r.c.faults[1:]
	r.rec.faulted = 1
	r.c.mu.Unlock()
}

func ferr(f *fault) error {
	if f.Kind == "eof" {
		return io.EOF
	}
	return errors.New("injected read error")
}

func (r *faultReader) Read(p []byte) (int, error) {
	r.c.checkOut()
	if r.dead != nil {
		return 0, r.dead
	}
	if len(p) == 0 {
		return 0, nil
	}
	if r.target {
		if f := r.next(); f != nil {
			if r.pos >= f.At {
				r.consume()
				r.dead = ferr(f)
				return 0, r.dead
			}
			if r.pos+int64(len(p)) > f.At {
				p = p[:f.At-r.pos]
			}
			n, err := r.rc.Read(p)
			r.pos += int64(n)
			r.c.mu.Lock()
			r.rec.delivered += int64(n)
			r.c.mu.Unlock()
			if err != nil {
				return n, err
			}
			if r.pos == f.At && f.With {
				r.consume()
				r.dead = ferr(f)
				return n, r.dead
			}
			return n, nil
		}
	}
	n, err := r.rc.Read(p)
	r.pos += int64(n)
	r.c.mu.Lock()
	r.rec.delivered += int64(n)
	r.c.mu.Unlock()
	return n, err
}

func (r *faultReader) Close() error { return r.rc.Close() }

// ---------------------------------------------------------------------------------------------------------------
// helpers

func copyFile(src, dst string) error {
	b, err := os.ReadFile(src)
	if err != nil {
		return err
	}
	return os.WriteFile(dst, b, 0o644)
}

// linkTree mirrors src into dst with hard links, leaving out the file `skip` (relative path).
func linkTree(src, dst, skip string) error {
	return filepath.Walk(src, func(p string, info os.FileInfo, err error) error {
		if err != nil {
			return err
		}
		rel, _ := filepath.Rel(src, p)
		if info.IsDir() {
			return os.MkdirAll(filepath.Join(dst, rel), 0o755)
		}
		if rel == skip {
			return nil
		}
		if err := os.Link(p, filepath.Join(dst, rel)); err != nil {
			return copyFile(p, filepath.Join(dst, rel))
		}
		return nil
	})
}

func errClass(err error) string {
	s := err.Error()
	switch {
	case strings.Contains(s, "output path already exists"):
		return "exists"
	case strings.Contains(s, "max retries exceeded"):
		return "maxretries"
	case strings.Contains(s, "invalid ltx file"):
		return "size"
	case strings.Contains(s, "cannot calc restore plan"):
		return "plan"
	case strings.Contains(s, "integrity check"):
		return "integrity"
	case strings.Contains(s, "checksum mismatch"):
		return "checksum"
	case errors.Is(err, os.ErrNotExist) || strings.Contains(s, "no such file") || strings.Contains(s, "file does not exist"):
		return "notexist"
	case strings.Contains(s, "unexpected EOF") || strings.HasSuffix(s, "EOF"):
		return "eof"
	case strings.Contains(s, "decompress") || strings.Contains(s, "lz4"):
		return "lz4"
	case strings.Contains(s, "non-contiguous") || strings.Contains(s, "mismatched page sizes"):
		return "chain"
	case strings.Contains(s, "unmarshal") || strings.Contains(s, "invalid") || strings.Contains(s, "page number") ||
		strings.Contains(s, "unexpected pgno") || strings.Contains(s, "page index") || strings.Contains(s, "out-of-order") ||
		strings.Contains(s, "out-of-bounds") || strings.Contains(s, "nonsequential") || strings.Contains(s, "snapshot"):
		return "format"
	case strings.Contains(s, "context"):
		return "ctx"
	}
	return "other"
}

func short(s string, n int) string {
	s = strings.ReplaceAll(s, "\n", " | ")
	if len(s) > n {
		return s[:n]
	}
	return s
}

// preFor: what the pre-existing output holds (variant 1 of a pre-existing-output case: a zero-length file).
func preFor(pre bool, kind string, variant int, ps int) []byte {
	if pre && kind == "intact" && variant == 1 {
		return []byte{}
	}
	return preContent(ps)
}

func preContent(ps int) []byte {
	return bytes.Repeat([]byte("PRE-EXISTING OUTPUT -- must stay untouched\n"), 2*ps/43+1)[:2*ps]
}

// loadDict gives the reference pages the same ids in every process.
func loadDict(m *meta) (*core.Dict, map[string][]int, error) {
	d := core.NewDict()
	refs := map[string][]int{}
	for _, r := range m.Replicas {
		keys := make([]string, 0, len(r.Refs))
		for k := range r.Refs {
			keys = append(keys, k)
		}
		sort.Slice(keys, func(i, j int) bool {
			var a, b int
			fmt.Sscan(keys[i], &a)
			fmt.Sscan(keys[j], &b)
			return a < b
		})
		for _, k := range keys {
			st, err := core.ReadPages(r.Refs[k], r.PageSize, d)
			if err != nil {
				return nil, nil, err
			}
			refs[fmt.Sprintf("%d/%s", r.ID, k)] = st.Pg
		}
		st, err := core.ReadPages(r.PrePath, r.PageSize, d)
		if err != nil {
			return nil, nil, err
		}
		refs[fmt.Sprintf("%d/pre", r.ID)] = st.Pg
	}
	return d, refs, nil
}

func restoreTo(ctx context.Context, client litestream.ReplicaClient, out string, txid int, integ int) error {
	rep := litestream.NewReplicaWithClient(nil, client)
	opt := litestream.NewRestoreOptions()
	opt.OutputPath = out
	opt.TXID = ltx.TXID(txid)
	opt.IntegrityCheck = litestream.IntegrityCheckMode(integ)
	return rep.Restore(ctx, opt)
}

// ---------------------------------------------------------------------------------------------------------------
// build

func describeLTX(path string) (frames []int64, pgnos []int, pbEnd int64, err error) {
	f, err := os.Open(path)
	if err != nil {
		return nil, nil, 0, err
	}
	defer f.Close()
	dec := ltx.NewDecoder(f)
	if err = dec.Verify(); err != nil {
		return nil, nil, 0, err
	}
	idx := dec.PageIndex()
	type e struct {
		pg  int
		off int64
		sz  int64
	}
	var es []e
	for pg, el := range idx {
		es = append(es, e{int(pg), el.Offset, el.Size})
	}
	sort.Slice(es, func(i, j int) bool { return es[i].off < es[j].off })
	pbEnd = ltx.HeaderSize
	for _, x := range es {
		frames = append(frames, x.off)
		pgnos = append(pgnos, x.pg)
		if x.off+x.sz > pbEnd {
			pbEnd = x.off + x.sz
		}
	}
	pbEnd += ltx.PageHeaderSize
	return frames, pgnos, pbEnd, nil
}

// damage rewrites one page image in place.
func damage(d []byte, pgno int, style string, rnd *rand.Rand) {
	h := 0
	if pgno == 1 {
		h = 100
	}
	switch style {
	case "zero":
		for i := range d {
			d[i] = 0
		}
	case "ptr":
		// keep the b-tree page header, point every cell at the last bytes of the page
		typ := d[h]
		if typ == 2 || typ == 5 || typ == 10 || typ == 13 {
			n := int(d[h+3])<<8 | int(d[h+4])
			arr := h + 8
			if typ == 2 || typ == 5 {
				arr = h + 12
			}
			for k := 0; k < n && arr+2*k+1 < len(d); k++ {
				v := len(d) - 3
				d[arr+2*k], d[arr+2*k+1] = byte(v>>8), byte(v)
			}
		} else {
			for i := h; i < h+16 && i < len(d); i++ {
				d[i] = 0xFF
			}
		}
	case "bthdr":
		for i := h; i < h+64 && i < len(d); i++ {
			d[i] = 0xFF
		}
	default: // garbage
		rnd.Read(d)
	}
}

// reencode rewrites an LTX file with the pages `pgnos` damaged; header, page index, file checksum are all valid.
func reencode(src, dst string, pgnos []int, style string, seed int64) error {
	in, err := os.Open(src)
	if err != nil {
		return err
	}
	defer in.Close()
	dec := ltx.NewDecoder(in)
	if err := dec.DecodeHeader(); err != nil {
		return err
	}
	hdr := dec.Header()
	type pg struct {
		h ltx.PageHeader
		d []byte
	}
	var pages []pg
	for {
		var ph ltx.PageHeader
		buf := make([]byte, hdr.PageSize)
		if err := dec.DecodePage(&ph, buf); err == io.EOF {
			break
		} else if err != nil {
			return err
		}
		pages = append(pages, pg{ph, buf})
	}
	if err := dec.Close(); err != nil {
		return err
	}
	out, err := os.Create(dst)
	if err != nil {
		return err
	}
	defer out.Close()
	enc, err := ltx.NewEncoder(out)
	if err != nil {
		return err
	}
	if err := enc.EncodeHeader(hdr); err != nil {
		return err
	}
	rnd := rand.New(rand.NewSource(seed))
	found := 0
	for _, p := range pages {
		for _, want := range pgnos {
			if int(p.h.Pgno) == want {
				found++
				damage(p.d, want, style, rnd)
			}
		}
		if err := enc.EncodePage(ltx.PageHeader{Pgno: p.h.Pgno}, p.d); err != nil {
			return err
		}
	}
	if found != len(pgnos) {
		return fmt.Errorf("pages %v not all in file", pgnos)
	}
	enc.SetPostApplyChecksum(dec.Trailer().PostApplyChecksum)
	return enc.Close()
}

// pragmaCheck runs the PRAGMA with the harness's own SQLite: bad = anything but a single "ok"; fails = the statement errors.
func pragmaCheck(ctx context.Context, path, pragma string) (bad, fails bool) {
	qd, err := sql.Open("sqlite", path)
	if err != nil {
		return true, true
	}
	defer func() {
		qd.Close()
		os.Remove(path + "-wal")
		os.Remove(path + "-shm")
	}()
	var res string
	if err := qd.QueryRowContext(ctx, "PRAGMA "+pragma).Scan(&res); err != nil {
		return true, true
	}
	return res != "ok", false
}

func buildReplica(ctx context.Context, root string, sp repSpec) (rm repMeta, err error) {
	rm = repMeta{ID: sp.ID, PageSize: sp.PS, Seed: sp.Seed, Steps: sp.Steps, Refs: map[string]string{}, Del: []delInfo{}, Plan: []planFile{}}
	dir := filepath.Join(root, fmt.Sprintf("r%d", sp.ID))
	if err = os.MkdirAll(filepath.Join(dir, "src"), 0o755); err != nil {
		return
	}
	tmp := filepath.Join(dir, "tmp")
	os.MkdirAll(tmp, 0o755)
	dbPath := filepath.Join(dir, "src", "db")
	rm.Dir = filepath.Join(dir, "replica")
	sqldb, err := sql.Open("sqlite", "file:"+dbPath+"?_pragma=busy_timeout(5000)&_pragma=wal_autocheckpoint(0)")
	if err != nil {
		return
	}
	defer sqldb.Close()
	sqldb.SetMaxOpenConns(1)
	for _, q := range []string{fmt.Sprintf("PRAGMA page_size = %d", sp.PS), "PRAGMA journal_mode = wal",
		"CREATE TABLE t (id INTEGER PRIMARY KEY, v BLOB)", "CREATE INDEX ti ON t (substr(v, 1, 8))"} {
		if _, err = sqldb.ExecContext(ctx, q); err != nil {
			return rm, fmt.Errorf("%s: %w", q, err)
		}
	}
	db := litestream.NewDB(dbPath)
	db.Logger = discard
	db.MonitorInterval = 0
	db.ShutdownSyncTimeout = 0
	client := file.NewReplicaClient(rm.Dir)
	client.SetLogger(discard)
	db.Replica = litestream.NewReplicaWithClient(db, client)
	db.Replica.MonitorEnabled = false
	if err = db.Open(); err != nil {
		return rm, fmt.Errorf("open: %w", err)
	}
	closed := false
	defer func() {
		if !closed {
			_ = db.Close(context.Background())
		}
	}()
	rnd := rand.New(rand.NewSource(sp.Seed))
	nrows := 0
	blob := func() []byte {
		b := make([]byte, sp.PS*6/10+rnd.Intn(sp.PS/4))
		rnd.Read(b)
		return b
	}
	for _, st := range sp.Steps {
		switch st {
		case "w":
			tx, e := sqldb.BeginTx(ctx, nil)
			if e != nil {
				return rm, e
			}
			for k := 0; k < 2; k++ {
				nrows++
				if _, e := tx.Exec("INSERT INTO t (id, v) VALUES (?, ?)", nrows, blob()); e != nil {
					return rm, e
				}
			}
			if nrows > 2 {
				if _, e := tx.Exec("UPDATE t SET v = ? WHERE id = ?", blob(), 1+rnd.Intn(nrows-2)); e != nil {
					return rm, e
				}
			}
			if e := tx.Commit(); e != nil {
				return rm, e
			}
			if e := db.Sync(ctx); e != nil {
				return rm, fmt.Errorf("db sync: %w", e)
			}
			if e := db.Replica.Sync(ctx); e != nil {
				return rm, fmt.Errorf("replica sync: %w", e)
			}
		case "snap":
			if _, e := db.Snapshot(ctx); e != nil {
				return rm, fmt.Errorf("snapshot: %w", e)
			}
		case "c1", "c2":
			lvl := int(st[1] - '0')
			if _, e := db.Compact(ctx, lvl); e != nil {
				return rm, fmt.Errorf("compact %d: %w", lvl, e)
			}
		default:
			return rm, fmt.Errorf("unknown step %q", st)
		}
	}
	d := core.NewDict()
	src := core.ObserveLogical(dbPath, sp.PS, d, tmp)
	_ = db.Close(context.Background())
	closed = true

	infos, err := litestream.CalcRestorePlan(ctx, client, 0, time.Time{}, discard)
	if err != nil {
		return rm, fmt.Errorf("plan: %w", err)
	}
	for _, in := range infos {
		p := planFile{Level: in.Level, Min: int(in.MinTXID), Max: int(in.MaxTXID), Size: in.Size}
		abs := client.LTXFilePath(in.Level, in.MinTXID, in.MaxTXID)
		p.Rel, _ = filepath.Rel(rm.Dir, abs)
		if p.Frames, p.Pgnos, p.PbEnd, err = describeLTX(abs); err != nil {
			return rm, fmt.Errorf("describe %s: %w", p.Rel, err)
		}
		p.Trailer = p.Size - ltx.TrailerSize
		rm.Plan = append(rm.Plan, p)
		rm.Latest = int(in.MaxTXID)
	}
	ref := func(txid int) error {
		k := fmt.Sprint(txid)
		if _, ok := rm.Refs[k]; ok {
			return nil
		}
		out := filepath.Join(dir, "ref-"+k+".db")
		c := file.NewReplicaClient(rm.Dir)
		c.SetLogger(discard)
		if e := restoreTo(ctx, c, out, txid, 0); e != nil {
			return fmt.Errorf("reference restore at %d: %w", txid, e)
		}
		rm.Refs[k] = out
		return nil
	}
	if err = ref(rm.Latest); err != nil {
		return
	}
	st, e := core.ReadPages(rm.Refs[fmt.Sprint(rm.Latest)], sp.PS, d)
	if e != nil {
		return rm, e
	}
	rm.NPages = st.N
	rm.Anchored = src.Err == "none" && fmt.Sprint(src.State.Pg) == fmt.Sprint(st.Pg)
	rm.PrePath = filepath.Join(dir, "pre.bin")
	if err = os.WriteFile(rm.PrePath, preContent(sp.PS), 0o644); err != nil {
		return
	}
	// what a restore has to produce when one plan file is gone from the directory
	for i, p := range rm.Plan {
		cp := filepath.Join(tmp, fmt.Sprintf("del%d", i))
		if err = linkTree(rm.Dir, cp, p.Rel); err != nil {
			return
		}
		c := file.NewReplicaClient(cp)
		c.SetLogger(discard)
		di := delInfo{File: i}
		if pl, e := litestream.CalcRestorePlan(ctx, c, 0, time.Time{}, discard); e == nil && len(pl) > 0 {
			di.PlanOK, di.MaxTX = true, int(pl[len(pl)-1].MaxTXID)
			if e := ref(di.MaxTX); e != nil {
				// the intact replica cannot be restored at that TXID: any successful restore would be unjudgeable
				di.PlanOK, di.MaxTX = false, 0
			}
		}
		rm.Del = append(rm.Del, di)
		os.RemoveAll(cp)
	}
	// corrupted-but-decodable family: every LTX integrity tag valid, the database content damaged
	rm.Reencs = []reencInfo{}
	refBytes, _ := os.ReadFile(rm.Refs[fmt.Sprint(rm.Latest)])
	var rootPg int
	_ = sqldb.QueryRowContext(ctx, "SELECT rootpage FROM sqlite_master WHERE name = 't'").Scan(&rootPg)
	leafPg := 0
	for pg := 2; pg < rm.NPages; pg++ { // a table leaf other than t's root and the last page (t is the only table with rows)
		if pg != rootPg && refBytes[(pg-1)*sp.PS] == 0x0D {
			leafPg = pg
			break
		}
	}
	lastCarrier := func(pg int) int { // the last plan file that carries the page: its image is the one restored
		for i := len(rm.Plan) - 1; i >= 0; i-- {
			for _, q := range rm.Plan[i].Pgnos {
				if q == pg {
					return i
				}
			}
		}
		return -1
	}
	type target struct {
		label string
		file  int
		pgnos []int
	}
	var targets []target
	for _, t := range []struct {
		label string
		pg    int
	}{{"p1", 1}, {"root", rootPg}, {"leaf", leafPg}, {"last", rm.NPages}} {
		if t.pg >= 1 {
			if f := lastCarrier(t.pg); f >= 0 {
				targets = append(targets, target{t.label, f, []int{t.pg}})
			}
		}
	}
	if p0 := rm.Plan[0].Pgnos; len(p0) >= 2 { // two pages of the first (snapshot) file at once
		// prefer pages whose restored image comes from this file (no later plan file carries them)
		var own, all []int
		for _, q := range p0 {
			if q == 1 {
				continue
			}
			all = append(all, q)
			if lastCarrier(q) == 0 {
				own = append(own, q)
			}
		}
		pick := own
		if len(pick) < 2 {
			pick = all
		}
		if len(pick) >= 2 {
			targets = append(targets, target{"two", 0, []int{pick[0], pick[len(pick)-1]}})
		}
	}
	for _, tg := range targets {
		for _, style := range []string{"garbage", "zero", "ptr", "bthdr"} {
			ri := reencInfo{File: tg.file, Pgnos: tg.pgnos, Style: style, Label: tg.label}
			ri.Path = filepath.Join(dir, fmt.Sprintf("reenc-%d.ltx", len(rm.Reencs)))
			rel := rm.Plan[tg.file].Rel
			if e := reencode(filepath.Join(rm.Dir, rel), ri.Path, tg.pgnos, style, sp.Seed+int64(len(rm.Reencs))); e != nil {
				ri.Note = "reencode: " + e.Error()
				rm.Reencs = append(rm.Reencs, ri)
				continue
			}
			cp := filepath.Join(tmp, "reenc")
			os.RemoveAll(cp)
			if err = linkTree(rm.Dir, cp, rel); err != nil {
				return
			}
			if err = copyFile(ri.Path, filepath.Join(cp, rel)); err != nil {
				return
			}
			c := file.NewReplicaClient(cp)
			c.SetLogger(discard)
			out := filepath.Join(tmp, "reenc.db")
			os.Remove(out)
			if e := restoreTo(ctx, c, out, 0, 0); e != nil {
				ri.Note = "restore of re-encoded input failed: " + short(e.Error(), 120)
			} else {
				ri.OK = true
				ob, _ := os.ReadFile(out)
				ri.Differs = !bytes.Equal(ob, refBytes)
				var f1, f2 bool
				ri.BadQuick, f1 = pragmaCheck(ctx, out, "quick_check")
				ri.BadFull, f2 = pragmaCheck(ctx, out, "integrity_check")
				ri.PragmaFails = f1 || f2
			}
			os.RemoveAll(cp)
			os.Remove(out)
			rm.Reencs = append(rm.Reencs, ri)
		}
	}
	os.RemoveAll(tmp)
	return rm, nil
}

func modeBuild(specPath, work string) error {
	b, err := os.ReadFile(specPath)
	if err != nil {
		return err
	}
	var in struct {
		Replicas []repSpec `json:"replicas"`
	}
	if err := json.Unmarshal(b, &in); err != nil {
		return err
	}
	m := meta{Work: work, Replicas: make([]repMeta, len(in.Replicas))}
	var wg sync.WaitGroup
	errs := make([]error, len(in.Replicas))
	for i := range in.Replicas {
		wg.Add(1)
		go func(i int) {
			defer wg.Done()
			m.Replicas[i], errs[i] = buildReplica(context.Background(), work, in.Replicas[i])
		}(i)
	}
	wg.Wait()
	for i, e := range errs {
		if e != nil {
			return fmt.Errorf("replica %d: %w", in.Replicas[i].ID, e)
		}
	}
	out, _ := json.Marshal(&m)
	return os.WriteFile(filepath.Join(work, "meta.json"), out, 0o644)
}

// ---------------------------------------------------------------------------------------------------------------
// one case

func caseDir(work string, id int) string { return filepath.Join(work, fmt.Sprintf("c%d", id)) }

func baseObs(c *tcase, rm *repMeta, refs map[string][]int) obs {
	o := obs{T: c.ID, Rep: c.Rep, Kind: c.Kind, Var: c.Var, File: c.File, Off: c.Off, Mask: c.Mask, Integ: c.Integ, Pre: c.Pre,
		NF: len(c.Faults), Cls: c.Cls, Errc: "none", Msg: "", Out: []int{}, Ref: []int{}, Opens: [][]int64{}, Exp: c.Exp,
		Detectable: true, PreSame: true}
	refTX := rm.Latest
	switch c.Kind {
	case "delete":
		di := rm.Del[c.File]
		if di.PlanOK {
			refTX = di.MaxTX
		} else {
			o.MustErr = true
		}
	case "missing":
		o.MustErr = true
	case "reenc":
		// All integrity tags of the input are valid: only the SQLite integrity check that was asked for can tell it
		// from a genuine replica (the "original" it encodes IS the damaged database).  Detectable = that PRAGMA, run
		// by the harness's own SQLite on the database this input restores to, does not answer "ok".
		ri := rm.Reencs[c.Var]
		o.Detectable = (c.Integ == 1 && ri.BadQuick) || (c.Integ == 2 && ri.BadFull) || !ri.Differs
	}
	if c.Pre {
		o.MustErr = true
	}
	if r, ok := refs[fmt.Sprintf("%d/%d", rm.ID, refTX)]; ok {
		o.Ref = r
	}
	return o
}

// postObserve fills in what is on disk after the restore returned (or the process died).
func postObserve(o *obs, dir string, rm *repMeta, d *core.Dict) {
	out := filepath.Join(dir, "out", "db")
	if _, err := os.Lstat(out); err == nil {
		o.OutExists = true
		if st, err := core.ReadPages(out, rm.PageSize, d); err == nil {
			o.Out = st.Pg
		}
	}
	if _, err := os.Lstat(out + ".tmp"); err == nil {
		o.TmpExists = true
	}
	for _, sfx := range []string{"-wal", "-shm"} {
		if _, err := os.Lstat(out + sfx); err == nil {
			o.SideLeft = true
		}
	}
	if o.Pre {
		b, err := os.ReadFile(out)
		o.PreSame = err == nil && bytes.Equal(b, preFor(o.Pre, o.Kind, o.Var, rm.PageSize))
	}
}

func prepare(c *tcase, rm *repMeta, dir string) (repDir string, err error) {
	if err = os.MkdirAll(dir, 0o755); err != nil {
		return
	}
	repDir = rm.Dir
	var victim string
	if c.File >= 0 && c.File < len(rm.Plan) {
		victim = rm.Plan[c.File].Rel
	}
	switch c.Kind {
	case "trunc", "flip", "delete", "reenc":
		repDir = filepath.Join(dir, "replica")
		if err = linkTree(rm.Dir, repDir, victim); err != nil {
			return
		}
		if c.Kind == "delete" {
			break
		}
		var b []byte
		if c.Kind == "reenc" {
			b, err = os.ReadFile(rm.Reencs[c.Var].Path)
		} else {
			b, err = os.ReadFile(filepath.Join(rm.Dir, victim))
		}
		if err != nil {
			return
		}
		switch c.Kind {
		case "trunc":
			if c.Off < int64(len(b)) {
				b = b[:c.Off]
			}
		case "flip":
			if c.Off < int64(len(b)) {
				b = append([]byte{}, b...)
				b[c.Off] ^= byte(c.Mask)
			}
		}
		err = os.WriteFile(filepath.Join(repDir, victim), b, 0o644)
	}
	if err == nil && c.Pre {
		if err = os.MkdirAll(filepath.Join(dir, "out"), 0o755); err == nil {
			err = os.WriteFile(filepath.Join(dir, "out", "db"), preFor(c.Pre, c.Kind, c.Var, rm.PageSize), 0o644)
		}
	}
	return
}

func runCase(c *tcase, rm *repMeta, work string, d *core.Dict, dmu *sync.Mutex, refs map[string][]int) (o obs) {
	o = baseObs(c, rm, refs)
	dir := caseDir(work, c.ID)
	defer os.RemoveAll(dir)
	repDir, err := prepare(c, rm, dir)
	if err != nil {
		o.Res, o.Errc, o.Msg = "machinery", "prepare", short(err.Error(), 160)
		return
	}
	fc := file.NewReplicaClient(repDir)
	fc.SetLogger(discard)
	oc := &obsClient{ReplicaClient: fc, plan: rm.Plan, victim: -1, outPath: filepath.Join(dir, "out", "db"), watch: !c.Pre}
	if c.Kind == "readfault" || c.Kind == "missing" {
		oc.victim = c.File
		oc.faults = append([]fault{}, c.Faults...)
		oc.missing = c.Kind == "missing"
	}
	ctx, cancel := context.WithTimeout(context.Background(), 60*time.Second)
	defer cancel()
	t0 := time.Now()
	func() {
		defer func() {
			if r := recover(); r != nil {
				o.Res, o.Errc, o.Msg = "panic", "recovered", short(fmt.Sprint(r), 160)
			}
		}()
		if e := restoreTo(ctx, oc, oc.outPath, 0, c.Integ); e != nil {
			o.Res, o.Errc, o.Msg = "error", errClass(e), short(e.Error(), 160)
		} else {
			o.Res = "ok"
		}
	}()
	o.Ms = int(time.Since(t0) / time.Millisecond)
	oc.mu.Lock()
	o.OutDuring = oc.outDuring
	for _, r := range oc.opens {
		o.Opens = append(o.Opens, []int64{int64(r.file), r.off, r.delivered, r.faulted})
	}
	oc.mu.Unlock()
	dmu.Lock()
	postObserve(&o, dir, rm, d)
	dmu.Unlock()
	return
}

// ---------------------------------------------------------------------------------------------------------------
// child: runs a batch, writes {"start":id} before and the observation after every case (unbuffered)

func modeChild(metaPath, inPath, outPath string, j int) error {
	var m meta
	b, err := os.ReadFile(metaPath)
	if err != nil {
		return err
	}
	if err := json.Unmarshal(b, &m); err != nil {
		return err
	}
	var cases []tcase
	if b, err = os.ReadFile(inPath); err != nil {
		return err
	}
	if err := json.Unmarshal(b, &cases); err != nil {
		return err
	}
	d, refs, err := loadDict(&m)
	if err != nil {
		return err
	}
	f, err := os.OpenFile(outPath, os.O_CREATE|os.O_WRONLY|os.O_APPEND, 0o644)
	if err != nil {
		return err
	}
	defer f.Close()
	var wmu, dmu sync.Mutex
	emit := func(v any) {
		b, _ := json.Marshal(v)
		wmu.Lock()
		f.Write(append(b, '\n'))
		wmu.Unlock()
	}
	byID := map[int]*repMeta{}
	for i := range m.Replicas {
		byID[m.Replicas[i].ID] = &m.Replicas[i]
	}
	sem := make(chan struct{}, j)
	var wg sync.WaitGroup
	for i := range cases {
		c := &cases[i]
		rm := byID[c.Rep]
		if rm == nil {
			return fmt.Errorf("case %d: unknown replica %d", c.ID, c.Rep)
		}
		sem <- struct{}{}
		wg.Add(1)
		go func() {
			defer wg.Done()
			defer func() { <-sem }()
			emit(map[string]int{"start": c.ID})
			o := runCase(c, rm, m.Work, d, &dmu, refs)
			emit(&o)
		}()
	}
	wg.Wait()
	return nil
}

// ---------------------------------------------------------------------------------------------------------------
// run: shards the cases over child processes, attributes crashes

type batch struct {
	cases []tcase
	j     int
}

func modeRun(metaPath, inPath, outPath string, par, bsize int) error {
	var m meta
	b, err := os.ReadFile(metaPath)
	if err != nil {
		return err
	}
	if err := json.Unmarshal(b, &m); err != nil {
		return err
	}
	var cases []tcase
	if b, err = os.ReadFile(inPath); err != nil {
		return err
	}
	if err := json.Unmarshal(b, &cases); err != nil {
		return err
	}
	d, refs, err := loadDict(&m)
	if err != nil {
		return err
	}
	byID := map[int]*repMeta{}
	for i := range m.Replicas {
		byID[m.Replicas[i].ID] = &m.Replicas[i]
	}
	caseByID := map[int]*tcase{}
	var disk, slow, solo []tcase
	for i := range cases {
		caseByID[cases[i].ID] = &cases[i]
		if cases[i].Solo {
			solo = append(solo, cases[i])
		} else if len(cases[i].Faults) > 0 {
			slow = append(slow, cases[i])
		} else {
			disk = append(disk, cases[i])
		}
	}
	queue := make(chan batch, len(cases)+16)
	var pending sync.WaitGroup
	push := func(cs []tcase, j int) {
		pending.Add(1)
		queue <- batch{cs, j}
	}
	for i := 0; i < len(disk); i += bsize {
		e := i + bsize
		if e > len(disk) {
			e = len(disk)
		}
		push(disk[i:e], 1)
	}
	for i := range solo {
		push(solo[i:i+1], 1)
	}
	// read-fault cases mostly sleep in litestream's back-off: many per child
	const slowJ = 24
	for i := 0; i < len(slow); i += slowJ * 2 {
		e := i + slowJ*2
		if e > len(slow) {
			e = len(slow)
		}
		push(slow[i:e], slowJ)
	}
	var rmu sync.Mutex
	results := map[int]obs{}
	crashes := 0
	var firstErr error
	self, _ := os.Executable()
	var bn int
	worker := func() {
		for bt := range queue {
			func() {
				defer pending.Done()
				rmu.Lock()
				bn++
				k := bn
				rmu.Unlock()
				bin := filepath.Join(m.Work, fmt.Sprintf("b%d.json", k))
				bout := filepath.Join(m.Work, fmt.Sprintf("b%d.out", k))
				jb, _ := json.Marshal(bt.cases)
				os.WriteFile(bin, jb, 0o644)
				defer os.Remove(bin)
				defer os.Remove(bout)
				cmd := exec.Command(self, "-mode", "child", "-meta", metaPath, "-in", bin, "-out", bout, "-j", fmt.Sprint(bt.j))
				var stderr bytes.Buffer
				cmd.Stderr = &stderr
				cmd.Env = append(os.Environ(), "GOTRACEBACK=single", "GOMAXPROCS=4", "GOGC=off")
				runErr := cmd.Run()
				started := map[int]bool{}
				done := map[int]bool{}
				if fh, e := os.Open(bout); e == nil {
					sc := bufio.NewScanner(fh)
					sc.Buffer(make([]byte, 1<<20), 1<<26)
					for sc.Scan() {
						var probe map[string]json.RawMessage
						if json.Unmarshal(sc.Bytes(), &probe) != nil {
							continue // torn last line of a dying child
						}
						if s, ok := probe["start"]; ok {
							var id int
							json.Unmarshal(s, &id)
							started[id] = true
							continue
						}
						var o obs
						if json.Unmarshal(sc.Bytes(), &o) == nil {
							done[o.T] = true
							rmu.Lock()
							results[o.T] = o
							rmu.Unlock()
						}
					}
					fh.Close()
				}
				if runErr == nil {
					return
				}
				var suspects, rest []tcase
				for _, c := range bt.cases {
					switch {
					case done[c.ID]:
					case started[c.ID]:
						suspects = append(suspects, c)
					default:
						rest = append(rest, c)
					}
				}
				se := stderr.String()
				if len(suspects) == 0 {
					rmu.Lock()
					if firstErr == nil {
						firstErr = fmt.Errorf("child failed without a started case: %v: %s", runErr, short(se, 600))
					}
					rmu.Unlock()
					return
				}
				if len(suspects) == 1 {
					c := suspects[0]
					rm := byID[c.Rep]
					o := baseObs(&c, rm, refs)
					o.Res, o.Errc = "panic", "crash"
					o.Msg = panicSummary(se)
					rmu.Lock()
					postObserve(&o, caseDir(m.Work, c.ID), rm, d)
					results[c.ID] = o
					crashes++
					rmu.Unlock()
					os.RemoveAll(caseDir(m.Work, c.ID))
				} else {
					for _, c := range suspects {
						os.RemoveAll(caseDir(m.Work, c.ID))
						push([]tcase{c}, 1)
					}
				}
				if len(rest) > 0 {
					push(rest, bt.j)
				}
			}()
		}
	}
	for i := 0; i < par; i++ {
		go worker()
	}
	pending.Wait()
	close(queue)
	if firstErr != nil {
		return firstErr
	}
	f, err := os.Create(outPath)
	if err != nil {
		return err
	}
	w := bufio.NewWriterSize(f, 1<<20)
	enc := json.NewEncoder(w)
	n, mach := 0, 0
	for i := range cases {
		o, ok := results[cases[i].ID]
		if !ok {
			return fmt.Errorf("case %d has no result", cases[i].ID)
		}
		if o.Res == "machinery" {
			mach++
		}
		enc.Encode(&o)
		n++
	}
	w.Flush()
	f.Close()
	fmt.Printf("{\"cases\": %d, \"crashes\": %d, \"machinery\": %d}\n", n, crashes, mach)
	return nil
}

// panicSummary: the "panic:" / "fatal error:" line and the first litestream / ltx frame of the trace.
func panicSummary(se string) string {
	var head, frame string
	for _, ln := range strings.Split(se, "\n") {
		if head == "" && (strings.HasPrefix(ln, "panic:") || strings.HasPrefix(ln, "fatal error:")) {
			head = strings.TrimSpace(ln)
		}
		if head != "" && frame == "" && (strings.HasPrefix(ln, "github.com/superfly/ltx") || strings.HasPrefix(ln, "github.com/benbjohnson/litestream")) {
			frame = strings.TrimSpace(ln)
			if k := strings.Index(frame, "("); k > 0 && strings.HasSuffix(frame, ")") {
				if j := strings.LastIndex(frame, "("); j > 0 {
					frame = frame[:j]
				}
			}
		}
	}
	if head == "" {
		head = "child died: " + short(se, 120)
	}
	return short(head+" @ "+frame, 200)
}

func main() {
	mode := flag.String("mode", "", "build | run | child")
	spec := flag.String("spec", "", "build: replica specs json")
	work := flag.String("work", "", "build: scratch directory (meta.json is written there)")
	metaPath := flag.String("meta", "", "run/child: meta.json")
	in := flag.String("in", "", "run/child: cases json")
	out := flag.String("out", "", "run/child: ndjson output")
	par := flag.Int("p", 16, "run: concurrent child processes")
	bsize := flag.Int("batch", 150, "run: cases per child")
	j := flag.Int("j", 1, "child: concurrent cases")
	flag.Parse()
	slog.SetDefault(discard)
	var err error
	switch *mode {
	case "build":
		err = modeBuild(*spec, *work)
	case "run":
		err = modeRun(*metaPath, *in, *out, *par, *bsize)
	case "child":
		err = modeChild(*metaPath, *in, *out, *j)
	default:
		err = fmt.Errorf("unknown mode %q", *mode)
	}
	if err != nil {
		fmt.Fprintln(os.Stderr, "restorefault:", err)
		os.Exit(2)
	}
}

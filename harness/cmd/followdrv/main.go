// Command followdrv is the driver of C16 (follow-mode restore converges and resumes after being killed).
//
// Parent (default): for every case of -in
//  1. the PRIMARY = real SQLite + real litestream (file replica) executes the schedule through harness/core
//     (writes, SyncAndWait, Compact, Snapshot, retention passes). The pseudo operation ["View"] publishes the replica
//     as it is at that point: the directory is copied (mtimes kept) to views/<k>. A view is what a poll of the follower
//     can see; the primary's history does not depend on the follower, so "every poll timing" = every assignment of
//     views to polls.
//  2. the FOLLOWER = the real Replica.Restore(Follow: true) in a CHILD PROCESS (this binary with -child). One child
//     run = one session {plan: [[view, polls, mid]...], end: stop|kill}: the child's replica client is a gate over the
//     view directories that serves view v for exactly `polls` polls of applyNewLTXFiles (polls = 0: until two polls in
//     a row applied nothing = quiescent), optionally switching to the next view after `mid` client calls of the last
//     of those polls (a replica that changes in the middle of a poll). A session after the first resumes from the
//     output database + "-txid" sidecar of the previous one.
//  3. after every session: sidecar TXID, follower pages (header bytes 18-19 and 24-27 of page 1 masked on both sides)
//     against an ordinary Replica.Restore of the last served view, files applied per poll, error class of the child.
//  4. kill points (case.kill): session j is run under the ptrace supervisor (cmd/killsup) once to count and log the
//     file-system-mutating system calls below the follower directory (record kind "sys": the publish protocol), then
//     once per chosen call index i from a copy of the state before session j: the whole process tree is killed
//     immediately BEFORE call i; the follower is restarted on the final view and driven to quiescence (kind "kill").
//
// Output: ndjson, one record per session / kill point, all records with the same fields (judged by FollowObs.tla).
package main

import (
	"bufio"
	"context"
	"encoding/json"
	"flag"
	"fmt"
	"io"
	"log/slog"
	"os"
	"os/exec"
	"path/filepath"
	"runtime"
	"sort"
	"strconv"
	"strings"
	"sync"
	"syscall"
	"time"

	"github.com/benbjohnson/litestream"
	"github.com/benbjohnson/litestream/file"
	"github.com/superfly/ltx"
	_ "modernc.org/sqlite"

	"verifharness/core"
)

var discard = slog.New(slog.NewTextHandler(io.Discard, nil))

// ------------------------------------------------------------------------------------------------ child

type planEntry struct{ view, polls, mid int }

func parsePlan(s string) (out []planEntry) {
	for _, p := range strings.Split(s, ",") {
		if p == "" {
			continue
		}
		w := strings.Split(p, ":")
		e := planEntry{}
		e.view, _ = strconv.Atoi(w[0])
		if len(w) > 1 {
			e.polls, _ = strconv.Atoi(w[1])
		}
		if len(w) > 2 {
			e.mid, _ = strconv.Atoi(w[2])
		}
		out = append(out, e)
	}
	return
}

// gate is the follower's replica client: a file replica client per view directory, switched at poll boundaries.
type gate struct {
	mu      sync.Mutex
	views   string
	plan    []planEntry
	end     string
	out     string
	cur     int // plan entry in effect
	nPoll   int // polls started in this entry
	nCall   int // client calls in the current poll
	polling bool
	opens   int // OpenLTXFile calls of the current poll
	idle    int // consecutive completed polls without an OpenLTXFile
	done    bool
	mixed   bool
	cancel  context.CancelFunc
	log     *os.File
	clients map[int]*file.ReplicaClient
}

func (g *gate) line(m map[string]any) {
	b, _ := json.Marshal(m)
	g.log.Write(append(b, '\n'))
}

func (g *gate) client(v int) *file.ReplicaClient {
	c := g.clients[v]
	if c == nil {
		c = file.NewReplicaClient(filepath.Join(g.views, strconv.Itoa(v)))
		c.SetLogger(discard)
		g.clients[v] = c
	}
	return c
}

func (g *gate) viewNow() int {
	e := g.plan[g.cur]
	if e.mid > 0 && e.polls > 0 && g.nPoll == e.polls && g.nCall >= e.mid && g.cur+1 < len(g.plan) {
		if g.polling && !g.mixed && g.plan[g.cur+1].view != e.view {
			g.mixed = true
			g.line(map[string]any{"ev": "mixed"})
		}
		return g.plan[g.cur+1].view
	}
	return e.view
}

func readSide(out string) int {
	txid, err := litestream.ReadTXIDFile(out)
	if err != nil {
		return -1
	}
	return int(txid)
}

func (g *gate) finish() {
	g.done = true
	if g.end == "kill" {
		g.line(map[string]any{"ev": "selfkill"})
		syscall.Kill(os.Getpid(), syscall.SIGKILL)
		select {}
	}
	g.line(map[string]any{"ev": "cancel"})
	g.cancel()
}

// pollStart: the level-0 listing with a seek position is the first client call of applyNewLTXFiles (replica.go:879).
func (g *gate) pollStart() {
	if g.polling {
		if g.opens == 0 {
			g.idle++
		} else {
			g.idle = 0
		}
	}
	if g.done {
		return
	}
	e := g.plan[g.cur]
	if e.polls > 0 && g.nPoll >= e.polls {
		if g.cur+1 >= len(g.plan) {
			g.finish()
			return
		}
		g.cur++
		g.nPoll = 0
		e = g.plan[g.cur]
	}
	if e.polls == 0 && g.polling && g.idle >= 2 {
		if g.cur+1 >= len(g.plan) {
			g.line(map[string]any{"ev": "quiescent"})
			g.finish()
			return
		}
		g.cur++
		g.nPoll = 0
	}
	g.polling = true
	g.nPoll++
	g.nCall, g.opens, g.mixed = 0, 0, false
	g.line(map[string]any{"ev": "poll", "view": g.plan[g.cur].view, "side": readSide(g.out)})
}

func (g *gate) Type() string                   { return "file" }
func (g *gate) Init(ctx context.Context) error { return nil }
func (g *gate) SetLogger(l *slog.Logger)       {}
func (g *gate) DeleteAll(ctx context.Context) error {
	return fmt.Errorf("read-only")
}
func (g *gate) DeleteLTXFiles(ctx context.Context, a []*ltx.FileInfo) error {
	return fmt.Errorf("read-only")
}
func (g *gate) WriteLTXFile(ctx context.Context, level int, minTXID, maxTXID ltx.TXID, r io.Reader) (*ltx.FileInfo, error) {
	return nil, fmt.Errorf("read-only")
}

func (g *gate) LTXFiles(ctx context.Context, level int, seek ltx.TXID, useMetadata bool) (ltx.FileIterator, error) {
	g.mu.Lock()
	defer g.mu.Unlock()
	if level == 0 && seek > 0 {
		g.pollStart()
	}
	if g.done {
		return nil, context.Canceled
	}
	v := g.viewNow()
	g.nCall++
	if !g.polling && level == litestream.SnapshotLevel {
		g.line(map[string]any{"ev": "view0", "view": v})
	}
	return g.client(v).LTXFiles(ctx, level, seek, useMetadata)
}

func (g *gate) OpenLTXFile(ctx context.Context, level int, minTXID, maxTXID ltx.TXID, offset, size int64) (io.ReadCloser, error) {
	g.mu.Lock()
	defer g.mu.Unlock()
	if g.done {
		return nil, context.Canceled
	}
	v := g.viewNow()
	g.nCall++
	rc, err := g.client(v).OpenLTXFile(ctx, level, minTXID, maxTXID, offset, size)
	if g.polling {
		g.opens++
	}
	g.line(map[string]any{"ev": "open", "poll": g.polling, "lvl": level, "min": int(minTXID), "max": int(maxTXID), "ok": err == nil, "view": v})
	return rc, err
}

func childMain(views, plan, end, out, logPath string, intervalMs int) {
	slog.SetDefault(discard)
	lf, err := os.OpenFile(logPath, os.O_CREATE|os.O_WRONLY|os.O_APPEND, 0o644)
	if err != nil {
		fmt.Fprintln(os.Stderr, "child:", err)
		os.Exit(3)
	}
	ctx, cancel := context.WithCancel(context.Background())
	g := &gate{views: views, plan: parsePlan(plan), end: end, out: out, cancel: cancel, log: lf, clients: map[int]*file.ReplicaClient{}}
	if len(g.plan) == 0 {
		os.Exit(3)
	}
	go func() { // watchdog: a follower that neither finishes its plan nor becomes quiescent
		time.Sleep(20 * time.Second)
		g.line(map[string]any{"ev": "exit", "err": "timeout", "msg": "watchdog"})
		os.Exit(4)
	}()
	_, statErr := os.Stat(out)
	g.line(map[string]any{"ev": "start", "dbExists": statErr == nil, "side": readSide(out)})
	rep := litestream.NewReplicaWithClient(nil, g)
	opt := litestream.NewRestoreOptions()
	opt.OutputPath = out
	opt.Follow = true
	opt.FollowInterval = time.Duration(intervalMs) * time.Millisecond
	err = rep.Restore(ctx, opt)
	cls, msg := "none", ""
	if err != nil {
		msg = err.Error()
		switch {
		case strings.Contains(msg, "is ahead of latest snapshot"), strings.Contains(msg, "is ahead of the replica"):
			cls = "ahead"
		case strings.Contains(msg, "is behind the earliest snapshot"):
			cls = "behind"
		case strings.Contains(msg, "no -txid file found"):
			cls = "nosidecar"
		default:
			cls = "other"
		}
		if len(msg) > 300 {
			msg = msg[:300]
		}
	}
	g.line(map[string]any{"ev": "exit", "err": cls, "msg": msg})
	if err != nil {
		os.Exit(1)
	}
	os.Exit(0)
}

// ------------------------------------------------------------------------------------------------ parent

type Sess struct {
	Plan [][]int `json:"plan"` // [view, polls (0 = until quiescent), mid]
	End  string  `json:"end"`  // stop | kill
}

type KillSpec struct {
	Sess   int   `json:"sess"`   // session run under the supervisor
	Every  int   `json:"every"`  // 0/1 = every call; k = every k-th + everything within 2 of a rename
	Off    int   `json:"off"`    // offset of the every-k-th selection
	Points []int `json:"points"` // explicit indices (replay)
}

type FCase struct {
	ID     int         `json:"id"`
	Label  string      `json:"label"`
	Cfg    core.Config `json:"cfg"`
	Sched  [][]any     `json:"sched"`
	Follow []Sess      `json:"follow"`
	Kill   *KillSpec   `json:"kill"`
	// ResetL0: put DB.L0Retention back to its default after an explicit L0Retention step, so that later compactions do
	// not prune level 0 on their own (cases derived from Replica.tla, where level-0 retention is its own action)
	ResetL0 bool `json:"resetL0"`
}

type Poll struct {
	View      int     `json:"view"`
	Side      int     `json:"side"`      // sidecar on disk when the poll started (= the follower's position)
	Files     [][]int `json:"files"`     // files opened by this poll, in order: [level, min, max, opened ok (1/0)]
	ViewFiles [][]int `json:"viewFiles"` // listing of the view this poll was served from
	Mixed     bool    `json:"mixed"`     // the view changed in the middle of this poll
}

type Obs struct {
	T           int        `json:"t"`
	I           int        `json:"i"`
	Kind        string     `json:"kind"`     // sess | kill | sys
	Start       string     `json:"start"`    // fresh | resume
	SidePre     int        `json:"sidePre"`  // sidecar when this process started
	SidePre0    int        `json:"sidePre0"` // kind kill: sidecar before the killed session began (else = sidePre)
	DbPre       bool       `json:"dbPre"`
	Polls       []Poll     `json:"polls"`
	Rest        [][]int    `json:"rest"` // files opened by the initial restore
	Err         string     `json:"err"`  // none | ahead | behind | nosidecar | other | timeout | died
	ErrMsg      string     `json:"errMsg"`
	Exit        string     `json:"exit"` // stop | killed | error
	SideAfter   int        `json:"sideAfter"`
	Quiescent   bool       `json:"quiescent"`
	StartView   int        `json:"startView"`
	StartFiles  [][]int    `json:"startFiles"` // [level, min, max] of the first served view
	EndView     int        `json:"endView"`
	EndFiles    [][]int    `json:"endFiles"`
	EndMax      int        `json:"endMax"`
	OrdOK       bool       `json:"ordOK"` // ordinary restore of the last served view
	OrdTx       int        `json:"ordTx"`
	OrdErr      string     `json:"ordErr"`
	OrdPg       []int      `json:"ordPg"`
	FExists     bool       `json:"fExists"`
	FPg         []int      `json:"fPg"`
	KillAt      int        `json:"killAt"`
	KillSys     string     `json:"killSys"`
	SideKill    int        `json:"sideKill"` // sidecar right after the kill
	DbKill      bool       `json:"dbKill"`   // output database existed right after the kill
	TmpLeft     int        `json:"tmpLeft"`
	Sys         [][]string `json:"sys"` // kind sys: [name, file] of every counted call (file: db | db.tmp | side | side.tmp | dir | other)
	NCalls      int        `json:"nCalls"`
	RestartPoll int        `json:"restartPoll"` // kind kill: number of polls logged before the kill
	Label       string     `json:"label"`
}

func blankObs(c FCase, i int, kind string) Obs {
	return Obs{T: c.ID, I: i, Kind: kind, Start: "none", Polls: []Poll{}, Rest: [][]int{}, Err: "none", Exit: "none",
		StartFiles: [][]int{}, EndFiles: [][]int{}, OrdPg: []int{}, FPg: []int{}, Sys: [][]string{}, OrdErr: "none", Label: c.Label}
}

func copyFile(src, dst string) error {
	in, err := os.Open(src)
	if err != nil {
		return err
	}
	defer in.Close()
	st, err := in.Stat()
	if err != nil {
		return err
	}
	out, err := os.OpenFile(dst, os.O_CREATE|os.O_TRUNC|os.O_WRONLY, st.Mode().Perm())
	if err != nil {
		return err
	}
	if _, err := io.Copy(out, in); err != nil {
		out.Close()
		return err
	}
	if err := out.Close(); err != nil {
		return err
	}
	return os.Chtimes(dst, st.ModTime(), st.ModTime())
}

func copyTree(src, dst string) error {
	return filepath.Walk(src, func(p string, fi os.FileInfo, err error) error {
		if err != nil {
			return err
		}
		rel, _ := filepath.Rel(src, p)
		t := filepath.Join(dst, rel)
		if fi.IsDir() {
			return os.MkdirAll(t, 0o755)
		}
		if !fi.Mode().IsRegular() {
			return nil
		}
		return copyFile(p, t)
	})
}

func listView(dir string) [][]int {
	out := [][]int{}
	for lvl := 0; lvl <= 9; lvl++ {
		ents, err := os.ReadDir(filepath.Join(dir, "ltx", strconv.Itoa(lvl)))
		if err != nil {
			continue
		}
		for _, e := range ents {
			a, b, err := ltx.ParseFilename(e.Name())
			if err != nil {
				continue
			}
			out = append(out, []int{lvl, int(a), int(b)})
		}
	}
	sort.Slice(out, func(i, j int) bool {
		for k := 0; k < 3; k++ {
			if out[i][k] != out[j][k] {
				return out[i][k] < out[j][k]
			}
		}
		return false
	})
	return out
}

// maskedPages: page ids of a database file with the bytes follow mode rewrites on page 1 zeroed
// (replica.go:984-987: 18-19 journal mode, 24-27 schema change counter).
func maskedPages(path string, ps int, d *core.Dict, mu *sync.Mutex) ([]int, bool) {
	b, err := os.ReadFile(path)
	if err != nil {
		return []int{}, false
	}
	if len(b) >= 28 {
		b[18], b[19] = 0, 0
		b[24], b[25], b[26], b[27] = 0, 0, 0, 0
	}
	pg := []int{}
	mu.Lock()
	for off := 0; off+ps <= len(b); off += ps {
		pg = append(pg, d.Page(b[off:off+ps]))
	}
	if len(b)%ps != 0 {
		pg = append(pg, -1) // not a whole number of pages
	}
	mu.Unlock()
	return pg, true
}

type ordRes struct {
	ok  bool
	tx  int
	err string
	pg  []int
}

type caseRun struct {
	c       FCase
	dir     string
	views   string
	nViews  int
	dict    *core.Dict
	dmu     sync.Mutex
	omu     sync.Mutex
	ord     map[int]*ordRes
	exe     string
	killsup string
	ival    int
	sem     chan struct{}
}

func (cr *caseRun) viewDir(v int) string { return filepath.Join(cr.views, strconv.Itoa(v)) }

func (cr *caseRun) ordinary(v int) *ordRes {
	cr.omu.Lock()
	defer cr.omu.Unlock()
	if r, ok := cr.ord[v]; ok {
		return r
	}
	res := &ordRes{pg: []int{}, err: "none"}
	cr.ord[v] = res
	client := file.NewReplicaClient(cr.viewDir(v))
	client.SetLogger(discard)
	ctx := context.Background()
	infos, err := litestream.CalcRestorePlan(ctx, client, 0, time.Time{}, discard)
	if err != nil {
		res.err = "plan:" + short(err)
		return res
	}
	res.tx = int(infos[len(infos)-1].MaxTXID)
	rep := litestream.NewReplicaWithClient(nil, client)
	dst := filepath.Join(cr.dir, fmt.Sprintf("ord-%d.db", v))
	os.Remove(dst)
	defer os.Remove(dst)
	opt := litestream.NewRestoreOptions()
	opt.OutputPath = dst
	if err := rep.Restore(ctx, opt); err != nil {
		res.err = "restore:" + short(err)
		return res
	}
	res.pg, res.ok = maskedPages(dst, cr.c.Cfg.PageSize, cr.dict, &cr.dmu)
	return res
}

func short(err error) string {
	s := strings.ReplaceAll(err.Error(), "\n", " ")
	if len(s) > 200 {
		s = s[:200]
	}
	return s
}

func planString(p [][]int) string {
	var w []string
	for _, e := range p {
		for len(e) < 3 {
			e = append(e, 0)
		}
		w = append(w, fmt.Sprintf("%d:%d:%d", e[0], e[1], e[2]))
	}
	return strings.Join(w, ",")
}

type childLog struct {
	started   bool
	dbExists  bool
	polls     []Poll
	rest      [][]int
	err, msg  string
	exited    bool
	quiescent bool
	view0     int
}

func readChildLog(path string) childLog {
	cl := childLog{polls: []Poll{}, rest: [][]int{}, err: "died", view0: -1}
	f, err := os.Open(path)
	if err != nil {
		return cl
	}
	defer f.Close()
	sc := bufio.NewScanner(f)
	for sc.Scan() {
		var m map[string]any
		if json.Unmarshal(sc.Bytes(), &m) != nil {
			continue
		}
		num := func(k string) int { v, _ := m[k].(float64); return int(v) }
		switch m["ev"] {
		case "start":
			cl.started = true
			cl.dbExists, _ = m["dbExists"].(bool)
		case "view0":
			if cl.view0 < 0 {
				cl.view0 = num("view")
			}
		case "poll":
			cl.polls = append(cl.polls, Poll{View: num("view"), Side: num("side"), Files: [][]int{}, ViewFiles: [][]int{}})
		case "mixed":
			if len(cl.polls) > 0 {
				cl.polls[len(cl.polls)-1].Mixed = true
			}
		case "open":
			ok := 0
			if b, _ := m["ok"].(bool); b {
				ok = 1
			}
			f := []int{num("lvl"), num("min"), num("max"), ok}
			if p, _ := m["poll"].(bool); p && len(cl.polls) > 0 {
				cl.polls[len(cl.polls)-1].Files = append(cl.polls[len(cl.polls)-1].Files, f)
			} else {
				cl.rest = append(cl.rest, f)
			}
		case "quiescent":
			cl.quiescent = true
		case "exit":
			cl.exited = true
			cl.err, _ = m["err"].(string)
			cl.msg, _ = m["msg"].(string)
		}
	}
	return cl
}

type supInfo struct {
	Count  int  `json:"count"`
	Killed bool `json:"killed"`
	Exit   int  `json:"exit"`
}

// runChild runs one follower session on fdir. n < 0: plain child; n >= 0: under killsup (-n n), seq log at seqLog.
func (cr *caseRun) runChild(fdir string, s Sess, logPath string, n int, seqLog string) (supInfo, error) {
	out := filepath.Join(fdir, "db")
	args := []string{"-child", "-views", cr.views, "-plan", planString(s.Plan), "-end", s.End, "-out", out, "-log", logPath,
		"-interval", strconv.Itoa(cr.ival)}
	var cmd *exec.Cmd
	if n >= 0 {
		a := append([]string{"-n", strconv.Itoa(n), "-root", fdir, "-log", seqLog, "--", cr.exe}, args...)
		cmd = exec.Command(cr.killsup, a...)
	} else {
		cmd = exec.Command(cr.exe, args...)
	}
	cr.sem <- struct{}{}
	defer func() { <-cr.sem }()
	ctx, cancel := context.WithTimeout(context.Background(), 60*time.Second)
	defer cancel()
	var stdout strings.Builder
	cmd.Stdout = &stdout
	if err := cmd.Start(); err != nil {
		return supInfo{}, err
	}
	done := make(chan error, 1)
	go func() { done <- cmd.Wait() }()
	select {
	case <-ctx.Done():
		syscall.Kill(cmd.Process.Pid, syscall.SIGKILL)
		<-done
		return supInfo{}, fmt.Errorf("child timed out")
	case <-done:
	}
	var si supInfo
	if n >= 0 {
		lines := strings.Split(strings.TrimSpace(stdout.String()), "\n")
		if json.Unmarshal([]byte(lines[len(lines)-1]), &si) != nil {
			return si, fmt.Errorf("killsup: no result line: %q", stdout.String())
		}
	} else {
		si.Exit = cmd.ProcessState.ExitCode()
		if ws, ok := cmd.ProcessState.Sys().(syscall.WaitStatus); ok && ws.Signaled() {
			si.Exit = 128 + int(ws.Signal())
		}
	}
	return si, nil
}

func tmpLeft(fdir string) int {
	n := 0
	ents, _ := os.ReadDir(fdir)
	for _, e := range ents {
		if strings.HasSuffix(e.Name(), ".tmp") {
			n++
		}
	}
	return n
}

// observe fills the post-session fields of o from the follower directory and the child's log.
func (cr *caseRun) observe(o *Obs, fdir string, s Sess, cl childLog, si supInfo) {
	out := filepath.Join(fdir, "db")
	o.Polls, o.Rest = cl.polls, cl.rest
	for k := range o.Polls {
		o.Polls[k].ViewFiles = listView(cr.viewDir(o.Polls[k].View))
	}
	o.Err, o.ErrMsg = cl.err, cl.msg
	switch {
	case si.Exit == 128+9 || (s.End == "kill" && !cl.exited):
		o.Exit = "killed"
		if o.Err == "died" {
			o.Err = "none"
		}
	case cl.exited && cl.err == "none":
		o.Exit = "stop"
	default:
		o.Exit = "error"
	}
	o.SideAfter = readSide(out)
	o.Quiescent = cl.quiescent
	sv := s.Plan[0][0]
	if cl.view0 >= 0 {
		sv = cl.view0
	}
	ev := sv
	if len(cl.polls) > 0 {
		ev = cl.polls[len(cl.polls)-1].View
	}
	o.StartView, o.EndView = sv, ev
	o.StartFiles, o.EndFiles = listView(cr.viewDir(sv)), listView(cr.viewDir(ev))
	for _, f := range o.EndFiles {
		if f[2] > o.EndMax {
			o.EndMax = f[2]
		}
	}
	or := cr.ordinary(ev)
	o.OrdOK, o.OrdTx, o.OrdErr, o.OrdPg = or.ok, or.tx, or.err, or.pg
	o.FPg, o.FExists = maskedPages(out, cr.c.Cfg.PageSize, cr.dict, &cr.dmu)
	o.TmpLeft = tmpLeft(fdir)
}

func classifyFile(p string) string {
	switch p {
	case "db", "db.tmp":
		return p
	case ".":
		return "dir"
	case "db-txid":
		return "side"
	case "db-txid.tmp":
		return "side.tmp"
	}
	return "other"
}

// parseSeq reads a killsup log: calls [idx, name, file, file2, failed].
type call struct {
	idx    int
	name   string
	p1, p2 string
	failed bool
}

func parseSeq(path string) (calls []call, killedBefore string) {
	f, err := os.Open(path)
	if err != nil {
		return nil, ""
	}
	defer f.Close()
	sc := bufio.NewScanner(f)
	for sc.Scan() {
		l := sc.Text()
		if strings.HasPrefix(l, "# KILLED before") {
			w := strings.Fields(l)
			if len(w) > 3 {
				killedBefore = strings.Join(w[3:], " ")
			}
			continue
		}
		if strings.HasPrefix(l, "#") {
			continue
		}
		w := strings.Fields(l)
		if len(w) < 3 {
			continue
		}
		c := call{}
		if strings.HasPrefix(w[len(w)-1], "!") {
			c.failed = true
			w = w[:len(w)-1]
		}
		c.idx, _ = strconv.Atoi(w[0])
		c.name, c.p1 = w[1], w[2]
		if len(w) > 3 {
			c.p2 = w[3]
		}
		calls = append(calls, c)
	}
	return
}

func (cr *caseRun) session(fdir string, idx int, s Sess, kind string, n int, seqLog string) (Obs, supInfo, error) {
	o := blankObs(cr.c, idx, kind)
	out := filepath.Join(fdir, "db")
	_, e := os.Stat(out)
	o.DbPre = e == nil
	o.SidePre = readSide(out)
	o.SidePre0 = o.SidePre
	o.Start = "fresh"
	if o.DbPre {
		o.Start = "resume"
	}
	logPath := fdir + fmt.Sprintf(".log-%s-%d-%d", kind, idx, n)
	os.Remove(logPath)
	si, err := cr.runChild(fdir, s, logPath, n, seqLog)
	if err != nil {
		return o, si, err
	}
	cl := readChildLog(logPath)
	os.Remove(logPath)
	if !cl.started && !(n > 0 && si.Killed) {
		return o, si, fmt.Errorf("child did not start (exit %d)", si.Exit)
	}
	cr.observe(&o, fdir, s, cl, si)
	return o, si, nil
}

func (cr *caseRun) run(emit func(Obs)) (err error) {
	c := cr.c
	defer func() {
		if p := recover(); p != nil {
			err = fmt.Errorf("panic: %v", p)
		}
	}()
	// ---- primary
	r := core.NewRunner(core.Case{ID: c.ID, Cfg: c.Cfg, Sched: c.Sched}, filepath.Join(cr.dir, "p"), filepath.Join(cr.dir, "tmp"))
	if err := r.Setup(); err != nil {
		return fmt.Errorf("setup: %w", err)
	}
	for _, st := range c.Sched {
		op, _ := st[0].(string)
		switch op {
		case "View":
			if err := copyTree(r.ReplicaDir(), cr.viewDir(cr.nViews)); err != nil {
				return fmt.Errorf("view: %w", err)
			}
			os.MkdirAll(cr.viewDir(cr.nViews), 0o755)
			cr.nViews++
		case "AppShrink":
			k := 1
			if len(st) > 1 {
				if f, ok := st[1].(float64); ok {
					k = int(f)
				}
			}
			r.Step([]any{"AppDelete", k}, false)
			r.Step([]any{"AppReclaim"}, false)
		default:
			r.Step(st, false)
			if op == "L0Retention" && c.ResetL0 && r.LS() != nil {
				r.LS().L0Retention = litestream.DefaultL0Retention
			}
		}
	}
	if r.LsUp() {
		r.Step([]any{"LsClose"}, false)
	}
	r.CloseApp()
	if cr.nViews == 0 {
		return fmt.Errorf("no view published")
	}
	for _, s := range c.Follow {
		for _, e := range s.Plan {
			if len(e) == 0 || e[0] < 0 || e[0] >= cr.nViews {
				return fmt.Errorf("plan refers to view %v of %d", e, cr.nViews)
			}
		}
	}
	// ---- follower sessions
	fdir := filepath.Join(cr.dir, "f")
	os.MkdirAll(fdir, 0o755)
	last := c.Follow[len(c.Follow)-1]
	finalView := last.Plan[len(last.Plan)-1][0]
	for j, s := range c.Follow {
		if c.Kill == nil || c.Kill.Sess != j {
			o, _, err := cr.session(fdir, j, s, "sess", -1, "")
			if err != nil {
				return fmt.Errorf("session %d: %w", j, err)
			}
			emit(o)
			continue
		}
		// ---- session j under the supervisor: reference run (counts, protocol), then one run per kill point
		pre := filepath.Join(cr.dir, "pre")
		if err := copyTree(fdir, pre); err != nil {
			return err
		}
		os.MkdirAll(pre, 0o755)
		seq := filepath.Join(cr.dir, "ref.seq")
		o, si, err := cr.session(fdir, j, s, "sess", 0, seq)
		if err != nil {
			return fmt.Errorf("reference session %d: %w", j, err)
		}
		emit(o)
		calls, _ := parseSeq(seq)
		sys := blankObs(c, j, "sys")
		sys.NCalls = si.Count
		for _, cl := range calls {
			if cl.failed {
				continue
			}
			f := classifyFile(cl.p1)
			if cl.p2 != "" {
				f = classifyFile(cl.p1) + ">" + classifyFile(cl.p2)
			}
			sys.Sys = append(sys.Sys, []string{cl.name, f})
		}
		emit(sys)
		var pts []int
		if len(c.Kill.Points) > 0 {
			pts = c.Kill.Points
		} else {
			hot := []int{}
			for _, cl := range calls {
				if strings.HasPrefix(cl.name, "rename") {
					hot = append(hot, cl.idx)
				}
			}
			k := 0
			for _, cl := range calls {
				if cl.failed {
					continue
				}
				sel := c.Kill.Every <= 1 || (k+c.Kill.Off)%c.Kill.Every == 0
				for _, h := range hot {
					if cl.idx-h <= 2 && h-cl.idx <= 2 {
						sel = true
					}
				}
				if sel {
					pts = append(pts, cl.idx)
				}
				k++
			}
		}
		var wg sync.WaitGroup
		var emu sync.Mutex
		var firstErr error
		for _, i := range pts {
			wg.Add(1)
			go func(i int) {
				defer wg.Done()
				kd := filepath.Join(cr.dir, fmt.Sprintf("k%d", i))
				kf := filepath.Join(kd, "f")
				defer os.RemoveAll(kd)
				fail := func(e error) {
					emu.Lock()
					if firstErr == nil {
						firstErr = e
					}
					emu.Unlock()
				}
				if err := copyTree(pre, kf); err != nil {
					fail(err)
					return
				}
				os.MkdirAll(kf, 0o755)
				kseq := filepath.Join(kd, "seq")
				ko, ksi, err := cr.session(kf, j, s, "killrun", i, kseq)
				if err != nil {
					fail(fmt.Errorf("kill run %d: %w", i, err))
					return
				}
				_, kb := parseSeq(kseq)
				rec := blankObs(c, i, "kill")
				if !ksi.Killed { // the run ended before call i: a desync, reported as such
					rec.Kind, rec.ErrMsg = "desync", fmt.Sprintf("run ended after %d calls", ksi.Count)
					emit(rec)
					return
				}
				sideKill := readSide(filepath.Join(kf, "db"))
				_, e := os.Stat(filepath.Join(kf, "db"))
				tl := tmpLeft(kf)
				ro, _, err := cr.session(kf, i, Sess{Plan: [][]int{{finalView, 0, 0}}, End: "stop"}, "kill", -1, "")
				if err != nil {
					fail(fmt.Errorf("restart after kill %d: %w", i, err))
					return
				}
				ro.KillAt, ro.KillSys, ro.SideKill, ro.DbKill, ro.TmpLeft = i, kb, sideKill, e == nil, tl
				ro.SidePre0 = ko.SidePre // sidecar before the killed session began
				// polls of the killed session come first: the sidecar sequence runs across the restart
				ro.Polls = append(append([]Poll{}, ko.Polls...), ro.Polls...)
				ro.RestartPoll = len(ko.Polls)
				emit(ro)
			}(i)
		}
		wg.Wait()
		if firstErr != nil {
			return firstErr
		}
		os.RemoveAll(pre)
	}
	return nil
}

func main() {
	child := flag.Bool("child", false, "follower child")
	views := flag.String("views", "", "")
	plan := flag.String("plan", "", "")
	end := flag.String("end", "stop", "")
	outDB := flag.String("out", "", "child: output database; parent: ndjson")
	logPath := flag.String("log", "", "")
	ival := flag.Int("interval", 10, "FollowInterval in ms")
	in := flag.String("in", "", "cases json")
	work := flag.String("work", "", "scratch directory")
	killsup := flag.String("killsup", "", "path of the killsup binary")
	par := flag.Int("j", runtime.NumCPU(), "parallelism")
	keep := flag.Bool("keep", false, "keep case directories")
	flag.Parse()
	if *child {
		childMain(*views, *plan, *end, *outDB, *logPath, *ival)
		return
	}
	b, err := os.ReadFile(*in)
	if err != nil {
		fmt.Fprintln(os.Stderr, err)
		os.Exit(2)
	}
	var cases []FCase
	if err := json.Unmarshal(b, &cases); err != nil {
		fmt.Fprintln(os.Stderr, err)
		os.Exit(2)
	}
	exe, _ := os.Executable()
	of, err := os.Create(*outDB)
	if err != nil {
		fmt.Fprintln(os.Stderr, err)
		os.Exit(2)
	}
	w := bufio.NewWriter(of)
	var wmu sync.Mutex
	nrec := 0
	emit := func(o Obs) {
		b, _ := json.Marshal(o)
		wmu.Lock()
		w.Write(append(b, '\n'))
		nrec++
		wmu.Unlock()
	}
	sem := make(chan struct{}, *par)
	caseSem := make(chan struct{}, *par)
	var wg sync.WaitGroup
	var fmu sync.Mutex
	failed := []string{}
	for _, c := range cases {
		wg.Add(1)
		caseSem <- struct{}{}
		go func(c FCase) {
			defer wg.Done()
			defer func() { <-caseSem }()
			dir := filepath.Join(*work, fmt.Sprintf("case-%d", c.ID))
			os.RemoveAll(dir)
			os.MkdirAll(dir, 0o755)
			cr := &caseRun{c: c, dir: dir, views: filepath.Join(dir, "views"), dict: core.NewDict(), ord: map[int]*ordRes{},
				exe: exe, killsup: *killsup, ival: *ival, sem: sem}
			if err := cr.run(emit); err != nil {
				fmu.Lock()
				failed = append(failed, fmt.Sprintf("case %d (%s): %v", c.ID, c.Label, err))
				fmu.Unlock()
			}
			if !*keep {
				os.RemoveAll(dir)
			}
		}(c)
	}
	wg.Wait()
	w.Flush()
	of.Close()
	if len(failed) > 3 {
		failed = append(failed[:3], fmt.Sprintf("... %d more", len(failed)-3))
	}
	json.NewEncoder(os.Stdout).Encode(map[string]any{"cases": len(cases), "records": nrec, "failed": failed})
}

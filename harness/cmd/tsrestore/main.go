// Command tsrestore builds REAL replicas from real histories and runs the real Replica.Restore with a timestamp.
//
// For every history of the input ({"histories":[{"id":1,"seed":7,"kind":"plain","steps":[["sync"],["snapshot"],
// ["compact",1],["compact",2],["l0retention"],["snapretention"]...]}]}) it opens a real SQLite database (WAL mode),
// a litestream.DB with a file replica, and executes the steps:
//
//	sync          write rows (seeded), db.Sync + Replica.Sync, then record for the new TXID its replication time
//	              (CreatedAt of its level-0 file as listed by the client) and a fingerprint of the source rows
//	snapshot      db.Snapshot
//	compact L     db.Compact(L)
//	l0retention   db.L0Retention = 1ns; db.EnforceL0RetentionByTime   (removes level-0 files already compacted into L1)
//	snapretention db.EnforceSnapshotRetention(now)                     (keeps only the newest snapshot)
//
// Then T runs over {every recorded time, +-1ms, midpoints, before the first, after the last}; each
// Replica.Restore(RestoreOptions{OutputPath, Timestamp: T}) output is fingerprinted and mapped to the recorded
// state it equals.  One ndjson line per history:
//
//	{"h":1,"kind":"..","times":[ms..],"l0all":true,"files":[[lvl,min,max,ms]..],"q":[[Tms,res]..],"errs":[".."]}
//
// times[n-1] = replication time of TXID n in ms relative to an arbitrary origin (first time = 1000);
// res = n >= 1: output equals the state of TXID n; 0: Restore returned an error; -1: output equals no recorded state.
package main

import (
	"context"
	"crypto/sha256"
	"database/sql"
	"encoding/hex"
	"encoding/json"
	"flag"
	"fmt"
	"io"
	"log/slog"
	"math/rand"
	"os"
	"path/filepath"
	"sort"
	"strings"
	"time"

	"github.com/benbjohnson/litestream"
	"github.com/benbjohnson/litestream/file"
	_ "modernc.org/sqlite"
)

type history struct {
	ID    int             `json:"id"`
	Seed  int64           `json:"seed"`
	Kind  string          `json:"kind"`
	Steps [][]interface{} `json:"steps"`
}

type input struct {
	Histories []history `json:"histories"`
	GapMS     int       `json:"gap_ms"`
}

type outLine struct {
	H     int      `json:"h"`
	Kind  string   `json:"kind"`
	Times []int64  `json:"times"`
	L0All bool     `json:"l0all"`
	Files [][4]int64 `json:"files"`
	Q     [][2]int64 `json:"q"`
	Errs  []string `json:"errs"`
	Note  string   `json:"note"`
}

func fingerprint(path string) (string, error) {
	d, err := sql.Open("sqlite", path)
	if err != nil {
		return "", err
	}
	defer d.Close()
	rows, err := d.Query(`SELECT id, v, length(pad) FROM t ORDER BY id`)
	if err != nil {
		return "", err
	}
	defer rows.Close()
	h := sha256.New()
	for rows.Next() {
		var id, n int64
		var v string
		if err := rows.Scan(&id, &v, &n); err != nil {
			return "", err
		}
		fmt.Fprintf(h, "%d|%s|%d;", id, v, n)
	}
	if err := rows.Err(); err != nil {
		return "", err
	}
	return hex.EncodeToString(h.Sum(nil))[:24], nil
}

func fingerprintDB(d *sql.DB) (string, error) {
	rows, err := d.Query(`SELECT id, v, length(pad) FROM t ORDER BY id`)
	if err != nil {
		return "", err
	}
	defer rows.Close()
	h := sha256.New()
	for rows.Next() {
		var id, n int64
		var v string
		if err := rows.Scan(&id, &v, &n); err != nil {
			return "", err
		}
		fmt.Fprintf(h, "%d|%s|%d;", id, v, n)
	}
	if err := rows.Err(); err != nil {
		return "", err
	}
	return hex.EncodeToString(h.Sum(nil))[:24], nil
}

func runHistory(ctx context.Context, root string, hs history, gap time.Duration) (out outLine, err error) {
	out = outLine{H: hs.ID, Kind: hs.Kind, Times: []int64{}, Files: [][4]int64{}, Q: [][2]int64{}, Errs: []string{}}
	dir := filepath.Join(root, fmt.Sprintf("h%d", hs.ID))
	if err := os.MkdirAll(dir, 0o755); err != nil {
		return out, err
	}
	defer os.RemoveAll(dir)
	dbPath := filepath.Join(dir, "db")
	sqldb, err := sql.Open("sqlite", dbPath)
	if err != nil {
		return out, err
	}
	defer sqldb.Close()
	sqldb.SetMaxOpenConns(1)
	for _, q := range []string{`PRAGMA journal_mode = wal;`, `PRAGMA busy_timeout = 5000;`,
		`CREATE TABLE t (id INTEGER PRIMARY KEY, v TEXT, pad BLOB);`} {
		if _, err := sqldb.ExecContext(ctx, q); err != nil {
			return out, fmt.Errorf("setup: %w", err)
		}
	}

	logger := slog.New(slog.NewTextHandler(io.Discard, &slog.HandlerOptions{Level: slog.LevelError + 4}))
	db := litestream.NewDB(dbPath)
	db.Logger = logger
	db.MonitorInterval = 0
	db.ShutdownSyncTimeout = 0
	client := file.NewReplicaClient(filepath.Join(dir, "replica"))
	db.Replica = litestream.NewReplicaWithClient(db, client)
	db.Replica.MonitorEnabled = false
	if err := db.Open(); err != nil {
		return out, fmt.Errorf("open: %w", err)
	}
	defer func() { _ = db.Close(context.Background()) }()

	rnd := rand.New(rand.NewSource(hs.Seed))
	var abs []time.Time // replication time of TXID n = abs[n-1]
	var fps []string
	nrows := 0
	listLevel := func(level int) ([][3]int64, []time.Time, error) {
		itr, err := client.LTXFiles(ctx, level, 0, true)
		if err != nil {
			return nil, nil, err
		}
		defer itr.Close()
		var a [][3]int64
		var ts []time.Time
		for itr.Next() {
			fi := itr.Item()
			a = append(a, [3]int64{int64(fi.Level), int64(fi.MinTXID), int64(fi.MaxTXID)})
			ts = append(ts, fi.CreatedAt)
		}
		return a, ts, itr.Err()
	}

	for _, st := range hs.Steps {
		op, _ := st[0].(string)
		switch op {
		case "sync":
			tx, err := sqldb.BeginTx(ctx, nil)
			if err != nil {
				return out, err
			}
			nrows++
			pad := 10 + rnd.Intn(200)
			if rnd.Intn(4) == 0 {
				pad = 3000 + rnd.Intn(9000) // spills over several pages
			}
			if _, err := tx.Exec(`INSERT INTO t (v, pad) VALUES (?, zeroblob(?))`, fmt.Sprintf("h%d-s%d-%d", hs.ID, nrows, rnd.Int63()), pad); err != nil {
				return out, err
			}
			if nrows > 1 && rnd.Intn(2) == 0 {
				if _, err := tx.Exec(`UPDATE t SET v = v || 'u' WHERE id = ?`, 1+rnd.Intn(nrows)); err != nil {
					return out, err
				}
			}
			if nrows > 3 && rnd.Intn(5) == 0 {
				if _, err := tx.Exec(`DELETE FROM t WHERE id = ?`, 1+rnd.Intn(nrows-1)); err != nil {
					return out, err
				}
			}
			if err := tx.Commit(); err != nil {
				return out, err
			}
			if err := db.Sync(ctx); err != nil {
				return out, fmt.Errorf("db sync: %w", err)
			}
			if err := db.Replica.Sync(ctx); err != nil {
				return out, fmt.Errorf("replica sync: %w", err)
			}
			l0, ts, err := listLevel(0)
			if err != nil {
				return out, err
			}
			newN := 0
			for i, f := range l0 {
				if f[2] > int64(len(abs)) {
					if f[1] != f[2] || f[2] != int64(len(abs))+1 {
						out.Note = fmt.Sprintf("desync: sync produced level-0 file %d-%d after %d recorded TXIDs", f[1], f[2], len(abs))
						return out, nil
					}
					abs = append(abs, ts[i])
					newN++
				}
			}
			if newN != 1 {
				out.Note = fmt.Sprintf("desync: sync produced %d new TXIDs", newN)
				return out, nil
			}
			fp, err := fingerprintDB(sqldb)
			if err != nil {
				return out, err
			}
			fps = append(fps, fp)
			time.Sleep(gap)
		case "snapshot":
			if _, err := db.Snapshot(ctx); err != nil {
				return out, fmt.Errorf("snapshot: %w", err)
			}
			time.Sleep(gap)
		case "compact":
			lvl := int(st[1].(float64))
			if _, err := db.Compact(ctx, lvl); err != nil && err != litestream.ErrNoCompaction {
				return out, fmt.Errorf("compact %d: %w", lvl, err)
			}
		case "l0retention":
			old := db.L0Retention
			db.L0Retention = time.Nanosecond
			err := db.EnforceL0RetentionByTime(ctx)
			db.L0Retention = old
			if err != nil {
				return out, fmt.Errorf("l0 retention: %w", err)
			}
		case "snapretention":
			if _, err := db.EnforceSnapshotRetention(ctx, time.Now()); err != nil {
				return out, fmt.Errorf("snapshot retention: %w", err)
			}
		default:
			return out, fmt.Errorf("unknown step %q", op)
		}
	}
	if len(abs) == 0 {
		out.Note = "desync: no sync"
		return out, nil
	}

	origin := abs[0].Add(-1000 * time.Millisecond)
	ms := func(t time.Time) int64 { return int64(t.Sub(origin) / time.Millisecond) }
	for _, t := range abs {
		if t.Sub(origin)%time.Millisecond != 0 {
			out.Note = "desync: replication time not a whole millisecond"
			return out, nil
		}
		out.Times = append(out.Times, ms(t))
	}
	// final listing
	present := map[int64]bool{}
	for level := 0; level <= litestream.SnapshotLevel; level++ {
		a, ts, err := listLevel(level)
		if err != nil {
			return out, err
		}
		for i, f := range a {
			out.Files = append(out.Files, [4]int64{f[0], f[1], f[2], ms(ts[i])})
			if level == 0 && f[1] == f[2] {
				present[f[1]] = true
			}
		}
	}
	out.L0All = true
	for n := 1; n <= len(abs); n++ {
		if !present[int64(n)] {
			out.L0All = false
		}
	}

	// request times
	tset := map[int64]bool{}
	for i, t := range out.Times {
		tset[t-1], tset[t], tset[t+1] = true, true, true
		if i+1 < len(out.Times) {
			tset[(t+out.Times[i+1])/2] = true
		}
	}
	for _, f := range out.Files { // and the times of compacted files / snapshots
		tset[f[3]], tset[f[3]+1] = true, true
	}
	tset[out.Times[0]-500] = true
	tset[out.Times[len(out.Times)-1]+1000] = true
	var ts []int64
	for t := range tset {
		ts = append(ts, t)
	}
	sort.Slice(ts, func(i, j int) bool { return ts[i] < ts[j] })

	byFP := map[string]int64{}
	for i, fp := range fps {
		if _, dup := byFP[fp]; dup {
			out.Note = "desync: two recorded states are equal"
			return out, nil
		}
		byFP[fp] = int64(i + 1)
	}
	for k, t := range ts {
		outPath := filepath.Join(dir, fmt.Sprintf("r%d", k), "restored.db")
		if err := os.MkdirAll(filepath.Dir(outPath), 0o755); err != nil {
			return out, err
		}
		opt := litestream.NewRestoreOptions()
		opt.OutputPath = outPath
		opt.Timestamp = origin.Add(time.Duration(t) * time.Millisecond)
		res := int64(-1)
		if err := db.Replica.Restore(ctx, opt); err != nil {
			res = 0
			msg := err.Error()
			if len(msg) > 120 {
				msg = msg[:120]
			}
			seen := false
			for _, e := range out.Errs {
				seen = seen || e == msg
			}
			if !seen && len(out.Errs) < 4 {
				out.Errs = append(out.Errs, msg)
			}
		} else {
			fp, err := fingerprint(outPath)
			if err != nil {
				out.Errs = append(out.Errs, "unreadable output: "+strings.ReplaceAll(err.Error(), "\n", " "))
			} else if n, ok := byFP[fp]; ok {
				res = n
			}
		}
		out.Q = append(out.Q, [2]int64{t, res})
		os.RemoveAll(filepath.Dir(outPath))
	}
	return out, nil
}

func main() {
	in := flag.String("in", "", "input json")
	outp := flag.String("out", "", "output ndjson")
	work := flag.String("work", "", "scratch directory")
	flag.Parse()
	slog.SetDefault(slog.New(slog.NewTextHandler(io.Discard, nil)))
	raw, err := os.ReadFile(*in)
	if err != nil {
		fmt.Fprintln(os.Stderr, err)
		os.Exit(2)
	}
	var inp input
	if err := json.Unmarshal(raw, &inp); err != nil {
		fmt.Fprintln(os.Stderr, err)
		os.Exit(2)
	}
	if inp.GapMS < 3 {
		inp.GapMS = 3
	}
	f, err := os.Create(*outp)
	if err != nil {
		fmt.Fprintln(os.Stderr, err)
		os.Exit(2)
	}
	enc := json.NewEncoder(f)
	ctx := context.Background()
	desync, restores := 0, 0
	for _, hs := range inp.Histories {
		o, err := runHistory(ctx, *work, hs, time.Duration(inp.GapMS)*time.Millisecond)
		if err != nil {
			fmt.Fprintf(os.Stderr, "history %d: %v\n", hs.ID, err)
			os.Exit(2)
		}
		if o.Note != "" {
			desync++
		}
		restores += len(o.Q)
		if err := enc.Encode(&o); err != nil {
			fmt.Fprintln(os.Stderr, err)
			os.Exit(2)
		}
	}
	f.Close()
	fmt.Printf("{\"histories\":%d,\"restores\":%d,\"desync\":%d}\n", len(inp.Histories), restores, desync)
}

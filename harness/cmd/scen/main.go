// Command scen is the child process of the syscall-level checks C03 (kill points, run under cmd/killsup) and C11
// (flush ordering, run under strace): it runs ONE fixed scenario of the catalogue (DESIGN 11a: S1 S3 S4 S5 S6 S7 S9)
// on the real SQLite + real litestream through the shared schedule interpreter (verifharness/core), synchronously.
//
// Layout below -work: fs/ (everything litestream touches: db, .db-litestream, replica/, restored.db; the root the
// supervisor/tracer looks at), marks (operation boundaries + ledger, one write(2) per line so that they show up in
// the syscall trace), tmp/, trash/.
//
//	marks:  MARK <n> <op> begin|ok|err|skip      operation boundary
//	        FP <k> <fingerprint>                 k-th committed application state (after setup / each app write)
//	        ACK <k> <fingerprint> <txid>         litestream acknowledged (SyncAndWait / clean Close returned nil) at state k
//
// Modes: -scenario Sx (run it) | -inspect (post-kill observation, read-only on fs/) | -resume (litestream starts again
// as a new process on the same directories: one application write, SyncAndWait, restore, report). -inspect and
// -resume may be combined (inspect first). Reports are single JSON lines on stdout.
package main

import (
	"context"
	"encoding/json"
	"flag"
	"fmt"
	"io"
	"log/slog"
	"os"
	"path/filepath"
	"strings"
	"time"

	"github.com/benbjohnson/litestream"
	"github.com/benbjohnson/litestream/file"
	"github.com/superfly/ltx"

	"verifharness/core"
)

var discard = slog.New(slog.NewTextHandler(io.Discard, nil))

type env struct {
	work, fs, tmp, trash string
	marks                *os.File
	r                    *core.Runner
	nstate               int
	nop                  int
	seed                 int
}

func (e *env) line(format string, a ...any) {
	// one write(2) per line
	e.marks.Write([]byte(fmt.Sprintf(format, a...) + "\n"))
}

func (e *env) fp() string {
	s, err := core.AppFingerprint(e.r.AppDB())
	if err != nil {
		return "err:" + err.Error()
	}
	return s
}

func (e *env) newState() {
	e.nstate++
	e.line("FP %d %s", e.nstate, e.fp())
}

func config(seed int, scenario string) core.Config {
	ps := 4096
	if seed%3 == 2 {
		ps = 1024
	}
	c := core.Config{PageSize: ps, AutoVacuum: "none", Rows: 3 + seed%3, Seed: seed, Levels: 2}
	if scenario == "S2" { // chunked catch-up: one DB.Sync publishes several level-0 files (MaxSyncWALBytes = 3 frames)
		c.MaxBytes = 3 * (ps + 24)
	}
	return c
}

// scenario catalogue (DESIGN 11a). W = application write of one row, G n = growth by n rows, SW = SyncAndWait.
func schedule(name string, seed int) [][]any {
	rows := 3 + seed%3
	k := 0
	W := func() []any { k++; return []any{"AppWrite", 1 + (seed+k)%rows} }
	G := func(n int) []any { return []any{"AppGrow", n} }
	SW := []any{"LsSyncAndWait"}
	open, cls := []any{"LsOpen", "new"}, []any{"LsClose"}
	switch name {
	case "S1": // first sync (snapshot) + upload, one incremental
		return [][]any{open, W(), SW, G(2), SW, cls}
	case "S2": // catch-up beyond MaxSyncWALBytes: every chunk of one Sync is a published level-0 file
		return [][]any{open, W(), SW, G(4), W(), G(3), W(), SW, W(), SW, cls}
	case "S3": // PASSIVE checkpoint, the WAL restarts under the next write
		return [][]any{open, W(), SW, W(), SW, {"LsCheckpoint", "PASSIVE"}, W(), SW, G(1), SW, cls}
	case "S4": // TRUNCATE checkpoint + snapshot at the boundary
		return [][]any{open, W(), SW, G(3), SW, {"LsCheckpoint", "TRUNCATE"}, W(), SW, {"Snapshot"}, W(), SW, cls}
	case "S5": // compaction L0 -> L1 -> L2 + L0 retention
		return [][]any{open, W(), SW, W(), SW, W(), SW, {"Compact", 1}, W(), SW, G(1), SW, {"Compact", 1}, {"Compact", 2},
			{"L0Retention", 4}, W(), SW, cls}
	case "S6": // snapshots + snapshot retention with cascade + L0 retention
		return [][]any{open, W(), SW, {"Snapshot"}, W(), SW, {"Compact", 1}, W(), SW, {"Snapshot"}, W(), SW, {"Compact", 1},
			{"SnapRetention", 1}, {"L0Retention", 3}, W(), SW, cls}
	case "S7": // restore (plan: snapshot + L1 + L0) to a final output path + TXID sidecar
		return [][]any{open, W(), SW, {"Snapshot"}, W(), SW, W(), SW, {"Compact", 1}, G(1), SW, {"Restore"}, {"WriteTXID"}, cls}
	case "S9": // restart paths: stale .tmp files present; meta directory lost (baseline fetch)
		return [][]any{open, W(), SW, W(), SW, cls, {"StaleTmp"}, open, W(), SW, cls, {"MetaGone"}, open, SW, W(), SW, cls}
	}
	return nil
}

func (e *env) outPath() string { return filepath.Join(e.fs, "restored.db") }

func (e *env) metaDir() string { return filepath.Join(e.fs, ".db"+litestream.MetaDirSuffix) }

func (e *env) replica() *litestream.Replica {
	c := file.NewReplicaClient(e.r.ReplicaDir())
	c.SetLogger(discard)
	return litestream.NewReplicaWithClient(nil, c)
}

func short(err error) string {
	if err == nil {
		return "ok"
	}
	s := strings.ReplaceAll(err.Error(), "\n", " ")
	if len(s) > 200 {
		s = s[:200]
	}
	return "err:" + s
}

// step runs one schedule step; returns false if the process should stop (never, today).
func (e *env) step(st []any) {
	op, _ := st[0].(string)
	ctx := context.Background()
	if strings.HasPrefix(op, "App") {
		res, _ := e.r.Step(st, false)
		if res != "ok" {
			e.line("NOTE app %s %s", op, res)
		}
		e.newState()
		return
	}
	e.nop++
	n := e.nop
	label := op
	if len(st) > 1 {
		label = fmt.Sprintf("%s:%v", op, st[1])
	}
	e.line("MARK %d %s begin", n, label)
	var res string
	var ack bool
	switch op {
	case "Restore":
		opt := litestream.NewRestoreOptions()
		opt.OutputPath = e.outPath()
		res = short(e.replica().Restore(ctx, opt))
	case "WriteTXID":
		pos, err := e.r.LS().Pos()
		if err == nil {
			err = litestream.WriteTXIDFile(e.outPath(), pos.TXID)
		}
		res = short(err)
	case "StaleTmp": // what a crashed litestream leaves behind (environment, not litestream)
		for _, p := range []string{
			filepath.Join(e.metaDir(), "ltx", "0", ltx.FormatFilename(9, 9)+".tmp"),
			filepath.Join(e.r.ReplicaDir(), "ltx", "0", ltx.FormatFilename(9, 9)+".tmp"),
			filepath.Join(e.r.ReplicaDir(), "ltx", "1", ltx.FormatFilename(1, 9)+".tmp"),
		} {
			os.MkdirAll(filepath.Dir(p), 0o755)
			os.WriteFile(p, []byte("LTX1 half written garbage"), 0o644)
		}
		res = "ok"
	case "MetaGone": // the local state directory disappears while litestream is down (one atomic rename out of fs/)
		if e.r.LsUp() {
			res = "skip"
			break
		}
		res = short(os.Rename(e.metaDir(), filepath.Join(e.trash, fmt.Sprintf("meta-%d", n))))
	default:
		res, ack = e.r.Step(st, false)
	}
	what := "ok"
	if res == "skip" || res == "nocompaction" {
		what = "skip"
	} else if res != "ok" {
		what = "err"
		e.line("NOTE %d %s %s", n, label, res)
	}
	e.line("MARK %d %s %s", n, label, what)
	if ack {
		var txid ltx.TXID
		if pos, err := e.r.LS().Pos(); err == nil {
			txid = pos.TXID
		}
		e.line("ACK %d %s %d", e.nstate, e.fp(), int(txid))
	}
	time.Sleep(2 * time.Millisecond) // LTX header timestamps and retention thresholds have millisecond resolution
}

// ---------------------------------------------------------------------------------------------------------------
// inspect: what is on disk after the kill

type ltxBad struct {
	Path string `json:"path"`
	Err  string `json:"err"`
}

type inspectRep struct {
	Mode       string   `json:"mode"`
	NFinal     int      `json:"nFinal"`   // files under a final *.ltx name (meta dir + replica)
	NTmp       int      `json:"nTmp"`     // leftover *.tmp
	Bad        []ltxBad `json:"bad"`      // final-named LTX files that do not decode completely
	OutExists  bool     `json:"outExists"`
	OutInteg   string   `json:"outInteg"`
	OutFp      string   `json:"outFp"`
	SideExists bool     `json:"sideExists"`
	SideOK     bool     `json:"sideOK"`
	SideTXID   int      `json:"sideTXID"`
	RepMax     int      `json:"repMax"`
	RestOK     bool     `json:"restOK"`
	RestErr    string   `json:"restErr"`
	RestFp     string   `json:"restFp"`
	RestInteg  string   `json:"restInteg"`
	SrcFp      string   `json:"srcFp"`
	SrcInteg   string   `json:"srcInteg"`
	ReRestore  string   `json:"reRestore"` // S7: restoring again to the same output path when it is absent ("none" = not tried)
}

func (e *env) restoreTo(dst string) (ok bool, errs, fp, integ string) {
	opt := litestream.NewRestoreOptions()
	opt.OutputPath = dst
	if err := e.replica().Restore(context.Background(), opt); err != nil {
		return false, short(err), "", "none"
	}
	fp, integ, err := core.FileFingerprint(dst, e.tmp)
	if err != nil {
		return false, "inspect:" + short(err), "", "none"
	}
	return true, "none", fp, integ
}

// safeDecode: the ltx decoder panics on some truncated files (finding X1); for the inspector that is "does not decode".
func safeDecode(r io.Reader) (o core.LtxObs) {
	defer func() {
		if p := recover(); p != nil {
			o.Err = fmt.Sprintf("panic:%v", p)
		}
	}()
	return core.DecodeLTX(r, 0, 0, core.NewDict())
}

func (e *env) inspect(redoRestore bool) inspectRep {
	rep := inspectRep{Mode: "inspect", Bad: []ltxBad{}, OutInteg: "none", RestErr: "none", RestInteg: "none", SrcInteg: "none", ReRestore: "none"}
	ps := e.r
	_ = ps
	for _, root := range []string{filepath.Join(e.metaDir(), "ltx"), filepath.Join(e.r.ReplicaDir(), "ltx")} {
		filepath.Walk(root, func(p string, info os.FileInfo, err error) error {
			if err != nil || info.IsDir() {
				return nil
			}
			name := filepath.Base(p)
			if strings.HasSuffix(name, ".tmp") {
				rep.NTmp++
				return nil
			}
			mn, mx, perr := ltx.ParseFilename(name)
			if perr != nil {
				return nil // listings ignore names that do not parse
			}
			rep.NFinal++
			if strings.HasPrefix(p, e.r.ReplicaDir()) && int(mx) > rep.RepMax {
				rep.RepMax = int(mx)
			}
			fh, err := os.Open(p)
			if err != nil {
				rep.Bad = append(rep.Bad, ltxBad{p[len(e.fs)+1:], "open:" + err.Error()})
				return nil
			}
			o := safeDecode(fh)
			fh.Close()
			if o.Err == "none" && (o.Min != int(mn) || o.Max != int(mx)) {
				o.Err = fmt.Sprintf("header %d-%d under name %d-%d", o.Min, o.Max, mn, mx)
			}
			if o.Err != "none" {
				rep.Bad = append(rep.Bad, ltxBad{p[len(e.fs)+1:], o.Err})
			}
			return nil
		})
	}
	if _, err := os.Stat(e.outPath()); err == nil {
		rep.OutExists = true
		fp, integ, err := core.FileFingerprint(e.outPath(), e.tmp)
		rep.OutFp, rep.OutInteg = fp, integ
		if err != nil {
			rep.OutInteg = "error:" + short(err)
		}
	}
	if _, err := os.Stat(litestream.TXIDPath(e.outPath())); err == nil {
		rep.SideExists = true
		txid, err := litestream.ReadTXIDFile(e.outPath())
		rep.SideOK, rep.SideTXID = err == nil && txid > 0, int(txid)
	}
	if fp, integ, err := core.FileFingerprint(e.r.DBPath(), e.tmp); err == nil {
		rep.SrcFp, rep.SrcInteg = fp, integ
	} else {
		rep.SrcInteg = "error:" + short(err)
	}
	dst := filepath.Join(e.tmp, fmt.Sprintf("inspect-restore-%d.db", os.Getpid()))
	rep.RestOK, rep.RestErr, rep.RestFp, rep.RestInteg = e.restoreTo(dst)
	os.Remove(dst)
	if redoRestore && !rep.OutExists && rep.RestOK {
		// the interrupted restore is simply run again on the same output path (a stale restored.db.tmp may be there)
		ok, errs, _, _ := e.restoreTo(e.outPath())
		rep.ReRestore = errs
		if ok {
			rep.ReRestore = "ok"
			os.Remove(e.outPath())
		}
	}
	return rep
}

type resumeRep struct {
	Mode      string `json:"mode"`
	Open      string `json:"open"`
	Write     string `json:"write"`
	Sync      string `json:"sync"`
	Ack       bool   `json:"ack"`
	RestOK    bool   `json:"restOK"`
	RestErr   string `json:"restErr"`
	RestFp    string `json:"restFp"`
	RestInteg string `json:"restInteg"`
	SrcFp     string `json:"srcFp"`
	Close     string `json:"close"`
}

func (e *env) resume() resumeRep {
	rep := resumeRep{Mode: "resume", Open: "none", Write: "none", Sync: "none", RestErr: "none", RestInteg: "none", Close: "none"}
	if err := e.r.OpenApp(); err != nil {
		rep.Open = "app:" + short(err)
		return rep
	}
	e.r.SetWriteCounter(500000 + os.Getpid()%1000)
	rep.Open, _ = e.r.Step([]any{"LsOpen", "new"}, false)
	if rep.Open != "ok" {
		return rep
	}
	rep.Write, _ = e.r.Step([]any{"AppWrite", 1}, false)
	rep.Sync, rep.Ack = e.r.Step([]any{"LsSyncAndWait"}, false)
	rep.SrcFp = e.fp()
	if rep.Ack {
		dst := filepath.Join(e.tmp, fmt.Sprintf("resume-restore-%d.db", os.Getpid()))
		rep.RestOK, rep.RestErr, rep.RestFp, rep.RestInteg = e.restoreTo(dst)
		os.Remove(dst)
	}
	rep.Close, _ = e.r.Step([]any{"LsClose"}, false)
	return rep
}

func main() {
	work := flag.String("work", "", "work directory")
	scenario := flag.String("scenario", "", "S1 S2 S3 S4 S5 S6 S7 S9")
	seed := flag.Int("seed", 1, "seed")
	doInspect := flag.Bool("inspect", false, "post-kill observation")
	doResume := flag.Bool("resume", false, "start litestream again on the same directories")
	redo := flag.Bool("redo-restore", false, "with -inspect: run the interrupted restore again when its output is absent")
	flag.Parse()
	if *work == "" {
		fmt.Fprintln(os.Stderr, "scen: -work required")
		os.Exit(2)
	}
	w, _ := filepath.Abs(*work)
	e := &env{work: w, fs: filepath.Join(w, "fs"), tmp: filepath.Join(w, "tmp"), trash: filepath.Join(w, "trash"), seed: *seed}
	for _, d := range []string{e.fs, e.tmp, e.trash} {
		os.MkdirAll(d, 0o755)
	}
	e.r = core.NewRunner(core.Case{ID: 0, Cfg: config(*seed, *scenario)}, e.fs, e.tmp)
	out := json.NewEncoder(os.Stdout)
	if *doInspect || *doResume {
		if *doInspect {
			out.Encode(e.inspect(*redo))
		}
		if *doResume {
			out.Encode(e.resume())
		}
		return
	}
	sched := schedule(*scenario, *seed)
	if sched == nil {
		fmt.Fprintln(os.Stderr, "scen: unknown scenario", *scenario)
		os.Exit(2)
	}
	var err error
	e.marks, err = os.OpenFile(filepath.Join(w, "marks"), os.O_CREATE|os.O_WRONLY|os.O_APPEND, 0o644)
	if err != nil {
		fmt.Fprintln(os.Stderr, "scen:", err)
		os.Exit(2)
	}
	e.line("MARK 0 setup begin")
	if err := e.r.Setup(); err != nil {
		e.line("MARK 0 setup err")
		fmt.Fprintln(os.Stderr, "scen: setup:", err)
		os.Exit(2)
	}
	e.newState()
	e.line("MARK 0 setup ok")
	for _, st := range sched {
		e.step(st)
	}
	e.line("MARK 0 end ok")
	out.Encode(map[string]any{"mode": "run", "ops": e.nop, "states": e.nstate})
}

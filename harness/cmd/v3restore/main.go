// Command v3restore builds legacy (v0.3.x) replica layouts PHYSICALLY from real SQLite histories and runs the
// real litestream restore (Replica.Restore -> shouldUseV3Restore -> RestoreV3, or RestoreV3 directly) on them.
//
// History: one real SQLite database (modernc "sqlite", WAL mode, autocheckpoint off).  A WAL index is the
// byte content of the real -wal file between two TRUNCATE checkpoints; a snapshot is the lz4 frame of the
// database file at an index boundary; WAL index i is cut (at transaction / frame / arbitrary byte offsets,
// or at the byte length of the previous index) into segments generations/<gen>/wal/<idx>_<off>.wal.lz4.
// mtimes (= CreatedAt for the file replica client) are set with os.Chtimes: file number k in creation order
// gets base + 2k seconds.  After every transaction the logical content (ordered hash of all rows read
// through SQL) is recorded as source state number j.
//
// An optional current-format replica is produced in the same replica directory by the real litestream
// (litestream.NewDB, file.NewReplicaClient, DB.Sync, Replica.Sync, DB.Snapshot) from the same database
// continuing its history; per case its files get the requested mtimes.
//
// Output: one ndjson line per case: the listing as the restore saw it (integers only), the removed segment,
// T, and the outcome: error class, or the number of the source state the restored database equals.
package main

import (
	"bufio"
	"bytes"
	"context"
	"crypto/sha1"
	"database/sql"
	"encoding/hex"
	"encoding/json"
	"flag"
	"fmt"
	"io"
	"log/slog"
	"os"
	"path/filepath"
	"runtime/pprof"
	"sort"
	"strconv"
	"strings"
	"sync"
	"time"

	"github.com/benbjohnson/litestream"
	"github.com/benbjohnson/litestream/file"
	"github.com/pierrec/lz4/v4"
	_ "modernc.org/sqlite"
)

var base = time.Date(2024, 1, 1, 0, 0, 0, 0, time.UTC)

func tickTime(t int) time.Time { return base.Add(time.Duration(t) * time.Second) }

type inWal struct {
	Tx   []int    `json:"tx"`   // weight of each transaction (1 = single-frame update)
	Cuts []string `json:"cuts"` // "t<k>" after k-th txn, "f<k>" after k frames, "b<n>" byte n, "p" = byte length of previous index
}
type inGen struct {
	Wal   []inWal `json:"wal"`
	Snaps []int   `json:"snaps"`
}
type inCase struct {
	Rm     []int `json:"rm"` // [gen rank (1-based), idx, k-th segment of that index (0-based)] or empty
	T      int   `json:"T"`
	Direct bool  `json:"direct"`
	LtxTs  []int `json:"ltxts"` // tick of every LTX step; 0 = files of that step absent
}
type inLayout struct {
	ID    int      `json:"id"`
	Gens  []inGen  `json:"gens"`  // in NAME order
	Order []int    `json:"order"` // creation (time) order, indices into gens
	Ltx   []string `json:"ltx"`   // steps: "l0" (one txn + sync) | "snap" (DB.Snapshot)
	Cases []inCase `json:"cases"`
}
type input struct {
	Seed    int64      `json:"seed"`
	Layouts []inLayout `json:"layouts"`
}

type snapRec struct {
	Gen int `json:"gen"`
	Idx int `json:"idx"`
	Ts  int `json:"ts"`
	St  int `json:"st"`
}
type segRec struct {
	Gen  int `json:"gen"`
	Idx  int `json:"idx"`
	Off  int `json:"off"`
	Size int `json:"size"`
	Ts   int `json:"ts"`
	St   int `json:"st"`
	path string
}
type ltxRec struct {
	Snaps []int `json:"snaps"`
	Files []int `json:"files"`
}
type resRec struct {
	Err  bool   `json:"err"`
	Cls  string `json:"cls"`
	St   int    `json:"st"`
	Used string `json:"used"`
	Msg  string `json:"msg"`
}
type outRec struct {
	T      int       `json:"t"` // layout id
	I      int       `json:"i"` // case number
	Snaps  []snapRec `json:"snaps"`
	Segs   []segRec  `json:"segs"`
	Rm     segRec    `json:"rm"`
	Ts     int       `json:"T"`
	Direct bool      `json:"direct"`
	Ltx    ltxRec    `json:"ltx"`
	LtxMin int       `json:"ltxmin"`
	Res    resRec    `json:"res"`
}

type ltxStep struct {
	files []string
	level []int
}

type history struct {
	dir, dbPath, replica string
	db                   *sql.DB
	state                int
	fps                  map[string]int
	tick                 int
}

func (h *history) open() error {
	db, err := sql.Open("sqlite", "file:"+h.dbPath+"?_pragma=busy_timeout(5000)&_pragma=journal_mode(WAL)&_pragma=wal_autocheckpoint(0)&_pragma=synchronous(OFF)")
	if err != nil {
		return err
	}
	db.SetMaxOpenConns(1)
	h.db = db
	return nil
}

func fingerprint(db *sql.DB) (string, error) { return fingerprintOf(db, "main") }

func fingerprintOf(db *sql.DB, schema string) (string, error) {
	rows, err := db.Query("SELECT id, v FROM " + schema + ".t ORDER BY id")
	if err != nil {
		return "", err
	}
	defer rows.Close()
	hsh := sha1.New()
	for rows.Next() {
		var id int
		var v []byte
		if err := rows.Scan(&id, &v); err != nil {
			return "", err
		}
		fmt.Fprintf(hsh, "%d:%d:", id, len(v))
		hsh.Write(v)
	}
	if err := rows.Err(); err != nil {
		return "", err
	}
	return hex.EncodeToString(hsh.Sum(nil)), nil
}

func (h *history) record() error {
	fp, err := fingerprint(h.db)
	if err != nil {
		return err
	}
	if _, dup := h.fps[fp]; dup {
		return fmt.Errorf("duplicate source state")
	}
	h.fps[fp] = h.state
	return nil
}

const nrows = 24

// txn executes transaction number h.state+1 of the given weight and records the new state.
func (h *history) txn(weight int) error {
	h.state++
	tx, err := h.db.Begin()
	if err != nil {
		return err
	}
	if _, err := tx.Exec("UPDATE t SET v = ? WHERE id = 1", []byte(fmt.Sprintf("s%06d", h.state))); err != nil {
		tx.Rollback()
		return err
	}
	for k := 2; k <= weight && k <= nrows; k++ {
		b := bytes.Repeat([]byte{byte(h.state), byte(k)}, 900)
		if _, err := tx.Exec("UPDATE t SET v = ? WHERE id = ?", b, k); err != nil {
			tx.Rollback()
			return err
		}
	}
	if err := tx.Commit(); err != nil {
		return err
	}
	return h.record()
}

func (h *history) checkpoint() error {
	var busy, lg, ck int
	if err := h.db.QueryRow("PRAGMA wal_checkpoint(TRUNCATE)").Scan(&busy, &lg, &ck); err != nil {
		return err
	}
	if busy != 0 {
		return fmt.Errorf("checkpoint busy")
	}
	return nil
}

func writeLZ4(path string, b []byte, tick int) error {
	if err := os.MkdirAll(filepath.Dir(path), 0o755); err != nil {
		return err
	}
	f, err := os.Create(path)
	if err != nil {
		return err
	}
	zw := lz4.NewWriter(f)
	if _, err := zw.Write(b); err != nil {
		f.Close()
		return err
	}
	if err := zw.Close(); err != nil {
		f.Close()
		return err
	}
	if err := f.Close(); err != nil {
		return err
	}
	return os.Chtimes(path, tickTime(tick), tickTime(tick))
}

const walHdr, frameSz = 32, 24 + 4096

type built struct {
	snaps  []snapRec
	segs   []segRec
	steps  []ltxStep
	ltxMin int
	u1able int
}

func genName(rank int, seed int64, id int) string {
	// name order = rank order; the low digits vary with the seed
	return fmt.Sprintf("%02x%014x", 0x10*rank, uint64(seed*1000003+int64(id))&0xffffffffffffff)
}

func build(h *history, lay inLayout, seed int64) (*built, error) {
	if err := h.open(); err != nil {
		return nil, err
	}
	if _, err := h.db.Exec("CREATE TABLE t (id INTEGER PRIMARY KEY, v BLOB)"); err != nil {
		return nil, err
	}
	for k := 1; k <= nrows; k++ {
		if _, err := h.db.Exec("INSERT INTO t (id, v) VALUES (?, ?)", k, bytes.Repeat([]byte{byte(k)}, 900)); err != nil {
			return nil, err
		}
	}
	if err := h.checkpoint(); err != nil {
		return nil, err
	}
	if err := h.record(); err != nil { // state 0
		return nil, err
	}
	b := &built{ltxMin: 1 << 30}
	for _, gi := range lay.Order {
		g := lay.Gens[gi]
		rank := gi + 1
		name := genName(rank, seed, lay.ID)
		isSnap := map[int]bool{}
		for _, s := range g.Snaps {
			isSnap[s] = true
		}
		prevLen := 0
		for idx, w := range g.Wal {
			if err := h.checkpoint(); err != nil {
				return nil, err
			}
			if isSnap[idx] {
				raw, err := os.ReadFile(h.dbPath)
				if err != nil {
					return nil, err
				}
				h.tick++
				p := filepath.Join(h.replica, "generations", name, "snapshots", litestream.FormatSnapshotFilenameV3(idx))
				if err := writeLZ4(p, raw, 2*h.tick); err != nil {
					return nil, err
				}
				b.snaps = append(b.snaps, snapRec{Gen: rank, Idx: idx, Ts: 2 * h.tick, St: h.state})
			}
			st0 := h.state
			var commitEnd []int
			for _, wt := range w.Tx {
				if err := h.txn(wt); err != nil {
					return nil, err
				}
				fi, err := os.Stat(h.dbPath + "-wal")
				if err != nil {
					return nil, err
				}
				commitEnd = append(commitEnd, int(fi.Size()))
			}
			wal, err := os.ReadFile(h.dbPath + "-wal")
			if err != nil {
				return nil, err
			}
			if len(wal) < walHdr+frameSz || (len(wal)-walHdr)%frameSz != 0 {
				return nil, fmt.Errorf("unexpected wal length %d", len(wal))
			}
			// resolve the cut points
			cutset := map[int]bool{}
			for _, c := range w.Cuts {
				off := -1
				if c == "p" {
					off = prevLen
				} else if n, err := strconv.Atoi(c[1:]); err == nil {
					switch c[0] {
					case 't':
						if n >= 1 && n <= len(commitEnd) {
							off = commitEnd[n-1]
						}
					case 'f':
						off = walHdr + n*frameSz
					case 'b':
						off = n
					}
				}
				if off > 0 && off < len(wal) {
					cutset[off] = true
				}
			}
			cuts := []int{0}
			for c := range cutset {
				cuts = append(cuts, c)
			}
			sort.Ints(cuts)
			cuts = append(cuts, len(wal))
			for k := 0; k+1 < len(cuts); k++ {
				lo, hi := cuts[k], cuts[k+1]
				st := st0
				for j, ce := range commitEnd {
					if ce <= hi {
						st = st0 + j + 1
					}
				}
				h.tick++
				p := filepath.Join(h.replica, "generations", name, "wal", litestream.FormatWALSegmentFilenameV3(idx, int64(lo)))
				if err := writeLZ4(p, wal[lo:hi], 2*h.tick); err != nil {
					return nil, err
				}
				b.segs = append(b.segs, segRec{Gen: rank, Idx: idx, Off: lo, Size: hi - lo, Ts: 2 * h.tick, St: st, path: p})
				if idx > 0 && lo == prevLen && lo > 0 {
					b.u1able++
				}
			}
			prevLen = len(wal)
		}
	}
	if err := h.checkpoint(); err != nil {
		return nil, err
	}
	if len(lay.Ltx) == 0 {
		h.db.Close()
		h.db = nil
		return b, nil
	}
	// current-format replica of the same database, continuing its history, made by the real litestream
	ctx := context.Background()
	b.ltxMin = h.state + 1
	h.db.Close()
	h.db = nil
	ldb := litestream.NewDB(h.dbPath)
	ldb.MonitorInterval = 0
	ldb.Replica = litestream.NewReplicaWithClient(ldb, file.NewReplicaClient(h.replica))
	ldb.Replica.MonitorEnabled = false
	if err := ldb.Open(); err != nil {
		return nil, fmt.Errorf("litestream open: %w", err)
	}
	seen := map[string]bool{}
	for _, step := range lay.Ltx {
		switch step {
		case "l0":
			if err := h.open(); err != nil {
				return nil, err
			}
			if err := h.txn(1); err != nil {
				return nil, err
			}
			h.db.Close()
			h.db = nil
			if err := ldb.Sync(ctx); err != nil {
				return nil, fmt.Errorf("litestream sync: %w", err)
			}
			if err := ldb.Replica.Sync(ctx); err != nil {
				return nil, fmt.Errorf("litestream replica sync: %w", err)
			}
		case "snap":
			if _, err := ldb.Snapshot(ctx); err != nil {
				return nil, fmt.Errorf("litestream snapshot: %w", err)
			}
		default:
			return nil, fmt.Errorf("bad ltx step %q", step)
		}
		var st ltxStep
		root := filepath.Join(h.replica, "ltx")
		filepath.Walk(root, func(p string, fi os.FileInfo, err error) error {
			if err == nil && !fi.IsDir() && strings.HasSuffix(p, ".ltx") && !seen[p] {
				seen[p] = true
				lvl, _ := strconv.Atoi(filepath.Base(filepath.Dir(p)))
				st.files = append(st.files, p)
				st.level = append(st.level, lvl)
			}
			return nil
		})
		b.steps = append(b.steps, st)
	}
	if err := ldb.Close(ctx); err != nil {
		return nil, fmt.Errorf("litestream close: %w", err)
	}
	return b, nil
}

func classify(err error) (cls, used string) {
	m := err.Error()
	switch {
	case strings.Contains(m, "missing WAL index"):
		return "v3-missing-index", "v3"
	case strings.Contains(m, "missing WAL segment"):
		return "v3-missing-segment", "v3"
	case strings.Contains(m, "no snapshots available"):
		return "v3-no-snapshot", "v3"
	case strings.Contains(m, "apply WAL segments"), strings.Contains(m, "download snapshot"), strings.Contains(m, "v0.3.x"), strings.Contains(m, "list WAL segments"):
		return "v3-other", "v3"
	case strings.Contains(m, "restore plan"), strings.Contains(m, "no matching backup"), strings.Contains(m, "decode database"), strings.Contains(m, "ltx"):
		return "ltx-error", "ltx"
	}
	return "other", "?"
}

func trunc(m string) string {
	if len(m) > 160 {
		return m[:160]
	}
	return m
}

func runLayout(root string, chk *sql.DB, lay inLayout, seed int64, emit func(outRec)) error {
	dir := filepath.Join(root, fmt.Sprintf("l%d", lay.ID))
	if err := os.MkdirAll(dir, 0o755); err != nil {
		return err
	}
	defer os.RemoveAll(dir)
	h := &history{dir: dir, dbPath: filepath.Join(dir, "src.db"), replica: filepath.Join(dir, "replica"), fps: map[string]int{}}
	b, err := build(h, lay, seed)
	if h.db != nil {
		h.db.Close()
	}
	if err != nil {
		return fmt.Errorf("layout %d: %w", lay.ID, err)
	}
	ctx := context.Background()
	for ci, c := range lay.Cases {
		rec := outRec{T: lay.ID, I: ci, Snaps: b.snaps, Ts: c.T, Direct: c.Direct, LtxMin: b.ltxMin,
			Ltx: ltxRec{Snaps: []int{}, Files: []int{}}}
		// remove one segment
		rmPath := ""
		if len(c.Rm) == 3 {
			k := 0
			for _, s := range b.segs {
				if s.Gen == c.Rm[0] && s.Idx == c.Rm[1] {
					if k == c.Rm[2] {
						rec.Rm, rmPath = s, s.path
					}
					k++
				}
			}
			// (a k beyond the segments the cuts produced: nothing is removed)
			if rmPath != "" {
				if err := os.Rename(rmPath, rmPath+".removed"); err != nil {
					return err
				}
			}
		}
		rec.Segs = make([]segRec, 0, len(b.segs))
		for _, s := range b.segs {
			if s.path != rmPath {
				rec.Segs = append(rec.Segs, s)
			}
		}
		// timestamps / presence of the current-format files
		var hidden []string
		for si, st := range b.steps {
			tk := 0
			if si < len(c.LtxTs) {
				tk = c.LtxTs[si]
			}
			for fi, p := range st.files {
				if tk == 0 {
					if err := os.Rename(p, p+".removed"); err != nil {
						return err
					}
					hidden = append(hidden, p)
					continue
				}
				if err := os.Chtimes(p, tickTime(tk), tickTime(tk)); err != nil {
					return err
				}
				rec.Ltx.Files = append(rec.Ltx.Files, tk)
				if st.level[fi] == litestream.SnapshotLevel {
					rec.Ltx.Snaps = append(rec.Ltx.Snaps, tk)
				}
			}
		}
		// the real restore
		out := filepath.Join(dir, fmt.Sprintf("out%d.db", ci))
		r := litestream.NewReplicaWithClient(nil, file.NewReplicaClient(h.replica))
		opt := litestream.RestoreOptions{OutputPath: out}
		if c.T != 0 {
			opt.Timestamp = tickTime(c.T)
		}
		var rerr error
		if c.Direct {
			rerr = r.RestoreV3(ctx, opt)
		} else {
			rerr = r.Restore(ctx, opt)
		}
		if rerr != nil {
			rec.Res.Err = true
			rec.Res.St = -1
			rec.Res.Cls, rec.Res.Used = classify(rerr)
			rec.Res.Msg = rerr.Error()
			if len(rec.Res.Msg) > 160 {
				rec.Res.Msg = rec.Res.Msg[:160]
			}
			if c.Direct {
				rec.Res.Used = "v3"
			}
			if _, serr := os.Stat(out); serr == nil {
				rec.Res.Cls = "error-but-output-exists"
			}
		} else {
			rec.Res.Cls = "ok"
			rec.Res.St = -2
			rec.Res.Used = "?"
			// read the restored database through SQL (attached to the worker's long-lived connection)
			if _, err := chk.Exec("ATTACH DATABASE ? AS r", out); err != nil {
				rec.Res.Cls, rec.Res.Msg = "ok-unreadable", trunc(err.Error())
			} else {
				if fp, err := fingerprintOf(chk, "r"); err == nil {
					if st, ok := h.fps[fp]; ok {
						rec.Res.St = st
					} else {
						rec.Res.St = -3 // readable, but equal to no state the source ever was in
						rec.Res.Cls = "ok-unknown-state"
					}
				} else {
					rec.Res.Cls, rec.Res.Msg = "ok-unreadable", trunc(err.Error())
				}
				if _, err := chk.Exec("DETACH DATABASE r"); err != nil {
					return fmt.Errorf("detach: %w", err)
				}
			}
			if rec.Res.St >= b.ltxMin {
				rec.Res.Used = "ltx"
			} else if rec.Res.St >= 0 || c.Direct {
				rec.Res.Used = "v3"
			}
		}
		for _, sfx := range []string{"", "-wal", "-shm", ".tmp", ".tmp-wal", ".tmp-shm"} {
			os.Remove(out + sfx)
		}
		for _, p := range hidden {
			if err := os.Rename(p+".removed", p); err != nil {
				return err
			}
		}
		if rmPath != "" {
			if err := os.Rename(rmPath+".removed", rmPath); err != nil {
				return err
			}
		}
		emit(rec)
	}
	return nil
}

func main() {
	inPath := flag.String("in", "", "input json")
	outPath := flag.String("out", "", "output ndjson")
	work := flag.String("work", "", "scratch directory")
	par := flag.Int("par", 8, "layouts in parallel")
	prof := flag.String("cpuprofile", "", "write a CPU profile")
	flag.Parse()
	if *prof != "" {
		pf, _ := os.Create(*prof)
		pprof.StartCPUProfile(pf)
		defer pprof.StopCPUProfile()
	}
	slog.SetDefault(slog.New(slog.NewTextHandler(io.Discard, nil)))
	raw, err := os.ReadFile(*inPath)
	if err != nil {
		fmt.Fprintln(os.Stderr, err)
		os.Exit(2)
	}
	var in input
	if err := json.Unmarshal(raw, &in); err != nil {
		fmt.Fprintln(os.Stderr, err)
		os.Exit(2)
	}
	of, err := os.Create(*outPath)
	if err != nil {
		fmt.Fprintln(os.Stderr, err)
		os.Exit(2)
	}
	bw := bufio.NewWriterSize(of, 1<<20)
	var mu sync.Mutex
	n := 0
	emit := func(r outRec) {
		b, _ := json.Marshal(r)
		mu.Lock()
		bw.Write(b)
		bw.WriteByte('\n')
		n++
		mu.Unlock()
	}
	jobs := make(chan inLayout)
	var wg sync.WaitGroup
	var firstErr error
	for w := 0; w < *par; w++ {
		wg.Add(1)
		go func() {
			defer wg.Done()
			chk, err := sql.Open("sqlite", "file::memory:?_pragma=busy_timeout(5000)")
			if err != nil {
				panic(err)
			}
			chk.SetMaxOpenConns(1)
			defer chk.Close()
			for lay := range jobs {
				if err := runLayout(*work, chk, lay, in.Seed, emit); err != nil {
					mu.Lock()
					if firstErr == nil {
						firstErr = err
					}
					mu.Unlock()
				}
			}
		}()
	}
	for _, lay := range in.Layouts {
		jobs <- lay
	}
	close(jobs)
	wg.Wait()
	bw.Flush()
	of.Close()
	if firstErr != nil {
		pprof.StopCPUProfile()
		fmt.Fprintln(os.Stderr, "driver error:", firstErr)
		os.Exit(2)
	}
	fmt.Printf("{\"cases\": %d}\n", n)
}

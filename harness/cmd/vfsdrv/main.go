//go:build vfs && verif

// Command vfsdrv drives the REAL litestream.VFSFile (vfs.go, build tag `vfs`) directly, next to a real primary
// (real SQLite + real litestream.DB + file replica), for property C18.
//
// A schedule is a list of steps:
//
//	primary : ["Write",row] ["Grow",k] ["Shrink",k] ["Vacuum",k] ["Sync"] ["Compact"] ["Snapshot"] ["Ret0"]
//	VFS     : ["Open"] ["Poll"] ["Lock"] ["Unlock"] ["TT",k] ["TTReset"]
//
// "Poll" is exactly one round of VFSFile.pollReplicaClient: the VFS runs its own monitor goroutine with a 1 ms
// PollInterval on a gating replica client whose level listings fail unless the schedule granted one round
// (level 0 then level 1), so no export of the unexported poll function is needed.
//
// After Open and after every VFS step the driver records what the VFS serves: Pos, MaxTXID1, FileSize and the
// page id of every page read with ReadAt through a one-page cache (page 1 with the bytes the VFS rewrites, 18-19
// and 24-27, masked), and the reference: the real Replica.Restore at that TXID (or timestamp), masked the same way.
package main

import (
	"context"
	"database/sql"
	"encoding/binary"
	"encoding/json"
	"errors"
	"flag"
	"fmt"
	"io"
	"log/slog"
	"math/rand"
	"os"
	"path/filepath"
	"sort"
	"strings"
	"sync"
	"time"

	"github.com/benbjohnson/litestream"
	"github.com/benbjohnson/litestream/file"
	_ "github.com/mattn/go-sqlite3" // links the sqlite3 amalgamation needed by psanford/sqlite3vfs
	"github.com/psanford/sqlite3vfs"
	"github.com/superfly/ltx"

	"verifharness/core"
)

type Cfg struct {
	PageSize   int    `json:"pageSize"`
	AutoVacuum string `json:"autoVacuum"` // none | full | incremental
	Rows       int    `json:"rows"`
	Seed       int    `json:"seed"`
	BigCache   bool   `json:"bigCache"` // keep the VFS page cache at its default size (cache invalidation on poll / unlock is exercised)
}

type Case struct {
	ID    int     `json:"id"`
	Cfg   Cfg     `json:"cfg"`
	Sched [][]any `json:"sched"`
}

type FileObs struct {
	Lvl    int   `json:"lvl"`
	Min    int   `json:"min"`
	Max    int   `json:"max"`
	Commit int   `json:"commit"`
	Pgs    []int `json:"pgs"`
	Ids    []int `json:"ids"`
}

// Ev is one trace line; every line has every field.
type Ev struct {
	T       int       `json:"t"`
	I       int       `json:"i"`
	Op      string    `json:"op"`
	Arg     int       `json:"arg"`
	Res     string    `json:"res"`
	Obs     bool      `json:"obs"`    // the VFS was observed at this step
	Opened  bool      `json:"opened"` // a VFS file is open
	Locked  bool      `json:"locked"` // a reader holds the shared lock
	TT      int       `json:"tt"`     // time-travel target (TXID whose file time was used), 0 = latest
	Pos     int       `json:"pos"`    // VFSFile.Pos().TXID
	Max1    int       `json:"max1"`   // VFSFile.MaxTXID1()
	PrevPos int       `json:"prevPos"`
	PrevM1  int       `json:"prevMax1"`
	View    int       `json:"view"`    // TXID the served pages are judged against (pos; pos at Lock time while locked)
	OpenI   int       `json:"openI"`   // step index of the Open / TT / TTReset that built the index
	OpenPos int       `json:"openPos"` // pos right after that step
	Plan    [][]int   `json:"plan"`    // [lvl,min,max] of the restore plan elements that step used
	Size    int       `json:"size"`    // FileSize / pageSize
	SizeRem int       `json:"sizeRem"` // FileSize % pageSize
	Pg      []int     `json:"pg"`      // served page ids (0 = "page not found", -1 = other read error)
	RefOK   bool      `json:"refOK"`
	RefErr  string    `json:"refErr"`
	RefN    int       `json:"refN"`
	Ref     []int     `json:"ref"`
	Commits []int     `json:"commits"` // commit (pages) of every TXID seen on level 0, by TXID
	Remote  [][]int   `json:"remote"`  // [lvl,min,max] of every file on the replica
	New     []FileObs `json:"new"`     // files that appeared at this step, decoded
	ReadErr string    `json:"readErr"`
}

var discard = slog.New(slog.NewTextHandler(io.Discard, nil))
var errGate = errors.New("verif gate closed")

// gateClient lets level listings of the poll loop through only when the schedule granted a round.
type gateClient struct {
	litestream.ReplicaClient
	mu      sync.Mutex
	tokens  int
	inRound bool
	hold    chan struct{} // when set: the next page fetch parks here (ReadBegin / ReadEnd)
	arrived chan struct{}
}

func (g *gateClient) LTXFiles(ctx context.Context, level int, seek ltx.TXID, useMetadata bool) (ltx.FileIterator, error) {
	if seek != 0 { // restore planning lists with seek = 0; the poll loop always seeks beyond its position (>= 2)
		g.mu.Lock()
		switch level {
		case 0:
			if g.tokens == 0 {
				g.mu.Unlock()
				return nil, errGate
			}
			g.tokens--
			g.inRound = true
		default:
			if !g.inRound {
				g.mu.Unlock()
				return nil, errGate
			}
			g.inRound = false
		}
		g.mu.Unlock()
	}
	return g.ReplicaClient.LTXFiles(ctx, level, seek, useMetadata)
}

// A page fetch from a file that retention deleted fails for good; answer with an error the VFS does not retry
// (os.ErrNotExist would be retried 6 times with growing delays before the same failure is reported).
func (g *gateClient) OpenLTXFile(ctx context.Context, level int, minTXID, maxTXID ltx.TXID, offset, size int64) (io.ReadCloser, error) {
	g.mu.Lock()
	hold, arrived := g.hold, g.arrived
	g.hold, g.arrived = nil, nil
	g.mu.Unlock()
	if hold != nil { // a ReadAt that has looked its element up: park before the data is fetched (and cached)
		close(arrived)
		<-hold
	}
	if fc, ok := g.ReplicaClient.(*file.ReplicaClient); ok {
		if _, err := os.Stat(fc.LTXFilePath(level, minTXID, maxTXID)); os.IsNotExist(err) {
			return nil, fmt.Errorf("verif: ltx file %d/%d-%d is gone", level, minTXID, maxTXID)
		}
	}
	return g.ReplicaClient.OpenLTXFile(ctx, level, minTXID, maxTXID, offset, size)
}

// logTap captures the monitor's "cannot fetch new ltx files" errors that are not caused by the gate.
type logTap struct {
	mu   sync.Mutex
	errs []string
}

func (h *logTap) Enabled(_ context.Context, l slog.Level) bool { return l >= slog.LevelError }
func (h *logTap) Handle(_ context.Context, r slog.Record) error {
	if r.Message != "cannot fetch new ltx files" {
		return nil
	}
	msg := ""
	r.Attrs(func(a slog.Attr) bool {
		if a.Key == "error" {
			msg = a.Value.String()
		}
		return true
	})
	if strings.Contains(msg, errGate.Error()) {
		return nil
	}
	h.mu.Lock()
	h.errs = append(h.errs, msg)
	h.mu.Unlock()
	return nil
}
func (h *logTap) WithAttrs([]slog.Attr) slog.Handler { return h }
func (h *logTap) WithGroup(string) slog.Handler      { return h }
func (h *logTap) take() (string, bool) {
	h.mu.Lock()
	defer h.mu.Unlock()
	if len(h.errs) == 0 {
		return "", false
	}
	s := h.errs[0]
	h.errs = nil
	return s, true
}

type drv struct {
	c       Case
	dir     string
	dbPath  string
	repDir  string
	tmp     string
	dict    *core.Dict
	ctx     context.Context
	app     *sql.DB
	ls      *litestream.DB
	wcount  int
	nextRow int
	seen    map[string]bool
	commits []int
	l0time  map[int]time.Time

	vf      *litestream.VFSFile
	gate    *gateClient
	tap     *logTap
	locked  bool
	tt      int
	ttTime  time.Time
	view    int
	openI   int
	openPos int
	plan    [][]int
	ttRef   []int // reference captured when the time-travel view was built (later retention may make that restore impossible)
	ttRefOK bool
	rdHold  chan struct{}
	rdDone  chan struct{}
}

func (d *drv) payload(n int) []byte {
	d.wcount++
	b := make([]byte, n)
	src := rand.New(rand.NewSource(int64(d.c.Cfg.Seed)*1000003 + int64(d.wcount)))
	src.Read(b)
	binary.BigEndian.PutUint32(b, uint32(d.wcount))
	return b
}

func (d *drv) rowBytes() int { return d.c.Cfg.PageSize * 6 / 10 }

func (d *drv) exec(q string, args ...any) error {
	_, err := d.app.ExecContext(d.ctx, q, args...)
	return err
}

func (d *drv) setup() error {
	os.MkdirAll(d.dir, 0o755)
	os.MkdirAll(d.tmp, 0o755)
	db, err := sql.Open("sqlite", "file:"+d.dbPath+"?_pragma=busy_timeout(2000)&_pragma=wal_autocheckpoint(0)")
	if err != nil {
		return err
	}
	db.SetMaxOpenConns(1)
	d.app = db
	cfg := d.c.Cfg
	av := map[string]int{"none": 0, "full": 1, "incremental": 2}[cfg.AutoVacuum]
	for _, s := range []string{
		fmt.Sprintf("PRAGMA page_size = %d", cfg.PageSize),
		fmt.Sprintf("PRAGMA auto_vacuum = %d", av),
		"PRAGMA journal_mode = wal",
		"CREATE TABLE t (id INTEGER PRIMARY KEY, v BLOB)",
	} {
		if err := d.exec(s); err != nil {
			return fmt.Errorf("%s: %w", s, err)
		}
	}
	for i := 1; i <= cfg.Rows; i++ {
		if err := d.exec("INSERT INTO t (id, v) VALUES (?, ?)", i, d.payload(d.rowBytes())); err != nil {
			return err
		}
	}
	d.nextRow = cfg.Rows + 1
	ls := litestream.NewDB(d.dbPath)
	ls.Logger = discard
	ls.MonitorInterval = 0
	ls.ShutdownSyncTimeout = 0
	ls.CheckpointInterval = 0
	ls.BusyTimeout = 200 * time.Millisecond
	ls.L0Retention = 24 * time.Hour
	client := file.NewReplicaClient(d.repDir)
	client.SetLogger(discard)
	ls.Replica = litestream.NewReplicaWithClient(ls, client)
	ls.Replica.MonitorEnabled = false
	if err := ls.Open(); err != nil {
		return err
	}
	d.ls = ls
	return nil
}

func errClass(err error) string {
	if err == nil {
		return "ok"
	}
	s := err.Error()
	if len(s) > 160 {
		s = s[:160]
	}
	return "err:" + s
}

func argInt(st []any, k, def int) int {
	if len(st) > k {
		switch v := st[k].(type) {
		case float64:
			return int(v)
		case int:
			return v
		}
	}
	return def
}

func (d *drv) closeVFS() {
	if d.vf != nil {
		if d.locked {
			d.vf.Unlock(sqlite3vfs.LockNone)
		}
		d.vf.Close()
		d.vf = nil
	}
	d.locked, d.tt = false, 0
}

func (d *drv) planMaxes(ts time.Time) [][]int {
	out := [][]int{}
	infos, err := litestream.CalcRestorePlan(d.ctx, d.gate.ReplicaClient, 0, ts, discard)
	if err != nil {
		return out
	}
	for _, in := range infos {
		out = append(out, []int{in.Level, int(in.MinTXID), int(in.MaxTXID)})
	}
	return out
}

func (d *drv) pos() int { return int(d.vf.Pos().TXID) }

// pollOnce grants the monitor goroutine exactly one round and waits for its end.
func (d *drv) pollOnce() string {
	before := d.vf.LastPollSuccess()
	d.tap.take()
	d.gate.mu.Lock()
	d.gate.tokens, d.gate.inRound = 1, false
	d.gate.mu.Unlock()
	deadline := time.Now().Add(10 * time.Second)
	res := "timeout"
	for time.Now().Before(deadline) {
		if msg, ok := d.tap.take(); ok {
			res = "pollerr:" + msg
			if len(res) > 200 {
				res = res[:200]
			}
			break
		}
		if !d.vf.LastPollSuccess().Equal(before) {
			res = "ok"
			break
		}
		time.Sleep(200 * time.Microsecond)
	}
	d.gate.mu.Lock()
	d.gate.tokens, d.gate.inRound = 0, false
	d.gate.mu.Unlock()
	return res
}

func (d *drv) step(i int, st []any) (res string, obs bool) {
	op, _ := st[0].(string)
	ctx := d.ctx
	switch op {
	case "Write":
		id := argInt(st, 1, 1)
		if id >= d.nextRow {
			id = d.nextRow - 1
		}
		if id < 1 {
			return "skip", false
		}
		return errClass(d.exec("UPDATE t SET v = ? WHERE id = ?", d.payload(d.rowBytes()), id)), false
	case "Grow":
		k := argInt(st, 1, 1)
		tx, err := d.app.BeginTx(ctx, nil)
		if err != nil {
			return errClass(err), false
		}
		for j := 0; j < k; j++ {
			if _, err := tx.ExecContext(ctx, "INSERT INTO t (id, v) VALUES (?, ?)", d.nextRow, d.payload(d.rowBytes())); err != nil {
				tx.Rollback()
				return errClass(err), false
			}
			d.nextRow++
		}
		return errClass(tx.Commit()), false
	case "Shrink":
		k := argInt(st, 1, 1)
		if d.nextRow-1-k < 1 {
			k = d.nextRow - 2
		}
		if k < 1 {
			return "skip", false
		}
		if err := d.exec("DELETE FROM t WHERE id >= ?", d.nextRow-k); err != nil {
			return errClass(err), false
		}
		d.nextRow -= k
		switch d.c.Cfg.AutoVacuum {
		case "incremental":
			return errClass(d.exec("PRAGMA incremental_vacuum")), false
		case "none":
			return errClass(d.exec("VACUUM")), false
		}
		return "ok", false
	case "Vacuum": // ["Vacuum",k]: delete the last k rows (k may be 0), then VACUUM
		k := argInt(st, 1, 0)
		if d.nextRow-1-k < 1 {
			k = d.nextRow - 2
		}
		if k > 0 {
			if err := d.exec("DELETE FROM t WHERE id >= ?", d.nextRow-k); err != nil {
				return errClass(err), false
			}
			d.nextRow -= k
		}
		return errClass(d.exec("VACUUM")), false
	case "Sync":
		err := d.ls.SyncAndWait(ctx)
		return errClass(err), false
	case "Compact":
		_, err := d.ls.Compact(ctx, 1)
		if errors.Is(err, litestream.ErrNoCompaction) {
			return "nocompaction", false
		}
		return errClass(err), false
	case "Snapshot":
		_, err := d.ls.Snapshot(ctx)
		return errClass(err), false
	case "Ret0": // what the daemon does once the level-0 retention period has passed: delete compacted level-0 files
		d.ls.L0Retention = time.Nanosecond
		err := d.ls.EnforceL0RetentionByTime(ctx)
		d.ls.L0Retention = 24 * time.Hour
		return errClass(err), false

	case "Open":
		d.closeVFS()
		inner := file.NewReplicaClient(d.repDir)
		inner.SetLogger(discard)
		d.gate = &gateClient{ReplicaClient: inner}
		d.tap = &logTap{}
		d.plan = d.planMaxes(time.Time{})
		if len(d.plan) == 0 {
			return "skip", false // nothing to open yet (Open would block)
		}
		f := litestream.NewVFSFile(d.gate, "verif.db", slog.New(d.tap))
		f.PollInterval = time.Millisecond
		if !d.c.Cfg.BigCache {
			f.CacheSize = 1 // < page size: one cache entry, so the cache cannot mask the index
		}
		if err := f.Open(); err != nil {
			f.Close()
			return errClass(err), false
		}
		d.vf = f
		d.openI, d.openPos = i, d.pos()
		d.view = d.openPos
		return "ok", true
	case "Poll":
		if d.vf == nil {
			return "skip", false
		}
		if d.tt != 0 {
			return "skip", false // the monitor does not poll during time travel
		}
		res := d.pollOnce()
		if !d.locked {
			d.view = d.pos()
		}
		return res, true
	case "PollQuiet": // a poll whose result is not read back (the cache keeps what the poll left in it)
		if d.vf == nil || d.tt != 0 {
			return "skip", false
		}
		res := d.pollOnce()
		if !d.locked {
			d.view = d.pos()
		}
		return res, false
	case "ReadBegin": // ReadAt(page k) without a lock (as SQLite reads the header at open), parked between its lookup and its fetch
		if d.vf == nil || d.rdDone != nil {
			return "skip", false
		}
		pg := argInt(st, 1, 1)
		hold, arrived, done := make(chan struct{}), make(chan struct{}), make(chan struct{})
		d.gate.mu.Lock()
		d.gate.hold, d.gate.arrived = hold, arrived
		d.gate.mu.Unlock()
		go func() {
			buf := make([]byte, d.c.Cfg.PageSize)
			d.vf.ReadAt(buf, int64(pg-1)*int64(d.c.Cfg.PageSize))
			close(done)
		}()
		select {
		case <-arrived:
			d.rdHold, d.rdDone = hold, done
			return "parked", false
		case <-done: // served from the cache: nothing was fetched
			d.gate.mu.Lock()
			d.gate.hold, d.gate.arrived = nil, nil
			d.gate.mu.Unlock()
			return "hit", false
		case <-time.After(5 * time.Second):
			return "timeout", false
		}
	case "ReadEnd":
		if d.rdDone == nil {
			return "skip", false
		}
		close(d.rdHold)
		select {
		case <-d.rdDone:
		case <-time.After(5 * time.Second):
			return "timeout", false
		}
		d.rdHold, d.rdDone = nil, nil
		return "ok", true
	case "Lock":
		if d.vf == nil || d.locked {
			return "skip", false
		}
		if err := d.vf.Lock(sqlite3vfs.LockShared); err != nil {
			return errClass(err), false
		}
		d.locked = true
		d.view = d.pos()
		return "ok", true
	case "Unlock":
		if d.vf == nil || !d.locked {
			return "skip", false
		}
		if err := d.vf.Unlock(sqlite3vfs.LockNone); err != nil {
			return errClass(err), false
		}
		d.locked = false
		d.view = d.pos()
		return "ok", true
	case "TT":
		k := argInt(st, 1, 1)
		if d.vf == nil || d.locked {
			return "skip", false
		}
		t0, ok := d.l0time[k]
		if !ok {
			return "skip", false
		}
		ts := t0.Add(500 * time.Microsecond)
		plan := d.planMaxes(ts)
		if err := d.vf.SetTargetTime(ctx, ts); err != nil {
			return errClass(err), false
		}
		d.tt, d.ttTime, d.plan = k, ts, plan
		d.openI, d.openPos = i, d.pos()
		d.view = d.openPos
		return "ok", true
	case "TTReset":
		if d.vf == nil || d.locked || d.tt == 0 {
			return "skip", false
		}
		plan := d.planMaxes(time.Time{})
		if err := d.vf.ResetTime(ctx); err != nil {
			return errClass(err), false
		}
		d.tt, d.plan = 0, plan
		d.openI, d.openPos = i, d.pos()
		d.view = d.openPos
		return "ok", true
	}
	return "skip", false
}

func mask(pgno int, b []byte) {
	if pgno == 1 && len(b) >= 28 {
		b[18], b[19] = 0, 0
		b[24], b[25], b[26], b[27] = 0, 0, 0, 0
	}
}

func (d *drv) reference(ev *Ev) {
	if d.tt != 0 && ev.Op != "TT" {
		ev.Ref, ev.RefN, ev.RefOK = append([]int{}, d.ttRef...), len(d.ttRef), d.ttRefOK
		if !d.ttRefOK {
			ev.RefErr = "err:no reference for the time-travel view"
		}
		return
	}
	defer func() {
		if d.tt != 0 {
			d.ttRef, d.ttRefOK = append([]int{}, ev.Ref...), ev.RefOK
		}
	}()
	client := file.NewReplicaClient(d.repDir)
	client.SetLogger(discard)
	rep := litestream.NewReplicaWithClient(nil, client)
	dst := filepath.Join(d.tmp, fmt.Sprintf("restore-%d-%d.db", ev.I, rand.Int63()))
	defer func() {
		os.Remove(dst)
		os.Remove(dst + "-txid")
	}()
	opt := litestream.NewRestoreOptions()
	opt.OutputPath = dst
	if d.tt != 0 {
		opt.Timestamp = d.ttTime
	} else {
		opt.TXID = ltx.TXID(d.view)
	}
	if err := rep.Restore(d.ctx, opt); err != nil {
		ev.RefErr = errClass(err)
		return
	}
	b, err := os.ReadFile(dst)
	if err != nil {
		ev.RefErr = errClass(err)
		return
	}
	ps := d.c.Cfg.PageSize
	for off, p := 0, 1; off+ps <= len(b); off, p = off+ps, p+1 {
		pg := b[off : off+ps]
		mask(p, pg)
		ev.Ref = append(ev.Ref, d.dict.Page(pg))
	}
	ev.RefN, ev.RefOK = len(ev.Ref), true
}

func (d *drv) observeVFS(ev *Ev) {
	ps := d.c.Cfg.PageSize
	d.reference(ev)
	sz, err := d.vf.FileSize()
	if err != nil {
		ev.ReadErr = errClass(err)
		return
	}
	ev.Size, ev.SizeRem = int(sz/int64(ps)), int(sz%int64(ps))
	n := ev.Size
	if ev.RefN > n {
		n = ev.RefN
	}
	if n > 4096 {
		n = 4096
	}
	buf := make([]byte, ps)
	for p := 1; p <= n; p++ {
		for k := range buf {
			buf[k] = 0
		}
		nn, err := d.vf.ReadAt(buf, int64(p-1)*int64(ps))
		switch {
		case err != nil && strings.Contains(err.Error(), "page not found"):
			ev.Pg = append(ev.Pg, 0)
		case err != nil:
			ev.Pg = append(ev.Pg, -1)
			if ev.ReadErr == "none" {
				ev.ReadErr = errClass(err)
			}
		case nn != ps:
			ev.Pg = append(ev.Pg, -2)
		default:
			mask(p, buf)
			ev.Pg = append(ev.Pg, d.dict.Page(buf))
		}
	}
}

func (d *drv) observeRemote(ev *Ev) {
	root := filepath.Join(d.repDir, "ltx")
	lvls, _ := os.ReadDir(root)
	for _, l := range lvls {
		var lvl int
		if _, err := fmt.Sscanf(l.Name(), "%d", &lvl); err != nil {
			continue
		}
		fs, _ := os.ReadDir(filepath.Join(root, l.Name()))
		for _, f := range fs {
			mn, mx, err := ltx.ParseFilename(f.Name())
			if err != nil {
				continue
			}
			ev.Remote = append(ev.Remote, []int{lvl, int(mn), int(mx)})
			key := l.Name() + "/" + f.Name()
			if d.seen[key] {
				continue
			}
			d.seen[key] = true
			fh, err := os.Open(filepath.Join(root, l.Name(), f.Name()))
			if err != nil {
				continue
			}
			o := core.DecodeLTX(fh, lvl, d.c.Cfg.PageSize, d.dict)
			fh.Close()
			ev.New = append(ev.New, FileObs{Lvl: lvl, Min: o.Min, Max: o.Max, Commit: o.Commit, Pgs: o.Pgs, Ids: o.Ids})
			if lvl == 0 && o.Min == o.Max {
				for len(d.commits) < o.Max {
					d.commits = append(d.commits, 0)
				}
				d.commits[o.Max-1] = o.Commit
				if fi, err := f.Info(); err == nil {
					d.l0time[o.Max] = fi.ModTime()
				}
			}
		}
	}
	sort.Slice(ev.Remote, func(a, b int) bool {
		x, y := ev.Remote[a], ev.Remote[b]
		if x[0] != y[0] {
			return x[0] < y[0]
		}
		if x[1] != y[1] {
			return x[1] < y[1]
		}
		return x[2] < y[2]
	})
}

func blank(c Case, i int) Ev {
	return Ev{T: c.ID, I: i, Res: "ok", Plan: [][]int{}, Pg: []int{}, Ref: []int{}, Commits: []int{}, Remote: [][]int{},
		New: []FileObs{}, RefErr: "none", ReadErr: "none"}
}

func runCase(c Case, base string) (evs []Ev) {
	dir := filepath.Join(base, fmt.Sprintf("case-%d", c.ID))
	os.RemoveAll(dir)
	d := &drv{c: c, dir: dir, dbPath: filepath.Join(dir, "db"), repDir: filepath.Join(dir, "replica"), tmp: filepath.Join(dir, "tmp"),
		dict: core.NewDict(), ctx: context.Background(), seen: map[string]bool{}, l0time: map[int]time.Time{}}
	defer func() {
		if p := recover(); p != nil {
			ev := blank(c, len(evs))
			ev.Op, ev.Res = "Panic", fmt.Sprintf("panic:%v", p)
			evs = append(evs, ev)
		}
		d.closeVFS()
		if d.ls != nil {
			d.ls.Close(context.Background())
		}
		if d.app != nil {
			d.app.Close()
		}
		os.RemoveAll(dir)
	}()
	ev := blank(c, 0)
	ev.Op = "Reset"
	if err := d.setup(); err != nil {
		ev.Res = "setup:" + err.Error()
		return append(evs, ev)
	}
	evs = append(evs, ev)
	for i, st := range c.Sched {
		ev := blank(c, i+1)
		ev.Op, _ = st[0].(string)
		ev.Arg = argInt(st, 1, 0)
		var prevPos, prevM1 int
		if d.vf != nil {
			prevPos, prevM1 = d.pos(), int(d.vf.MaxTXID1())
		}
		var obs bool
		ev.Res, obs = d.step(i+1, st)
		d.observeRemote(&ev)
		if len(ev.New) > 0 {
			time.Sleep(3 * time.Millisecond) // file times have millisecond resolution: keep files distinguishable
		}
		ev.Opened, ev.Locked, ev.TT = d.vf != nil, d.locked, d.tt
		ev.Commits = append([]int{}, d.commits...)
		ev.PrevPos, ev.PrevM1 = prevPos, prevM1
		ev.OpenI, ev.OpenPos, ev.View = d.openI, d.openPos, d.view
		ev.Plan = append([][]int{}, d.plan...)
		if d.vf != nil {
			ev.Pos, ev.Max1 = d.pos(), int(d.vf.MaxTXID1())
			if obs {
				ev.Obs = true
				d.observeVFS(&ev)
			}
		}
		evs = append(evs, ev)
	}
	return evs
}

func main() {
	in := flag.String("in", "", "cases (json)")
	out := flag.String("out", "", "trace (ndjson)")
	par := flag.Int("par", 8, "cases in parallel")
	flag.Parse()
	var input struct {
		Cases []Case `json:"cases"`
	}
	b, err := os.ReadFile(*in)
	if err != nil {
		fmt.Fprintln(os.Stderr, err)
		os.Exit(2)
	}
	if err := json.Unmarshal(b, &input); err != nil {
		fmt.Fprintln(os.Stderr, err)
		os.Exit(2)
	}
	base, err := os.MkdirTemp(filepath.Dir(*out), "vfsdrv-")
	if err != nil {
		fmt.Fprintln(os.Stderr, err)
		os.Exit(2)
	}
	defer os.RemoveAll(base)
	results := make([][]Ev, len(input.Cases))
	sem := make(chan struct{}, *par)
	var wg sync.WaitGroup
	for k := range input.Cases {
		wg.Add(1)
		sem <- struct{}{}
		go func(k int) {
			defer wg.Done()
			defer func() { <-sem }()
			results[k] = runCase(input.Cases[k], base)
		}(k)
	}
	wg.Wait()
	fh, err := os.Create(*out)
	if err != nil {
		fmt.Fprintln(os.Stderr, err)
		os.Exit(2)
	}
	enc := json.NewEncoder(fh)
	n, timeouts := 0, 0
	for _, evs := range results {
		for _, e := range evs {
			if e.Res == "timeout" {
				timeouts++
			}
			enc.Encode(e)
			n++
		}
	}
	fh.Close()
	json.NewEncoder(os.Stdout).Encode(map[string]int{"cases": len(input.Cases), "events": n, "timeouts": timeouts})
}

// Command bigdb exercises databases that cross SQLite's lock-byte page at the 1 GiB offset (C17) with REAL files:
// for a page size it builds a database just below the lock page, replicates it with the real litestream (snapshot
// path), grows it across the boundary in one transaction (incremental path), compacts, snapshots, restores, and records
// for every LTX file whether it contains the lock page and for every restore how it compares with the source.
package main

import (
	"bufio"
	"context"
	"crypto/sha256"
	"database/sql"
	"encoding/json"
	"flag"
	"fmt"
	"io"
	"log/slog"
	"os"
	"path/filepath"
	"time"

	"github.com/benbjohnson/litestream"
	"github.com/benbjohnson/litestream/file"
	"github.com/superfly/ltx"
	_ "modernc.org/sqlite"
)

type ltxRec struct {
	Lvl     int  `json:"lvl"`
	Min     int  `json:"min"`
	Max     int  `json:"max"`
	Commit  int  `json:"commit"`
	NPages  int  `json:"npages"`
	MinPg   int  `json:"minPg"`
	MaxPg   int  `json:"maxPg"`
	HasLock bool `json:"hasLock"`
	Full    bool `json:"full"` // every page 1..commit except the lock page
	Err     string `json:"err"`
}

type event struct {
	T        int      `json:"t"`
	I        int      `json:"i"`
	PageSize int      `json:"pageSize"`
	LockPg   int      `json:"lockPg"`
	Step     string   `json:"step"`
	Res      string   `json:"res"`
	SrcN     int      `json:"srcN"`     // committed size of the source in pages
	Where    string   `json:"where"`    // lock page relative to the committed range: beyond | last | inside
	Files    []ltxRec `json:"files"`    // replica files that appeared in this step
	Restored bool     `json:"restored"` // a restore was made in this step
	RestOK   bool     `json:"restOK"`
	RestN    int      `json:"restN"`
	DiffN    int      `json:"diffN"`    // pages (other than the lock page) that differ between restore and source
	LockZero bool     `json:"lockZero"` // the lock page of the restored file is empty (all zero) or beyond its end
	Integ    string   `json:"integ"`
}

var discard = slog.New(slog.NewTextHandler(io.Discard, nil))

func pageHashes(path string, ps int) ([][32]byte, error) {
	f, err := os.Open(path)
	if err != nil {
		return nil, err
	}
	defer f.Close()
	rd := bufio.NewReaderSize(f, 4<<20)
	buf := make([]byte, ps)
	var out [][32]byte
	for {
		_, err := io.ReadFull(rd, buf)
		if err == io.EOF {
			break
		} else if err != nil {
			return out, err
		}
		out = append(out, sha256.Sum256(buf))
	}
	return out, nil
}

func copyFile(src, dst string) error {
	in, err := os.Open(src)
	if err != nil {
		return err
	}
	defer in.Close()
	out, err := os.Create(dst)
	if err != nil {
		return err
	}
	if _, err := io.Copy(out, in); err != nil {
		out.Close()
		return err
	}
	return out.Close()
}

// sourceHashes = page hashes of a checkpointed copy of (db, -wal)
func sourceHashes(dbPath, tmp string, ps int) ([][32]byte, error) {
	cp := filepath.Join(tmp, "srccopy.db")
	os.Remove(cp)
	os.Remove(cp + "-wal")
	os.Remove(cp + "-shm")
	if err := copyFile(dbPath, cp); err != nil {
		return nil, err
	}
	if _, err := os.Stat(dbPath + "-wal"); err == nil {
		if err := copyFile(dbPath+"-wal", cp+"-wal"); err != nil {
			return nil, err
		}
	}
	db, err := sql.Open("sqlite", "file:"+cp)
	if err != nil {
		return nil, err
	}
	var a, b, c int
	if err := db.QueryRow("PRAGMA wal_checkpoint(TRUNCATE)").Scan(&a, &b, &c); err != nil {
		db.Close()
		return nil, err
	}
	db.Close()
	h, err := pageHashes(cp, ps)
	os.Remove(cp)
	return h, err
}

type run struct {
	t, i   int
	ps     int
	lock   int
	dir    string
	dbPath string
	rep    string
	app    *sql.DB
	ls     *litestream.DB
	seen   map[string]bool
	enc    *json.Encoder
	ctx    context.Context
}

func (r *run) newFiles() []ltxRec {
	var out []ltxRec
	for lvl := 0; lvl <= 9; lvl++ {
		d := filepath.Join(r.rep, "ltx", fmt.Sprint(lvl))
		ents, _ := os.ReadDir(d)
		for _, e := range ents {
			p := filepath.Join(d, e.Name())
			fi, err := e.Info()
			if err != nil {
				continue
			}
			key := fmt.Sprintf("%s/%d/%d", p, fi.Size(), fi.ModTime().UnixNano())
			if r.seen[key] {
				continue
			}
			r.seen[key] = true
			rec := ltxRec{Lvl: lvl, Err: "none", MinPg: 0, MaxPg: 0}
			f, err := os.Open(p)
			if err != nil {
				continue
			}
			dec := ltx.NewDecoder(bufio.NewReaderSize(f, 4<<20))
			if err := dec.DecodeHeader(); err != nil {
				rec.Err = err.Error()
				f.Close()
				out = append(out, rec)
				continue
			}
			h := dec.Header()
			rec.Min, rec.Max, rec.Commit = int(h.MinTXID), int(h.MaxTXID), int(h.Commit)
			buf := make([]byte, h.PageSize)
			prev := 0
			contiguous := true
			for {
				var ph ltx.PageHeader
				if err := dec.DecodePage(&ph, buf); err == io.EOF {
					break
				} else if err != nil {
					rec.Err = err.Error()
					break
				}
				pg := int(ph.Pgno)
				rec.NPages++
				if rec.MinPg == 0 {
					rec.MinPg = pg
				}
				rec.MaxPg = pg
				if pg == r.lock {
					rec.HasLock = true
				}
				exp := prev + 1
				if exp == r.lock {
					exp++
				}
				if pg != exp {
					contiguous = false
				}
				prev = pg
			}
			if rec.Err == "none" {
				if err := dec.Close(); err != nil {
					rec.Err = err.Error()
				}
			}
			last := rec.Commit
			if last == r.lock {
				last--
			}
			rec.Full = contiguous && rec.MinPg == 1 && rec.MaxPg == last
			f.Close()
			out = append(out, rec)
		}
	}
	return out
}

func (r *run) emit(step, res string, restore bool) {
	r.i++
	ev := event{T: r.t, I: r.i, PageSize: r.ps, LockPg: r.lock, Step: step, Res: res, Files: r.newFiles(), Integ: "none"}
	if ev.Files == nil {
		ev.Files = []ltxRec{}
	}
	src, err := sourceHashes(r.dbPath, r.dir, r.ps)
	if err != nil {
		ev.Res = "observe:" + err.Error()
	}
	ev.SrcN = len(src)
	switch {
	case ev.SrcN < r.lock:
		ev.Where = "beyond"
	case ev.SrcN == r.lock:
		ev.Where = "last"
	default:
		ev.Where = "inside"
	}
	if restore {
		ev.Restored = true
		dst := filepath.Join(r.dir, "restored.db")
		os.Remove(dst)
		c := file.NewReplicaClient(r.rep)
		c.SetLogger(discard)
		rp := litestream.NewReplicaWithClient(nil, c)
		opt := litestream.NewRestoreOptions()
		opt.OutputPath = dst
		if err := rp.Restore(r.ctx, opt); err != nil {
			ev.Res = "restore:" + err.Error()
		} else {
			ev.RestOK = true
			rh, _ := pageHashes(dst, r.ps)
			ev.RestN = len(rh)
			zero := sha256.Sum256(make([]byte, r.ps))
			ev.LockZero = len(rh) < r.lock || rh[r.lock-1] == zero
			n := len(rh)
			if len(src) < n {
				n = len(src)
			}
			for p := 0; p < n; p++ {
				if p+1 != r.lock && rh[p] != src[p] {
					ev.DiffN++
				}
			}
			if d, err := sql.Open("sqlite", "file:"+dst); err == nil {
				var s string
				if err := d.QueryRow("PRAGMA quick_check").Scan(&s); err == nil {
					ev.Integ = s
				} else {
					ev.Integ = "error:" + err.Error()
				}
				d.Close()
			}
			os.Remove(dst)
			os.Remove(dst + "-wal")
			os.Remove(dst + "-shm")
		}
	}
	r.enc.Encode(&ev)
}

func (r *run) grow(pages int) error {
	// one transaction that appends roughly `pages` pages (rows of ~8 pages of payload each)
	tx, err := r.app.Begin()
	if err != nil {
		return err
	}
	per := 8
	blob := r.ps*per - r.ps/2
	for n := 0; n < pages; n += per {
		if _, err := tx.Exec("INSERT INTO f (b) VALUES (randomblob(?))", blob); err != nil {
			tx.Rollback()
			return err
		}
	}
	return tx.Commit()
}

func (r *run) pageCount() int {
	var n int
	r.app.QueryRow("PRAGMA page_count").Scan(&n)
	return n
}

func res(err error) string {
	if err == nil {
		return "ok"
	}
	s := err.Error()
	if len(s) > 200 {
		s = s[:200]
	}
	return "err:" + s
}

func main() {
	ps := flag.Int("ps", 65536, "page size")
	t := flag.Int("t", 0, "trace id")
	work := flag.String("work", "/dev/shm", "scratch dir")
	out := flag.String("out", "", "ndjson")
	variant := flag.String("variant", "cross", "cross | last | below")
	flag.Parse()
	dir, err := os.MkdirTemp(*work, "bigdb")
	if err != nil {
		fmt.Fprintln(os.Stderr, err)
		os.Exit(2)
	}
	defer os.RemoveAll(dir)
	of, err := os.Create(*out)
	if err != nil {
		fmt.Fprintln(os.Stderr, err)
		os.Exit(2)
	}
	defer of.Close()
	r := &run{t: *t, ps: *ps, lock: int(ltx.LockPgno(uint32(*ps))), dir: dir, dbPath: filepath.Join(dir, "db"),
		rep: filepath.Join(dir, "replica"), seen: map[string]bool{}, enc: json.NewEncoder(of), ctx: context.Background()}
	app, err := sql.Open("sqlite", "file:"+r.dbPath+"?_pragma=busy_timeout(5000)")
	if err != nil {
		fmt.Fprintln(os.Stderr, err)
		os.Exit(2)
	}
	app.SetMaxOpenConns(1)
	r.app = app
	for _, q := range []string{fmt.Sprintf("PRAGMA page_size=%d", *ps), "PRAGMA journal_mode=wal", "PRAGMA synchronous=off",
		"CREATE TABLE f (id INTEGER PRIMARY KEY, b BLOB)"} {
		if _, err := app.Exec(q); err != nil {
			fmt.Fprintln(os.Stderr, q, err)
			os.Exit(2)
		}
	}
	// fill to a little below the lock page (in chunks so that the WAL stays small)
	margin := 40
	if *variant == "below" {
		margin = 400
	}
	target := r.lock - margin
	chunk := (64 << 20) / *ps
	for r.pageCount() < target {
		n := target - r.pageCount()
		if n > chunk {
			n = chunk
		}
		if err := r.grow(n); err != nil {
			fmt.Fprintln(os.Stderr, "fill:", err)
			os.Exit(2)
		}
		var a, b, c int
		app.QueryRow("PRAGMA wal_checkpoint(TRUNCATE)").Scan(&a, &b, &c)
	}
	ls := litestream.NewDB(r.dbPath)
	ls.Logger = discard
	ls.MonitorInterval = 0
	ls.ShutdownSyncTimeout = 0
	c := file.NewReplicaClient(r.rep)
	c.SetLogger(discard)
	ls.Replica = litestream.NewReplicaWithClient(ls, c)
	ls.Replica.MonitorEnabled = false
	r.ls = ls
	if err := ls.Open(); err != nil {
		fmt.Fprintln(os.Stderr, err)
		os.Exit(2)
	}
	ctx := r.ctx
	r.emit("snapshot-sync-below", res(ls.SyncAndWait(ctx)), true)
	switch *variant {
	case "cross": // growth across the boundary within one sync (incremental path)
		r.grow(margin + 120)
		r.emit("incremental-sync-across", res(ls.SyncAndWait(ctx)), true)
	case "last": // approach the boundary in small steps so that the committed size passes lock-1, lock, lock+1
		for k := 0; k < 12 && r.pageCount() <= r.lock+2; k++ {
			tx, _ := app.Begin()
			tx.Exec("INSERT INTO f (b) VALUES (randomblob(?))", *ps*3)
			tx.Commit()
			r.emit(fmt.Sprintf("incremental-sync-step-%d", k), res(ls.SyncAndWait(ctx)), r.pageCount() >= r.lock-2)
		}
	case "below":
		r.grow(100)
		r.emit("incremental-sync-below", res(ls.SyncAndWait(ctx)), true)
	}
	_, err = ls.Compact(ctx, 1)
	r.emit("compact-1", res(err), true)
	_, err = ls.Snapshot(ctx)
	r.emit("snapshot-level-9", res(err), true)
	time.Sleep(2 * time.Millisecond)
	r.grow(30)
	r.emit("incremental-sync-after", res(ls.SyncAndWait(ctx)), true)
	// a level-9 snapshot whose pages beyond the lock page come from the DATABASE FILE (everything checkpointed), not from the WAL
	r.emit("checkpoint-passive", res(ls.Checkpoint(ctx, litestream.CheckpointModePassive)), false)
	app.Exec("UPDATE f SET b = randomblob(11) WHERE id = 2")
	r.emit("incremental-sync-small", res(ls.SyncAndWait(ctx)), false)
	_, err = ls.Snapshot(ctx)
	r.emit("snapshot-level-9-from-file", res(err), true)
	// a full re-snapshot from db+WAL with the lock page inside the committed range
	app.Exec("UPDATE f SET b = randomblob(10) WHERE id = 1")
	r.emit("close", res(ls.Close(ctx)), true)
	// a fresh litestream (no local state, empty replica) meets the big database with everything in the database file:
	// the first sync is a full snapshot through the sync path with the lock page inside the committed range
	var a, b, c2 int
	app.QueryRow("PRAGMA wal_checkpoint(TRUNCATE)").Scan(&a, &b, &c2)
	os.RemoveAll(filepath.Join(filepath.Dir(r.dbPath), "."+filepath.Base(r.dbPath)+litestream.MetaDirSuffix))
	r.rep = filepath.Join(r.dir, "replica2")
	r.seen = map[string]bool{}
	ls2 := litestream.NewDB(r.dbPath)
	ls2.Logger = discard
	ls2.MonitorInterval = 0
	ls2.ShutdownSyncTimeout = 0
	c3 := file.NewReplicaClient(r.rep)
	c3.SetLogger(discard)
	ls2.Replica = litestream.NewReplicaWithClient(ls2, c3)
	ls2.Replica.MonitorEnabled = false
	r.ls = ls2
	if err := ls2.Open(); err != nil {
		r.emit("reopen-fresh", res(err), false)
	} else {
		r.emit("first-sync-of-big-db", res(ls2.SyncAndWait(ctx)), true)
		app.Exec("UPDATE f SET b = randomblob(12) WHERE id = 3")
		r.emit("close-fresh", res(ls2.Close(ctx)), true)
	}
	app.Close()
}

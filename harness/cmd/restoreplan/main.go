// Command restoreplan runs the REAL litestream.CalcRestorePlan on file listings given as small integers.
//
// Input (ndjson, one file set per line):
//
//	{"id": 7, "files": [[lvl,min,max,ts],...], "reqs": [[tx,T],...]}
//
// ts / T are timestamp indexes: index k is base + k seconds, T = 0 means "no timestamp", tx = 0 "no target TXID".
// The listing is served by litestream's own mock.ReplicaClient through ltx.NewFileInfoSliceIterator (the iterator
// every backend uses: filename order).  Only LTXFiles matters to the planner.
//
// Output -out (ndjson, one line per input line, same fields plus the real results):
//
//	{"id":7,"files":[...],"reqs":[...],"res":[{"err":"none"|"gap"|"notfound"|"both"|"other:<text>","plan":[[lvl,min,max,ts],...]},...]}
//
// Output -obs: the same observations, one JSON array of small integers per line, which is what the TLC judge
// (RestorePlanObs.tla) reads - parsing objects and strings in TLC costs more than judging them:
//
//	[id, [file...], [req...], [[err, file...]...]]    file = ((lvl*100+min)*100+max)*100+ts, req = tx*100+T,
//	                                                  err = 0 none | 1 gap | 2 notfound | 3 both | 4 other
package main

import (
	"bufio"
	"context"
	"encoding/json"
	"errors"
	"flag"
	"fmt"
	"io"
	"log/slog"
	"os"
	"strings"
	"time"

	"github.com/benbjohnson/litestream"
	"github.com/benbjohnson/litestream/mock"
	"github.com/superfly/ltx"
)

var base = time.Date(2024, 1, 1, 0, 0, 0, 0, time.UTC)

type inCase struct {
	ID    int      `json:"id"`
	Files [][4]int `json:"files"`
	Reqs  [][2]int `json:"reqs"`
}

type result struct {
	Err  string   `json:"err"`
	Plan [][4]int `json:"plan"`
}

type outCase struct {
	ID    int      `json:"id"`
	Files [][4]int `json:"files"`
	Reqs  [][2]int `json:"reqs"`
	Res   []result `json:"res"`
}

func tsOf(k int) time.Time {
	if k == 0 {
		return time.Time{}
	}
	return base.Add(time.Duration(k) * time.Second)
}

func client(files [][4]int) *mock.ReplicaClient {
	byLevel := map[int][]*ltx.FileInfo{}
	// insert in reverse so that the order of the listing is the iterator's doing, not ours
	for i := len(files) - 1; i >= 0; i-- {
		f := files[i]
		byLevel[f[0]] = append(byLevel[f[0]], &ltx.FileInfo{
			Level: f[0], MinTXID: ltx.TXID(f[1]), MaxTXID: ltx.TXID(f[2]), Size: 100, CreatedAt: tsOf(f[3]),
		})
	}
	return &mock.ReplicaClient{
		LTXFilesFunc: func(ctx context.Context, level int, seek ltx.TXID, useMetadata bool) (ltx.FileIterator, error) {
			src := byLevel[level]
			a := make([]*ltx.FileInfo, 0, len(src))
			for _, fi := range src {
				if fi.MinTXID >= seek {
					cp := *fi
					a = append(a, &cp)
				}
			}
			return ltx.NewFileInfoSliceIterator(a), nil
		},
	}
}

func runOne(ctx context.Context, files [][4]int, tx, T int, logger *slog.Logger) (res result) {
	res.Plan = [][4]int{}
	defer func() {
		if r := recover(); r != nil {
			res = result{Err: fmt.Sprintf("other:panic %v", r), Plan: [][4]int{}}
		}
	}()
	infos, err := litestream.CalcRestorePlan(ctx, client(files), ltx.TXID(tx), tsOf(T), logger)
	switch {
	case err == nil:
		res.Err = "none"
	case errors.Is(err, litestream.ErrTxNotAvailable):
		res.Err = "notfound"
	case strings.HasPrefix(err.Error(), "non-contiguous ltx files"):
		res.Err = "gap"
	case strings.HasPrefix(err.Error(), "cannot specify both"):
		res.Err = "both"
	default:
		res.Err = "other:" + err.Error()
	}
	if err == nil {
		for _, fi := range infos {
			res.Plan = append(res.Plan, [4]int{fi.Level, int(fi.MinTXID), int(fi.MaxTXID), int(fi.CreatedAt.Sub(base) / time.Second)})
		}
	}
	return res
}

func fileCode(f [4]int) int { return ((f[0]*100+f[1])*100+f[2])*100 + f[3] }

func errCode(e string) int {
	switch e {
	case "none":
		return 0
	case "gap":
		return 1
	case "notfound":
		return 2
	case "both":
		return 3
	}
	return 4
}

// nontrivial: the planner had to do something - a plan of >= 2 files, a gap error, or not-found although some
// file reaches the target.
func nontrivial(files [][4]int, q [2]int, r result) bool {
	switch {
	case r.Err == "none":
		return len(r.Plan) >= 2
	case r.Err == "gap":
		return true
	case r.Err == "notfound":
		t := q[0]
		if t < 1 {
			t = 1
		}
		for _, f := range files {
			if f[2] >= t {
				return true
			}
		}
	}
	return false
}

func writeObs(w *bufio.Writer, o *outCase) {
	fmt.Fprintf(w, "[%d,[", o.ID)
	for i, f := range o.Files {
		if i > 0 {
			w.WriteByte(',')
		}
		fmt.Fprintf(w, "%d", fileCode(f))
	}
	w.WriteString("],[")
	for i, q := range o.Reqs {
		if i > 0 {
			w.WriteByte(',')
		}
		fmt.Fprintf(w, "%d", q[0]*100+q[1])
	}
	w.WriteString("],[")
	for i, r := range o.Res {
		if i > 0 {
			w.WriteByte(',')
		}
		fmt.Fprintf(w, "[%d", errCode(r.Err))
		for _, f := range r.Plan {
			fmt.Fprintf(w, ",%d", fileCode(f))
		}
		w.WriteByte(']')
	}
	w.WriteString("]]\n")
}

func main() {
	in := flag.String("in", "", "input ndjson")
	out := flag.String("out", "", "output ndjson (readable)")
	obs := flag.String("obs", "", "output ndjson (integers, for the TLC judge)")
	flag.Parse()
	fin, err := os.Open(*in)
	if err != nil {
		fmt.Fprintln(os.Stderr, err)
		os.Exit(2)
	}
	defer fin.Close()
	fout, err := os.Create(*out)
	if err != nil {
		fmt.Fprintln(os.Stderr, err)
		os.Exit(2)
	}
	w := bufio.NewWriterSize(fout, 1<<20)
	fobs, err := os.Create(*obs)
	if err != nil {
		fmt.Fprintln(os.Stderr, err)
		os.Exit(2)
	}
	wobs := bufio.NewWriterSize(fobs, 1<<20)
	nontriv := 0
	others := map[string]int{}
	logger := slog.New(slog.NewTextHandler(io.Discard, &slog.HandlerOptions{Level: slog.LevelError}))
	ctx := context.Background()
	sc := bufio.NewScanner(fin)
	sc.Buffer(make([]byte, 1<<20), 1<<26)
	enc := json.NewEncoder(w)
	cases, evals := 0, 0
	for sc.Scan() {
		line := sc.Bytes()
		if len(line) == 0 {
			continue
		}
		var c inCase
		if err := json.Unmarshal(line, &c); err != nil {
			fmt.Fprintln(os.Stderr, "bad input line:", err)
			os.Exit(2)
		}
		if c.Files == nil {
			c.Files = [][4]int{}
		}
		o := outCase{ID: c.ID, Files: c.Files, Reqs: c.Reqs, Res: make([]result, 0, len(c.Reqs))}
		for _, q := range c.Reqs {
			if q[0] < 0 || q[0] > 99 || q[1] < 0 || q[1] > 99 {
				fmt.Fprintln(os.Stderr, "request out of range")
				os.Exit(2)
			}
			r := runOne(ctx, c.Files, q[0], q[1], logger)
			o.Res = append(o.Res, r)
			evals++
			if nontrivial(c.Files, q, r) {
				nontriv++
			}
			if errCode(r.Err) == 4 && len(others) < 5 {
				others[r.Err]++
			}
		}
		for _, f := range c.Files {
			if f[0] < 0 || f[0] > 9 || f[1] < 1 || f[1] > 99 || f[2] < 1 || f[2] > 99 || f[3] < 0 || f[3] > 99 {
				fmt.Fprintln(os.Stderr, "file out of range")
				os.Exit(2)
			}
		}
		writeObs(wobs, &o)
		if err := enc.Encode(&o); err != nil {
			fmt.Fprintln(os.Stderr, err)
			os.Exit(2)
		}
		cases++
	}
	if err := sc.Err(); err != nil {
		fmt.Fprintln(os.Stderr, err)
		os.Exit(2)
	}
	if err := w.Flush(); err != nil {
		fmt.Fprintln(os.Stderr, err)
		os.Exit(2)
	}
	fout.Close()
	if err := wobs.Flush(); err != nil {
		fmt.Fprintln(os.Stderr, err)
		os.Exit(2)
	}
	fobs.Close()
	oth, _ := json.Marshal(others)
	fmt.Printf("{\"cases\":%d,\"evals\":%d,\"nontrivial\":%d,\"other_errors\":%s}\n", cases, evals, nontriv, oth)
}
